package tl

import (
	"context"
	"errors"
	"fmt"
	"math"
	"runtime"
	"strconv"
	"strings"
	"time"
)

const longTimeout = 30 * time.Second // "never times out" for the purposes of a scenario

// longTO: a PushTask timeout that "never fires" for the purposes of a scenario. Where the timeout is not what is
// being measured its value must not matter, however large: the scenarios cycle through 30 s, 1 h, 24 h and the
// largest Duration.
func (en *Engine) longTO() time.Duration {
	en.toCycle++
	return [...]time.Duration{longTimeout, time.Hour, 24 * time.Hour, math.MaxInt64, 24 * time.Hour, time.Hour}[en.toCycle%6]
}

// Configs: laneSize 1-4 x queueSize 0-3.
func Configs() [][2]int {
	var c [][2]int
	for n := 1; n <= 4; n++ {
		for q := 0; q <= 3; q++ {
			c = append(c, [2]int{n, q})
		}
	}
	return c
}

// ---------------------------------------------------------------- C08 / C06: work sharing

// WorkSharing: m < n workers are pinned by never-ending tasks pushed to the lanes in `pinLanes`,
// then `extra` tasks are pushed to lane k. Each of them must start (and finish) within the bound
// although lane k's own worker may be among the pinned ones.
func (en *Engine) WorkSharing(n, q int, pinLanes []int, k, extra int) {
	en.workSharing(n, q, pinLanes, k, extra, false)
}

// WorkSharingOneP is WorkSharing in a process limited to one P: GOMAXPROCS(1) is set BEFORE New (the lane may look
// at it) and kept for the whole scenario. The blockers are channel-gated tasks: they use no CPU, so an idle
// worker can and must pick up the waiting tasks also on a single P.
func (en *Engine) WorkSharingOneP(n, q int, pinLanes []int, k, extra int) {
	en.workSharing(n, q, pinLanes, k, extra, true)
}

func (en *Engine) workSharing(n, q int, pinLanes []int, k, extra int, oneP bool) {
	const fam = "sharing"
	name := sname(fam, n, q, "pin", pinLanes, "to", k, "x", extra)
	if oneP {
		name += "/oneP"
	}
	if en.Skip(fam, name) {
		return
	}
	r := en.New(fam, name, n, q)
	defer en.Finish(fam, r)
	if oneP {
		old := runtime.GOMAXPROCS(1)
		defer runtime.GOMAXPROCS(old)
		en.E.Count("sharing_runs_on_one_P", 1)
	}
	r.Start(en.longTO())
	en.sharingBody(r, pinLanes, k, extra, true)
	en.Shutdown(r, false)
}

// sharingBody: pin the workers of pinLanes with never-ending tasks, push `extra` tasks to lane k, each must run.
// alone: this lane is the only one in the process (the goroutine dump can then be used to wait until every idle
// worker sits in its blocking select, which makes the pin land on the lane's own worker).
func (en *Engine) sharingBody(r *Run, pinLanes []int, k, extra int, alone bool) bool {
	n := r.N
	for i, l := range pinLanes {
		// every idle worker parked in its blocking select: the queue goroutine's first (non-blocking) offer
		// to its own worker succeeds, so the task pushed to lane l pins worker l
		if alone && !WaitUntil(100*time.Millisecond, func() bool { return workersBlockedInSelect() == n-i }) {
			// the task may then pin another worker than worker l (still |P| pinned workers): count it, give it more time once
			en.E.Count("sharing_pin_idle_workers_not_in_select_after_100ms", 1)
			if !WaitUntil(400*time.Millisecond, func() bool { return workersBlockedInSelect() == n-i }) {
				en.E.Count("sharing_pin_not_targeted", 1)
			}
		}
		t := r.NewTask(true, 0, false)
		if res := r.Push(t, l); res != "ok" {
			r.Violation("push-of-pinning-task failed: %s", res)
			return false
		}
		if !WaitUntil(LiveBound, func() bool { return r.Started(t) }) {
			r.Violation("sharing: task %d pushed to lane %d not started within %v while %d of %d workers are idle", t.ID, l, LiveBound, n-i, n)
			return false
		}
	}
	var ts []*Task
	for i := 0; i < extra; i++ {
		t := r.NewTask(false, 0, false)
		ts = append(ts, t)
		if res := r.Push(t, k); res != "ok" {
			// with a free worker the lane drains: a push with a 30 s timeout cannot fail
			r.Violation("sharing: push of task %d to lane %d returned %s while %d workers are idle", t.ID, k, res, n-len(pinLanes))
			return false
		}
	}
	for _, t := range ts {
		if !WaitUntil(LiveBound, func() bool { return r.Finished(t) }) {
			r.Violation("sharing: task %d waits at lane %d (its worker may be pinned) for more than %v while %d of %d workers are idle", t.ID, k, LiveBound, n-len(pinLanes), n)
			return false
		}
	}
	if last, ok := r.PendingSettles(0, LiveBound); !ok {
		r.Violation("pending-exact: lane at rest with every accepted task started, PendingTask=%d want 0", last)
	}
	return true
}

// ---------------------------------------------------------------- C08: idle for a long time, then share

// IdleProbe creates lanes at the very beginning of the process, leaves them completely idle for `idle` (the
// family runs in a process of its own, in parallel to the other families, so this costs no wall time), and only
// then runs the pinned-worker sharing scenario on each: whatever a lane does with goroutines that have nothing
// to do, a task waiting behind a busy worker must still be picked up by an idle one.
func (en *Engine) IdleProbe(idle time.Duration, configs [][2]int) {
	const fam = "idleprobe"
	t0 := time.Now()
	var runs []*Run
	for _, c := range configs {
		name := sname(fam, c[0], c[1], idle)
		if en.Skip(fam, name) {
			continue
		}
		r := en.New(fam, name, c[0], c[1])
		r.Start(en.longTO())
		runs = append(runs, r)
	}
	if d := idle - time.Since(t0); d > 0 {
		time.Sleep(d)
	}
	en.E.Stats["idle_probe_idle_s"] = float64(int(time.Since(t0).Seconds()*10)) / 10
	for i, r := range runs {
		// pin worker 0 through lane 0, then everything to lane 0 (its worker is busy): the others must help
		en.sharingBody(r, []int{0}, 0, r.Q+2, false)
		r.Cancel(en.ctxErr())
		r.Push(r.NewTask(false, 0, false), 0)
		r.G.Open()
		r.ReleaseAll()
		if !r.AwaitCalls(LiveBound) {
			r.stuck.Store(true)
			r.Violation("producer-not-released-after-cancel within %v", LiveBound)
		}
		if !r.Wait(LiveBound) {
			r.Violation("wait-did-not-return within %v after cancel and release of all running tasks", LiveBound)
		} else if i == len(runs)-1 {
			r.Leaks() // the other probe lanes are gone by now: the dump is this process's
		}
		en.Finish(fam, r)
	}
}

// ---------------------------------------------------------------- C07: cancel at every park point

// CancelPoint builds a load, parks a goroutine at `site` (and optionally every worker at W1 for
// the hand-over-in-flight case), cancels there and expects an orderly shutdown.
//
//	load: idle | pinned | full | flight      early: arm before New (startup park)
func (en *Engine) CancelPoint(n, q int, site, load string, early bool) {
	const fam = "cancel"
	name := sname(fam, n, q, site, load, early)
	if en.Skip(fam, name) {
		return
	}
	if !en.Caps.Can(site, load, early) {
		en.skippedCtl[site+"/"+load]++ // the code does not consult its context there (or not in a way the gate can see)
		return
	}
	r := en.New(fam, name, n, q)
	defer en.Finish(fam, r)
	label := site + "/" + load
	if early {
		label += "/startup"
		r.G.Arm(site, -1)
	}
	if load == "flight" {
		r.G.Arm("W1", -1)
	}
	r.Start(en.longTO())
	k := en.Rng.Intn(n)
	var pins []*Task
	ok := true
	switch load {
	case "idle", "flight":
		if load == "flight" {
			WaitUntil(250*time.Millisecond, func() bool { return r.G.Parked("W1") == n })
		} else if !early {
			// let the goroutines reach their blocking selects so that the startup calls are not the ones parked
			idle(r)
		}
	case "pinned":
		pins, ok = en.PinAll(r, func(i int) int { return i % n })
	case "full":
		pins, ok = en.PinAll(r, func(i int) int { return i % n })
		for l := 0; l < n && ok; l++ {
			for j := 0; j <= q; j++ {
				t := r.NewTask(false, 0, false)
				if res := r.Push(t, l); res != "ok" {
					r.Violation("progress: push %d into lane %d with room (%d of %d) returned %s", t.ID, l, j, q+1, res)
					ok = false
					break
				}
			}
		}
		if ok {
			want := n * (q + 1)
			if last, settled := r.PendingSettles(want, LiveBound); !settled {
				r.Violation("pending-exact: workers pinned, %d tasks accepted and not started, PendingTask=%d", want, last)
			}
			// producers blocked against the full lanes
			for l := 0; l < n; l++ {
				r.PushAsync(r.NewTask(false, 0, false), l)
			}
			time.Sleep(200 * time.Microsecond)
		}
	}
	if !ok {
		en.Shutdown(r, false)
		return
	}
	// trigger
	parked := false
	switch {
	case early:
		parked = en.waitParked(r, site, label)
	case site[0] == 'P':
		r.G.Arm(site, 1)
		r.PushAsync(r.NewTask(false, 0, false), k)
		parked = en.waitParked(r, site, label)
	case load == "idle" || load == "flight" || (load == "pinned" && site[0] == 'Q'):
		r.G.Arm(site, 1)
		t := r.NewTask(false, 0, false)
		r.PushAsync(t, k)
		parked = en.waitParked(r, site, label)
		if parked && site == "Q1" && load == "idle" && en.Caps.Q1 {
			// the queue goroutine holds exactly one counted task, nothing else is pending
			if p, _ := r.Status(); p != 1 {
				r.Violation("pending-exact: queue goroutine parked after take+count with one task, PendingTask=%d", p)
			}
		}
	default: // pinned / full with a Q or W site: let one pinned worker go on
		r.G.Arm(site, 1)
		pins[en.Rng.Intn(len(pins))].Release()
		parked = en.waitParked(r, site, label)
	}
	_ = parked
	if en.Rng.Chance(50) {
		r.Status()
	}
	r.Cancel(en.ctxErr())
	if en.Rng.Chance(50) {
		r.Status()
	}
	en.Shutdown(r, true)
}

// CancelPoints enumerates the park points x loads for one configuration.
func (en *Engine) CancelPoints(n, q int) {
	for _, s := range []string{"Q0", "W0", "W1"} {
		en.CancelPoint(n, q, s, "idle", true)
	}
	for _, s := range []string{"Q0", "Q1", "W0", "W1", "P0", "P1"} {
		en.CancelPoint(n, q, s, "idle", false)
	}
	for _, s := range []string{"Q1", "Q2", "W0", "W1", "P0", "P1"} {
		en.CancelPoint(n, q, s, "pinned", false)
	}
	for _, s := range []string{"Q0", "Q1", "Q2", "W0", "W1", "P0", "P1"} {
		en.CancelPoint(n, q, s, "full", false)
	}
	en.CancelPoint(n, q, "Q2", "flight", false)
}

// ---------------------------------------------------------------- C06: pushes that time out are never started

func (en *Engine) Timeouts(n, q int) {
	const fam = "timeout"
	name := sname(fam, n, q)
	if en.Skip(fam, name) {
		return
	}
	r := en.New(fam, name, n, q)
	defer en.Finish(fam, r)
	r.Start(3 * time.Millisecond)
	// with a 3 ms timeout the set-up pushes may themselves time out under load: retry, each attempt is a fresh task
	push := func(gated bool, lane int) *Task {
		for a := 0; a < 200; a++ {
			t := r.NewTask(gated, 0, false)
			if r.Push(t, lane) == "ok" {
				return t
			}
		}
		return nil
	}
	for i := 0; i < n; i++ {
		t := push(true, i)
		if t == nil || !WaitUntil(LiveBound, func() bool { return r.Started(t) }) {
			r.Violation("progress: pinning task for lane %d not accepted/started", i)
			en.Shutdown(r, false)
			return
		}
	}
	k := en.Rng.Intn(n)
	for j := 0; j <= q; j++ {
		if push(false, k) == nil {
			r.Violation("progress: lane %d never accepted task %d of %d", k, j+1, q+1)
			en.Shutdown(r, false)
			return
		}
	}
	r.PendingSettles(q+1, LiveBound)
	// lane k is full and every worker is pinned: these must time out
	nto := 0
	for j := 0; j < 3; j++ {
		t := r.NewTask(false, 0, false)
		if res := r.Push(t, k); res == "to" {
			nto++
		} else {
			r.Violation("timeout: push against a full lane with every worker pinned returned %s", res)
		}
	}
	en.E.Count("pushes_timed_out", nto)
	// let everything run: accepted tasks must all start, the timed-out ones never (monitor)
	r.ReleaseAll()
	if !WaitUntil(LiveBound, func() bool {
		r.mu.Lock()
		defer r.mu.Unlock()
		okc := 0
		for _, c := range r.calls {
			if c.Res == "ok" && r.nF[c.T.ID] > 0 {
				okc++
			}
		}
		return okc == n+q+1
	}) {
		r.Violation("progress: not every accepted task was started within %v after the workers were released", LiveBound)
	}
	if last, ok := r.PendingSettles(0, LiveBound); !ok && len(r.viols) == 0 {
		r.Violation("pending-exact: lane at rest, PendingTask=%d want 0", last)
	}
	en.Shutdown(r, false)
}

// ---------------------------------------------------------------- C14: exact pending count in stable states

// PendingExact: every worker pinned, k tasks accepted (spread over the lanes by `spread`), none can start:
// PendingTask must settle at k. Then the workers are released one by one.
func (en *Engine) PendingExact(n, q, k int, oneLane bool) {
	const fam = "pending"
	name := sname(fam, n, q, k, oneLane)
	if en.Skip(fam, name) {
		return
	}
	r := en.New(fam, name, n, q)
	defer en.Finish(fam, r)
	r.Start(en.longTO())
	pins, ok := en.PinAll(r, func(i int) int { return i % n })
	if !ok {
		en.Shutdown(r, false)
		return
	}
	fill := make([]int, n)
	for j := 0; j < k; j++ {
		l := j % n
		if oneLane {
			l = 0
		}
		for c := 0; fill[l] > q && c < n; c++ {
			l = (l + 1) % n
		}
		fill[l]++
		t := r.NewTask(false, 0, false)
		if res := r.Push(t, l); res != "ok" {
			r.Violation("progress: push %d into lane %d with room returned %s", t.ID, l, res)
		}
		if last, settled := r.PendingSettles(j+1, LiveBound); !settled {
			r.Violation("pending-exact: workers pinned, %d tasks accepted and not started, PendingTask=%d", j+1, last)
			break
		}
	}
	// unpin: everything drains, pending returns to 0
	for _, t := range pins {
		t.Release()
	}
	if len(r.viols) == 0 {
		if last, settled := r.PendingSettles(0, LiveBound); !settled {
			r.Violation("pending-exact: after the workers were released PendingTask=%d does not return to 0 (started %d tasks)", last, r.StartedCount())
		}
	}
	en.Shutdown(r, false)
}

// ---------------------------------------------------------------- C14: panics on several workers at once

// PanicStorm: every worker runs a task that panics (values of different dynamic types), all released
// at the same instant while Status() is polled; afterwards each worker must still serve.
func (en *Engine) PanicStorm(n, q int, record bool, rounds int) {
	const fam = "panic"
	name := sname(fam, n, q, record, rounds)
	if en.Skip(fam, name) {
		return
	}
	r := en.New(fam, name, n, q)
	r.Record = record
	defer en.Finish(fam, r)
	r.Start(en.longTO())
	stop := make(chan struct{})
	for o := 0; o < 2; o++ {
		r.aux.Add(1)
		go func() {
			defer r.aux.Done()
			for i := 0; ; i++ {
				select {
				case <-stop:
					return
				default:
				}
				if record && i >= 3*rounds {
					return
				}
				if record {
					r.Status()
				} else {
					r.L.Status()
				}
				time.Sleep(50 * time.Microsecond)
			}
		}()
	}
	okAll := true
	for round := 0; round < rounds && okAll; round++ {
		shared := make(chan struct{})
		var ts []*Task
		for i := 0; i < n; i++ {
			t := r.NewTask(true, 0, true)
			t.gate = shared
			ts = append(ts, t)
			if res := r.Push(t, i); res != "ok" {
				r.Violation("progress: push returned %s", res)
				okAll = false
			}
		}
		if record {
			okAll = okAll && WaitUntil(LiveBound, func() bool {
				for _, t := range ts {
					if !r.Started(t) {
						return false
					}
				}
				return true
			})
			if !okAll {
				r.Violation("panic-contained: after %d rounds of panics not every worker is serving: the tasks of round %d did not all start within %v", round, round+1, LiveBound)
			}
		} else {
			time.Sleep(300 * time.Microsecond)
		}
		close(shared) // all panics at once
		for _, t := range ts {
			t.once.Do(func() {})
		}
	}
	// every worker must still be alive: n gated tasks must all be running at the same time
	if record && okAll {
		if _, ok := en.PinAll(r, func(i int) int { return i % n }); !ok {
			r.Violation("panic-contained: workers lost after panics")
		} else if r.MaxConcurrency() < n {
			r.Violation("panic-contained: only %d of %d workers serve after the panics", r.MaxConcurrency(), n)
		}
	} else if !record {
		// unrecorded variant: pin through a private counter-free path
		done := make(chan struct{})
		go func() {
			for i := 0; i < n; i++ {
				r.L.PushTask(r.NewTask(false, 0, false), i)
			}
			close(done)
		}()
		select {
		case <-done:
		case <-time.After(LiveBound):
			r.Violation("progress: pushes after the panic rounds did not return")
		}
	}
	close(stop)
	if record {
		r.Status()
		en.Shutdown(r, false)
		return
	}
	r.G.Cancel(en.ctxErr())
	r.ReleaseAll()
	r.aux.Wait()
	if !r.Wait(LiveBound) {
		r.Violation("wait-did-not-return within %v", LiveBound)
	}
}

// ---------------------------------------------------------------- C06/C07: cancel during a Done()/Err() call of PushTask

// CancelInsidePush: the c-th call that PushTask makes to the context (Done() or Err(), counted from 0) is
// intercepted while the context is live: the hook waits (briefly) until the task being pushed has been
// started, cancels, and only then lets the call answer. Whatever PushTask then returns must agree with
// what happened to the task: an error for a task that was accepted and started is a violation (monitor
// "a push that returned an error is never started"). On code that asks the context only before the
// channel operation the hook fires with the task not yet pushed, and the call must return the ctx error.
func (en *Engine) CancelInsidePush(n, q, c int, gated bool) {
	const fam = "pushhook"
	name := sname(fam, n, q, c, gated)
	if en.Skip(fam, name) {
		return
	}
	r := en.New(fam, name, n, q)
	defer en.Finish(fam, r)
	r.Start(en.longTO())
	idle(r)
	t := r.NewTask(gated, 0, false)
	calls, fired := 0, false
	r.G.SetHook(func(key string) {
		if key[0] != 'P' && key[0] != 'p' {
			return
		}
		// one PushTask call is in flight: its goroutine is the only one that gets here
		i := calls
		calls++
		if i != c || r.G.ErrNow() != nil {
			return
		}
		fired = true
		WaitUntil(3*time.Millisecond, func() bool { return r.Started(t) })
		r.Cancel(en.ctxErr())
	})
	r.Push(t, en.Rng.Intn(n))
	r.G.SetHook(nil)
	if fired {
		en.reached["pushhook/call"+string(rune('0'+c))]++
	} else if (c == 0 && !en.Caps.P0) || (c >= 1 && !en.Caps.P1any) {
		en.skippedCtl["pushhook/call"+string(rune('0'+c))]++ // PushTask does not consult the context that often on a lane with room
	} else {
		en.unreached["pushhook/call"+string(rune('0'+c))]++
	}
	en.Shutdown(r, fired)
}

// ---------------------------------------------------------------- C06/C07: cancel when everything is idle after work was done

// workerEntry is the entry function of the worker goroutines as discovered by the calibration run.
var workerEntry string

func workersBlockedInSelect() int {
	buf := make([]byte, 1<<20)
	buf = buf[:runtime.Stack(buf, true)]
	c := 0
	for _, g := range strings.Split(string(buf), "\n\n") {
		if workerEntry != "" && strings.Contains(g, workerEntry+"(") {
			if i := strings.Index(g, "["); i >= 0 && strings.HasPrefix(g[i:], "[select") {
				c++
			}
		}
	}
	return c
}

// IdleAfterWork: every worker has run at least one task (all pinned at the same time, then k more
// tasks), everything ran to completion, all workers are back in their blocking select; then cancel and
// Wait. Nothing may start on the way out (a loop-carried task variable must not be run again).
func (en *Engine) IdleAfterWork(n, q, k int) {
	const fam = "idleafter"
	name := sname(fam, n, q, k)
	if en.Skip(fam, name) {
		return
	}
	r := en.New(fam, name, n, q)
	defer en.Finish(fam, r)
	r.Start(en.longTO())
	pins, ok := en.PinAll(r, func(i int) int { return i % n })
	if !ok {
		en.Shutdown(r, false)
		return
	}
	for _, t := range pins {
		t.Release()
	}
	var ts []*Task
	for j := 0; j < k; j++ {
		t := r.NewTask(false, 0, en.Rng.Chance(20))
		ts = append(ts, t)
		if res := r.Push(t, en.Rng.Intn(n)); res != "ok" {
			r.Violation("progress: push %d returned %s on a live, draining lane", t.ID, res)
		}
	}
	for _, t := range append(pins, ts...) {
		if !WaitUntil(LiveBound, func() bool { return r.Finished(t) }) {
			r.Violation("progress: accepted task %d not run within %v (context live, every task returns)", t.ID, LiveBound)
			en.Shutdown(r, false)
			return
		}
	}
	if WaitUntil(250*time.Millisecond, func() bool { return workersBlockedInSelect() == n }) {
		en.reached["idleafter/all-workers-in-select"]++
	} else {
		en.unreached["idleafter/all-workers-in-select"]++
	}
	if last, settled := r.PendingSettles(0, LiveBound); !settled {
		r.Violation("pending-exact: lane at rest, PendingTask=%d want 0", last)
	}
	en.Shutdown(r, false)
}

// ---------------------------------------------------------------- C07: shutdown after a task ended its goroutine

// GoexitShutdown: a task that ends with runtime.Goexit (testing.T.FailNow inside a task does that) is neither a
// return nor a panic: the LTS has no label for it, so the history goes to the MONITORS only. Whatever the lane does
// about the lost goroutine (nothing, as the pinned code: one worker fewer; or a replacement worker), C07 still
// demands that Wait() does not return while a started task is inside Start(), that nothing starts afterwards and
// that no lane goroutine is left. k Goexit tasks first (k < n, so a worker survives in every implementation), then
// a gated task on lane `lane`, cancel, Wait() begun while the gated task is still running, release.
// A gated task that is never started is not judged here (a lane may have lost the worker it needed).
func (en *Engine) GoexitShutdown(n, q, k, lane int) {
	const fam = "goexit"
	name := sname(fam, n, q, k, lane)
	if en.Skip(fam, name) {
		return
	}
	r := en.New(fam, name, n, q)
	defer en.Finish(fam, r)
	r.ForceM = true
	r.Start(en.longTO())
	for j := 0; j < k; j++ {
		g := r.NewTask(false, 0, false)
		g.goexit = true
		if res := r.Push(g, j%n); res != "ok" {
			en.Shutdown(r, false)
			return
		}
		if !WaitUntil(LiveBound, func() bool { return r.Finished(g) }) {
			en.Shutdown(r, false)
			return
		}
		time.Sleep(2 * time.Millisecond) // let the goroutine unwind (deferred calls of the lane run now)
	}
	long := r.NewTask(true, 0, false)
	if res := r.Push(long, lane%n); res != "ok" || !WaitUntil(time.Second, func() bool { return r.Started(long) }) {
		en.unreached["goexit/long-task-running"]++
		en.Shutdown(r, false)
		return
	}
	en.reached["goexit/long-task-running"]++
	r.Cancel(en.ctxErr())
	done := make(chan struct{})
	go func() {
		r.L.Wait()
		r.mu.Lock()
		early := r.cur > 0
		r.mu.Unlock()
		if early {
			r.markWaited() // recorded while the task is inside Start(): the after-wait monitor rejects the history
		}
		close(done)
	}()
	select {
	case <-done:
	case <-time.After(30 * time.Millisecond):
	}
	long.Release()
	select {
	case <-done:
		en.reached["goexit/wait-returned"]++
	case <-time.After(LiveBound):
		// not judged: C07 promises Wait() "once every started task has RETURNED", and the Goexit task never did; an
		// implementation whose bookkeeping is skipped by Goexit may wait for ever. The process is abandoned (family ends).
		en.unreached["goexit/wait-returned"]++
		r.stuck.Store(true)
		return
	}
	en.Shutdown(r, true)
}

// ---------------------------------------------------------------- C07: the empty lane

// EmptyLane: "for all configurations" includes laneSize 0 - a lane without goroutines, onto which nothing can be
// pushed. Once its context has ended (variant 0: cancel, 1: cancelled before New, 2: Wait begun before the cancel)
// Wait() must return: no task was ever started. Status() must answer 0 pending.
func (en *Engine) EmptyLane(q, variant int) {
	const fam = "emptylane"
	name := sname(fam, 0, q, variant)
	if en.Skip(fam, name) {
		return
	}
	r := en.New(fam, name, 0, q)
	defer en.Finish(fam, r)
	r.ForceM = true
	if variant == 1 {
		r.Cancel(en.ctxErr())
	}
	r.Start(en.longTO())
	done := make(chan struct{})
	if variant == 2 {
		go func() { r.L.Wait(); close(done) }()
		time.Sleep(time.Millisecond)
	}
	if variant != 1 {
		r.Cancel(en.ctxErr())
	}
	if variant == 2 {
		select {
		case <-done:
		case <-time.After(LiveBound):
			r.stuck.Store(true)
			r.Violation("wait-did-not-return within %v on a lane with laneSize 0 whose context has ended (Wait begun before the cancel)", LiveBound)
			return
		}
	}
	if !r.WaitMany(1, LiveBound) {
		r.Violation("wait-did-not-return within %v on a lane with laneSize 0 whose context has ended", LiveBound)
		return
	}
	r.Leaks()
	if p, _ := r.Status(); p != 0 && p != -3 {
		r.Violation("pending: empty lane reports PendingTask=%d", p)
	}
}

// ---------------------------------------------------------------- C07: back-to-back New -> push -> cancel -> Wait on one P

// BackToBack: with GOMAXPROCS(1) and nothing blocking in between: New, k pushes that fit the buffers,
// cancel, Wait (variant 0); context already cancelled before New (variant 1); Wait() begun before the
// cancel (variant 2). After Wait returned the lane is watched for a grace period: no Start(), no call
// to the context from startQueue/startWorker (a lane goroutine that still runs after Wait returned is
// a leak even if it exits a moment later), goroutine dump immediately and after the grace period.
func (en *Engine) BackToBack(n, q, variant, idx int) {
	const fam = "backtoback"
	name := sname(fam, n, q, variant, idx)
	if en.Skip(fam, name) {
		return
	}
	r := en.New(fam, name, n, q)
	defer en.Finish(fam, r)
	old := runtime.GOMAXPROCS(1)
	defer runtime.GOMAXPROCS(old)
	cerr := en.ctxErr()
	if variant == 1 {
		r.Cancel(cerr)
	}
	r.Start(0)
	waited := make(chan struct{})
	if variant == 2 {
		go func() { r.L.Wait(); r.markWaited(); close(waited) }()
	}
	for l := 0; l < n; l++ {
		for j := 0; j < q; j++ {
			r.Push(r.NewTask(false, 0, false), l)
		}
	}
	if variant != 1 {
		r.Cancel(cerr)
	}
	if variant != 2 {
		r.L.Wait()
		r.markWaited()
	} else {
		select {
		case <-waited:
		case <-time.After(LiveBound):
			r.stuck.Store(true)
			r.Violation("wait-did-not-return within %v after cancel", LiveBound)
			return
		}
	}
	hits0 := r.G.LaneHits()
	z0 := LaneGoroutines()
	time.Sleep(50 * time.Millisecond)
	hits1 := r.G.LaneHits()
	z1 := LaneGoroutines()
	if hits1 != hits0 {
		r.Violation("lane-goroutine-active-after-wait: %d calls to the context from startQueue/startWorker after Wait() had returned (goroutines with tasklane frames right after Wait: %d)", hits1-hits0, z0)
	}
	if z0 == 0 || hits1 != hits0 || z1 != 0 {
		// an immediate non-zero count is only reported when corroborated (a goroutine past its wg.Done() may need a moment to exit)
		r.rec("Z:" + strconv.Itoa(z0))
	}
	r.rec("Z:" + strconv.Itoa(z1))
	if z1 != 0 {
		r.stuck.Store(true)
	}
	r.Push(r.NewTask(false, 0, false), en.Rng.Intn(n))
}

// ---------------------------------------------------------------- C07: PushTask after cancel onto a lane with free capacity

var errAppCause = errors.New("application-cause")

// PushAfterCancelRoom: the context ends (gate cancel, a wrapped context.WithCancel, or a wrapped
// context.WithDeadline that has already expired), then PushTask onto lanes whose buffers have room:
// each call must return exactly the context's error and PendingTask must not grow.
func (en *Engine) PushAfterCancelRoom(n, q, variant int) {
	const fam = "pushaftercancel"
	name := sname(fam, n, q, variant)
	if en.Skip(fam, name) {
		return
	}
	r := en.New(fam, name, n, q)
	defer en.Finish(fam, r)
	expiredAtNew := false
	switch variant {
	case 1:
		c, cancel := context.WithCancel(context.Background())
		r.G = NewGateWrapping(en.ST, c, cancel)
	case 2:
		c, cancel := context.WithDeadline(context.Background(), time.Now().Add(-time.Second))
		r.G = NewGateWrapping(en.ST, c, cancel)
		expiredAtNew = true
	case 3:
		// cancelled WITH A CAUSE: Err() is still context.Canceled, and that is what PushTask must return
		c, cancel := context.WithCancelCause(context.Background())
		r.G = NewGateWrapping(en.ST, c, func() { cancel(errAppCause) })
	case 4:
		// expired deadline with a cause: Err() is context.DeadlineExceeded
		c, cancel := context.WithDeadlineCause(context.Background(), time.Now().Add(-time.Second), errAppCause)
		r.G = NewGateWrapping(en.ST, c, cancel)
		expiredAtNew = true
	case 5:
		// a child of a context cancelled with a cause (e.g. the context of an errgroup)
		p, cancel := context.WithCancelCause(context.Background())
		c, cancel2 := context.WithCancel(p)
		r.G = NewGateWrapping(en.ST, c, func() { cancel(errAppCause); cancel2() })
	case 6:
		// a hand-written context whose Value() reaches a live standard ancestor
		g, stop := NewGateWithLiveAncestor(en.ST)
		defer stop()
		r.G = g
	case 7:
		// a timeout with a cause that expires by its own timer while the lane is running
		c, cancel := context.WithTimeoutCause(context.Background(), 300*time.Microsecond, errAppCause)
		r.G = NewGateWrapping(en.ST, c, cancel)
		r.rec("Xb")
		r.Start(en.longTO())
		<-c.Done()
		r.rec("Xe")
	}
	if expiredAtNew {
		r.rec("Xb") // expired before the lane exists
		r.rec("Xe")
	}
	if variant != 7 {
		r.Start(en.longTO())
	}
	if !expiredAtNew && variant != 7 {
		if en.Rng.Bool() {
			// some work first, so that the queue goroutines are back at their receive
			t := r.NewTask(false, 0, false)
			r.Push(t, en.Rng.Intn(n))
			WaitUntil(LiveBound, func() bool { return r.Finished(t) })
			r.PendingSettles(0, LiveBound)
		}
		r.Cancel(context.Canceled)
	}
	// "nothing is enqueued" is judged by what only these pushes can cause: their results here, and - once Wait() has
	// returned and nothing is in flight any more - PendingTask = accepted - started (monitor on the Status() call
	// below). A before/after difference of PendingTask taken while the lane is still running proves nothing: the sum
	// is not atomic (a task between the buffer and the counter is seen by neither read, and counted later).
	for l := 0; l < n; l++ {
		for j := 0; j < q+1; j++ {
			t := r.NewTask(false, 0, false)
			res := r.Push(t, l)
			if res != "ctx" {
				r.Violation("push-after-cancel: PushTask onto lane %d (free capacity %d of %d) after the context ended returned %s; it must return exactly the context's Err() = %v (context variant %d)", l, q-j, q, res, r.G.ErrNow(), variant)
			}
		}
	}
	en.Shutdown(r, true)
	r.Status() // after Wait(): the monitor requires PendingTask = (#pushes that returned nil) - (#S)
}

// SharingSubsets: for every target lane L and every set P of pinned workers with L in P and |P| < n,
// everything is pushed to lane L and must start on a worker outside P (laneSize >= 3 distinguishes a
// shared channel from "own worker or ring neighbour").
func (en *Engine) SharingSubsets(n, q int) { en.sharingSubsets(n, q, false) }

// SharingSubsetsOneP: the same on a single P (GOMAXPROCS(1) before New).
func (en *Engine) SharingSubsetsOneP(n, q int) { en.sharingSubsets(n, q, true) }

func (en *Engine) sharingSubsets(n, q int, oneP bool) {
	for L := 0; L < n; L++ {
		for mask := 0; mask < 1<<n; mask++ {
			if mask&(1<<L) == 0 {
				continue
			}
			var P []int
			for j := 0; j < n; j++ {
				if mask&(1<<j) != 0 {
					P = append(P, j)
				}
			}
			if len(P) >= n {
				continue
			}
			en.workSharing(n, q, P, L, q+2, oneP)
		}
	}
}

// ---------------------------------------------------------------- C14: panics of different dynamic types one after the other on ONE lane

// PanicSequence: on one lane a string panic, then an error, an int, a struct (then a slice and a typed
// nil pointer), then a normal task. The normal task must start; LastPanic must be one of the raised values
// after each step (monitor) - with one lane and the tasks run one after the other it is the latest one.
func (en *Engine) PanicSequence(n, q int) {
	const fam = "panicseq"
	name := sname(fam, n, q)
	if en.Skip(fam, name) {
		return
	}
	r := en.New(fam, name, n, q)
	defer en.Finish(fam, r)
	r.Start(en.longTO())
	lane := en.Rng.Intn(n)
	for _, kind := range []int{PVString, PVError, PVInt, PVStruct_, PVSlice, PVNilPtr} {
		t := r.NewPanicTask(kind, false)
		if res := r.Push(t, lane); res != "ok" {
			r.Violation("progress: push returned %s", res)
			break
		}
		if !WaitUntil(LiveBound, func() bool { return r.Finished(t) }) {
			r.Violation("panic-contained: task %d pushed after %d panics was not started within %v", t.ID, t.pv-1, LiveBound)
			en.Shutdown(r, false)
			return
		}
		// the store of the panic value follows F: poll until it shows (n=1: it must become exactly this value)
		want := t.pv
		if !WaitUntil(LiveBound, func() bool { _, lp := r.Status(); return lp == want || (n > 1 && lp > 0) }) {
			r.Violation("lastpanic: after task %d panicked with value %d (kind %d) LastPanic never showed it", t.ID, want, kind)
		}
	}
	// the SAME uncomparable value raised twice in a row on one worker (the lane must not compare panic values)
	for _, kind := range []int{PVSlice, PVMap, PVStructSlice} {
		first := r.NewPanicTask(kind, false)
		for _, t := range []*Task{first, r.NewSamePanicTask(first)} {
			WaitUntil(100*time.Millisecond, func() bool { return workersBlockedInSelect() == n })
			if res := r.Push(t, lane); res != "ok" {
				r.Violation("progress: push returned %s", res)
			}
			if !WaitUntil(LiveBound, func() bool { return r.Finished(t) }) {
				r.Violation("panic-contained: task %d (panic value kind %d, the same value as the previous panic) was not started within %v", t.ID, kind, LiveBound)
				en.Shutdown(r, false)
				return
			}
		}
		want := first.pv
		if !WaitUntil(LiveBound, func() bool { _, lp := r.Status(); return lp == want || (n > 1 && lp > 0) }) {
			r.Violation("lastpanic: the same uncomparable value (kind %d) was raised twice, LastPanic never showed it", kind)
		}
	}
	normal := r.NewTask(false, 0, false)
	r.Push(normal, lane)
	if !WaitUntil(LiveBound, func() bool { return r.Finished(normal) }) {
		r.Violation("panic-contained: a normal task pushed after panics of different dynamic types was not started within %v", LiveBound)
	}
	r.Status()
	en.Shutdown(r, false)
}

// ---------------------------------------------------------------- C14: pending count with a producer blocked in PushTask

// PendingBlockedProducer: every worker pinned, every lane full (1 held by the queue goroutine + queueSize
// buffered), then one more PushTask per lane that blocks in its select (seen through the gate).
// PendingTask must stay at the number of ACCEPTED tasks that have not started: the blocked pushes have
// not been accepted.
func (en *Engine) PendingBlockedProducer(n, q int) {
	const fam = "pendingblocked"
	name := sname(fam, n, q)
	if en.Skip(fam, name) {
		return
	}
	r := en.New(fam, name, n, q)
	defer en.Finish(fam, r)
	r.Start(en.longTO())
	if _, ok := en.PinAll(r, func(i int) int { return i % n }); !ok {
		en.Shutdown(r, false)
		return
	}
	want := n * (q + 1)
	for l := 0; l < n; l++ {
		for j := 0; j <= q; j++ {
			if res := r.Push(r.NewTask(false, 0, false), l); res != "ok" {
				r.Violation("progress: push into lane %d with room returned %s", l, res)
			}
		}
	}
	if last, ok := r.PendingSettles(want, LiveBound); !ok {
		r.Violation("pending-exact: workers pinned, %d accepted tasks not started, PendingTask=%d", want, last)
	}
	if !en.Caps.P1full {
		en.skippedCtl["pendingblocked"]++
	}
	h0 := r.G.Hits()["P1"]
	var blocked []*PushCall
	for l := 0; l < n; l++ {
		blocked = append(blocked, r.PushAsync(r.NewTask(false, 0, false), l))
	}
	entered := en.Caps.P1full && WaitUntil(250*time.Millisecond, func() bool { return r.G.Hits()["P1"] >= h0+n })
	if !en.Caps.P1full {
		time.Sleep(3 * time.Millisecond)
	} else if entered {
		en.reached["pendingblocked/producers-in-select"]++
	} else {
		en.unreached["pendingblocked/producers-in-select"]++
	}
	time.Sleep(300 * time.Microsecond)
	for i := 0; i < 4; i++ {
		p, _ := r.Status()
		still := true
		for _, c := range blocked {
			if c.Done() {
				still = false
			}
		}
		if still && p != want {
			r.Violation("pending-exact: %d accepted tasks not started and %d producers blocked in PushTask (not accepted): PendingTask=%d, bound %d", want, n, p, want)
			break
		}
		time.Sleep(100 * time.Microsecond)
	}
	en.Shutdown(r, false)
}

// ---------------------------------------------------------------- C08: the concurrency bound after panics

// BoundAfterPanics: every worker recovers `rounds` panics, then more than laneSize never-ending tasks
// are pushed: exactly laneSize of them may be inside Start() at once (monitor), no matter how long we watch.
func (en *Engine) BoundAfterPanics(n, q, rounds int) {
	const fam = "boundafterpanic"
	name := sname(fam, n, q, rounds)
	if en.Skip(fam, name) {
		return
	}
	r := en.New(fam, name, n, q)
	defer en.Finish(fam, r)
	r.Start(en.longTO())
	for round := 0; round < rounds; round++ {
		shared := make(chan struct{})
		var ts []*Task
		for i := 0; i < n; i++ {
			t := r.NewPanicTask((round+i)%6, true)
			t.gate = shared
			ts = append(ts, t)
			r.Push(t, i)
		}
		ok := WaitUntil(LiveBound, func() bool {
			for _, t := range ts {
				if !r.Started(t) {
					return false
				}
			}
			return true
		})
		close(shared)
		for _, t := range ts {
			t.once.Do(func() {})
		}
		if !ok {
			r.Violation("panic-contained: the %d tasks of round %d did not all start within %v", n, round+1, LiveBound)
			en.Shutdown(r, false)
			return
		}
		WaitUntil(LiveBound, func() bool {
			for _, t := range ts {
				if !r.Finished(t) {
					return false
				}
			}
			return true
		})
	}
	// more never-ending tasks than workers (as many as fit without blocking a producer)
	total := n + n*(q+1)
	if total > n+4 {
		total = n + 4
	}
	var long []*Task
	for i := 0; i < total; i++ {
		t := r.NewTask(true, 0, false)
		long = append(long, t)
		r.PushAsync(t, i%n)
	}
	WaitUntil(LiveBound, func() bool { return r.curRunning() >= n })
	// watch: a lane with extra workers would start more
	WaitUntil(20*time.Millisecond, func() bool { return r.curRunning() > n })
	if c := r.curRunning(); c < n {
		r.Violation("panic-contained: only %d of %d workers serve after %d rounds of panics", c, n, rounds)
	}
	en.Shutdown(r, false)
}

// ---------------------------------------------------------------- C06/C14: dynamic types of the Task values

// TaskKinds: live context, long timeout, no task panics. Tasks of every dynamic type are pushed: pointer, func
// adapter, structs with a slice / a map field (unhashable), `eq` pushes of EQUAL comparable struct values, `eq`
// pushes of a zero-size struct value. Every accepted task must be started exactly once within the bound, and
// LastPanic must stay nil (no task raised anything).
func (en *Engine) TaskKinds(n, q, eq int) {
	const fam = "taskkinds"
	name := sname(fam, n, q, eq)
	if en.Skip(fam, name) {
		return
	}
	r := en.New(fam, name, n, q)
	defer en.Finish(fam, r)
	r.Start(en.longTO())
	var all []*Task
	push := func(t *Task, lane int) {
		all = append(all, t)
		if res := r.Push(t, lane); res != "ok" {
			r.Violation("progress: push of a %s-kind task returned %s on a live, draining lane", t.Kind(), res)
		}
	}
	for _, k := range IdentityKinds {
		push(r.NewTask(false, 0, false).Wrap(k), en.Rng.Intn(n))
	}
	for _, k := range []string{KindEqual, KindZero} {
		lane := en.Rng.Intn(n)
		g := r.NewGroup(k, eq)
		for _, t := range g {
			push(t, lane)
		}
		// the zero-size group is looked up through a package variable: finish it before anything else may replace it
		for _, t := range g {
			if !WaitUntil(LiveBound, func() bool { return r.Finished(t) }) {
				r.Violation("progress: kind=%s: %d equal values were accepted, task %d was not started within %v (context live)", k, eq, t.ID, LiveBound)
				break
			}
		}
	}
	for _, t := range all {
		if !WaitUntil(LiveBound, func() bool { return r.Finished(t) }) {
			r.Violation("progress: kind=%s: accepted task %d was not started within %v (context live, no task panics, workers idle)", t.Kind(), t.ID, LiveBound)
		}
	}
	if _, lp := r.Status(); lp != -1 {
		r.Violation("lastpanic: no task panicked, LastPanic is set (value id %d; -2 = a value no task raised) after tasks of kinds ptr/func/slice/map/equal/zero", lp)
	}
	if last, ok := r.PendingSettles(0, LiveBound); !ok && len(r.viols) == 0 {
		r.Violation("pending-exact: lane at rest, PendingTask=%d want 0", last)
	}
	en.Shutdown(r, false)
}

// ---------------------------------------------------------------- C06: a timeout racing a drain

// TimeoutRace: every worker pinned, lane k full (1 held + queueSize buffered), a producer blocked in PushTask with
// timeout T; one pinned worker is released at T+delta (delta swept around 0), so the lane starts to drain right when
// the timeout fires. Whatever PushTask answers must be what happened to the task: `to` means never started
// (monitor), nil means started exactly once. gmp1 runs the race on a single P.
func (en *Engine) TimeoutRace(n, q int, delta time.Duration, gmp1 bool, idx int) {
	const fam = "timeoutrace"
	name := sname(fam, n, q, delta, gmp1, idx)
	if en.Skip(fam, name) {
		return
	}
	r := en.New(fam, name, n, q)
	defer en.Finish(fam, r)
	const T = 3 * time.Millisecond
	r.Start(T)
	// set-up pushes may themselves time out under load: retry with fresh tasks
	push := func(gated bool, lane int) *Task {
		for a := 0; a < 200; a++ {
			t := r.NewTask(gated, 0, false)
			if r.Push(t, lane) == "ok" {
				return t
			}
		}
		return nil
	}
	var pins []*Task
	for i := 0; i < n; i++ {
		t := push(true, i)
		if t == nil || !WaitUntil(LiveBound, func() bool { return r.Started(t) }) {
			r.Violation("progress: pinning task for lane %d not accepted/started", i)
			en.Shutdown(r, false)
			return
		}
		pins = append(pins, t)
	}
	k := en.Rng.Intn(n)
	for j := 0; j <= q; j++ {
		if push(false, k) == nil {
			r.Violation("progress: lane %d never accepted task %d of %d", k, j+1, q+1)
			en.Shutdown(r, false)
			return
		}
	}
	r.PendingSettles(q+1, LiveBound)
	if gmp1 {
		old := runtime.GOMAXPROCS(1)
		defer runtime.GOMAXPROCS(old)
	}
	// two producers race the drain (one slot frees per released worker)
	t0 := time.Now()
	c1 := r.PushAsync(r.NewTask(false, 0, false), k)
	c2 := r.PushAsync(r.NewTask(false, 0, false), k)
	if d := T + delta - time.Since(t0); d > 0 {
		time.Sleep(d)
	}
	inFlight := 0
	for _, c := range []*PushCall{c1, c2} {
		if !c.Done() {
			inFlight++
		}
	}
	pins[en.Rng.Intn(len(pins))].Release() // the drain begins
	if !WaitUntil(LiveBound+T, func() bool { return c1.Done() && c2.Done() }) {
		r.Violation("progress: PushTask with a %v timeout has not returned after %v", T, LiveBound+T)
	}
	for _, c := range []*PushCall{c1, c2} {
		if c.Done() {
			if c.Res == "to" && inFlight > 0 {
				en.E.Count("pushes_timed_out_while_draining", 1)
			}
			if c.Res == "ok" && inFlight > 0 {
				en.E.Count("pushes_accepted_while_draining", 1)
			}
		}
	}
	r.ReleaseAll()
	// everything accepted runs; a task whose push timed out must not (give a wrongly enqueued one the time to show up)
	WaitUntil(LiveBound, func() bool {
		r.mu.Lock()
		defer r.mu.Unlock()
		for _, c := range r.calls {
			if c.Res == "ok" && r.nF[c.T.ID] == 0 {
				return false
			}
		}
		return true
	})
	if last, ok := r.PendingSettles(0, LiveBound); !ok && len(r.viols) == 0 {
		r.Violation("pending-exact: lane at rest, every accepted task ran, PendingTask=%d want 0 (a task whose PushTask returned an error was enqueued?)", last)
	}
	time.Sleep(300 * time.Microsecond)
	en.Shutdown(r, false)
}

// TimeoutRaces sweeps delta for one configuration; `achieved` is judged by the caller through the counter
// pushes_timed_out_while_draining.
func (en *Engine) TimeoutRaces(n, q, reps int) {
	for rep := 0; rep < reps; rep++ {
		for i, us := range []int{-3000, -1000, -300, -100, 0, 100, 300, 1000, 3000} {
			en.TimeoutRace(n, q, time.Duration(us)*time.Microsecond, (rep+i)%4 == 3, rep)
		}
	}
}

// RequireTimeoutRace reports the family as not achieved when no push ever timed out while the lane was draining.
func (en *Engine) RequireTimeoutRace() {
	if en.families["timeoutrace"] == 0 {
		return
	}
	if v, _ := en.E.Stats["pushes_timed_out_while_draining"].(int); v == 0 {
		en.degraded = append(en.degraded, fmt.Sprintf("timeoutrace: none of %d runs produced a push that timed out while the lane was draining", en.families["timeoutrace"]))
	}
}

// ---------------------------------------------------------------- C06/C14: a task that uses the lane from inside Start()

type reentrant struct {
	r     *Run
	self  *Task
	child *Task
	lane  int
}

func (x reentrant) Start() {
	x.self.startWith(func() {
		x.r.Status()
		x.r.PushAs(x.r.NewProducer(), x.child, x.lane)
		x.r.Status()
	})
}

// Reentrant: a task calls Status() and PushTask() on its own lane from inside Start() (the worker is busy with
// it meanwhile). Neither call may block; the pushed child must be started exactly once.
func (en *Engine) Reentrant(n, q int) {
	const fam = "reentrant"
	name := sname(fam, n, q)
	if en.Skip(fam, name) {
		return
	}
	r := en.New(fam, name, n, q)
	defer en.Finish(fam, r)
	r.Start(en.longTO())
	// one parent at a time: a second parent waiting in the same queue goroutine's hands while the first one pushes
	// from inside Start() would (legitimately) block that push until a worker is free
	for i := 0; i < 3; i++ {
		lane := en.Rng.Intn(n)
		parent := r.NewTask(false, 0, false)
		child := r.NewTask(false, 0, false)
		parent.kind = "reentrant"
		parent.wrap = reentrant{r: r, self: parent, child: child, lane: lane}
		if res := r.Push(parent, lane); res != "ok" {
			r.Violation("progress: push returned %s", res)
		}
		for _, t := range []*Task{parent, child} {
			if !WaitUntil(LiveBound+time.Second, func() bool { return r.Finished(t) }) {
				r.Violation("progress: task %d (%s; the child is pushed from inside the parent's Start()) was not run within %v", t.ID, t.Kind(), LiveBound)
			}
		}
		if len(r.viols) > 0 {
			break
		}
	}
	if last, ok := r.PendingSettles(0, LiveBound); !ok && len(r.viols) == 0 {
		r.Violation("pending-exact: lane at rest, PendingTask=%d want 0", last)
	}
	en.Shutdown(r, false)
}

// ---------------------------------------------------------------- C14: wide lanes

// Wide: laneSize beyond a machine word (72, 130), queueSize 1, every worker pinned, one task held by the dispatcher
// of the given queues: PendingTask must be exactly the number of held tasks at rest, then grow by one per buffered
// task. Monitors only (the history is tagged M).
func (en *Engine) Wide(n int, held []int) {
	const fam = "wide"
	name := sname(fam, n, held)
	if en.Skip(fam, name) {
		return
	}
	r := en.New(fam, name, n, 1)
	defer en.Finish(fam, r)
	r.Start(en.longTO())
	if _, ok := en.PinAll(r, func(i int) int { return i }); !ok {
		en.Shutdown(r, false)
		return
	}
	if last, ok := r.PendingSettles(0, LiveBound); !ok {
		r.Violation("pending-exact: %d workers pinned, nothing else accepted, PendingTask=%d want 0", n, last)
	}
	for i, l := range held {
		if res := r.Push(r.NewTask(false, 0, false), l); res != "ok" {
			r.Violation("progress: push into empty lane %d of %d returned %s", l, n, res)
		}
		if last, ok := r.PendingSettles(i+1, LiveBound); !ok {
			r.Violation("pending-exact: laneSize %d, every worker pinned, %d accepted tasks held by the queue goroutines of lanes %v: PendingTask=%d want %d", n, i+1, held[:i+1], last, i+1)
			break
		}
	}
	if len(r.viols) == 0 {
		// one more per lane into the buffer
		for i, l := range held {
			r.Push(r.NewTask(false, 0, false), l)
			if last, ok := r.PendingSettles(len(held)+i+1, LiveBound); !ok {
				r.Violation("pending-exact: laneSize %d, lane %d holds one task and buffers one: PendingTask=%d want %d", n, l, last, len(held)+i+1)
				break
			}
		}
	}
	en.Shutdown(r, false)
}

// ---------------------------------------------------------------- C06: the caller drops its handle

// DropHandle: fire-and-forget use. Every worker pinned, the lanes filled, then the harness forgets the *TaskLane
// (no reference left anywhere), forces two garbage collections, and only then lets the workers go on: the context
// is live, so every accepted task must still be started. The run ends through the context (no handle, no Wait()).
func (en *Engine) DropHandle(n, q int) {
	const fam = "drophandle"
	name := sname(fam, n, q)
	if en.Skip(fam, name) {
		return
	}
	r := en.New(fam, name, n, q)
	defer en.Finish(fam, r)
	r.Start(en.longTO())
	pins, ok := en.PinAll(r, func(i int) int { return i % n })
	for l := 0; l < n && ok; l++ {
		for j := 0; j <= q; j++ {
			if res := r.Push(r.NewTask(false, 0, false), l); res != "ok" {
				r.Violation("progress: push into lane %d with room returned %s", l, res)
				ok = false
			}
		}
	}
	if ok {
		r.PendingSettles(n*(q+1), LiveBound)
	}
	r.AwaitCalls(LiveBound)
	r.L = nil // the last reference
	for i := 0; i < 2; i++ {
		runtime.GC()
		time.Sleep(2 * time.Millisecond) // finalizers run on their own goroutine
	}
	for _, t := range pins {
		t.Release()
	}
	if ok && !WaitUntil(LiveBound, func() bool {
		r.mu.Lock()
		defer r.mu.Unlock()
		for _, c := range r.calls {
			if c.Res == "ok" && r.nF[c.T.ID] == 0 {
				return false
			}
		}
		return true
	}) {
		r.Violation("progress: context live, handle dropped and garbage collected: %d of %d accepted tasks were started within %v", r.StartedCount(), n+n*(q+1), LiveBound)
	}
	r.Cancel(en.ctxErr())
	r.G.Open()
	r.ReleaseAll()
	z := 0
	WaitUntil(LiveBound, func() bool { z = LaneGoroutines(); return z == 0 })
	r.rec("Z:" + strconv.Itoa(z))
	if z != 0 {
		r.stuck.Store(true)
	}
}

// ---------------------------------------------------------------- C06: volume

// Volume: `total` instant tasks through few workers on a live context (unrecorded: only counted). Every accepted
// task must be started - also the ones that arrive after a worker goroutine has handled a great many.
func (en *Engine) Volume(n, q, total int) {
	const fam = "volume"
	name := sname(fam, n, q, total)
	if en.Skip(fam, name) {
		return
	}
	r := en.New(fam, name, n, q)
	r.Record = false
	defer en.Finish(fam, r)
	r.Start(en.longTO())
	t := &Task{ID: 1, r: r, pv: -1} // one instant task object pushed again and again
	accepted := 0
	deadline := time.Now().Add(60 * time.Second)
	for i := 0; i < total && time.Now().Before(deadline); i++ {
		if err := r.L.PushTask(t, i%n); err == nil {
			accepted++
		}
	}
	if !WaitUntil(LiveBound, func() bool { return int(r.rawStarts.Load()) >= accepted }) || int(r.rawStarts.Load()) != accepted {
		r.Violation("progress/exactly-once: %d tasks accepted on a live context (laneSize %d), %d Start() calls after %v", accepted, n, r.rawStarts.Load(), LiveBound)
	}
	en.E.Count("volume_tasks", accepted)
	r.G.Cancel(en.ctxErr())
	if !r.Wait(LiveBound) {
		r.Violation("wait-did-not-return within %v", LiveBound)
	}
}

// ---------------------------------------------------------------- C06/C14: the nil Task

// NilTasks: PushTask accepts a nil Task; for the lane it is a task that panics when started (nil dereference,
// recovered like any panic). A nil task goes to every lane while all workers are idle (so every queue goroutine and
// every worker handles one), then ordinary tasks on the same lanes: each accepted one must be started exactly
// once, every worker must still serve, LastPanic must be that dereference error (= the nil tasks' "panic value").
func (en *Engine) NilTasks(n, q, rounds int) {
	const fam = "niltask"
	name := sname(fam, n, q, rounds)
	if en.Skip(fam, name) {
		return
	}
	r := en.New(fam, name, n, q)
	defer en.Finish(fam, r)
	r.Start(en.longTO())
	for round := 0; round < rounds; round++ {
		shownBefore := r.RawLastPanic()
		var accepted []*Task
		rejected := 0
		for l := 0; l < n; l++ {
			idle(r)
			t := r.NewNilTask()
			switch res := r.Push(t, l); res {
			case "ok":
				accepted = append(accepted, t)
				r.NilAccepted(t)
			case "rej":
				rejected++ // refused with an error: a rejected task - never started, no effect (checked below)
			default:
				r.Violation("progress: PushTask(nil, %d) on a live lane with room returned %s (neither accepted nor refused)", l, res)
			}
		}
		en.E.Count("nil_tasks_accepted", len(accepted))
		en.E.Count("nil_tasks_rejected", rejected)
		// at rest again: an accepted nil task has been taken and "started", a rejected one left no trace
		if last, ok := r.RawPendingSettles(0, LiveBound); !ok {
			r.Violation("nil-task: %d nil tasks accepted, %d rejected (one per lane): PendingTask=%d does not return to 0 within %v", len(accepted), rejected, last, LiveBound)
			en.Shutdown(r, false)
			return
		}
		time.Sleep(300 * time.Microsecond) // the store of a panic value follows the hand-over
		// what the accepted nil tasks did is only visible through LastPanic: nothing new = started and returned (or the
		// same value again), a new value = started and panicked with it (the lane's nil dereference, or whatever the
		// implementation substitutes). Either is "the value of one of the panics that occurred".
		shown := r.RawLastPanic()
		if len(accepted) == 0 {
			if !sameValue(shown, shownBefore) {
				r.Violation("nil-task: every PushTask(nil) was refused, yet LastPanic changed to %T", shown)
			}
		} else {
			panicked := shown != nil && (!sameValue(shown, shownBefore) || r.pvID(shown) == accepted[0].pv)
			for _, t := range accepted {
				r.ResolveNil(t, panicked, shown)
			}
		}
		r.Status()
		// ordinary tasks on the same lanes
		var ts []*Task
		for l := 0; l < n; l++ {
			for j := 0; j < 2; j++ {
				t := r.NewTask(false, 0, false)
				ts = append(ts, t)
				if res := r.Push(t, l); res != "ok" {
					r.Violation("progress: after a nil task on lane %d, PushTask of an ordinary task returned %s (context live)", l, res)
				}
			}
		}
		for _, t := range ts {
			if !WaitUntil(LiveBound, func() bool { return r.Finished(t) }) {
				r.Violation("progress: after nil tasks were pushed to every lane (%d accepted, %d refused), accepted task %d was not started within %v (context live)", len(accepted), rejected, t.ID, LiveBound)
				en.Shutdown(r, false)
				return
			}
		}
	}
	// every worker still serves
	if _, ok := en.PinAll(r, func(i int) int { return i % n }); !ok {
		r.Violation("panic-contained: workers lost after nil tasks")
	}
	en.Shutdown(r, false)
}

// ---------------------------------------------------------------- C06/C14: panic(nil)

// PanicNil: every worker runs a task that does panic(nil); afterwards every worker must still serve. With the
// default runtime setting the lane sees a *runtime.PanicNilError (LastPanic shows it); with GODEBUG=panicnil=1
// recover() returns nil: for the lane the task returned, LastPanic is untouched (the family is run in both settings).
func (en *Engine) PanicNil(n, q int) {
	const fam = "panicnil"
	name := sname(fam, n, q, PanicNilIsNil)
	if en.Skip(fam, name) {
		return
	}
	r := en.New(fam, name, n, q)
	defer en.Finish(fam, r)
	r.Start(en.longTO())
	for round := 0; round < 2; round++ {
		var ts []*Task
		for l := 0; l < n; l++ {
			idle(r)
			t := r.NewPanicNilTask()
			ts = append(ts, t)
			if res := r.Push(t, l); res != "ok" {
				r.Violation("progress: push returned %s", res)
			}
		}
		for _, t := range ts {
			if !WaitUntil(LiveBound, func() bool { return r.Finished(t) }) {
				r.Violation("progress: task %d (panic(nil)) pushed after %d rounds of panic(nil) was not started within %v", t.ID, round, LiveBound)
				en.Shutdown(r, false)
				return
			}
		}
		if !PanicNilIsNil {
			want := ts[0].pv
			if !WaitUntil(LiveBound, func() bool { _, lp := r.Status(); return lp == want }) {
				r.Violation("lastpanic: tasks did panic(nil) (a *runtime.PanicNilError), LastPanic never showed it")
			}
		}
		var ord []*Task
		for l := 0; l < n; l++ {
			t := r.NewTask(false, 0, false)
			ord = append(ord, t)
			r.Push(t, l)
		}
		for _, t := range ord {
			if !WaitUntil(LiveBound, func() bool { return r.Finished(t) }) {
				r.Violation("panic-contained: after panic(nil) on every worker (GODEBUG panicnil=1: %v) accepted task %d was not started within %v", PanicNilIsNil, t.ID, LiveBound)
				en.Shutdown(r, false)
				return
			}
		}
	}
	if _, ok := en.PinAll(r, func(i int) int { return i % n }); !ok {
		r.Violation("panic-contained: workers lost after panic(nil) (GODEBUG panicnil=1: %v)", PanicNilIsNil)
	}
	r.Status()
	en.Shutdown(r, false)
}

// ---------------------------------------------------------------- C07: SetTimeout(<= 0 / 1ns) and the end of the context

// PushAfterCancelTimeouts: SetTimeout(0), a negative value or 1 ns ("do not wait for room"); the context ends (gate
// cancel / expired deadline / timer); then at least 64 PushTask calls onto lanes WITH ROOM, and 16 more after
// Wait() returned: every one must return the context's error and enqueue nothing (a coin cannot hide in 80 tosses).
func (en *Engine) PushAfterCancelTimeouts(n, q int, timeout time.Duration, variant int) {
	const fam = "pushaftercanceltimeout"
	name := sname(fam, n, q, timeout, variant)
	if en.Skip(fam, name) {
		return
	}
	r := en.New(fam, name, n, q)
	defer en.Finish(fam, r)
	switch variant {
	case 1:
		c, cancel := context.WithDeadline(context.Background(), time.Now().Add(-time.Second))
		r.G = NewGateWrapping(en.ST, c, cancel)
		r.rec("Xb")
		r.rec("Xe")
		r.StartExact(timeout)
	case 2:
		c, cancel := context.WithTimeout(context.Background(), 300*time.Microsecond)
		r.G = NewGateWrapping(en.ST, c, cancel)
		r.rec("Xb")
		r.StartExact(timeout)
		<-c.Done()
		r.rec("Xe")
	default:
		r.StartExact(timeout)
		// some traffic before the end (results are whatever such a timeout gives: nil or ErrTimeout)
		for l := 0; l < n; l++ {
			r.Push(r.NewTask(false, 0, false), l)
		}
		// quiesce: every accepted one has run (a PendingTask of 0 alone would not prove it: the sum is not atomic)
		r.quiesce(LiveBound)
		r.Cancel(en.ctxErr())
	}
	bad := 0
	for i := 0; i < 64; i++ {
		if res := r.Push(r.NewTask(false, 0, false), i%n); res != "ctx" {
			bad++
		}
	}
	if bad > 0 {
		r.Violation("push-after-cancel: SetTimeout(%v): %d of 64 PushTask calls begun after the context ended (%v) did not return the context's error (lanes with room %d)", timeout, bad, r.G.ErrNow(), q)
	}
	en.Shutdown(r, true)
	bad = 0
	for i := 0; i < 16; i++ {
		if res := r.Push(r.NewTask(false, 0, false), i%n); res != "ctx" {
			bad++
		}
	}
	if bad > 0 {
		r.Violation("push-after-cancel: SetTimeout(%v): %d of 16 PushTask calls made after Wait() returned did not return the context's error", timeout, bad)
	}
	r.Status() // after Wait(), nothing in flight: the monitor requires PendingTask = (#pushes that returned nil) - (#S)
}
