package tl

import (
	"encoding/json"
	"fmt"
	"os"
	"os/exec"
	"path/filepath"
	"regexp"
	"sort"
	"strings"

	"verifharness/hk"
)

// Main runs a TaskLane property driver. The scenarios run in a child process (same binary) whose
// race reports go to files (GORACE log_path, halt_on_error=0, exitcode=66); the parent turns a
// report into a "VIOL race ..." case line, so a data race in the code under test is reported like
// any other violation of the property, and a race report can never get lost in stderr.
func Main(id string, families func(en *Engine)) {
	if os.Getenv("TL_CHILD") == "1" {
		hk.Main(id, func(e *hk.Env) error {
			en := NewEngine(e)
			if e.Replay != "" {
				en.Only = replayName(e.Replay)
				e.Stats["replay_scenario"] = en.Only
			}
			en.Calibrate()
			families(en)
			en.WriteStats()
			return nil
		})
		return
	}
	out := ""
	for i, a := range os.Args {
		if (a == "-out" || a == "--out") && i+1 < len(os.Args) {
			out = os.Args[i+1]
		} else if strings.HasPrefix(a, "-out=") {
			out = a[5:]
		}
	}
	if out == "" {
		fmt.Fprintln(os.Stderr, "-out required")
		os.Exit(2)
	}
	os.MkdirAll(out, 0o755)
	prefix := filepath.Join(out, "racelog")
	cmd := exec.Command(os.Args[0], os.Args[1:]...)
	cmd.Env = append(os.Environ(), "TL_CHILD=1", "GORACE=halt_on_error=0 exitcode=66 log_path="+prefix)
	cmd.Stdout, cmd.Stderr = os.Stdout, os.Stderr
	err := cmd.Run()
	rc := 0
	if err != nil {
		rc = 1
		if ee, ok := err.(*exec.ExitError); ok {
			rc = ee.ExitCode()
		}
	}
	logs, _ := filepath.Glob(prefix + ".*")
	var reports []string
	for _, l := range logs {
		b, _ := os.ReadFile(l)
		reports = append(reports, summarizeRaces(string(b))...)
		os.Remove(l)
	}
	if len(reports) > 0 {
		f, e2 := os.OpenFile(filepath.Join(out, "cases.txt"), os.O_APPEND|os.O_WRONLY|os.O_CREATE, 0o644)
		if e2 == nil {
			seen := map[string]int{}
			for _, r := range reports {
				seen[r]++
			}
			keys := make([]string, 0, len(seen))
			for k := range seen {
				keys = append(keys, k)
			}
			sort.Strings(keys)
			for _, k := range keys {
				fmt.Fprintf(f, "VIOL race %s reports=%d\n", k, seen[k])
			}
			f.Close()
		}
		// stats: note the races
		sp := filepath.Join(out, "stats.json")
		if b, e3 := os.ReadFile(sp); e3 == nil {
			m := map[string]any{}
			if json.Unmarshal(b, &m) == nil {
				m["data_race_reports"] = len(reports)
				nb, _ := json.MarshalIndent(m, "", " ")
				os.WriteFile(sp, nb, 0o644)
			}
		}
		if rc == 66 {
			rc = 0 // reported through the VIOL lines
		}
	}
	os.Exit(rc)
}

var raceFrame = regexp.MustCompile(`(?m)^  (\S+)\(.*\)\n\s+(\S+?):(\d+)`)

// summarizeRaces turns each "WARNING: DATA RACE" block into "<access1-fn>@file:line|<access2-fn>@file:line".
func summarizeRaces(log string) []string {
	var res []string
	for _, blk := range strings.Split(log, "==================") {
		if !strings.Contains(blk, "WARNING: DATA RACE") {
			continue
		}
		var tops []string
		for _, sec := range regexp.MustCompile(`(?m)^(?:Read|Write|Previous read|Previous write|Atomic|Previous atomic)[^\n]* by [^\n]*:\n`).Split(blk, -1)[1:] {
			if m := raceFrame.FindStringSubmatch(sec); m != nil {
				fn := m[1]
				if i := strings.LastIndex(fn, "/"); i >= 0 {
					fn = fn[i+1:]
				}
				tops = append(tops, fn+"@"+filepath.Base(m[2])+":"+m[3])
			}
		}
		if len(tops) > 2 {
			tops = tops[:2]
		}
		sort.Strings(tops)
		if len(tops) == 0 {
			tops = []string{"unparsed"}
		}
		res = append(res, strings.Join(tops, "|"))
	}
	return res
}

// replayName extracts the scenario name from a replay file written by the runner
// ({"case": "VIOL <scenario> ..."}) or takes the file content as the name.
func replayName(path string) string {
	b, err := os.ReadFile(path)
	if err != nil {
		return path
	}
	var m map[string]any
	if json.Unmarshal(b, &m) == nil {
		if c, ok := m["case"].(string); ok {
			f := strings.Fields(c)
			if len(f) >= 2 && f[0] == "VIOL" {
				return f[1]
			}
		}
	}
	return strings.TrimSpace(string(b))
}
