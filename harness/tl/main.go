package tl

import (
	"bytes"
	"encoding/json"
	"fmt"
	"io"
	"os"
	"os/exec"
	"path/filepath"
	"regexp"
	"sort"
	"strings"
	"sync"

	"verifharness/hk"
)

// Family is a named group of scenarios that runs in a process of its own.
type Family struct {
	Name string
	Run  func(en *Engine)
	// Background families are started first and run in parallel to the others (each family is a process of its
	// own anyway); used for probes that mostly wait, such as the long-idle probe.
	Background bool
	// Env: extra environment of the family's process (e.g. GODEBUG=panicnil=1).
	Env []string
}

// Main runs a TaskLane property driver. Every family runs in a CHILD process (the same binary,
// TL_CHILD=<family>): a regression that crashes the process from inside a lane goroutine (a panic
// in the recover handler, a fatal runtime error) kills one child, and the parent turns it into
//
//	VIOL crash <family> <last scenario> <stderr tail>
//
// instead of a dead harness. The children write the race detector's reports to files (GORACE
// log_path, halt_on_error=0, exitcode=66); the parent turns each distinct report into
//
//	VIOL race <access1>|<access2> reports=<n>
//
// so that a data race in the code under test is reported like any other violation and can never
// get lost in stderr. The parent concatenates the children's cases and merges their stats.
func Main(id string, fams []Family) {
	if name := os.Getenv("TL_CHILD"); name != "" {
		hk.Main(id, func(e *hk.Env) error {
			en := NewEngine(e)
			en.progress = filepath.Join(e.Out, "progress")
			if e.Replay != "" {
				en.Only = replayName(e.Replay)
				e.Stats["replay_scenario"] = en.Only
			}
			if e.Thorough() {
				e.Case("TIER", "thorough") // the driver then also compares the reduced acceptor with the plain one
			}
			en.Calibrate()
			for _, f := range fams {
				if f.Name == name {
					f.Run(en)
				}
			}
			en.WriteStats()
			if d := en.Degraded(); len(d) > 0 {
				e.Stats["tie_degraded"] = d
				return fmt.Errorf("tie-degraded (family %s): %s", name, strings.Join(d, "; "))
			}
			return nil
		})
		return
	}
	out := ""
	outIdx := -1
	for i, a := range os.Args {
		if (a == "-out" || a == "--out") && i+1 < len(os.Args) {
			out, outIdx = os.Args[i+1], i+1
		}
	}
	if out == "" {
		fmt.Fprintln(os.Stderr, "usage: -out <dir> [-tier quick|thorough] [-seed n] [-replay file]")
		os.Exit(2)
	}
	os.MkdirAll(out, 0o755)
	cases, err := os.Create(filepath.Join(out, "cases.txt"))
	if err != nil {
		fmt.Fprintln(os.Stderr, err)
		os.Exit(2)
	}
	merged := map[string]any{}
	perFamily := map[string]any{}
	exit := 0
	type famResult struct {
		cases []byte
		stats map[string]any
		exit  int
	}
	runFamily := func(f Family) famResult {
		var res famResult
		var out2 bytes.Buffer
		cdir := filepath.Join(out, "fam-"+f.Name)
		os.MkdirAll(cdir, 0o755)
		args := append([]string(nil), os.Args[1:]...)
		args[outIdx-1] = cdir
		prefix := filepath.Join(cdir, "racelog")
		cmd := exec.Command(os.Args[0], args...)
		cmd.Env = append(os.Environ(), "TL_CHILD="+f.Name, "GORACE=halt_on_error=0 exitcode=66 log_path="+prefix)
		cmd.Env = append(cmd.Env, f.Env...)
		var errbuf bytes.Buffer
		cmd.Stdout = os.Stdout
		cmd.Stderr = io.MultiWriter(&tailWriter{buf: &errbuf, max: 1 << 16}, os.Stderr)
		rc := 0
		if err := cmd.Run(); err != nil {
			ee, ok := err.(*exec.ExitError)
			if !ok {
				// the child could not be run at all (exec failure, I/O error): infrastructure, not a crash of the code under test
				fmt.Fprintf(os.Stderr, "harness error: cannot run family %s: %v\n", f.Name, err)
				res.exit = 3
				return res
			}
			rc = ee.ExitCode()
		}
		// the child's cases
		if b, err := os.ReadFile(filepath.Join(cdir, "cases.txt")); err == nil {
			out2.Write(b)
			if len(b) > 0 && b[len(b)-1] != '\n' {
				out2.WriteString("\n")
			}
		}
		// race reports
		logs, _ := filepath.Glob(prefix + ".*")
		var reports []string
		for _, l := range logs {
			b, _ := os.ReadFile(l)
			reports = append(reports, summarizeRaces(string(b))...)
		}
		if len(reports) > 0 {
			seen := map[string]int{}
			for _, r := range reports {
				seen[r]++
			}
			keys := make([]string, 0, len(seen))
			for k := range seen {
				keys = append(keys, k)
			}
			sort.Strings(keys)
			for _, k := range keys {
				fmt.Fprintf(&out2, "VIOL race %s reports=%d family=%s\n", k, seen[k], f.Name)
			}
		}
		st := map[string]any{}
		if b, err := os.ReadFile(filepath.Join(cdir, "stats.json")); err == nil {
			json.Unmarshal(b, &st)
		}
		st["data_race_reports"] = len(reports)
		switch {
		case rc == 0, rc == 66 && len(reports) > 0:
		case rc == 3:
			res.exit = 3 // harness error reported by hk.Main
		default:
			// the process died: unrecovered panic in a lane goroutine, fatal error, signal
			last := "?"
			if b, err := os.ReadFile(filepath.Join(cdir, "progress")); err == nil && len(b) > 0 {
				last = strings.TrimSpace(string(b))
			}
			fmt.Fprintf(&out2, "VIOL crash %s %s rc=%d %s\n", f.Name, last, rc, crashTail(errbuf.String()))
			st["crashed"] = true
		}
		os.RemoveAll(cdir)
		res.cases, res.stats = out2.Bytes(), st
		return res
	}
	results := make([]famResult, len(fams))
	var bg sync.WaitGroup
	for i, f := range fams {
		if f.Background {
			bg.Add(1)
			go func() { defer bg.Done(); results[i] = runFamily(f) }()
		}
	}
	for i, f := range fams {
		if !f.Background {
			results[i] = runFamily(f)
		}
	}
	bg.Wait()
	for i, f := range fams {
		cases.Write(results[i].cases)
		if results[i].exit != 0 {
			exit = results[i].exit
		}
		if results[i].stats != nil {
			perFamily[f.Name] = results[i].stats
			mergeStats(merged, results[i].stats)
		}
	}
	if lost, ok := merged["schedule_control_reduced"]; ok {
		// reduced schedule control is acceptable only because the stress families stand in for the forced schedules
		fam, _ := merged["scenarios_by_family"].(map[string]any)
		if n, _ := fam["stress"].(float64); n == 0 && exit == 0 {
			fmt.Fprintf(os.Stderr, "harness error: tie-degraded: schedule control reduced (%v) and no stress family ran in its place\n", lost)
			exit = 3
		}
	}
	cases.Close()
	merged["by_family_process"] = perFamily
	sb, _ := json.MarshalIndent(merged, "", " ")
	os.WriteFile(filepath.Join(out, "stats.json"), sb, 0o644)
	os.Exit(exit)
}

type tailWriter struct {
	buf *bytes.Buffer
	max int
}

func (t *tailWriter) Write(p []byte) (int, error) {
	t.buf.Write(p)
	if t.buf.Len() > 2*t.max {
		b := t.buf.Bytes()
		nb := append([]byte(nil), b[len(b)-t.max:]...)
		t.buf.Reset()
		t.buf.Write(nb)
	}
	return len(p), nil
}

var addrRe = regexp.MustCompile(`0x[0-9a-f]+|\+0x[0-9a-f]+|goroutine \d+`)

// crashTail keeps what identifies a crash: the "panic:" / "fatal error:" lines and the first frames.
func crashTail(stderr string) string {
	lines := strings.Split(stderr, "\n")
	start := -1
	for i, l := range lines {
		if strings.HasPrefix(l, "panic:") || strings.HasPrefix(l, "fatal error:") {
			start = i
			break
		}
	}
	if start < 0 {
		start = len(lines) - 12
		if start < 0 {
			start = 0
		}
	}
	var keep []string
	for _, l := range lines[start:] {
		l = strings.TrimSpace(addrRe.ReplaceAllString(l, ""))
		if l == "" {
			continue
		}
		keep = append(keep, strings.ReplaceAll(l, " ", "_"))
		if len(keep) >= 10 {
			break
		}
	}
	s := strings.Join(keep, "|")
	if len(s) > 600 {
		s = s[:600]
	}
	return s
}

// mergeStats adds the numbers of b into a (ints summed, maps merged recursively, "max_*" keys by
// maximum, bools and-ed, lists concatenated up to 8 entries).
func mergeStats(a, b map[string]any) {
	for k, v := range b {
		switch x := v.(type) {
		case float64:
			old, _ := a[k].(float64)
			if strings.HasPrefix(k, "max_") {
				if x > old {
					old = x
				}
				a[k] = old
			} else {
				a[k] = old + x
			}
		case bool:
			if old, ok := a[k].(bool); ok {
				if k == "done_sites_as_expected" {
					a[k] = old && x
				} else {
					a[k] = old || x
				}
			} else {
				a[k] = x
			}
		case map[string]any:
			old, ok := a[k].(map[string]any)
			if !ok {
				old = map[string]any{}
			}
			if strings.HasPrefix(k, "max_") {
				for kk, vv := range x {
					f, _ := vv.(float64)
					o, _ := old[kk].(float64)
					if f > o {
						o = f
					}
					old[kk] = o
				}
			} else if k == "done_sites" {
				for kk, vv := range x {
					old[kk] = vv
				}
			} else {
				mergeStats(old, x)
			}
			a[k] = old
		case []any:
			old, _ := a[k].([]any)
			for _, e := range x {
				dup := false
				if es, ok := e.(string); ok {
					for _, o := range old {
						if os, ok := o.(string); ok && os == es {
							dup = true
						}
					}
				}
				if !dup && len(old) < 16 {
					old = append(old, e)
				}
			}
			a[k] = old
		default:
			if _, ok := a[k]; !ok {
				a[k] = v
			}
		}
	}
}

var raceFrame = regexp.MustCompile(`(?m)^  (\S+)\(.*\)\n\s+(\S+?):(\d+)`)
var raceSection = regexp.MustCompile(`(?m)^(?:Read|Write|Previous read|Previous write|Atomic|Previous atomic)[^\n]* by [^\n]*:\n`)

// summarizeRaces turns each "WARNING: DATA RACE" block into "<access1-fn>@file:line|<access2-fn>@file:line".
func summarizeRaces(log string) []string {
	var res []string
	for _, blk := range strings.Split(log, "==================") {
		if !strings.Contains(blk, "WARNING: DATA RACE") {
			continue
		}
		var tops []string
		for _, sec := range raceSection.Split(blk, -1)[1:] {
			if m := raceFrame.FindStringSubmatch(sec); m != nil {
				fn := m[1]
				if i := strings.LastIndex(fn, "/"); i >= 0 {
					fn = fn[i+1:]
				}
				tops = append(tops, fn+"@"+filepath.Base(m[2])+":"+m[3])
			}
		}
		if len(tops) > 2 {
			tops = tops[:2]
		}
		sort.Strings(tops)
		if len(tops) == 0 {
			tops = []string{"unparsed"}
		}
		res = append(res, strings.Join(tops, "|"))
	}
	return res
}

// replayName extracts the scenario name from a replay file written by the runner
// ({"case": "VIOL <scenario> ..."}) or takes the file content as the name.
func replayName(path string) string {
	b, err := os.ReadFile(path)
	if err != nil {
		return path
	}
	var m map[string]any
	if json.Unmarshal(b, &m) == nil {
		if c, ok := m["case"].(string); ok {
			f := strings.Fields(c)
			if len(f) >= 2 && f[0] == "VIOL" {
				return f[1]
			}
		}
	}
	return strings.TrimSpace(string(b))
}
