module verifharness

go 1.22.5

require github.com/whoisnian/glb v0.0.0

require golang.org/x/sys v0.21.0 // indirect

replace github.com/whoisnian/glb => /repo
