// Package hk is the shared kit of the correspondence harness: it drives the real whoisnian/glb code
// (module replaced by /repo's working tree) and writes observed cases for the Coq side.
//
//	h <property> -out <dir> [-tier quick|thorough] [-seed n] [-replay file]
//
// Every driver writes <dir>/cases.txt (one case per line, fields hex encoded, "-" = empty)
// and <dir>/stats.json (counters, input distribution, samples; free-form JSON object).
package hk

import (
	"bufio"
	"encoding/hex"
	"encoding/json"
	"flag"
	"fmt"
	"os"
	"path/filepath"
	"sync"
)

type Env struct {
	Tier   string
	Seed   uint64
	Out    string
	Replay string
	Corpus string
	cases  *bufio.Writer
	casesF *os.File
	mu     sync.Mutex
	Stats  map[string]any
	Rng    *Rng
}

func (e *Env) Thorough() bool { return e.Tier == "thorough" }

// Case writes one line to cases.txt.
func (e *Env) Case(fields ...string) {
	e.mu.Lock()
	defer e.mu.Unlock()
	for i, f := range fields {
		if i > 0 {
			e.cases.WriteByte(' ')
		}
		e.cases.WriteString(f)
	}
	e.cases.WriteByte('\n')
}

func (e *Env) Count(key string, n int) {
	e.mu.Lock()
	defer e.mu.Unlock()
	v, _ := e.Stats[key].(int)
	e.Stats[key] = v + n
}

func (e *Env) Sample(key string, v any, max int) {
	e.mu.Lock()
	defer e.mu.Unlock()
	l, _ := e.Stats[key].([]any)
	if len(l) < max {
		e.Stats[key] = append(l, v)
	}
}

func Hx(b []byte) string {
	if len(b) == 0 {
		return "-"
	}
	return hex.EncodeToString(b)
}
func Hxs(s string) string { return Hx([]byte(s)) }
func Unhx(s string) []byte {
	if s == "-" {
		return nil
	}
	b, err := hex.DecodeString(s)
	if err != nil {
		panic(err)
	}
	return b
}

// Rng: splitmix64, every random choice of a run derives from VERIF_SEED.
type Rng struct{ s uint64 }

func NewRng(seed uint64) *Rng { return &Rng{seed*0x9E3779B97F4A7C15 + 0x1234567} }
func (r *Rng) U64() uint64 {
	r.s += 0x9E3779B97F4A7C15
	z := r.s
	z = (z ^ (z >> 30)) * 0xBF58476D1CE4E5B9
	z = (z ^ (z >> 27)) * 0x94D049BB133111EB
	return z ^ (z >> 31)
}
func (r *Rng) Intn(n int) int {
	if n <= 0 {
		return 0
	}
	return int(r.U64() % uint64(n))
}
func (r *Rng) Bool() bool        { return r.U64()&1 == 1 }
func (r *Rng) Fork() *Rng        { return NewRng(r.U64()) }
func (r *Rng) Pick(n int) int    { return r.Intn(n) }
func (r *Rng) Chance(p int) bool { return r.Intn(100) < p }

// Main parses the command line and runs one property driver:
//
//	<exe> -out <dir> [-tier quick|thorough] [-seed n] [-corpus dir] [-replay file]
func Main(id string, f func(*Env) error) {
	args := os.Args[1:]
	if len(args) > 0 && args[0] == id {
		args = args[1:]
	}
	fs := flag.NewFlagSet(id, flag.ExitOnError)
	out := fs.String("out", "", "output directory")
	tier := fs.String("tier", "quick", "quick|thorough")
	seed := fs.Uint64("seed", 1, "seed")
	replay := fs.String("replay", "", "replay file")
	corpus := fs.String("corpus", "", "corpus directory")
	fs.Parse(args)
	if *out == "" {
		fmt.Fprintln(os.Stderr, "-out required")
		os.Exit(2)
	}
	os.MkdirAll(*out, 0o755)
	cf, err := os.Create(filepath.Join(*out, "cases.txt"))
	if err != nil {
		panic(err)
	}
	env := &Env{Tier: *tier, Seed: *seed, Out: *out, Replay: *replay, Corpus: *corpus, casesF: cf, cases: bufio.NewWriterSize(cf, 1<<20), Stats: map[string]any{}, Rng: NewRng(*seed)}
	err = f(env)
	env.cases.Flush()
	cf.Close()
	if err != nil {
		env.Stats["harness_error"] = err.Error()
	}
	sb, _ := json.MarshalIndent(env.Stats, "", " ")
	os.WriteFile(filepath.Join(*out, "stats.json"), sb, 0o644)
	if err != nil {
		fmt.Fprintln(os.Stderr, "harness error:", err)
		os.Exit(3)
	}
}
