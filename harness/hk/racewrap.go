package hk

import (
	"bufio"
	"fmt"
	"os"
	"os/exec"
	"path/filepath"
	"strings"
)

// MainRace is Main for harnesses built with -race: a data race reported by the detector must become a
// violation WITH the observed cases, not a crashed harness. The process re-executes itself with
// GORACE="halt_on_error=0 exitcode=0 log_path=<out>/race"; the child runs the driver; afterwards the parent
// condenses every race report into a line "VIOL datarace <access 1> | <access 2>" appended to cases.txt.
// Without -race (or when already a child) it is exactly Main.
func MainRace(id string, f func(*Env) error) {
	if os.Getenv("VERIF_RACE_CHILD") != "" {
		Main(id, f)
		return
	}
	out := ""
	for i, a := range os.Args {
		if a == "-out" && i+1 < len(os.Args) {
			out = os.Args[i+1]
		}
		if strings.HasPrefix(a, "-out=") {
			out = a[5:]
		}
	}
	if out == "" {
		Main(id, f)
		return
	}
	os.MkdirAll(out, 0o755)
	cmd := exec.Command(os.Args[0], os.Args[1:]...)
	cmd.Env = append(os.Environ(), "VERIF_RACE_CHILD=1",
		"GORACE=halt_on_error=0 exitcode=0 log_path="+filepath.Join(out, "race"))
	cmd.Stdout, cmd.Stderr = os.Stdout, os.Stderr
	err := cmd.Run()
	code := 0
	if err != nil {
		code = 1
		if ee, ok := err.(*exec.ExitError); ok {
			code = ee.ExitCode()
		}
	}
	logs, _ := filepath.Glob(filepath.Join(out, "race.*"))
	seen := map[string]bool{}
	var lines []string
	for _, l := range logs {
		fh, e := os.Open(l)
		if e != nil {
			continue
		}
		sc := bufio.NewScanner(fh)
		sc.Buffer(make([]byte, 1<<20), 1<<24)
		var cur []string
		grab := false
		flush := func() {
			if len(cur) > 0 {
				s := strings.Join(cur, " | ")
				if !seen[s] {
					seen[s] = true
					lines = append(lines, s)
				}
			}
			cur = nil
		}
		for sc.Scan() {
			t := sc.Text()
			switch {
			case strings.HasPrefix(t, "WARNING: DATA RACE"):
				flush()
			case strings.HasPrefix(t, "Write at") || strings.HasPrefix(t, "Read at") ||
				strings.HasPrefix(t, "Previous write at") || strings.HasPrefix(t, "Previous read at"):
				cur = append(cur, strings.Fields(t)[0]+strings.TrimPrefix(strings.Fields(t)[1], "at")+":")
				grab = true
			case grab && strings.HasPrefix(t, "  ") && strings.Contains(t, "("):
				// first frame of the access: the function
				cur[len(cur)-1] += strings.ReplaceAll(strings.TrimSpace(t), " ", "")
				grab = false
			}
		}
		flush()
		fh.Close()
		os.Remove(l)
	}
	if len(lines) > 0 {
		cf, e := os.OpenFile(filepath.Join(out, "cases.txt"), os.O_APPEND|os.O_WRONLY|os.O_CREATE, 0o644)
		if e == nil {
			for i, s := range lines {
				if i >= 10 {
					break
				}
				fmt.Fprintf(cf, "VIOL datarace %s\n", strings.ReplaceAll(s, "\n", " "))
			}
			cf.Close()
		}
	}
	os.Exit(code)
}
