package main

import (
	"fmt"
	"path/filepath"
	"sort"
	"strings"

	"github.com/whoisnian/glb/util/fsutil"
	"verifharness/hk"
)

// C17: fsutil.ResolveUrlPath never leaves the base directory.
// Cases: "E <base> <urlpath> <ResolveUrlPath(base, urlpath)>".
// Go-side oracle, independent of the Coq model: filepath.Rel(filepath.Clean(base), result) must
// succeed and must not be ".." or start with "../"; otherwise "VIOL rel <base> <urlpath> <result> <rel|error>".
// A panic of the code under test is "VIOL panic <base> <urlpath> <message>".
func main() { hk.Main("C17", runC17) }

var c17Alphabet = []byte{'/', '.', 'a', '\\'}

var c17Bases = []string{
	"/data", "/srv/www/", "srv/www", "./rel/", ".", "/a/../b", "x/../../y", "//", "/", "..", "../x", "a/../..",
}

func c17Resolve(base, p string) (res string, panicked string) {
	defer func() {
		if r := recover(); r != nil {
			panicked = fmt.Sprint(r)
		}
	}()
	return fsutil.ResolveUrlPath(base, p), ""
}

func runC17(e *hk.Env) error {
	maxLen := 6
	nRandom := 40000
	if e.Thorough() {
		maxLen = 8
		nRandom = 400000
	}
	viol := 0
	cases := 0
	dotfree := 0
	climbing := 0
	one := func(base, p string) string {
		res, pan := c17Resolve(base, p)
		cases++
		if pan != "" {
			viol++
			e.Case("VIOL", "panic", hk.Hxs(base), hk.Hxs(p), hk.Hxs(pan))
			return ""
		}
		e.Case("E", hk.Hxs(base), hk.Hxs(p), hk.Hxs(res))
		rel, err := filepath.Rel(filepath.Clean(base), res)
		if err != nil {
			viol++
			e.Case("VIOL", "rel", hk.Hxs(base), hk.Hxs(p), hk.Hxs(res), hk.Hxs("error: "+err.Error()))
		} else if rel == ".." || strings.HasPrefix(rel, "../") {
			viol++
			e.Case("VIOL", "rel", hk.Hxs(base), hk.Hxs(p), hk.Hxs(res), hk.Hxs(rel))
		}
		return res
	}

	// corpus first: lines "<hex base> <hex path>"
	// (none shipped; kept so that replay files can be fed back)

	// exhaustive: every string of length <= maxLen over the alphabet, for every base spelling
	var paths []string
	var gen func(prefix []byte, l int)
	gen = func(prefix []byte, l int) {
		paths = append(paths, string(prefix))
		if l == 0 {
			return
		}
		for _, c := range c17Alphabet {
			gen(append(prefix[:len(prefix):len(prefix)], c), l-1)
		}
	}
	gen(nil, maxLen)
	// shortest first, so that the first reported failing input is a small one
	sort.SliceStable(paths, func(i, j int) bool { return len(paths[i]) < len(paths[j]) })
	for _, p := range paths {
		hasDots := false
		hasDotDot := false
		for _, s := range strings.Split(p, "/") {
			if s == "." || s == ".." {
				hasDots = true
			}
			if s == ".." {
				hasDotDot = true
			}
		}
		if !hasDots {
			dotfree += len(c17Bases)
		}
		if hasDotDot {
			climbing += len(c17Bases)
		}
		for _, base := range c17Bases {
			one(base, p)
		}
	}
	e.Stats["exhaustive"] = false
	e.Stats["exhaustive_max_len"] = maxLen
	e.Stats["exhaustive_paths"] = len(paths)
	e.Stats["bases"] = c17Bases
	e.Stats["exhaustive_cases"] = len(paths) * len(c17Bases)
	e.Stats["exhaustive_dot_free_cases"] = dotfree
	e.Stats["exhaustive_cases_with_dotdot_segment"] = climbing

	// random byte strings for base and path: any byte (NUL and >= 0x80 included), base non-empty
	r := e.Rng.Fork()
	rb := func(maxl int, allowEmpty bool) string {
		l := r.Intn(maxl)
		if l == 0 && !allowEmpty {
			l = 1
		}
		b := make([]byte, l)
		for j := range b {
			switch {
			case r.Chance(30):
				b[j] = '/'
			case r.Chance(35):
				b[j] = '.'
			case r.Chance(40):
				b[j] = byte(r.Intn(256))
			default:
				b[j] = "abX\\ %~:0-_"[r.Intn(11)]
			}
		}
		return string(b)
	}
	lens := map[int]int{}
	highbit := 0
	for i := 0; i < nRandom; i++ {
		var base string
		if r.Chance(50) {
			base = c17Bases[r.Intn(len(c17Bases))]
		} else {
			base = rb(14, false)
		}
		p := rb(28, true)
		if r.Chance(3) {
			p = strings.Repeat(rb(6, false), 20+r.Intn(60))
		}
		lens[len(p)/16*16]++
		for k := 0; k < len(p); k++ {
			if p[k] >= 0x80 {
				highbit++
				break
			}
		}
		one(base, p)
	}
	e.Stats["random_cases"] = nRandom
	e.Stats["random_paths_with_byte_ge_0x80"] = highbit
	e.Stats["random_path_len_hist_by_16"] = lens
	e.Stats["cases"] = cases
	e.Stats["go_rel_oracle_violations"] = viol

	for i, s := range [][2]string{{"/data", "/../../etc/passwd"}, {"../x/", "..\\.."}, {"srv/www", "a/./../../b"}, {"a/../..", "/../a//./"}, {".", "../.."}} {
		_ = i
		res, _ := c17Resolve(s[0], s[1])
		e.Sample("samples", map[string]string{"base": s[0], "urlpath": s[1], "result": res}, 5)
	}
	return nil
}
