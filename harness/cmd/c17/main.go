package main

import (
	"fmt"
	"os"
	"path/filepath"
	"runtime"
	"sort"
	"strconv"
	"strings"
	"sync"
	"sync/atomic"

	"github.com/whoisnian/glb/util/fsutil"
	"verifharness/hk"
)

// C17: fsutil.ResolveUrlPath never leaves the base directory.
// Cases: "E <base> <urlpath> <ResolveUrlPath(base, urlpath)>" ("L ..." for the long paths), in call order: the
// whole run is one process, so state kept across calls by the code under test (caches) is exercised by the
// nested-base call sequences at the start and at the end.
// Go-side oracle, independent of the Coq model: filepath.Rel(filepath.Clean(base), result) must
// succeed and must not be ".." or start with "../"; otherwise "VIOL rel <base> <urlpath> <result> <rel|error>".
// A panic of the code under test is "VIOL panic <base> <urlpath> <message>".
func main() { hk.Main("C17", runC17) }

var c17Alphabet = []byte{'/', '.', 'a', '\\'}

var c17Bases = []string{
	"/data", "/srv/www/", "srv/www", "./rel/", ".", "/a/../b", "x/../../y", "//", "/", "..", "../x", "a/../..",
}

func c17Resolve(base, p string) (res string, panicked string) {
	defer func() {
		if r := recover(); r != nil {
			panicked = fmt.Sprint(r)
		}
	}()
	return fsutil.ResolveUrlPath(base, p), ""
}

// c17Concurrent: the function is pure, so a call made while other goroutines are inside it must return what the
// same call returns alone. G goroutines call ResolveUrlPath in tight loops on a mix of (a) already-clean paths
// without leading slash, (b) paths without leading slash that contain dot-dot segments, (c) the usual shapes;
// every result is compared with the result of the sequential call made beforehand (those are ordinary judged
// cases); a differing result is written as "VIOL concurrent <base> <path> <got> <sequential>" and also as an
// ordinary case line, so that the Coq judge sees it.
func c17Concurrent(e *hk.Env, one func(base, p string) string) {
	bases := []string{"/srv/www", "/srv/www/", "rel/dir", ".", "/", "../x", "/data/../pub"}
	clean := []string{"static/css/main.css", "static/css/main-layout-2.css", "static/app.js", "index.html", "a", "img/logo.png",
		"assets/fonts/roboto/v20/regular-latin-ext.woff2", "a/b/c/d/e/f/g/h/i/j/k/l/m/n/o/p", "favicon.ico", "..a/b..", "x\\y/z"}
	climb := []string{"../../etc/passwd", "../../../../../../etc/passwd", "../../../../etc/shadow", "x/../../etc/passwd", "..", "../..",
		"static/../../secret/key", "a/./../../b", "./../.././../root/.ssh/id_rsa", "../../../../../../../../../../../../../../..", "..//..//..//tmp"}
	usual := []string{"", "/", "/a/b", "/../x", "//a//b/", "/static/css/main.css", "/../../etc/passwd", "/a/../../b", "/.", "/..", "/static/../.."}
	type pair struct{ base, p, want string }
	var pairs []pair
	for _, b := range bases {
		for _, l := range [][]string{clean, climb, usual} {
			for _, p := range l {
				pairs = append(pairs, pair{b, p, one(b, p)}) // sequential reference, judged like any case
			}
		}
	}
	g := 4 * runtime.GOMAXPROCS(0)
	if g < 16 {
		g = 16
	}
	iters := 60000
	if e.Thorough() {
		iters = 600000
	}
	if v, err := strconv.Atoi(os.Getenv("C17_CONC_ITERS")); err == nil && v > 0 {
		iters = v
	}
	type diff struct{ base, p, got, want string }
	var mu sync.Mutex
	diffs := map[diff]int{}
	var stop atomic.Bool
	var calls atomic.Int64
	var wg sync.WaitGroup
	seeds := make([]*hk.Rng, g)
	for i := range seeds {
		seeds[i] = e.Rng.Fork()
	}
	for i := 0; i < g; i++ {
		wg.Add(1)
		go func(id int) {
			defer wg.Done()
			r := seeds[id]
			// half of the goroutines stay on one pair (steady pressure on pooled state), the others roam
			fixed := pairs[r.Intn(len(pairs))]
			if id%4 == 0 {
				fixed = pairs[r.Intn(len(clean))] // clean, no leading slash, first base
			} else if id%4 == 2 {
				fixed = pairs[len(clean)+r.Intn(len(climb))]
			}
			n := int64(0)
			for k := 0; k < iters && !stop.Load(); k++ {
				pr := fixed
				if id%2 == 1 {
					pr = pairs[r.Intn(len(pairs))]
				}
				got, pan := c17Resolve(pr.base, pr.p)
				n++
				if pan != "" {
					got = "panic: " + pan
				}
				if got != pr.want {
					mu.Lock()
					diffs[diff{pr.base, pr.p, strings.Clone(got), pr.want}]++
					if len(diffs) >= 50 {
						stop.Store(true)
					}
					mu.Unlock()
				}
			}
			calls.Add(n)
		}(i)
	}
	wg.Wait()
	nd := 0
	for d, cnt := range diffs {
		nd += cnt
		e.Case("VIOL", "concurrent", hk.Hxs(d.base), hk.Hxs(d.p), hk.Hxs(d.got), hk.Hxs(d.want))
		if !strings.HasPrefix(d.got, "panic: ") {
			e.Case("E", hk.Hxs(d.base), hk.Hxs(d.p), hk.Hxs(d.got))
		}
	}
	e.Stats["concurrent_goroutines"] = g
	e.Stats["concurrent_calls"] = calls.Load()
	e.Stats["concurrent_pairs"] = len(pairs)
	e.Stats["concurrent_results_differing_from_sequential"] = nd
}

// c17OnDisk: the property is about the returned PATH; what lies on disk must not matter. Real base directories in a
// sandbox under .build: ordinary files, symbolic links at and beneath the base that lead outside it (to a directory, to
// a file, upwards), a dangling link, a link to itself, and the base itself reached through a symbolic link; absolute
// and relative spellings (cwd inside the sandbox). Every call is an ordinary judged case.
func c17OnDisk(e *hk.Env, one func(base, p string) string) error {
	verifDir := os.Getenv("VERIF_DIR")
	if verifDir == "" {
		verifDir = "/verif"
	}
	buildDir := filepath.Join(verifDir, ".build")
	os.MkdirAll(buildDir, 0o755)
	root, err := os.MkdirTemp(buildDir, "verif-c17-")
	if err != nil {
		return err
	}
	defer os.RemoveAll(root)
	mk := func(rel, content string) {
		p := filepath.Join(root, rel)
		os.MkdirAll(filepath.Dir(p), 0o755)
		os.WriteFile(p, []byte(content), 0o644)
	}
	ln := func(target, rel string) {
		p := filepath.Join(root, rel)
		os.MkdirAll(filepath.Dir(p), 0o755)
		os.Symlink(target, p)
	}
	mk("outside/secret.txt", "secret")
	mk("outside/etc/passwd", "root:x:0:0")
	mk("www/index.html", "<html>")
	mk("www/static/app.js", "js")
	mk("www/sub/deeper/file.txt", "f")
	ln("../outside", "www/rootfs")                          // relative link to a directory outside
	ln(filepath.Join(root, "outside"), "www/abs")           // absolute link to a directory outside
	ln("../outside/secret.txt", "www/leak.txt")             // link to a file outside
	ln("../../..", "www/sub/deeper/up")                     // link upwards, above the base
	ln("nowhere/at/all", "www/dangling")                    // dangling
	ln(".", "www/self")                                     // link to the base itself
	ln("static", "www/inner")                               // harmless link inside the base
	ln("www", "current")                                    // the base itself behind a link
	ln(filepath.Join(root, "www", "static"), "deploy/base") // a base that is a link to a subdirectory
	origWd, werr := os.Getwd()
	if werr != nil {
		origWd = "/"
	}
	if err := os.Chdir(root); err != nil {
		return err
	}
	defer os.Chdir(origWd)
	bases := []string{filepath.Join(root, "www"), filepath.Join(root, "www") + "/", filepath.Join(root, "current"), filepath.Join(root, "deploy/base"),
		filepath.Join(root, "www/sub/../../www"), "www", "./www/", "current", "deploy/base", "www/sub/deeper"}
	paths := []string{"", "/", "/index.html", "index.html", "/static/app.js", "static/app.js", "/rootfs", "/rootfs/", "/rootfs/etc", "/rootfs/etc/passwd",
		"rootfs/etc/passwd", "/rootfs/secret.txt", "/abs", "/abs/etc/passwd", "/leak.txt", "leak.txt", "/dangling", "/dangling/x", "/sub/deeper/up",
		"/sub/deeper/up/outside/secret.txt", "/up", "/up/outside", "up/outside/etc/passwd", "/self", "/self/self/index.html", "/self/rootfs/etc", "/inner", "/inner/app.js",
		"/missing", "/missing/file.txt", "/static/../rootfs/etc", "/rootfs/../index.html", "//rootfs//etc/", "/./rootfs/./etc/.", "/file.txt", "/app.js",
		"/../outside/secret.txt", "/rootfs/../../outside", "/static/..", "/sub", "/sub/deeper/file.txt"}
	n := 0
	for _, b := range bases {
		for _, p := range paths {
			one(b, p)
			n++
		}
	}
	e.Stats["on_disk_cases"] = n
	e.Stats["on_disk_bases"] = len(bases)
	return nil
}

func runC17(e *hk.Env) error {
	maxLen := 6
	nRandom := 40000
	if e.Thorough() {
		maxLen = 8
		nRandom = 400000
	}
	viol := 0
	cases := 0
	dotfree := 0
	climbing := 0
	tag := "E"
	one := func(base, p string) string {
		res, pan := c17Resolve(base, p)
		cases++
		if pan != "" {
			viol++
			e.Case("VIOL", "panic", hk.Hxs(base), hk.Hxs(p), hk.Hxs(pan))
			return ""
		}
		e.Case(tag, hk.Hxs(base), hk.Hxs(p), hk.Hxs(res))
		rel, err := filepath.Rel(filepath.Clean(base), res)
		if err != nil {
			viol++
			e.Case("VIOL", "rel", hk.Hxs(base), hk.Hxs(p), hk.Hxs(res), hk.Hxs("error: "+err.Error()))
		} else if rel == ".." || strings.HasPrefix(rel, "../") {
			viol++
			e.Case("VIOL", "rel", hk.Hxs(base), hk.Hxs(p), hk.Hxs(res), hk.Hxs(rel))
		}
		return res
	}

	// ---- call sequences in one process over nested bases (state carried across calls, e.g. a result cache):
	// an outer base b and an inner base b/<rel>; url paths "/<rel><T>" (outer) and "<T>" (inner) are the same text
	// once base and path are concatenated. Both orders, with 0 / 300 / 3000 unrelated distinct calls in between.
	// Every result is judged like any other case. Directory names carry the block number, so every block meets a
	// state that has never seen its keys.
	seqBlock := 0
	seqCases := 0
	unrelated := 0
	sequences := func() {
		suffixes := []string{"/..", "/../..", "/../../..", "/x", "/../x", "/../../etc/passwd", "/.", "", "/", "/..//", "/%2e%2e", "/..\\.."}
		for _, gap := range []int{0, 300, 3000} {
			for order := 0; order < 2; order++ {
				seqBlock++
				n := fmt.Sprint(seqBlock)
				chains := [][]string{
					{"/srv/www" + n, "static", "img"},
					{"srv" + n, "www", "static"},
					{"./rel" + n, "a", "b"},
					{"/", "top" + n, "sub"},
					{"../up" + n, "d", "e"},
					{"/data" + n + "/", "s", "t"},
				}
				type call struct{ base, p string }
				var outer, inner []call
				for _, ch := range chains {
					b0 := ch[0]
					j := func(b, r string) string {
						if strings.HasSuffix(b, "/") {
							return b + r
						}
						return b + "/" + r
					}
					b1 := j(b0, ch[1])
					b2 := j(b1, ch[2])
					pairs := []struct{ out, rel, in string }{{b0, ch[1], b1}, {b1, ch[2], b2}, {b0, ch[1] + "/" + ch[2], b2}}
					for _, pr := range pairs {
						for _, t := range suffixes {
							outer = append(outer, call{pr.out, "/" + pr.rel + t}, call{pr.out, pr.rel + t}, call{pr.out, "//" + pr.rel + t})
							inner = append(inner, call{pr.in, t}, call{pr.in, strings.TrimPrefix(t, "/")})
						}
					}
				}
				first, second := outer, inner
				if order == 1 {
					first, second = inner, outer
				}
				for _, c := range first {
					one(c.base, c.p)
				}
				for i := 0; i < gap; i++ {
					unrelated++
					one("/unrelated", fmt.Sprintf("/u%d/../v%d", unrelated, unrelated))
				}
				for _, c := range second {
					one(c.base, c.p)
				}
				// and strictly alternating: outer call immediately followed by its inner twin
				seqBlock++
				n2 := fmt.Sprint(seqBlock)
				for _, t := range suffixes {
					a, b := "/alt"+n2, "/alt"+n2+"/in"
					if order == 1 {
						one(b, t)
						one(a, "/in"+t)
					} else {
						one(a, "/in"+t)
						one(b, t)
					}
					seqCases += 2
				}
				seqCases += len(first) + len(second) + gap
			}
		}
	}
	if os.Getenv("C17_MODE") == "concurrent" { // the -race build runs only this phase
		c17Concurrent(e, one)
		e.Stats["cases"] = cases
		e.Stats["go_rel_oracle_violations"] = viol
		return nil
	}
	sequences()
	e.Stats["sequence_cases_first_pass"] = seqCases
	if err := c17OnDisk(e, one); err != nil {
		return err
	}
	c17Concurrent(e, one)

	// ---- long paths: k repetitions of a depth-neutral unit, then an escape suffix (limits on the number of
	// elements, buffers, recursion depth). Tag "L": judged by the driver like "E", left out of the in-Coq sample.
	longCases := 0
	{
		tag = "L"
		ks := []int{100, 254, 255, 256, 257, 300, 1000, 5000}
		units := []string{"./", "/", "x/../", ".//"}
		escapes := []string{"../../etc/passwd", "..", "../.."}
		for _, k := range ks {
			for _, u := range units {
				body := strings.Repeat(u, k)
				for _, esc := range escapes {
					for bi, base := range c17Bases {
						if k >= 1000 && !e.Thorough() && bi%3 != 0 {
							continue
						}
						one(base, body+esc)
						one(base, "/"+body+esc)
						longCases += 2
					}
				}
			}
		}
		tag = "E"
	}
	e.Stats["long_path_cases"] = longCases

	// exhaustive: every string of length <= maxLen over the alphabet, for every base spelling
	var paths []string
	var gen func(prefix []byte, l int)
	gen = func(prefix []byte, l int) {
		paths = append(paths, string(prefix))
		if l == 0 {
			return
		}
		for _, c := range c17Alphabet {
			gen(append(prefix[:len(prefix):len(prefix)], c), l-1)
		}
	}
	gen(nil, maxLen)
	// shortest first, so that the first reported failing input is a small one
	sort.SliceStable(paths, func(i, j int) bool { return len(paths[i]) < len(paths[j]) })
	for _, p := range paths {
		hasDots := false
		hasDotDot := false
		for _, s := range strings.Split(p, "/") {
			if s == "." || s == ".." {
				hasDots = true
			}
			if s == ".." {
				hasDotDot = true
			}
		}
		if !hasDots {
			dotfree += len(c17Bases)
		}
		if hasDotDot {
			climbing += len(c17Bases)
		}
		for _, base := range c17Bases {
			one(base, p)
		}
	}
	e.Stats["exhaustive"] = false
	e.Stats["exhaustive_max_len"] = maxLen
	e.Stats["exhaustive_paths"] = len(paths)
	e.Stats["bases"] = c17Bases
	e.Stats["exhaustive_cases"] = len(paths) * len(c17Bases)
	e.Stats["exhaustive_dot_free_cases"] = dotfree
	e.Stats["exhaustive_cases_with_dotdot_segment"] = climbing

	// random byte strings for base and path: any byte (NUL and >= 0x80 included), base non-empty
	r := e.Rng.Fork()
	rb := func(maxl int, allowEmpty bool) string {
		l := r.Intn(maxl)
		if l == 0 && !allowEmpty {
			l = 1
		}
		b := make([]byte, l)
		for j := range b {
			switch {
			case r.Chance(30):
				b[j] = '/'
			case r.Chance(35):
				b[j] = '.'
			case r.Chance(40):
				b[j] = byte(r.Intn(256))
			default:
				b[j] = "abX\\ %~:0-_"[r.Intn(11)]
			}
		}
		return string(b)
	}
	lens := map[int]int{}
	highbit := 0
	for i := 0; i < nRandom; i++ {
		var base string
		if r.Chance(50) {
			base = c17Bases[r.Intn(len(c17Bases))]
		} else {
			base = rb(14, false)
		}
		p := rb(28, true)
		if r.Chance(3) {
			p = strings.Repeat(rb(6, false), 20+r.Intn(60))
		}
		lens[len(p)/16*16]++
		for k := 0; k < len(p); k++ {
			if p[k] >= 0x80 {
				highbit++
				break
			}
		}
		one(base, p)
	}
	// the sequences again, now on a state that has seen everything above
	sequences()
	e.Stats["sequence_cases_total"] = seqCases
	e.Stats["random_cases"] = nRandom
	e.Stats["random_paths_with_byte_ge_0x80"] = highbit
	e.Stats["random_path_len_hist_by_16"] = lens
	e.Stats["cases"] = cases
	e.Stats["go_rel_oracle_violations"] = viol

	for i, s := range [][2]string{{"/data", "/../../etc/passwd"}, {"../x/", "..\\.."}, {"srv/www", "a/./../../b"}, {"a/../..", "/../a//./"}, {".", "../.."}} {
		_ = i
		res, _ := c17Resolve(s[0], s[1])
		e.Sample("samples", map[string]string{"base": s[0], "urlpath": s[1], "result": res}, 5)
	}
	return nil
}
