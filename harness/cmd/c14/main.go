package main

import "verifharness/tl"

// C14: panics are contained, Status() is consistent and race free. Families: panics of different dynamic
// types on every worker at the same instant while Status() is polled (recorded, and unrecorded so that the
// recorder adds no synchronisation the race detector could take for ordering), exact PendingTask in every
// stable state (workers pinned, k = 0..laneSize*(queueSize+1) tasks accepted), stress with panicking tasks and
// several observers. The binary is built with -race; a report becomes a "VIOL race" line.
func main() { tl.Main("C14", run) }

func run(en *tl.Engine) {
	reps := 1
	if en.E.Thorough() {
		reps = 6
	}
	for rep := 0; rep < reps; rep++ {
		for _, c := range tl.Configs() {
			n, q := c[0], c[1]
			en.PanicStorm(n, q, true, 2)
			en.PanicStorm(n, q, false, 6)
			full := n * (q + 1)
			en.PendingExact(n, q, full, false)
			en.PendingExact(n, q, q+1, true)
			if full > 2 {
				en.PendingExact(n, q, full/2, false)
			}
			en.CancelPoint(n, q, "Q1", "idle", false)
		}
	}
	small, big := 300, 50
	if en.E.Thorough() {
		small, big = 3000, 600
	}
	for i := 0; i < small; i++ {
		n, q := 1+en.Rng.Intn(3), en.Rng.Intn(3)
		en.Stress(n, q, tl.StressOpt{PanicPct: 40, Observers: 1, CancelMode: 0}, i)
	}
	for i := 0; i < big; i++ {
		n, q := 1+en.Rng.Intn(4), en.Rng.Intn(4)
		en.Stress(n, q, tl.StressOpt{Big: true, PanicPct: 30, Observers: 3, CancelMode: 0}, i)
	}
}
