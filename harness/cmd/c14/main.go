package main

import "verifharness/tl"

// C14: panics are contained, Status() is consistent and race free. Families: panics of different dynamic
// types one after the other on one lane (string, error, int, struct, slice, typed nil pointer, then a normal
// task); panics on every worker at the same instant while Status() is polled (recorded, and unrecorded so that
// the recorder adds no synchronisation the race detector could take for ordering); exact PendingTask in every
// stable state (workers pinned, k = 0..laneSize*(queueSize+1) tasks accepted), also with producers blocked in
// PushTask; the concurrency bound after panics; stress with panicking tasks and several observers. Built with
// -race (a report becomes a "VIOL race" line); every family runs in a process of its own (a crash becomes a
// "VIOL crash" line).
func main() {
	tl.Main("C14", []tl.Family{{Name: "panics", Run: panics}, {Name: "pending", Run: pending}, {Name: "stress", Run: stress},
		{Name: "panicnil1", Run: panicnil1, Env: []string{"GODEBUG=panicnil=1"}}})
}

func reps(en *tl.Engine, quick, thorough int) int {
	if en.E.Thorough() {
		return thorough
	}
	return quick
}

func panics(en *tl.Engine) {
	for rep := 0; rep < reps(en, 1, 6); rep++ {
		for _, c := range tl.Configs() {
			n, q := c[0], c[1]
			en.PanicSequence(n, q)
			en.NilTasks(n, q, 1)
			en.PanicNil(n, q)
			en.TaskKinds(n, q, 2)
			en.PanicStorm(n, q, true, 2)
			en.PanicStorm(n, q, false, 6)
			en.BoundAfterPanics(n, q, 1)
		}
	}
}

func pending(en *tl.Engine) {
	for rep := 0; rep < reps(en, 1, 6); rep++ {
		for _, c := range tl.Configs() {
			n, q := c[0], c[1]
			full := n * (q + 1)
			en.PendingExact(n, q, full, false)
			en.PendingExact(n, q, q+1, true)
			if full > 2 {
				en.PendingExact(n, q, full/2, false)
			}
			en.PendingBlockedProducer(n, q)
			en.CancelPoint(n, q, "Q1", "idle", false)
			en.Reentrant(n, q)
		}
		// wide lanes (beyond a machine word): exact pending with tasks held by the dispatchers of chosen queues
		en.Wide(72, []int{0, 63, 64, 71})
		en.Wide(130, []int{0, 63, 64, 129})
		en.TimeoutRaces(1, 1, 1)
		en.TimeoutRaces(2, 2, 1)
		en.RequireTimeoutRace()
	}
}

func stress(en *tl.Engine) {
	small, big := reps(en, 300, 3000), reps(en, 50, 600)
	for i := 0; i < small; i++ {
		n, q := 1+en.Rng.Intn(2), en.Rng.Intn(3)
		if i%6 == 0 {
			n = 3 // wide lanes with Status pollers are the acceptor's expensive case: fewer of them
		}
		en.Stress(n, q, tl.StressOpt{PanicPct: 40, Observers: 1, CancelMode: 0, Kinds: true}, i)
	}
	for i := 0; i < big; i++ {
		n, q := 1+en.Rng.Intn(4), en.Rng.Intn(4)
		en.Stress(n, q, tl.StressOpt{Big: true, PanicPct: 30, Observers: 3, CancelMode: 0, Kinds: true}, i)
	}
}

// panic scenarios in a process running with GODEBUG=panicnil=1 (panic(nil) makes recover() return nil: for the
// lane such a task returned, LastPanic is untouched)
func panicnil1(en *tl.Engine) {
	for _, c := range tl.Configs() {
		en.PanicNil(c[0], c[1])
		en.PanicSequence(c[0], c[1])
	}
	for i := 0; i < 60; i++ {
		n, q := 1+en.Rng.Intn(2), en.Rng.Intn(3)
		en.Stress(n, q, tl.StressOpt{PanicPct: 50, Observers: 1, CancelMode: 0, Kinds: true}, i)
	}
}
