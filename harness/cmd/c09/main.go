package main

import (
	"encoding/base64"
	"encoding/json"
	"fmt"
	"os"
	"path/filepath"
	"reflect"
	"strconv"
	"strings"
	"sync"
	"time"
	"unicode/utf8"

	"github.com/whoisnian/glb/config"
	"verifharness/hk"
)

// C09: priority cli > env > JSON (file named by -config, else CFG_CONFIG_B64) > tag default.
//
//	E <intsize> <callno> <unchanged> <vec> <cfgfile> <b64set> <ok> <rest> <help> <n>
//	  { <kind> <group> <goname> <tag> <hname> <hdef> <bound> <usage> <init> <envhand> <envobs> <env> <jfile> <jb64> <final> <oracle> }*n
//
// group/goname/tag: where the field sits and its `flag` tag (the model derives name, default, usage and env name from
// these); hname/hdef/envhand: the same as written by hand from the documentation; bound: Lookup(hname).Value.Set(probe) on a
// throw-away instance changes exactly this field; usage/envobs: Flag.Usage/Flag.Env; init: the field right after NewFlagSet.
//
// callno/unchanged: histories of Parse calls on ONE FlagSet — callno 0 is the first Parse on a fresh FlagSet, callno >= 1 a
// later Parse on the same FlagSet (its own vector, environment and JSON carriers); unchanged: the struct's fields are the
// same as after the previous call.
//
// hex fields; "-" empty string, "~" none, "." empty list; lists comma separated.
// oracle: text:canon pairs for every text offered to the field (default, cli incl. overwritten
// ones, env) — what the documented standard-library parser of the kind makes of it ("!" = error).
func main() { hk.Main("C09", runC09) }

// ---- struct type A: explicit tags, both syntaxes, nested two deep
type c09Deep struct {
	On       bool `flag:"deep-on"`
	N        int
	I64      int64         `flag:"i64,0x7f"`
	U        uint          `flag:"|u|007"`
	U64      uint64        `flag:"u64,"`
	HTTPHost string        `flag:"http-host,localhost"`
	F        float64       `flag:"f,-2.5e10"`
	D        time.Duration `flag:"d,1h"`
	B        []byte        `flag:"b64,AAEC"`
}

type c09Sub struct {
	Enable bool          `flag:"|sub.enable|true|Enable, sub"`
	Count  int           `flag:"|sub.count|-3|Count"`
	Big    int64         `flag:"|sub.big|9223372036854775807|Big"`
	Small  uint          `flag:"|sub.small|0|Small"`
	ID64   uint64        `flag:"|sub.id|0x10|ID"`
	Name   string        `flag:"|sub.name|a,b|Name with | pipe"`
	Rate   float64       `flag:"|sub.rate|1e-3|Rate"`
	Wait   time.Duration `flag:"|sub.wait||Wait"`
	Key    []byte        `flag:"|sub.key||Key"`
	Deep   c09Deep
}

type c09A struct {
	Debug      bool          `flag:"debug,false,Enable debug"`
	Port       int           `flag:"port,8080,Listen port"`
	MaxSize    int64         `flag:"max-size,-1,Max size"`
	Workers    uint          `flag:"workers,4,Workers"`
	Limit      uint64        `flag:"limit,18446744073709551615,Limit"`
	ListenAddr string        `flag:"l,:80,Listen addr, with comma"`
	Ratio      float64       `flag:"ratio,0.5,Ratio"`
	Timeout    time.Duration `flag:"timeout,1m30s,Timeout"`
	Secret     []byte        `flag:"secret,c2VjcmV0,Secret"`
	hidden     int
	Sub        c09Sub
}

// ---- struct type B: no tags (lowercase names, empty defaults), acronyms in names
type c09BInner struct {
	URLPath string
	Retry2x int
}

type c09B struct {
	Verbose   bool
	Level     int
	Offset    int64
	Cap       uint
	Mask      uint64
	HTTPProxy string
	Scale     float64
	Grace     time.Duration
	Blob      []byte
	TLS       c09BInner
}

// ---- struct type C: tags with an empty name and a default, a lone separator, extra separators in the usage,
// an embedded struct, json tags (renamed keys, "-")
type C09Embedded struct {
	Inherited int    `flag:",33,"`
	Shade     string `flag:"||def|" json:"shade_json"`
}

type c09C struct {
	C09Embedded
	MaxConn uint          `flag:"|"`
	Label   string        `flag:"a,b,c,d" json:"lbl"`
	Note    []byte        `flag:"|note|bm90ZQ==|us|age|" json:"note,omitempty"`
	Pct     float64       `json:"pct" flag:"pct,12.5"`
	Quiet   bool          `flag:",true"`
	Span    time.Duration `flag:"|span|" json:"-"`
	I       int64         `flag:"|i64c|-9"`
	U       uint64        `flag:"u64c"`
}

// ---- struct types D1, D2, D3: ONE named block type reached at three different field paths (process-global
// per-type caches must not leak the first path's env names into the others)
type C09Block struct {
	Host string `flag:"host,localhost,block host"`
	Port int    `flag:"port,5432"`
	TLS  bool
	Key  []byte        `flag:"key"`
	Wait time.Duration `flag:"wait,2s"`
}

type c09D1 struct {
	Primary C09Block
}

type c09D2 struct {
	Extra   uint64 `flag:"extra,9"`
	Replica C09Block
}

type c09Wrap struct {
	Inner C09Block
}

type c09D3 struct {
	Outer c09Wrap
	Ratio float64 `flag:"ratio3"`
}

func c09BlockFields(path, env string) []c09Field {
	return []c09Field{
		{"string", "host", path + ".Host", env + "_HOST", "localhost", ""},
		{"int", "port", path + ".Port", env + "_PORT", "5432", ""},
		{"bool", "tls", path + ".TLS", env + "_TLS", "", ""},
		{"bytes", "key", path + ".Key", env + "_KEY", "", ""},
		{"duration", "wait", path + ".Wait", env + "_WAIT", "2s", ""},
	}
}

var c09FieldsD1 = c09BlockFields("Primary", "CFG_PRIMARY")
var c09FieldsD2 = append([]c09Field{{"uint64", "extra", "Extra", "CFG_EXTRA", "9", ""}}, c09BlockFields("Replica", "CFG_REPLICA")...)
var c09FieldsD3 = append(c09BlockFields("Outer.Inner", "CFG_OUTER_INNER"), c09Field{"float64", "ratio3", "Ratio", "CFG_RATIO", "", ""})

var c09Makers = []func() any{
	func() any { return &c09A{} }, func() any { return &c09B{} }, func() any { return &c09C{} },
	func() any { return &c09D1{} }, func() any { return &c09D2{} }, func() any { return &c09D3{} },
}

// c09Prefill makes every field of the struct non-zero (a live config that is parsed again, a pre-filled literal):
// NewFlagSet must reset every field to its tag default ("" = zero value).
func c09Prefill(v reflect.Value) {
	for i := 0; i < v.NumField(); i++ {
		f := v.Field(i)
		if !f.CanSet() {
			continue
		}
		switch f.Kind() {
		case reflect.Struct:
			c09Prefill(f)
		case reflect.Bool:
			f.SetBool(true)
		case reflect.Int, reflect.Int64:
			f.SetInt(-77)
		case reflect.Uint, reflect.Uint64:
			f.SetUint(77)
		case reflect.String:
			f.SetString("STALE")
		case reflect.Float64:
			f.SetFloat(7.75)
		case reflect.Slice:
			f.SetBytes([]byte("STALE"))
		}
	}
}

type c09Field struct {
	kind, name, goPath, env, def string
	jsonPath                     string // key path in the JSON document when it differs from goPath; "-" = not settable by JSON
}

// written by hand from the documentation: flag name, tag default, env name = CFG_ + group path + field name in upper snake case
var c09FieldsA = []c09Field{
	{"bool", "debug", "Debug", "CFG_DEBUG", "false", ""},
	{"int", "port", "Port", "CFG_PORT", "8080", ""},
	{"int64", "max-size", "MaxSize", "CFG_MAX_SIZE", "-1", ""},
	{"uint", "workers", "Workers", "CFG_WORKERS", "4", ""},
	{"uint64", "limit", "Limit", "CFG_LIMIT", "18446744073709551615", ""},
	{"string", "l", "ListenAddr", "CFG_LISTEN_ADDR", ":80", ""},
	{"float64", "ratio", "Ratio", "CFG_RATIO", "0.5", ""},
	{"duration", "timeout", "Timeout", "CFG_TIMEOUT", "1m30s", ""},
	{"bytes", "secret", "Secret", "CFG_SECRET", "c2VjcmV0", ""},
	{"bool", "sub.enable", "Sub.Enable", "CFG_SUB_ENABLE", "true", ""},
	{"int", "sub.count", "Sub.Count", "CFG_SUB_COUNT", "-3", ""},
	{"int64", "sub.big", "Sub.Big", "CFG_SUB_BIG", "9223372036854775807", ""},
	{"uint", "sub.small", "Sub.Small", "CFG_SUB_SMALL", "0", ""},
	{"uint64", "sub.id", "Sub.ID64", "CFG_SUB_ID64", "0x10", ""},
	{"string", "sub.name", "Sub.Name", "CFG_SUB_NAME", "a,b", ""},
	{"float64", "sub.rate", "Sub.Rate", "CFG_SUB_RATE", "1e-3", ""},
	{"duration", "sub.wait", "Sub.Wait", "CFG_SUB_WAIT", "", ""},
	{"bytes", "sub.key", "Sub.Key", "CFG_SUB_KEY", "", ""},
	{"bool", "deep-on", "Sub.Deep.On", "CFG_SUB_DEEP_ON", "", ""},
	{"int", "n", "Sub.Deep.N", "CFG_SUB_DEEP_N", "", ""},
	{"int64", "i64", "Sub.Deep.I64", "CFG_SUB_DEEP_I64", "0x7f", ""},
	{"uint", "u", "Sub.Deep.U", "CFG_SUB_DEEP_U", "007", ""},
	{"uint64", "u64", "Sub.Deep.U64", "CFG_SUB_DEEP_U64", "", ""},
	{"string", "http-host", "Sub.Deep.HTTPHost", "CFG_SUB_DEEP_HTTP_HOST", "localhost", ""},
	{"float64", "f", "Sub.Deep.F", "CFG_SUB_DEEP_F", "-2.5e10", ""},
	{"duration", "d", "Sub.Deep.D", "CFG_SUB_DEEP_D", "1h", ""},
	{"bytes", "b64", "Sub.Deep.B", "CFG_SUB_DEEP_B", "AAEC", ""},
}

var c09FieldsB = []c09Field{
	{"bool", "verbose", "Verbose", "CFG_VERBOSE", "", ""},
	{"int", "level", "Level", "CFG_LEVEL", "", ""},
	{"int64", "offset", "Offset", "CFG_OFFSET", "", ""},
	{"uint", "cap", "Cap", "CFG_CAP", "", ""},
	{"uint64", "mask", "Mask", "CFG_MASK", "", ""},
	{"string", "httpproxy", "HTTPProxy", "CFG_HTTP_PROXY", "", ""},
	{"float64", "scale", "Scale", "CFG_SCALE", "", ""},
	{"duration", "grace", "Grace", "CFG_GRACE", "", ""},
	{"bytes", "blob", "Blob", "CFG_BLOB", "", ""},
	{"string", "urlpath", "TLS.URLPath", "CFG_TLS_URL_PATH", "", ""},
	{"int", "retry2x", "TLS.Retry2x", "CFG_TLS_RETRY2X", "", ""},
}

var c09FieldsC = []c09Field{
	{"int", "inherited", "C09Embedded.Inherited", "CFG_C09_EMBEDDED_INHERITED", "33", "Inherited"},
	{"string", "shade", "C09Embedded.Shade", "CFG_C09_EMBEDDED_SHADE", "def", "shade_json"},
	{"uint", "maxconn", "MaxConn", "CFG_MAX_CONN", "", ""},
	{"string", "a", "Label", "CFG_LABEL", "b", "lbl"},
	{"bytes", "note", "Note", "CFG_NOTE", "bm90ZQ==", "note"},
	{"float64", "pct", "Pct", "CFG_PCT", "12.5", "pct"},
	{"bool", "quiet", "Quiet", "CFG_QUIET", "true", ""},
	{"duration", "span", "Span", "CFG_SPAN", "", "-"},
	{"int64", "i64c", "I", "CFG_I", "-9", ""},
	{"uint64", "u64c", "U", "CFG_U", "", ""},
}

// ---- the documented meaning of a value text: "" = zero value, else the kind's standard-library parser
func c09Parse(kind, s string) (canon string, ok bool) {
	switch kind {
	case "bool":
		if s == "" {
			return "false", true
		}
		v, err := strconv.ParseBool(s)
		return strconv.FormatBool(v), err == nil
	case "int", "int64":
		if s == "" {
			return "0", true
		}
		bits := 64
		if kind == "int" {
			bits = strconv.IntSize
		}
		v, err := strconv.ParseInt(s, 0, bits)
		return strconv.FormatInt(v, 10), err == nil
	case "uint", "uint64":
		if s == "" {
			return "0", true
		}
		bits := 64
		if kind == "uint" {
			bits = strconv.IntSize
		}
		v, err := strconv.ParseUint(s, 0, bits)
		return strconv.FormatUint(v, 10), err == nil
	case "string":
		return s, true
	case "float64":
		if s == "" {
			return "0", true
		}
		v, err := strconv.ParseFloat(s, 64)
		return strconv.FormatFloat(v, 'g', -1, 64), err == nil
	case "duration":
		if s == "" {
			return "0", true
		}
		v, err := time.ParseDuration(s)
		return strconv.FormatInt(int64(v), 10), err == nil
	case "bytes":
		if s == "" {
			return "", true
		}
		v, err := base64.StdEncoding.DecodeString(s)
		return string(v), err == nil
	}
	panic("kind " + kind)
}

// the text Value.String() prints for a canonical value (what Flag.DefValue holds)
func c09String(kind, canon string) string {
	switch kind {
	case "duration":
		n, _ := strconv.ParseInt(canon, 10, 64)
		return time.Duration(n).String()
	case "bytes":
		return base64.StdEncoding.EncodeToString([]byte(canon))
	}
	return canon
}

var c09Valid = map[string][]string{
	"bool":     {"true", "false", "1", "0", "t", "f", "T", "F", "TRUE", "FALSE", "True", "False"},
	"int":      {"0", "7", "-7", "+7", "0x1F", "-0x20", "0b101", "0o17", "017", "9223372036854775807", "-9223372036854775808", "42", "8080", "1_000", "-3"},
	"int64":    {"0", "7", "-7", "+7", "0X1f", "-0x8000000000000000", "0B101", "0O17", "017", "9223372036854775807", "-9223372036854775808", "-1", "127", "0x_7f"},
	"uint":     {"0", "7", "0xff", "18446744073709551615", "0b11", "0o7", "010", "4", "1_0", "007"},
	"uint64":   {"0", "7", "0xFFFFFFFFFFFFFFFF", "18446744073709551615", "0b11", "0o7", "010", "16", "0x10", "1_6"},
	"string":   {"x", "a,b", ":80", "hello world", "ünïcödé", "-dash", "a=b", "\"quoted\"", "{\"json\":1}", "localhost", "--", "\\back\\slash", "tab\tnl\n"},
	"float64":  {"0.5", "1", "-2.5e10", "1e-3", "3.141592653589793", "1e308", "-0", "1e6", "0x1p-2", "0.001", "123456789.125", "5e-324"},
	"duration": {"1s", "1m30s", "1h", "-5m", "100ms", "0", "1h2m3s4ms5us6ns", "2562047h47m16s854ms775us807ns", "1.5s", "+3us", "1µs", "90s", "-9223372036854775808ns"},
	"bytes":    {"c2VjcmV0", "AAEC", "QQ==", "QUI=", "QUJD", "/+8=", "aGVsbG8gd29ybGQ=", "QUJD\nREVG", "QR=="},
}

var c09Invalid = map[string][]string{
	"bool":     {"yes", "2", "tRUE"},
	"int":      {"zz", "1.5", "9223372036854775808", "0x", "-"},
	"int64":    {"zz", "1e3", "-9223372036854775809", " 1"},
	"uint":     {"-1", "zz", "18446744073709551616"},
	"uint64":   {"-1", "+1", "0x10000000000000000"},
	"string":   {},
	"float64":  {"zz", "1e", "0x1"},
	"duration": {"5", "1d", "s", "9223372036854775808ns"},
	"bytes":    {"!!!!", "QQ=", "QQ", "QQ==Q"},
}

var c09CliOnly = map[string][]string{ // not representable in JSON (or not as an env value)
	"string":  {"\xff\xfe", "\xc3"},
	"float64": {"inf", "NaN", "-Inf", "1e400x"},
}

type c09Choice struct {
	cli    []string // texts given on the command line for this field, in order (last wins); nil = not mentioned
	env    *string
	jfile  *string // canonical value assigned by the file, nil = not mentioned
	jb64   *string
	oracle map[string]string // text -> canon, "!" for error
	// the carrier writes JSON null for this field: json.Unmarshal leaves the field alone (= not mentioned),
	// except for []byte, where null assigns nil (= mentioned with the empty value)
	nullFile, nullB64 bool
}

type c09Gen struct {
	r            *hk.Rng
	allowInvalid bool // this case may offer unparsable texts (Parse fails when one of them wins)
	nulls        int  // percentage of not-mentioned fields written as JSON null
}

func (g *c09Gen) text(f c09Field, forJSON bool) string {
	r := g.r
	p := r.Intn(100)
	switch {
	case p < 12: // the default's own tag text
		if _, ok := c09Parse(f.kind, f.def); ok && (!forJSON || f.def != "") {
			return f.def
		}
	case p < 24: // the default's canonical text (Flag.DefValue)
		if c, ok := c09Parse(f.kind, f.def); ok {
			return c09String(f.kind, c)
		}
	case p < 34 && !forJSON:
		return ""
	case p < 39 && !forJSON && g.allowInvalid:
		if l := c09Invalid[f.kind]; len(l) > 0 {
			return l[r.Intn(len(l))]
		}
	case p < 44 && !forJSON:
		if l := c09CliOnly[f.kind]; len(l) > 0 {
			return l[r.Intn(len(l))]
		}
	}
	l := c09Valid[f.kind]
	return l[r.Intn(len(l))]
}

// a JSON-assignable canonical value for the field
func (g *c09Gen) jsonCanon(f c09Field) string {
	if (f.kind == "string" || f.kind == "bytes") && g.r.Chance(20) {
		return "" // JSON "" for a string / []byte field (also when the tag default is non-empty)
	}
	for {
		t := g.text(f, true)
		c, ok := c09Parse(f.kind, t)
		if !ok {
			continue
		}
		if f.kind == "string" && !utf8.ValidString(c) {
			continue
		}
		return c
	}
}

func c09JSONValue(kind, canon string) any {
	switch kind {
	case "bool":
		return canon == "true"
	case "string":
		return canon
	case "bytes":
		return []byte(canon)
	}
	return json.Number(canon)
}

func c09SetPath(m map[string]any, goPath string, v any) {
	parts := strings.Split(goPath, ".")
	for _, p := range parts[:len(parts)-1] {
		sub, ok := m[p].(map[string]any)
		if !ok {
			sub = map[string]any{}
			m[p] = sub
		}
		m = sub
	}
	m[parts[len(parts)-1]] = v
}

func c09StructField(v reflect.Value, goPath string) (sf reflect.StructField, fv reflect.Value) {
	for _, p := range strings.Split(goPath, ".") {
		sf, _ = v.Type().FieldByName(p)
		v = v.FieldByName(p)
	}
	return sf, v
}

var c09Probes = map[string][2]string{
	"bool": {"true", "false"}, "int": {"123", "124"}, "int64": {"-123", "-124"}, "uint": {"123", "124"}, "uint64": {"125", "126"},
	"string": {"probe-a", "probe-b"}, "float64": {"1.25", "2.5"}, "duration": {"3s", "4s"}, "bytes": {"cHJvYmU=", "QUI="},
}

// c09Bindings tests behaviourally, on a throw-away instance of the case's struct type, that the flag named f.name is
// bound to the field f.goPath: Lookup(name).Value.Set(probe) changes that field to the probe's value and no other field.
// (Nothing in the public API pins the representation of Flag.Value, so pointer identity is not compared.)
func c09Bindings(c *c09Case) (bound []bool) {
	bound = make([]bool, len(c.fields))
	defer func() { recover() }()
	ptr := c09Makers[c.typ]()
	fs, err := config.NewFlagSet(ptr)
	if err != nil {
		return bound
	}
	val := reflect.ValueOf(ptr).Elem()
	snap := make([]string, len(c.fields))
	for i, f := range c.fields {
		snap[i] = c09Canon(val, f.goPath)
	}
	for i, f := range c.fields {
		fl := fs.Lookup(f.name)
		if fl == nil || fl.Value == nil {
			continue
		}
		pr := c09Probes[f.kind]
		probe := pr[0]
		want, _ := c09Parse(f.kind, probe)
		if want == snap[i] {
			probe = pr[1]
			want, _ = c09Parse(f.kind, probe)
		}
		func() {
			defer func() { recover() }()
			if fl.Value.Set(probe) != nil {
				return
			}
			ok := true
			for j, g := range c.fields {
				now := c09Canon(val, g.goPath)
				if j == i {
					ok = ok && now == want
				} else {
					ok = ok && now == snap[j]
				}
				snap[j] = now
			}
			bound[i] = ok
		}()
	}
	return bound
}

func c09Canon(v reflect.Value, goPath string) string {
	for _, p := range strings.Split(goPath, ".") {
		v = v.FieldByName(p)
	}
	switch x := v.Interface().(type) {
	case bool:
		return strconv.FormatBool(x)
	case int:
		return strconv.Itoa(x)
	case int64:
		return strconv.FormatInt(x, 10)
	case uint:
		return strconv.FormatUint(uint64(x), 10)
	case uint64:
		return strconv.FormatUint(x, 10)
	case string:
		return x
	case float64:
		return strconv.FormatFloat(x, 'g', -1, 64)
	case time.Duration:
		return strconv.FormatInt(int64(x), 10)
	case []byte:
		return string(x)
	}
	panic("type of " + goPath)
}

func joinHex(l []string) string {
	if len(l) == 0 {
		return "."
	}
	p := make([]string, len(l))
	for i, s := range l {
		p[i] = hk.Hxs(s)
	}
	return strings.Join(p, ",")
}

func optHex(p *string) string {
	if p == nil {
		return "~"
	}
	return hk.Hxs(*p)
}

var c09EnvMu sync.Mutex

type c09Case struct {
	failTail []string // tokens placed right after the flags that make argParse fail (histories: fail, then retry)
	typ      int      // index into c09Makers: A, B, C, D1, D2, D3
	prefill  bool // the struct handed to NewFlagSet is not all-zero
	help     []string // occurrences of the built-in -help on the command line
	fields   []c09Field
	ch       []c09Choice
	useFile  bool // -config=<file> on the command line
	fileGone bool // ... but the file does not exist
	useB64   bool // CFG_CONFIG_B64 set
	decoy    bool // CFG_CONFIG=<decoy file>, CFG_HELP=true: must be ignored
	tail     []string
	cfgSpell int
	// how the -config path is spelled: 0 absolute; 1..3 "~/cfg.json" with HOME = one of three different directories (each
	// holding its own cfg.json); 4 "~/cfg.json" with HOME unset, 5 with HOME="" (no home directory: Parse must fail);
	// 6 relative to the working directory
	cfgHome int
}

// c09Session: one struct + FlagSet that receives several Parse calls
type c09Session struct {
	ptr    any
	fs     *config.FlagSet
	inits  []string
	callno int
	prev   []string // canonical field values after the previous call
}

// run one case against the real code; returns the case line fields and whether Parse succeeded / panicked
func c09Run(e *hk.Env, g *c09Gen, c *c09Case, dir string, sess *c09Session) (line []string, ok bool, note string) {
	r := g.r
	// command line: one group of tokens per assignment, groups in random order (per field order kept)
	type grp struct {
		toks []string
		fi   int
	}
	var groups []grp
	for i, f := range c.fields {
		for _, t := range c.ch[i].cli {
			dash := "-"
			if r.Bool() {
				dash = "--"
			}
			switch {
			case f.kind == "bool" && t == "true" && r.Chance(50):
				groups = append(groups, grp{[]string{dash + f.name}, i})
			case f.kind == "bool" || r.Bool():
				groups = append(groups, grp{[]string{dash + f.name + "=" + t}, i})
			default:
				groups = append(groups, grp{[]string{dash + f.name, t}, i})
			}
		}
	}
	for _, h := range c.help {
		groups = append(groups, grp{[]string{h}, -2})
	}
	cfgPath := filepath.Join(dir, "cfg.json") // where the file is written
	cliPath := cfgPath                         // how the command line names it
	switch {
	case c.cfgHome >= 1 && c.cfgHome <= 3:
		cfgPath = filepath.Join(dir, "home"+strconv.Itoa(c.cfgHome), "cfg.json")
		cliPath = "~/cfg.json"
	case c.cfgHome == 4 || c.cfgHome == 5:
		cliPath = "~/cfg.json"
	case c.cfgHome == 6:
		if cwd, err := os.Getwd(); err == nil {
			if rel, err := filepath.Rel(cwd, cfgPath); err == nil {
				cliPath = rel
			}
		}
	}
	if c.useFile {
		sp := [][]string{{"-config=" + cliPath}, {"--config=" + cliPath}, {"-config", cliPath}, {"--config", cliPath}}[c.cfgSpell%4]
		groups = append(groups, grp{sp, -1})
	}
	nGroupsShuffled := len(groups)
	_ = nGroupsShuffled
	// shuffle keeping the relative order of the groups of one field
	for i := len(groups) - 1; i > 0; i-- {
		j := r.Intn(i + 1)
		if groups[i].fi != groups[j].fi {
			same := false
			lo, hi := j, i
			for k := lo; k <= hi; k++ {
				if k != i && k != j && (groups[k].fi == groups[i].fi || groups[k].fi == groups[j].fi) {
					same = true
				}
			}
			if !same {
				groups[i], groups[j] = groups[j], groups[i]
			}
		}
	}
	var vec []string
	for _, gr := range groups {
		vec = append(vec, gr.toks...)
	}
	vec = append(vec, c.failTail...) // still among the flags: makes argParse fail after the mentions in front of it
	vec = append(vec, c.tail...)

	// JSON carriers
	mkJSON := func(sel func(c09Choice) *string, isNull func(c09Choice) bool) []byte {
		m := map[string]any{}
		for i, f := range c.fields {
			jp := f.jsonPath
			if jp == "" {
				jp = f.goPath
			}
			if jp == "-" {
				continue
			}
			if isNull(c.ch[i]) {
				c09SetPath(m, jp, nil)
			} else if p := sel(c.ch[i]); p != nil {
				c09SetPath(m, jp, c09JSONValue(f.kind, *p))
			}
		}
		b, err := json.Marshal(m)
		if err != nil {
			panic(err)
		}
		return b
	}
	os.Remove(cfgPath)
	if c.useFile && !c.fileGone {
		if err := os.WriteFile(cfgPath, mkJSON(func(x c09Choice) *string { return x.jfile }, func(x c09Choice) bool { return x.nullFile }), 0o644); err != nil {
			panic(err)
		}
	}

	c09EnvMu.Lock()
	defer c09EnvMu.Unlock()
	var setVars []string
	setenv := func(k, v string) {
		if err := os.Setenv(k, v); err != nil {
			panic(err)
		}
		setVars = append(setVars, k)
	}
	origHome, hadHome := os.LookupEnv("HOME")
	defer func() {
		for _, k := range setVars {
			os.Unsetenv(k)
		}
		if hadHome {
			os.Setenv("HOME", origHome)
		} else {
			os.Unsetenv("HOME")
		}
	}()
	if c.useFile {
		switch {
		case c.cfgHome >= 1 && c.cfgHome <= 3:
			os.Setenv("HOME", filepath.Join(dir, "home"+strconv.Itoa(c.cfgHome)))
		case c.cfgHome == 4:
			os.Unsetenv("HOME")
		case c.cfgHome == 5:
			os.Setenv("HOME", "")
		}
	}
	for i, f := range c.fields {
		if c.ch[i].env != nil {
			setenv(f.env, *c.ch[i].env)
		}
	}
	if c.useB64 {
		setenv("CFG_CONFIG_B64", base64.StdEncoding.EncodeToString(mkJSON(func(x c09Choice) *string { return x.jb64 }, func(x c09Choice) bool { return x.nullB64 })))
	}
	if c.decoy {
		setenv("CFG_CONFIG", filepath.Join(dir, "decoy"+string(rune('A'+c.typ))+".json"))
		setenv("CFG_HELP", "true")
	}

	if sess == nil {
		sess = &c09Session{}
	}
	if sess.ptr == nil {
		sess.ptr = c09Makers[c.typ]()
		if c.prefill {
			c09Prefill(reflect.ValueOf(sess.ptr).Elem())
		}
		sess.inits = make([]string, len(c.fields))
	}
	ptr := sess.ptr
	val := reflect.ValueOf(ptr).Elem()
	inits := sess.inits
	var fs *config.FlagSet
	var perr error
	panicked := ""
	func() {
		defer func() {
			if rec := recover(); rec != nil {
				panicked = fmt.Sprint(rec)
			}
		}()
		if sess.fs == nil && sess.callno == 0 {
			f0, err := config.NewFlagSet(ptr)
			if err != nil {
				perr = fmt.Errorf("NewFlagSet: %w", err)
				return
			}
			sess.fs = f0
			for i, f := range c.fields {
				inits[i] = c09Canon(val, f.goPath)
			}
		}
		fs = sess.fs
		if fs == nil {
			perr = fmt.Errorf("NewFlagSet failed earlier")
			return
		}
		perr = fs.Parse(append([]string(nil), vec...))
	}()
	callno := sess.callno
	sess.callno++
	now := make([]string, len(c.fields))
	for i, f := range c.fields {
		now[i] = c09Canon(val, f.goPath)
	}
	unchanged := "1"
	if callno > 0 {
		for i := range now {
			if now[i] != sess.prev[i] {
				unchanged = "0"
			}
		}
	}
	sess.prev = now
	if panicked != "" {
		return nil, false, "PANIC " + panicked
	}
	ok = perr == nil
	if !ok {
		note = perr.Error()
	}
	rest := "."
	if ok {
		rest = joinHex(fs.Args())
	}
	cf := "~"
	if c.useFile {
		cf = hk.Hxs(cliPath) // the world maps (HOME, working directory, path as spelled) to the file's content
	}
	help := "~"
	if ok {
		help = map[bool]string{false: "0", true: "1"}[fs.ShowUsage()]
	}
	line = []string{"E", strconv.Itoa(strconv.IntSize), strconv.Itoa(callno), unchanged, joinHex(vec), cf, map[bool]string{false: "0", true: "1"}[c.useB64], map[bool]string{false: "0", true: "1"}[ok], rest, help, strconv.Itoa(len(c.fields))}
	if c.useFile && (c.fileGone || c.cfgHome == 4 || c.cfgHome == 5) {
		line[5] = hk.Hxs(cliPath + ".missing") // the model's file oracle knows no such file
		// (the command line carries cfgPath, which does not exist either)
	}
	bounds := c09Bindings(c)
	for i, f := range c.fields {
		envobs, usage, bound := "", "", "0"
		sf, _ := c09StructField(val, f.goPath)
		if fs != nil {
			if fl := fs.Lookup(f.name); fl != nil {
				envobs, usage = fl.Env, fl.Usage
				if bounds[i] {
					bound = "1"
				}
			}
		}
		parts := strings.Split(f.goPath, ".")
		group := ""
		for _, p := range parts[:len(parts)-1] {
			group += p + "_"
		}
		final := "~"
		if ok {
			final = hk.Hxs(c09Canon(val, f.goPath))
		}
		var pairs []string
		for t, cn := range c.ch[i].oracle {
			if cn == "!" {
				pairs = append(pairs, hk.Hxs(t)+":!")
			} else {
				pairs = append(pairs, hk.Hxs(t)+":"+hk.Hxs(cn))
			}
		}
		// deterministic order
		for a := 1; a < len(pairs); a++ {
			for b := a; b > 0 && pairs[b] < pairs[b-1]; b-- {
				pairs[b], pairs[b-1] = pairs[b-1], pairs[b]
			}
		}
		or := "."
		if len(pairs) > 0 {
			or = strings.Join(pairs, ",")
		}
		jf, jb := "~", "~"
		if c.useFile && !c.fileGone && c.cfgHome != 4 && c.cfgHome != 5 {
			jf = optHex(c.ch[i].jfile)
		}
		if c.useB64 {
			jb = optHex(c.ch[i].jb64)
		}
		line = append(line, f.kind, hk.Hxs(group), hk.Hxs(sf.Name), hk.Hxs(sf.Tag.Get("flag")), hk.Hxs(f.name), hk.Hxs(f.def), bound,
			hk.Hxs(usage), hk.Hxs(inits[i]), hk.Hxs(f.env), hk.Hxs(envobs), optHex(c.ch[i].env), jf, jb, final, or)
	}
	return line, ok, note
}

func (g *c09Gen) choose(f c09Field, cli, env, jfile, jb64 bool) c09Choice {
	r := g.r
	if f.jsonPath == "-" { // json:"-": no JSON document can mention the field
		jfile, jb64 = false, false
	}
	ch := c09Choice{oracle: map[string]string{}}
	offer := func(t string) {
		c, ok := c09Parse(f.kind, t)
		if !ok {
			c = "!"
		}
		ch.oracle[t] = c
	}
	offer(f.def)
	if cli {
		if r.Chance(12) { // repeated flag: the last occurrence wins
			t := g.text(f, false)
			ch.cli = append(ch.cli, t)
			offer(t)
		}
		t := g.text(f, false)
		ch.cli = append(ch.cli, t)
		offer(t)
	}
	if env {
		t := g.text(f, false)
		if strings.ContainsRune(t, 0) {
			t = "x"
		}
		ch.env = &t
		offer(t)
	}
	empty := ""
	if jfile {
		c := g.jsonCanon(f)
		ch.jfile = &c
	} else if f.jsonPath != "-" && r.Intn(100) < g.nulls {
		ch.nullFile = true
		if f.kind == "bytes" {
			ch.jfile = &empty
		}
	}
	if jb64 {
		c := g.jsonCanon(f)
		ch.jb64 = &c
	} else if f.jsonPath != "-" && r.Intn(100) < g.nulls {
		ch.nullB64 = true
		if f.kind == "bytes" {
			ch.jb64 = &empty
		}
	}
	return ch
}

func runC09(e *hk.Env) error {
	for _, kv := range os.Environ() {
		if strings.HasPrefix(kv, "CFG_") {
			os.Unsetenv(kv[:strings.IndexByte(kv, '=')])
		}
	}
	base := os.Getenv("VERIF_DIR")
	if base == "" {
		base = "/verif"
	}
	os.MkdirAll(filepath.Join(base, ".build"), 0o755)
	dir, err := os.MkdirTemp(filepath.Join(base, ".build"), "c09-")
	if err != nil {
		return err
	}
	defer os.RemoveAll(dir)
	for k := 1; k <= 3; k++ {
		os.MkdirAll(filepath.Join(dir, "home"+strconv.Itoa(k)), 0o755)
	}
	g := &c09Gen{r: e.Rng.Fork()}
	r := g.r

	// decoy files: what a Parse that took the config path from the environment would read
	allFields := [][]c09Field{c09FieldsA, c09FieldsB, c09FieldsC, c09FieldsD1, c09FieldsD2, c09FieldsD3}
	for ti, fields := range allFields {
		m := map[string]any{}
		for _, f := range fields {
			jp := f.jsonPath
			if jp == "" {
				jp = f.goPath
			}
			if jp == "-" {
				continue
			}
			decoy := map[string]string{"bool": "true", "int": "-999", "int64": "-999", "uint": "999", "uint64": "999", "string": "DECOY",
				"float64": "-999.5", "duration": "999", "bytes": "DECOY"}[f.kind]
			if f.def == "true" {
				decoy = "false"
			}
			c09SetPath(m, jp, c09JSONValue(f.kind, decoy))
		}
		b, _ := json.Marshal(m)
		os.WriteFile(filepath.Join(dir, "decoy"+string(rune('A'+ti))+".json"), b, 0o644)
	}

	total, okCount, errCount := 0, 0, 0
	comboHist := map[string]int{}
	kindCombo := map[string]map[string]int{}
	carrierHist := map[string]int{}
	spellHist := map[string]int{}
	distinct := map[string]struct{}{}
	prefilled := 0
	var sess *c09Session
	secondNil, secondRefused := 0, 0
	emit := func(c *c09Case) {
		line, ok, note := c09Run(e, g, c, dir, sess)
		total++
		if sess != nil && sess.callno > 1 {
			if ok {
				secondNil++
			} else {
				secondRefused++
			}
		}
		if c.prefill {
			prefilled++
		}
		if line == nil {
			e.Case("VIOL", "C09", "panic", hk.Hxs(note))
			return
		}
		if ok {
			okCount++
		} else {
			errCount++
		}
		car := "none"
		switch {
		case c.useFile && c.fileGone:
			car = "file-missing"
		case c.useFile && c.useB64:
			car = "file+b64"
		case c.useFile:
			car = "file"
		case c.useB64:
			car = "b64"
		}
		if c.decoy {
			car += "+decoy"
		}
		carrierHist[car]++
		if c.useFile {
			spellHist[[]string{"absolute", "~/ HOME=home1", "~/ HOME=home2", "~/ HOME=home3", "~/ HOME unset", "~/ HOME empty", "relative"}[c.cfgHome]]++
		}
		for i, f := range c.fields {
			combo := ""
			for _, b := range []bool{c.ch[i].cli != nil, c.ch[i].env != nil,
				(c.useFile && !c.fileGone && c.ch[i].jfile != nil) || (!c.useFile && c.useB64 && c.ch[i].jb64 != nil), f.def != ""} {
				if b {
					combo += "1"
				} else {
					combo += "0"
				}
			}
			comboHist[combo]++
			if kindCombo[f.kind] == nil {
				kindCombo[f.kind] = map[string]int{}
			}
			kindCombo[f.kind][combo]++
		}
		distinct[strings.Join(line, " ")] = struct{}{}
		e.Case(line...)
		if total%397 == 3 {
			e.Sample("samples", map[string]any{"vector": strings.Join(line[1:2], ""), "carrier": car, "ok": ok, "error": note, "fields": len(c.fields)}, 6)
		}
	}

	mk := func(typ int) *c09Case {
		g.allowInvalid = r.Chance(12)
		c := &c09Case{typ: typ, fields: allFields[typ], prefill: r.Chance(40)}
		if r.Chance(25) {
			c.help = [][]string{{"-help"}, {"--help=false"}, {"-help=1"}, {"-help="}, {"-help", "--help=0"}, {"--help=F", "-help"}}[r.Intn(6)]
		}
		g.nulls = 0
		if r.Chance(40) {
			g.nulls = 30
		}
		return c
	}
	carriers := func(c *c09Case, k int) {
		switch k % 4 {
		case 0:
			c.useFile = true
		case 1:
			c.useB64 = true
		case 2:
			c.useFile, c.useB64 = true, true
		}
		c.cfgSpell = r.Intn(4)
		if c.useFile && r.Chance(45) {
			c.cfgHome = []int{1, 2, 3, 1, 2, 3, 1, 2, 3, 4, 5, 6, 6}[r.Intn(13)]
		}
		c.decoy = r.Chance(50)
		if r.Chance(30) {
			c.tail = [][]string{{"rest"}, {"--", "-port=1"}, {"-"}, {"--"}}[r.Intn(4)]
		}
	}
	randomOthers := func(c *c09Case, target int, density int) {
		for i, f := range c.fields {
			if i == target {
				continue
			}
			c.ch[i] = g.choose(f, r.Chance(density), r.Chance(density), r.Chance(density), r.Chance(density))
		}
	}

	// (1) enumerated: every field of both types x every combination of (cli, env, json) x carriers x rounds
	rounds := 2
	nRandom := 1200
	if e.Thorough() {
		rounds, nRandom = 12, 40000
	}
	// the struct types in a seeded order: FlagSets of types sharing a nested block type are built in varying order
	order := []int{0, 1, 2, 3, 4, 5}
	for i := len(order) - 1; i > 0; i-- {
		j := r.Intn(i + 1)
		order[i], order[j] = order[j], order[i]
	}
	e.Stats["type_order"] = order
	for _, tb := range order {
		nf := len(allFields[tb])
		for fi := 0; fi < nf; fi++ {
			for combo := 0; combo < 8; combo++ {
				for car := 0; car < 4; car++ {
					if (combo&4 != 0) != (car != 3) && !(combo&4 == 0 && car == 1) {
						// JSON mentions the field only when a carrier exists; without JSON mention keep "none" and one carrier case
						continue
					}
					for round := 0; round < rounds; round++ {
						c := mk(tb)
						carriers(c, car)
						c.ch = make([]c09Choice, nf)
						f := c.fields[fi]
						c.ch[fi] = g.choose(f, combo&1 != 0, combo&2 != 0, combo&4 != 0 && c.useFile, combo&4 != 0 && c.useB64)
						if combo&4 != 0 && c.useFile && c.useB64 && round%2 == 1 {
							c.ch[fi].jfile = nil // the file does not mention it although CFG_CONFIG_B64 does: the file is the JSON source
						}
						if round == 0 {
							randomOthers(c, fi, 0) // only the target field is mentioned: the smallest failing input comes first
						} else {
							randomOthers(c, fi, 35)
						}
						emit(c)
					}
				}
			}
		}
	}
	e.Stats["enumerated_cases"] = total
	// (2) targeted shapes: env set but empty without cli; cli/env text identical to the default text while JSON says otherwise
	t1 := total
	for tb := 0; tb < len(allFields); tb++ {
		nf := len(allFields[tb])
		for fi := 0; fi < nf; fi++ {
			for car := 0; car < 3; car++ {
				for shape := 0; shape < 5; shape++ {
					c := mk(tb)
					carriers(c, car)
					c.ch = make([]c09Choice, nf)
					f := c.fields[fi]
					ch := g.choose(f, false, false, c.useFile, c.useB64)
					dcanon, _ := c09Parse(f.kind, f.def)
					dtext := c09String(f.kind, dcanon)
					offer := func(t string) {
						cn, ok := c09Parse(f.kind, t)
						if !ok {
							cn = "!"
						}
						ch.oracle[t] = cn
					}
					switch shape {
					case 0: // env set but empty
						s := ""
						ch.env = &s
						offer(s)
					case 1: // cli = the default's canonical text
						ch.cli = []string{dtext}
						offer(dtext)
					case 2: // env = the default's canonical text
						ch.env = &dtext
						offer(dtext)
					case 3: // cli = the tag text of the default
						ch.cli = []string{f.def}
					case 4: // cli explicitly empty
						ch.cli = []string{""}
						offer("")
					}
					// make sure JSON says something else than the default
					for k := 0; k < 20; k++ {
						if ch.jfile != nil && *ch.jfile == dcanon {
							v := g.jsonCanon(f)
							ch.jfile = &v
						}
						if ch.jb64 != nil && *ch.jb64 == dcanon {
							v := g.jsonCanon(f)
							ch.jb64 = &v
						}
					}
					c.ch[fi] = ch
					randomOthers(c, fi, 25)
					emit(c)
				}
			}
		}
	}
	e.Stats["targeted_cases"] = total - t1
	// (3) random across fields
	for i := 0; i < nRandom; i++ {
		c := mk([]int{0, 0, 0, 1, 2, 3, 4, 5, 3, 4, 5}[r.Intn(11)])
		carriers(c, r.Intn(4))
		if c.useFile && r.Chance(4) {
			c.fileGone = true
		}
		c.ch = make([]c09Choice, len(c.fields))
		randomOthers(c, -1, 20+r.Intn(60))
		emit(c)
	}
	e.Stats["random_cases"] = nRandom
	// (4) histories: several Parse calls on ONE FlagSet — a first call that fails after having recorded mentions (undefined
	// flag, missing argument, malformed token, missing -config file, unparsable text) or succeeds, then a second call with
	// its own vector, environment and JSON carriers
	nHist := 500
	if e.Thorough() {
		nHist = 8000
	}
	t2 := total
	for i := 0; i < nHist; i++ {
		typ := []int{0, 0, 1, 2, 3, 4, 5}[r.Intn(7)]
		c1 := mk(typ)
		carriers(c1, r.Intn(4))
		c1.tail = nil
		c1.ch = make([]c09Choice, len(c1.fields))
		switch i % 6 {
		case 1:
			c1.failTail = []string{"-nosuch"}
		case 2:
			for _, f := range c1.fields {
				if f.kind != "bool" {
					c1.failTail = []string{"--" + f.name} // flag needs an argument
				}
			}
		case 3:
			c1.failTail = []string{"---bad"}
		case 4:
			if c1.useFile {
				c1.fileGone = true
			} else {
				c1.failTail = []string{"-nosuch=1"}
			}
		case 5:
			g.allowInvalid = true
		}
		randomOthers(c1, -1, 30+r.Intn(50))
		c2 := mk(typ)
		c2.prefill = c1.prefill
		carriers(c2, r.Intn(4))
		c2.ch = make([]c09Choice, len(c2.fields))
		randomOthers(c2, -1, r.Intn(40))
		sess = &c09Session{}
		emit(c1)
		emit(c2)
		if r.Chance(20) {
			c3 := mk(typ)
			c3.prefill = c1.prefill
			c3.ch = make([]c09Choice, len(c3.fields))
			randomOthers(c3, -1, 0)
			emit(c3)
		}
		sess = nil
	}
	e.Stats["history_calls"] = total - t2
	e.Stats["histories"] = nHist
	e.Stats["later_calls_refused"] = secondRefused
	e.Stats["later_calls_accepted"] = secondNil
	e.Stats["cases"] = total
	e.Stats["parse_ok"] = okCount
	e.Stats["parse_error"] = errCount
	e.Stats["distinct_nontrivial"] = len(distinct)
	e.Stats["field_source_combinations(cli,env,json,default)"] = comboHist
	e.Stats["per_kind_combinations"] = kindCombo
	e.Stats["carriers"] = carrierHist
	e.Stats["config_path_spellings"] = spellHist
	e.Stats["fields_per_case"] = map[string]int{"typeA": len(c09FieldsA), "typeB": len(c09FieldsB), "typeC": len(c09FieldsC),
		"typeD1": len(c09FieldsD1), "typeD2": len(c09FieldsD2), "typeD3": len(c09FieldsD3)}
	e.Stats["prefilled_structs"] = prefilled
	e.Stats["int_size"] = strconv.IntSize
	return nil
}
