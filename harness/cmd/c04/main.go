package main

// C04: the trie router dispatches every request to exactly one handler by the documented precedence.
//
// One case line per (table, batch of requests):
//
//	E <k> {<pattern> <method>}*k <reg> <nn> {<name>}*nn <nreq> {<raw> <path> <method> <who> <any> {<value>}*nn}*nreq
//
// <raw> = the percent-encoded request-target the request was read from with http.ReadRequest ("-": the request was built
// directly from <path>); routing is specified on <path> = URL.Path whatever URL.RawPath is.
//
// reg = ok | rej<i> (Handle of route i panicked: the "rejected" outcome; nothing is served then).
// who = r<i> (handler of route i ran, exactly once, and saw its own RouteInfo) | nr (the no-route handler, ditto)
//     | panic | calls<n> (zero or several handler invocations) | badinfo (Store.I is not the route's info).
// <any> = Store.RouteParamAny(), <value> = Store.RouteParam(name) for EVERY name of the table's name list,
// all read inside the handler.  Fields are hex ("-" = empty).
//
// Requests are built directly (no url.ParseRequestURI) so that "", "*", paths without a leading slash and
// "//" runs are reachable.

import (
	"bufio"
	"fmt"
	"net/http"
	"net/http/httptest"
	"net/url"
	"sort"
	"strconv"
	"strings"
	"sync"

	"github.com/whoisnian/glb/httpd"
	"os"
	"sync/atomic"
	"time"
	"verifharness/hk"
)

func main() { hk.Main("C04", run) }

type route struct{ pat, meth string }

// raw != "": the request is read with http.ReadRequest from the request line "<meth> <raw> HTTP/1.1" exactly as net/http
// does (url.ParseRequestURI), so URL.RawPath is set when raw is not the canonical encoding; path is then URL.Path.
type request struct{ path, meth, raw string }

// parsed: the request for a percent-encoded request-target, ok=false when net/http rejects the line
func parsed(meth, raw string) (request, *http.Request, bool) {
	r, err := http.ReadRequest(bufio.NewReader(strings.NewReader(meth + " " + raw + " HTTP/1.1\r\nHost: h\r\n\r\n")))
	if err != nil {
		return request{}, nil, false
	}
	return request{r.URL.Path, meth, raw}, r, true
}

type recorder struct {
	calls int
	who   string
	any   string
	vals  []string
}

// namesOf: the keys every handler looks up. For every :name occurring anywhere in the table (as a '/'-separated
// piece): the name itself, its upper-case and lower-case forms, an extension, a prefix; plus near-misses that
// never are parameters ("X", "xx", "Id", "ID", "id2", "zz").  A lookup that matches names case-insensitively, by
// prefix, or by position would be seen.
func namesOf(routes []route) []string {
	set := map[string]bool{"zz": true, "X": true, "xx": true, "Id": true, "ID": true, "id2": true}
	add := func(n string) {
		set[n] = true
		set[strings.ToUpper(n)] = true
		set[strings.ToLower(n)] = true
		set[n+"2"] = true
		if len(n) > 1 {
			set[n[:len(n)-1]] = true
		}
	}
	for _, r := range routes {
		for _, seg := range strings.Split(r.pat, "/") {
			if len(seg) > 1 && seg[0] == ':' {
				add(seg[1:])
			}
		}
		// the first byte of a pattern is ignored by the router: ":x" registers the literal "x"; still query it
		if len(r.pat) > 1 {
			for _, seg := range strings.Split(r.pat[1:], "/") {
				if len(seg) > 1 && seg[0] == ':' {
					add(seg[1:])
				}
			}
		}
	}
	var names []string
	for n := range set {
		names = append(names, n)
	}
	sort.Strings(names)
	return names
}

type tableRun struct {
	mux   *httpd.Mux
	rec   *recorder
	names []string
	reg   string

	panicNow bool
	hook     func(*httpd.Store) // run once inside the next handler invocation
}

func (t *tableRun) observe(who string, routes []route, i int) httpd.HandlerFunc {
	return func(s *httpd.Store) {
		rec := t.rec
		rec.calls++
		rec.who = who
		if i >= 0 {
			if s.I == nil || s.I.Path != routes[i].pat || s.I.Method != routes[i].meth {
				rec.who = "badinfo"
			}
		} else if s.I == nil || s.I.Path != "" || s.I.Method != "" {
			rec.who = "badinfo"
		}
		rec.any = s.RouteParamAny()
		rec.vals = rec.vals[:0]
		for _, n := range t.names {
			rec.vals = append(rec.vals, s.RouteParam(n))
		}
		if t.hook != nil {
			h := t.hook
			t.hook = nil
			h(s)
		}
		if t.panicNow {
			panic("handler panic (the caller of ServeHTTP recovers, as net/http does)")
		}
	}
}

// poison: the same request once more, but its handler panics and the panic leaves ServeHTTP (default relay); the
// harness recovers like net/http's connection goroutine and goes on with the next, judged, request on the same Mux.
// Nothing of it is recorded: what must be exact is the NEXT request.
func (t *tableRun) poison(q request) {
	t.panicNow = true
	defer func() { t.panicNow = false; recover() }()
	r := &http.Request{Method: q.meth, URL: &url.URL{Path: q.path}, RequestURI: q.path, Header: http.Header{}}
	t.mux.ServeHTTP(httptest.NewRecorder(), r)
}

// resplits: every way of cutting the strings method++pattern and method++cleaned-pattern of the registered routes into
// (method, path): empty methods, methods that contain '/', paths without leading '/'.  A lookup that identifies a route
// by anything but the pair (method, path) confuses these with the registered route.
func resplits(routes []route) []request {
	seen := map[request]bool{}
	var res []request
	for _, r := range routes {
		var segs []string
		for _, sg := range strings.Split(r.pat, "/") {
			if sg != "" {
				segs = append(segs, sg)
			}
		}
		for _, full := range []string{r.meth + r.pat, r.meth + "/" + strings.Join(segs, "/")} {
			for i := 0; i <= len(full); i++ {
				q := request{path: full[i:], meth: full[:i]}
				if !seen[q] {
					seen[q] = true
					res = append(res, q)
				}
			}
		}
	}
	return res
}

func newTable(routes []route) *tableRun {
	t := &tableRun{mux: httpd.NewMux(), rec: &recorder{}, names: namesOf(routes), reg: "ok"}
	t.mux.HandleNoRoute(t.observe("nr", routes, -1))
	for i, r := range routes {
		ok := func() (ok bool) {
			defer func() {
				if recover() != nil {
					ok = false
				}
			}()
			t.mux.Handle(r.pat, r.meth, t.observe("r"+strconv.Itoa(i), routes, i))
			return true
		}()
		if !ok {
			t.reg = "rej" + strconv.Itoa(i)
			break
		}
	}
	return t
}

// serve runs one request and appends its observation fields to sb.
func (t *tableRun) serve(q request, sb *strings.Builder) (who string) {
	rec := t.rec
	rec.calls, rec.who, rec.any, rec.vals = 0, "", "", rec.vals[:0]
	r := &http.Request{Method: q.meth, URL: &url.URL{Path: q.path}, RequestURI: q.path, Header: http.Header{}}
	if q.raw != "" {
		_, pr, ok := parsed(q.meth, q.raw)
		if !ok || pr.URL.Path != q.path {
			panic("harness: request line no longer parses to the recorded path: " + q.raw)
		}
		r = pr
	}
	w := httptest.NewRecorder()
	panicked := func() (p bool) {
		defer func() {
			if recover() != nil {
				p = true
			}
		}()
		t.mux.ServeHTTP(w, r)
		return false
	}()
	who = rec.who
	if panicked {
		who = "panic"
	} else if rec.calls != 1 {
		who = "calls" + strconv.Itoa(rec.calls)
	}
	vals := rec.vals
	if len(vals) != len(t.names) { // handler did not run to completion
		vals = make([]string, len(t.names))
	}
	sb.WriteByte(' ')
	sb.WriteString(hk.Hxs(q.raw))
	sb.WriteByte(' ')
	sb.WriteString(hk.Hxs(q.path))
	sb.WriteByte(' ')
	sb.WriteString(hk.Hxs(q.meth))
	sb.WriteByte(' ')
	sb.WriteString(who)
	sb.WriteByte(' ')
	sb.WriteString(hk.Hxs(rec.any))
	for _, v := range vals {
		sb.WriteByte(' ')
		sb.WriteString(hk.Hxs(v))
	}
	return who
}

type counters struct {
	tables, rejected, requests, matched, noroute, bad, withParams, withAny, poisoned int
}

const batch = 200

// runTable registers the table on a fresh Mux, serves all requests, emits the case lines.
func runTable(e *hk.Env, routes []route, reqs []request, c *counters) {
	emitTable(e, newTable(routes), routes, reqs, c)
}

// emitTable serves reqs on an already built table and writes the case lines (routes = what is registered on t)
func emitTable(e *hk.Env, t *tableRun, routes []route, reqs []request, c *counters) {
	var head strings.Builder
	head.WriteString(strconv.Itoa(len(routes)))
	for _, r := range routes {
		head.WriteByte(' ')
		head.WriteString(hk.Hxs(r.pat))
		head.WriteByte(' ')
		head.WriteString(hk.Hxs(r.meth))
	}
	head.WriteByte(' ')
	head.WriteString(t.reg)
	head.WriteByte(' ')
	head.WriteString(strconv.Itoa(len(t.names)))
	for _, n := range t.names {
		head.WriteByte(' ')
		head.WriteString(hk.Hxs(n))
	}
	c.tables++
	if t.reg != "ok" {
		c.rejected++
		e.Case("E", head.String(), "0")
		return
	}
	reqs = append(append([]request{}, reqs...), resplits(routes)...)
	for lo := 0; lo < len(reqs) || lo == 0; lo += batch {
		hi := min(lo+batch, len(reqs))
		var sb strings.Builder
		for i, q := range reqs[lo:hi] {
			if n := lo + i; n%8 == 5 && reqs[n-1].raw == "" {
				t.poison(reqs[n-1]) // the previous request again, with a panicking handler, before the judged one
				c.poisoned++
			}
			who := t.serve(q, &sb)
			c.requests++
			switch {
			case who == "nr":
				c.noroute++
			case who[0] == 'r':
				c.matched++
				if t.rec.any != "" {
					c.withAny++
				}
				for _, v := range t.rec.vals {
					if v != "" {
						c.withParams++
						break
					}
				}
			default:
				c.bad++
			}
		}
		e.Case("E", head.String(), strconv.Itoa(hi-lo)+sb.String())
		if len(reqs) == 0 {
			break
		}
	}
}

// all sequences of length <= maxLen over alpha
func seqs(alpha []string, maxLen int) [][]string {
	res := [][]string{{}}
	prev := [][]string{{}}
	for l := 1; l <= maxLen; l++ {
		var cur [][]string
		for _, p := range prev {
			for _, a := range alpha {
				s := append(append([]string{}, p...), a)
				cur = append(cur, s)
			}
		}
		res = append(res, cur...)
		prev = cur
	}
	return res
}

func patternsOver(alpha []string, maxLen int) []string {
	var res []string
	for _, s := range seqs(alpha, maxLen) {
		res = append(res, "/"+strings.Join(s, "/"))
	}
	return res
}

// paths over alpha with up to maxLen segments; lead selects the variants with / without a leading slash
func pathsOver(alpha []string, maxLen int, noLead bool) []string {
	var res []string
	for _, s := range seqs(alpha, maxLen) {
		j := strings.Join(s, "/")
		res = append(res, "/"+j)
		if noLead {
			res = append(res, j) // first byte is whatever comes first ("" for the empty sequence)
		}
	}
	return res
}

func cross(paths, meths []string) []request {
	var res []request
	for _, p := range paths {
		for _, m := range meths {
			res = append(res, request{p, m, ""})
		}
	}
	return res
}

func parallelTables(e *hk.Env, tables [][]route, reqs []request, total *counters) {
	var wg sync.WaitGroup
	var mu sync.Mutex
	nw := 8
	ch := make(chan []route, 64)
	for w := 0; w < nw; w++ {
		wg.Add(1)
		go func() {
			defer wg.Done()
			var c counters
			for t := range ch {
				runTable(e, t, reqs, &c)
			}
			mu.Lock()
			total.tables += c.tables
			total.rejected += c.rejected
			total.requests += c.requests
			total.matched += c.matched
			total.noroute += c.noroute
			total.bad += c.bad
			total.withParams += c.withParams
			total.withAny += c.withAny
			total.poisoned += c.poisoned
			mu.Unlock()
		}()
	}
	for _, t := range tables {
		ch <- t
	}
	close(ch)
	wg.Wait()
}

var regMethods = []string{"GET", "HEAD", "POST", "DELETE", "*"}
var reqMethods = []string{"GET", "HEAD", "POST", "DELETE", "PUT", "", "BOGUS"}
var regMethods2 = []string{"GET", "POST", "*"}

func routesOver(pats []string, meths []string) []route {
	var res []route
	for _, p := range pats {
		for _, m := range meths {
			res = append(res, route{p, m})
		}
	}
	return res
}

func run(e *hk.Env) error {
	if os.Getenv("VERIF_SMOKE386") != "" {
		return smoke386(e)
	}
	var total counters

	// ---- 0. fixed tables: the documented precedence examples and the shapes ParseRequestURI never yields
	fixed := [][]route{
		{{"/", "GET"}, {"/:p", "GET"}, {"/*", "*"}},
		{{"/a", "GET"}, {"/a/:x", "GET"}, {"/a/*", "GET"}, {"/a/b", "POST"}, {"/a/b", "*"}},
		{{"/u/:a/:b/x", "GET"}, {"/u/:c", "POST"}, {"/u/*", "DELETE"}},
		{{"nolead/z", "GET"}, {"/a//b/", "GET"}, {"/s/*/ignored/:x/:x", "GET"}},
		{{"", "GET"}}, {{"*", "GET"}}, {{"/:", "GET"}}, {{"/:x/:x", "GET"}}, {{"/a", "FETCH"}}, {{"/a", ""}},
		{{"/a", "GET"}, {"//a/", "GET"}}, {{"/:x/b", "GET"}, {"/:y/b", "GET"}}, {{"/:x/b", "GET"}, {"/:y/c", "GET"}},
		{{"/a/*", "GET"}, {"/a/*/b", "GET"}},
		// parameter names that differ only in case / by a suffix: Params.Get must compare exactly
		{{"/:id/:ID", "GET"}}, {{"/:id", "GET"}}, {{"/:x/:X", "GET"}}, {{"/:id/:id2", "GET"}}, {{"/:Id/:ID/:id", "GET"}}, {{"/:ab/:a/:abc", "GET"}},
		// segments that only LOOK like '*', ':name', method tags or the internal keys
		{{"/*x", "GET"}}, {{"/**", "GET"}}, {{"/a*", "GET"}}, {{"/a:b", "GET"}}, {{"/get", "GET"}}, {{"/:param", "GET"}}, {{"/:any/*", "GET"}},
		{{"/*x", "GET"}, {"/*", "GET"}}, {{"/a/*x/b", "GET"}, {"/a/**", "POST"}}, {{"/get", "GET"}, {"/", "GET"}}, {{"/a:b/:c", "GET"}, {"/a/:b", "GET"}},
		{{"/x", "GET"}, {"/x", "HEAD"}}, {{"/x", "GET"}}, {{"/x", "HEAD"}}, {{"/x", "DELETE"}, {"/x", "*"}},
		{{"/a", "HEAD"}, {"/a", "PUT"}, {"/a", "PATCH"}, {"/a", "DELETE"}, {"/a", "CONNECT"}, {"/a", "OPTIONS"}, {"/a", "TRACE"}, {"/a", "GET"}, {"/a", "POST"}, {"/a", "*"}},
	}
	fixedPaths := []string{"", "/", "*", "x", "//", "///", "/a", "/a/", "/a//", "a", "Xa", "/a/b", "/a/b/", "/a//b", "/a/c/d//e/", "/u/1/2/x",
		"/u/1/2", "/u/1", "/u/1/", "/u//", "/olead/z", "nolead/z", "/s/t/u", "/s/", "/s", "/:x/b", "/*", "/%2F", "/a/\x00", "/\xff/b", "/:param", "/:any", "/get", "/a/get", "/a//get",
		"/1/2", "/1", "/1/2/3", "/*x", "/**", "/a*", "/a:b", "/a:b/c", "/zz", "/a/*x/b", "/a/**", "/a/q/r", "/x", "/:any/r/s", "/q/w"}
	fixedMeths := []string{"GET", "HEAD", "POST", "PUT", "PATCH", "DELETE", "CONNECT", "OPTIONS", "TRACE", "*", "", "BOGUS", "get", "/get",
		"G", "GE", "GET/", "GET/a", "/", "/*", "GET ", "\x00", "*GET", "\xff\xfe"}
	fr := cross(fixedPaths, fixedMeths)
	for _, t := range fixed {
		runTable(e, t, fr, &total)
	}
	e.Stats["fixed_tables"] = len(fixed)

	// ---- 1a. exhaustive: one-route tables
	patAlpha1 := []string{"a", "b", ":x", ":y", "*", ""}
	pats1 := patternsOver(patAlpha1, 3)
	routes1 := routesOver(pats1, regMethods)
	pathAlpha1 := []string{"a", "b", "c", "", ":x", "*"}
	pathLen1 := 3
	if e.Thorough() {
		pathLen1 = 4
	}
	// with leading slash up to pathLen1 segments, without leading slash (first byte eaten) up to pathLen1-1
	paths1 := pathsOver(pathAlpha1, pathLen1, false)
	for _, s := range seqs(pathAlpha1, pathLen1-1) {
		paths1 = append(paths1, strings.Join(s, "/"))
	}
	reqs1 := cross(paths1, reqMethods)
	var tables1 [][]route
	for _, r := range routes1 {
		tables1 = append(tables1, []route{r})
	}
	parallelTables(e, tables1, reqs1, &total)
	e.Stats["one_route_tables"] = len(tables1)
	e.Stats["one_route_requests_each"] = len(reqs1)
	e.Stats["one_route_rule"] = fmt.Sprintf("patterns: all sequences of <=3 segments over %q x methods %q; requests: all paths of <=%d segments over %q with leading slash and of <=%d segments without x methods %q",
		patAlpha1, regMethods, pathLen1, pathAlpha1, pathLen1-1, reqMethods)

	// ---- 1b. exhaustive: one-route tables over segments that only look special
	patAlpha1b := []string{"a", ":x", ":X", "*", "", "*x", "**", "a*", ":", "a:b", "get", ":param", ":any", "x", "X"}
	pathAlpha1b := []string{"a", "x", "", ":x", "*", "*x", "get", "a:b", "a*"}
	routes1b := routesOver(patternsOver(patAlpha1b, 2), regMethods)
	reqs1b := cross(pathsOver(pathAlpha1b, 2, true), reqMethods)
	var tables1b [][]route
	for _, r := range routes1b {
		tables1b = append(tables1b, []route{r})
	}
	parallelTables(e, tables1b, reqs1b, &total)
	e.Stats["one_route_lookalike_tables"] = len(tables1b)
	e.Stats["one_route_lookalike_requests_each"] = len(reqs1b)
	e.Stats["one_route_lookalike_rule"] = fmt.Sprintf("patterns: all sequences of <=2 segments over %q x methods %q; requests: all paths of <=2 segments over %q with and without leading slash x methods %q",
		patAlpha1b, regMethods, pathAlpha1b, reqMethods)

	// ---- 2. exhaustive: two-route tables (ordered pairs)
	patAlpha2 := []string{"a", ":x", ":y", "*", ""}
	patLen2 := 2
	pathAlpha2 := []string{"a", "b", "", ":x"}
	pathLen2 := 3
	reqMeths2 := []string{"GET", "HEAD", "PUT", ""}
	if e.Thorough() {
		patAlpha2 = []string{"a", "b", ":x", ":y", "*", ""}
		pathAlpha2 = []string{"a", "b", "c", "", ":x", "*"}
		reqMeths2 = reqMethods
	}
	routes2 := routesOver(patternsOver(patAlpha2, patLen2), regMethods2)
	reqs2 := cross(pathsOver(pathAlpha2, pathLen2, false), reqMeths2)
	var tables2 [][]route
	for _, r1 := range routes2 {
		for _, r2 := range routes2 {
			tables2 = append(tables2, []route{r1, r2})
		}
	}
	parallelTables(e, tables2, reqs2, &total)
	e.Stats["two_route_tables"] = len(tables2)
	e.Stats["two_route_requests_each"] = len(reqs2)
	e.Stats["two_route_rule"] = fmt.Sprintf("all ordered pairs of routes over patterns of <=%d segments over %q x methods %q; requests: all paths of <=%d segments over %q x methods %q",
		patLen2, patAlpha2, regMethods2, pathLen2, pathAlpha2, reqMeths2)

	// ---- 3. three-route tables
	// quick: a 1/40 sample of the ordered triples over a small alphabet; thorough: additionally EVERY set of three
	// different routes (registered in one order: dispatch does not depend on the order, ids do and are covered by the
	// ordered tiers) over patterns of <=2 non-empty segments from {a,b,:x,:y,*} x {GET,*} against every path of <=4 segments.
	routes3 := routesOver(patternsOver([]string{"a", ":x", "*", ""}, 2), []string{"GET", "*"})
	reqs3 := cross(pathsOver([]string{"a", "b", ""}, 3, false), []string{"GET", "PUT"})
	var tables3 [][]route
	r3 := e.Rng.Fork()
	for _, a := range routes3 {
		for _, b := range routes3 {
			for _, c := range routes3 {
				if e.Thorough() || r3.Intn(40) == 0 {
					tables3 = append(tables3, []route{a, b, c})
				}
			}
		}
	}
	parallelTables(e, tables3, reqs3, &total)
	e.Stats["three_route_tables"] = len(tables3)
	e.Stats["three_route_requests_each"] = len(reqs3)
	e.Stats["three_route_sampled"] = !e.Thorough()
	if e.Thorough() {
		routes3b := routesOver(patternsOver([]string{"a", "b", ":x", ":y", "*"}, 2), []string{"GET", "*"})
		reqs3b := cross(pathsOver([]string{"a", "b", ""}, 4, false), []string{"GET", "PUT"})
		var tables3b [][]route
		for i := range routes3b {
			for j := i + 1; j < len(routes3b); j++ {
				for k := j + 1; k < len(routes3b); k++ {
					tables3b = append(tables3b, []route{routes3b[i], routes3b[j], routes3b[k]})
				}
			}
		}
		parallelTables(e, tables3b, reqs3b, &total)
		e.Stats["three_route_sets_tables"] = len(tables3b)
		e.Stats["three_route_sets_requests_each"] = len(reqs3b)
	}

	// ---- 3c. requests read from percent-encoded request lines (URL.RawPath != ""): routing is on URL.Path
	{
		encAlpha := []string{"a", "%61", "b", "a%2Fb", "%2f", "%3Ax", "%2A", ""}
		encLen := 3
		var reqsE []request
		rawSet, skipped := 0, 0
		for _, sq := range seqs(encAlpha, encLen) {
			for _, m := range []string{"GET", "PUT"} {
				q, pr, ok := parsed(m, "/"+strings.Join(sq, "/"))
				if !ok {
					skipped++
					continue
				}
				if pr.URL.RawPath != "" {
					rawSet++
				}
				reqsE = append(reqsE, q)
			}
		}
		var tablesE [][]route
		for _, r := range routesOver(patternsOver([]string{"a", "b", ":x", ":y", "*", ""}, 2), []string{"GET", "*"}) {
			tablesE = append(tablesE, []route{r})
		}
		rE := routesOver(patternsOver([]string{"a", ":x", "*"}, 2), []string{"GET"})
		for _, r1 := range rE {
			for _, r2 := range rE {
				tablesE = append(tablesE, []route{r1, r2})
			}
		}
		tablesE = append(tablesE,
			[]route{{"/files/:name", "GET"}, {"/files/:dir/:name", "GET"}},
			[]route{{"/v1/ping", "GET"}, {"/v1/:x", "GET"}, {"/a/b", "GET"}, {"/:x", "GET"}},
			[]route{{"/a/*", "GET"}, {"/a/b/:c", "GET"}, {"/ping", "GET"}})
		for _, raw := range []string{"/files/a%2Fb", "/files/a%2fb", "/files/a/b", "/v1/%70ing", "/v1/ping", "/a%2Fb", "/a/b", "/a/%2A", "/a/b/%3Ac", "/%25",
			"/a/b%2Fc%2Fd", "/%70ing", "/files/%2F", "/files/%", "/a/b%zz", "/files/a%2Fb?q=1"} {
			if q, _, ok := parsed("GET", raw); ok {
				reqsE = append(reqsE, q)
			} else {
				skipped++
			}
		}
		parallelTables(e, tablesE, reqsE, &total)
		e.Stats["encoded_request_line_tables"] = len(tablesE)
		e.Stats["encoded_request_line_requests_each"] = len(reqsE)
		e.Stats["encoded_request_lines_with_RawPath_set"] = rawSet
		e.Stats["encoded_request_lines_rejected_by_net_http"] = skipped
	}

	// ---- 3d. RE-ENTRANT use: a handler registers routes on the Mux that is serving it (sequentially, inside its own
	// request) and dispatches again with its own writer; afterwards the table is the old routes plus the new ones.
	// A handler that never returns (bounded wait) is a violation.
	{
		bases := [][]route{{{"/reg/:x", "GET"}, {"/a/*", "GET"}}, {{"/", "GET"}, {"/:p", "*"}}, {{"/a/b", "POST"}, {"/a/:x", "GET"}, {"/reg", "GET"}}}
		lates := [][]route{{{"/late/:y", "GET"}}, {{"/a/b/c", "GET"}, {"/late/*", "*"}}, {{"/:p/:q", "GET"}}}
		n, hung := 0, 0
		for _, base := range bases {
			for _, late := range lates {
				if hung >= 2 { // two stuck handlers are enough to report
					continue
				}
				all := append(append([]route{}, base...), late...)
				t := newTable(base)
				t.names = namesOf(all)
				trigger := request{path: strings.NewReplacer(":x", "1", ":p", "1", "*", "r/s").Replace(base[0].pat), meth: base[0].meth}
				t.hook = func(s *httpd.Store) {
					for i, r := range late {
						t.mux.Handle(r.pat, r.meth, t.observe("r"+strconv.Itoa(len(base)+i), all, len(base)+i))
					}
					t.mux.HandleNoRoute(t.observe("nr", all, -1))
					// nested dispatch with the Store's own writer; what it observes is not recorded (the recorder is the outer one's)
					saved := *t.rec
					t.mux.ServeHTTP(s.W, &http.Request{Method: "GET", URL: &url.URL{Path: "/late/n"}, RequestURI: "/late/n", Header: http.Header{}})
					*t.rec = saved
				}
				done := make(chan bool, 1)
				go func() {
					defer func() { done <- recover() == nil }()
					t.mux.ServeHTTP(httptest.NewRecorder(), &http.Request{Method: trigger.meth, URL: &url.URL{Path: trigger.path}, RequestURI: trigger.path, Header: http.Header{}})
				}()
				select {
				case ok := <-done:
					if !ok {
						e.Case("VIOL", "re-entrant_use_panicked:", fmt.Sprintf("a_handler_of_%q_that_calls_mux.Handle_/_mux.ServeHTTP_on_the_Mux_serving_it", trigger.path))
					}
				case <-time.After(3 * time.Second):
					hung++
					e.Case("VIOL", "handler-never-returned:", fmt.Sprintf("a_handler_of_%q_that_calls_mux.Handle(%q)_and_mux.ServeHTTP_on_the_Mux_serving_it_did_not_return_within_3s", trigger.path, late[0].pat))
					continue // that goroutine is stuck inside the Mux
				}
				emitTable(e, t, all, fr, &total)
				n++
			}
		}
		e.Stats["tables_extended_by_a_handler_during_its_own_request"] = n
	}

	// ---- 4. random tables and paths over arbitrary bytes
	nRandom := 3000
	if e.Thorough() {
		nRandom = 40000
	}
	rr := e.Rng.Fork()
	allMeths := []string{"GET", "HEAD", "POST", "PUT", "PATCH", "DELETE", "CONNECT", "OPTIONS", "TRACE", "*"}
	randSeg := func(r *hk.Rng, pattern bool) string {
		switch k := r.Intn(100); {
		case k < 12:
			return ""
		case k < 22 && pattern:
			return "*"
		case k < 45 && pattern:
			return ":" + []string{"x", "y", "id", "n", "", "x", "ID", "Id", "id2", "X", "xx"}[r.Intn(11)]
		case k < 52 && pattern:
			return []string{"*x", "**", "a*", "a:b", "get", ":param", ":any", "x*"}[r.Intn(8)]
		case k < 30:
			return []string{"*", ":x", ":", "/:param", ":any", "get", "*x", "**", "a*", "a:b"}[r.Intn(10)]
		case k < 85:
			return []string{"a", "b", "c", "ab", "user", "1"}[r.Intn(6)]
		default:
			n := 1 + r.Intn(3)
			b := make([]byte, n)
			for i := range b {
				b[i] = byte(r.Intn(256))
				if b[i] == '/' {
					b[i] = '_'
				}
			}
			return string(b)
		}
	}
	randPath := func(r *hk.Rng, pattern bool) string {
		n := r.Intn(6)
		segs := make([]string, n)
		for i := range segs {
			segs[i] = randSeg(r, pattern)
		}
		p := strings.Join(segs, "/")
		switch r.Intn(10) {
		case 0:
			return p // first byte eaten
		case 1:
			return string([]byte{byte(r.Intn(256))}) + p
		default:
			return "/" + p
		}
	}
	randReqs := 0
	for i := 0; i < nRandom; i++ {
		k := 1 + rr.Intn(6)
		var t []route
		for j := 0; j < k; j++ {
			m := allMeths[rr.Intn(len(allMeths))]
			if rr.Intn(60) == 0 {
				m = []string{"", "get", "FETCH", "/*"}[rr.Intn(4)]
			}
			t = append(t, route{randPath(rr, true), m})
		}
		var qs []request
		nq := 40
		for j := 0; j < nq; j++ {
			var p string
			if rr.Intn(3) > 0 {
				// derive from a registered pattern: replace :params and * by concrete text, sometimes mutate
				src := t[rr.Intn(len(t))].pat
				parts := strings.Split(src, "/")
				for x := range parts {
					if strings.HasPrefix(parts[x], ":") || parts[x] == "*" {
						if rr.Intn(5) > 0 {
							parts[x] = randSeg(rr, false)
						}
						if parts[x] == "*" && rr.Intn(2) == 0 {
							parts[x] = "r/s//t"
						}
					} else if rr.Intn(12) == 0 {
						parts[x] = randSeg(rr, false)
					}
				}
				p = strings.Join(parts, "/")
				if rr.Intn(8) == 0 {
					p += "/"
				}
				if rr.Intn(10) == 0 {
					p += "/" + randSeg(rr, false)
				}
			} else {
				p = randPath(rr, false)
			}
			m := allMeths[rr.Intn(len(allMeths))]
			if rr.Intn(10) == 0 {
				m = []string{"", "BOGUS", "get"}[rr.Intn(3)]
			} else if rr.Intn(12) == 0 { // an arbitrary short byte string
				b := make([]byte, rr.Intn(4))
				for x := range b {
					b[x] = byte(rr.Intn(256))
				}
				m = string(b)
			}
			qs = append(qs, request{p, m, ""})
		}
		randReqs += len(qs)
		runTable(e, t, qs, &total)
	}
	e.Stats["random_tables"] = nRandom
	e.Stats["random_requests"] = randReqs

	e.Stats["cases"] = total.requests + total.rejected
	e.Stats["tables"] = total.tables
	e.Stats["tables_rejected_by_Handle"] = total.rejected
	e.Stats["requests"] = total.requests
	e.Stats["requests_matched"] = total.matched
	e.Stats["requests_noroute"] = total.noroute
	e.Stats["requests_forbidden_outcome"] = total.bad
	e.Stats["matched_with_param_value"] = total.withParams
	e.Stats["matched_with_any_value"] = total.withAny
	e.Stats["requests_preceded_by_a_panicking_request_on_the_same_mux"] = total.poisoned
	e.Stats["exhaustive"] = true

	// a few samples for the evidence file
	st := newTable(fixed[1])
	for _, q := range []request{{path: "/a/b", meth: "GET"}, {path: "/a/zz", meth: "GET"}, {path: "/a/zz/t", meth: "GET"}, {path: "/a/", meth: "GET"}, {path: "/q", meth: "GET"}} {
		var sb strings.Builder
		who := st.serve(q, &sb)
		e.Sample("samples", map[string]any{"table": fixed[1], "path": q.path, "method": q.meth, "who": who, "any": st.rec.any, "names": st.names, "values": append([]string{}, st.rec.vals...)}, 5)
	}
	return nil
}

// smoke386: the short subset run by the GOARCH=386 binary (lib/httpd_static.py, thorough tier): one Mux, a few hundred
// requests, several in flight; a panic escaping ServeHTTP on its own account is "VIOL panic-on-386 ...".
func smoke386(e *hk.Env) error {
	mux := httpd.NewMux()
	var served, inFlight, maxInFlight atomic.Int64
	gate := make(chan struct{})
	h := func(s *httpd.Store) {
		n := inFlight.Add(1)
		for {
			m := maxInFlight.Load()
			if n <= m || maxInFlight.CompareAndSwap(m, n) {
				break
			}
		}
		_ = s.RouteParam("x") + s.RouteParamAny() + s.GetID()
		<-gate // the first wave of requests is held in flight together
		inFlight.Add(-1)
		served.Add(1)
	}
	mux.Handle("/a/:x", "GET", h)
	mux.Handle("/b/*", "*", h)
	mux.HandleNoRoute(h)
	var mu sync.Mutex
	panics := 0
	serve := func(p string) {
		defer func() {
			if r := recover(); r != nil {
				mu.Lock()
				if panics < 3 {
					e.Case("VIOL", "panic-on-386", "ServeHTTP_panicked_on_GOARCH=386_for_path", hk.Hxs(p), strings.ReplaceAll(fmt.Sprint(r), " ", "_"))
				}
				panics++
				mu.Unlock()
			}
		}()
		mux.ServeHTTP(httptest.NewRecorder(), &http.Request{Method: "GET", URL: &url.URL{Path: p}, RequestURI: p, Header: http.Header{}, RemoteAddr: "10.0.0.1:1"})
	}
	var wg sync.WaitGroup
	paths := []string{"/a/1", "/b/r/s", "/zz", "/", "", "/a/"}
	for g := 0; g < 8; g++ {
		wg.Add(1)
		go func(g int) {
			defer wg.Done()
			for i := 0; i < 50; i++ {
				serve(paths[(g+i)%len(paths)])
			}
		}(g)
	}
	for i := 0; i < 2000 && inFlight.Load() < 8 && panics == 0; i++ {
		time.Sleep(time.Millisecond)
	}
	close(gate)
	wg.Wait()
	e.Case("SMOKE386", fmt.Sprintf("requests=%d served=%d max_in_flight=%d panics=%d", 400, served.Load(), maxInFlight.Load(), panics))
	e.Stats["smoke386_requests"] = 400
	e.Stats["smoke386_panics"] = panics
	return nil
}
