package main

import (
	"time"

	"verifharness/tl"
)

// C07: clean shutdown. Families: cancellation at every park point (queue: before the blocking receive, after
// take+count, before the blocking offer; worker: loop top, before its blocking receive; PushTask: both Done()
// tests) x loads (idle, every worker pinned, every lane full with producers blocked, hand-over in flight);
// cancel inside every Done()/Err() call of PushTask; cancel when idle after work; back-to-back
// New/push/cancel/Wait on one P; PushTask after the context ended onto lanes with room (gate cancel, wrapped
// WithCancel, wrapped expired WithDeadline); random stress cancelled at a random moment. Every run ends with:
// PushTask begun after cancel, Wait() within the bound after the last running task was released, goroutine
// dump, PushTask after Wait.
func main() {
	tl.Main("C07", []tl.Family{{Name: "cancelpoints", Run: cancelpoints}, {Name: "shutdown", Run: shutdown}, {Name: "stress", Run: stress}})
}

func reps(en *tl.Engine, quick, thorough int) int {
	if en.E.Thorough() {
		return thorough
	}
	return quick
}

func cancelpoints(en *tl.Engine) {
	for rep := 0; rep < reps(en, 1, 10); rep++ {
		for _, c := range tl.Configs() {
			en.CancelPoints(c[0], c[1])
		}
	}
}

func shutdown(en *tl.Engine) {
	for rep := 0; rep < reps(en, 1, 6); rep++ {
		for _, c := range tl.Configs() {
			for k := 0; k < 4; k++ {
				en.CancelInsidePush(c[0], c[1], k, k%2 == 0)
			}
			en.IdleAfterWork(c[0], c[1], 0)
			en.IdleAfterWork(c[0], c[1], 2+c[1])
			for v := 0; v < 8; v++ {
				en.PushAfterCancelRoom(c[0], c[1], v)
			}
		}
		// SetTimeout(0 / negative / 1ns) and the end of the context: >= 64 pushes onto lanes with room
		for _, c := range [][2]int{{1, 1}, {2, 2}, {3, 3}} {
			for _, to := range []time.Duration{0, -time.Second, 1} {
				for v := 0; v < 3; v++ {
					en.PushAfterCancelTimeouts(c[0], c[1], to, v)
				}
			}
		}
		for v := 0; v < 3; v++ {
			en.EmptyLane(v, v) // laneSize 0
		}
		en.TimeoutRaces(1, 1, 1)
		en.TimeoutRaces(2, 1, 1)
		en.RequireTimeoutRace()
		// back-to-back New/push/cancel/Wait on a single P, ~50 repetitions with several lanes
		for i := 0; i < 51; i++ {
			en.BackToBack(2+i%3, 1+(i/3)%3, i%3, i)
		}
	}
	// last (a lane that never finishes its Wait() after a Goexit task ends the family, unjudged): a task that ended its
	// goroutine with runtime.Goexit earlier; Wait() begun while a later task still runs
	for _, c := range [][2]int{{2, 0}, {2, 1}, {3, 1}, {4, 2}} {
		for k := 1; k < c[0]; k++ {
			for lane := 0; lane < c[0]; lane++ {
				en.GoexitShutdown(c[0], c[1], k, lane)
			}
		}
	}
}

func stress(en *tl.Engine) {
	small, big := reps(en, 300, 4000), reps(en, 30, 500)
	for i := 0; i < small; i++ {
		n, q := 1+en.Rng.Intn(3), en.Rng.Intn(3)
		mode := 2
		if i%5 == 0 {
			mode = 3 // a real context.WithDeadline expiring mid-run
		}
		en.Stress(n, q, tl.StressOpt{PanicPct: 5, Observers: 0, CancelMode: mode, Kinds: true}, i)
	}
	for i := 0; i < big; i++ {
		n, q := 1+en.Rng.Intn(4), en.Rng.Intn(4)
		en.Stress(n, q, tl.StressOpt{Big: true, PanicPct: 5, Observers: 1, CancelMode: 2, Kinds: true, SleepTasks: true}, i)
	}
}
