package main

import (
	"context"
	"errors"
	"fmt"
	"hash/fnv"
	"log/slog"
	"math"
	"os"
	"path/filepath"
	"runtime"
	"strconv"
	"strings"
	"time"
	"unicode"
	"unicode/utf8"

	"github.com/whoisnian/glb/logger"
	"verifharness/hk"
)

// C13: the Text handler's lines tokenize back into exactly the expected key=value pairs.
//
// Case line:
//
//	E <src> <lvl> <time> <msg> <chain> <attrs> <nwrites> <write>...
//
//	src    ~ (source off) or hex of the expected "dir/file.go:line"
//	lvl    0..4 (DEBUG INFO WARN ERROR FATAL)
//	time   hex of r.Time.Format(time.RFC3339) computed here
//	chain  ~ or a sequence of  A<attrs>  |  G<hex>;
//	attrs  [ item* ]   item = s<hexkey>,<hextext>;  (rendered through appendTextString)
//	                        | v<hexkey>,<hextext>;  (stdlib text appended raw)
//	                        | g<hexkey><attrs>      (group)
//	write  hex of the bytes of one Write call on the io.Writer given to NewTextHandler
//
// Q <hex literal> <hex strconv.Unquote(literal) | ~>   cross-check of the tokenizer's unquoting.
//
// The tables unicode.IsSpace / unicode.IsPrint / strconv.IsPrint for runes 0x80..0x10FFFF go to
// <out>/tables.txt and $VERIF_DIR/.build/c13-tables.txt (range lists), loaded by the driver.
func main() { hk.Main("C13", run) }

// ---------------------------------------------------------------- abstract input

type node struct {
	kind    byte // 's', 'v', 'g'
	key     string
	text    string
	members []node
}

func encNodes(ns []node, sb *strings.Builder) {
	sb.WriteByte('[')
	for _, n := range ns {
		sb.WriteByte(n.kind)
		sb.WriteString(hk.Hxs(n.key))
		if n.kind == 'g' {
			encNodes(n.members, sb)
		} else {
			sb.WriteByte(',')
			sb.WriteString(hk.Hxs(n.text))
			sb.WriteByte(';')
		}
	}
	sb.WriteByte(']')
}

type step struct {
	group   bool
	name    string
	attrs   []slog.Attr
	nodes   []node
	rawArgs []any // Logger.With(rawArgs...) instead of the attrs (malformed lists)
}

func encChain(c []step) string {
	if len(c) == 0 {
		return "~"
	}
	var sb strings.Builder
	for _, s := range c {
		if s.group {
			sb.WriteByte('G')
			sb.WriteString(hk.Hxs(s.name))
			sb.WriteByte(';')
		} else {
			sb.WriteByte('A')
			encNodes(s.nodes, &sb)
		}
	}
	return sb.String()
}

// ---------------------------------------------------------------- observation

type capture struct{ writes [][]byte }

func (c *capture) Write(p []byte) (int, error) {
	c.writes = append(c.writes, append([]byte(nil), p...))
	return len(p), nil
}

var levels = []slog.Level{logger.LevelDebug, logger.LevelInfo, logger.LevelWarn, logger.LevelError, logger.LevelFatal}

type tcase struct {
	chain     []step
	lvl       int
	addSource bool
	tm        time.Time
	msg       string
	attrs     []slog.Attr
	nodes     []node
	viaLogger int     // 0: hand-built record through Handler.Handle; 1: Logger.LogAttrs; 2: Logger.Log(msg, args...)
	site      int     // index into sites: where the pc comes from (file names that need quoting)
	zeroPC    bool    // hand-built record with PC == 0
	sample    bool    // offer the case as a sample for the evidence file
	method    *method // viaLogger == 3: this Logger method, called from its wrapper in methods.go
	rawArgs   []any   // viaLogger == 3: the args as given (malformed lists included); nodes say what they mean
	tag       string  // "E" (default) or "L" (long inputs: judged by the driver, never sampled into cases.v)
}

type runner struct {
	e        *hk.Env
	seenQ    map[string]bool
	nQ       int
	maxQ     int
	ncases   int
	quoted   int
	kinds    map[string]int
	srcSeen  map[string]int
	distinct map[uint64]struct{}
}

// the frame of a pc as the runtime reports it: full file name and line (+delta), as the case field "<file>,<line>".
// What the line must show for it (last two path elements, ':' and the line) is the specification's business.
func (r *runner) srcField(pc uintptr, delta int, count bool) string {
	f, _ := runtime.CallersFrames([]uintptr{pc}).Next()
	line := 0
	if pc != 0 {
		line = f.Line + delta
	}
	if count {
		r.srcSeen[f.File+":"+strconv.Itoa(line)]++
	}
	return hk.Hxs(f.File) + "," + hk.Hxs(strconv.Itoa(line))
}

//go:noinline
func callLogAttrs(l *logger.Logger, lvl slog.Level, msg string, attrs []slog.Attr) uintptr {
	var pcs [1]uintptr
	runtime.Callers(1, pcs[:]) // the next line is the call site seen by the logger
	l.LogAttrs(context.Background(), lvl, msg, attrs...)
	return pcs[0]
}

//go:noinline
func callLog(l *logger.Logger, lvl slog.Level, msg string, args []any) uintptr {
	var pcs [1]uintptr
	runtime.Callers(1, pcs[:])
	l.Log(context.Background(), lvl, msg, args...)
	return pcs[0]
}

func (r *runner) run(c tcase) {
	cap := &capture{}
	var srcHex, timeTxt string
	func() {
		defer func() {
			if p := recover(); p != nil {
				r.e.Count("panics", 1)
				r.e.Sample("panic_samples", fmt.Sprint(p), 5)
			}
		}()
		h := logger.NewTextHandler(cap, logger.NewOptions(logger.LevelDebug, false, c.addSource))
		srcHex = "~"
		if c.viaLogger == 0 {
			var hd logger.Handler = h
			for _, s := range c.chain {
				if s.group {
					hd = hd.WithGroup(s.name)
				} else {
					hd = hd.WithAttrs(s.attrs)
				}
			}
			var pcs [1]uintptr
			if !c.zeroPC {
				pcs[0] = sites[c.site].pc()
			}
			if c.tm.Nanosecond()%2 == 1 {
				// "every record": the line of THIS record may not depend on what the handler family wrote before.
				// Warm the family up (root and derived handler) with records of the same instant / the same second /
				// the neighbouring second rendered in the other zones, then judge only the record of the case.
				for zi, z := range zones {
					if z == c.tm.Location() {
						continue
					}
					wt := c.tm.In(z).Add(time.Duration(zi-1) * 400 * time.Millisecond)
					wrec := slog.NewRecord(wt, levels[(c.lvl+zi)%len(levels)], "warm-up", 0)
					wrec.AddAttrs(slog.String("w", z.String()))
					if zi%2 == 0 {
						h.Handle(context.Background(), wrec)
					} else {
						hd.Handle(context.Background(), wrec)
					}
				}
				r.e.Count("cases_after_warm_up_records", 1)
				cap.writes = nil
			}
			rec := slog.NewRecord(c.tm, levels[c.lvl], c.msg, pcs[0])
			rec.AddAttrs(c.attrs...)
			timeTxt = c.tm.Format(time.RFC3339)
			if c.addSource {
				srcHex = r.srcField(pcs[0], 0, true)
			}
			hd.Handle(context.Background(), rec)
			return
		}
		l := logger.New(h)
		for _, s := range c.chain {
			if s.group {
				l = l.WithGroup(s.name)
			} else {
				args := make([]any, len(s.attrs))
				for i, a := range s.attrs {
					args[i] = a
				}
				if s.rawArgs != nil {
					args = s.rawArgs
				}
				l = l.With(args...)
			}
		}
		for try := 0; try < 5; try++ {
			cap.writes = nil
			t0 := time.Now().Format(time.RFC3339)
			var pc uintptr
			if c.viaLogger == 1 {
				pc = sites[c.site].logAttrs(l, levels[c.lvl], c.msg, c.attrs)
			} else if c.viaLogger == 3 {
				args := c.rawArgs
				if args == nil {
					for _, a := range c.attrs {
						args = append(args, a)
					}
				}
				pc = c.method.call(l, c.msg, args)
			} else {
				args := make([]any, 0, 2*len(c.attrs))
				for _, a := range c.attrs {
					if a.Value.Kind() == slog.KindGroup || a.Value.Kind() == slog.KindLogValuer {
						args = append(args, a)
					} else {
						args = append(args, a.Key, a.Value.Any())
					}
				}
				pc = callLog(l, levels[c.lvl], c.msg, args)
			}
			t1 := time.Now().Format(time.RFC3339)
			if c.addSource {
				// runtime.Callers(1) was taken one line above the call
				srcHex = r.srcField(pc, 1, try == 0)
			}
			timeTxt = t0
			if t0 == t1 {
				break
			}
		}
	}()
	var sb strings.Builder
	encNodes(c.nodes, &sb)
	tag := c.tag
	if tag == "" {
		tag = "E"
	}
	fields := []string{tag, srcHex, strconv.Itoa(c.lvl), hk.Hxs(timeTxt), hk.Hxs(c.msg), encChain(c.chain), sb.String(), strconv.Itoa(len(cap.writes))}
	for _, w := range cap.writes {
		fields = append(fields, hk.Hx(w))
		r.scanQuoted(w)
	}
	r.e.Case(fields...)
	r.ncases++
	hh := fnv.New64a()
	for _, f := range fields[1:7] { // the input part of the case
		hh.Write([]byte(f))
		hh.Write([]byte{' '})
	}
	r.distinct[hh.Sum64()] = struct{}{}
	if c.sample && len(cap.writes) == 1 {
		r.e.Sample("samples", map[string]string{"msg": c.msg, "chain": encChain(c.chain), "attrs": sb.String(), "line": string(cap.writes[0])}, 6)
	}
}

// scanQuoted walks a written line the way a reader would and records every quoted item
// together with strconv.Unquote's answer.
func (r *runner) scanQuoted(w []byte) {
	s := strings.TrimSuffix(string(w), "\n")
	for len(s) > 0 {
		if s[0] == '"' {
			lit, err := strconv.QuotedPrefix(s)
			if err != nil {
				return
			}
			r.quoted++
			r.addQ(lit)
			s = s[len(lit):]
		} else {
			i := strings.IndexAny(s, " =")
			if i < 0 {
				return
			}
			s = s[i:]
		}
		if len(s) > 0 {
			s = s[1:] // the separator
		}
	}
}

func (r *runner) addQ(lit string) {
	if r.seenQ[lit] || r.nQ >= r.maxQ {
		return
	}
	r.seenQ[lit] = true
	r.nQ++
	v, err := strconv.Unquote(lit)
	if err != nil {
		r.e.Case("Q", hk.Hxs(lit), "~")
	} else {
		r.e.Case("Q", hk.Hxs(lit), hk.Hxs(v))
	}
}

// ---------------------------------------------------------------- value kinds

type tmOK struct{ text string }

func (t tmOK) MarshalText() ([]byte, error) { return []byte(t.text), nil }

type tmFail struct{ msg string }

func (t tmFail) MarshalText() ([]byte, error) { return nil, errors.New(t.msg) }

// both an error and a TextMarshaler: MarshalText wins
type tmErr struct{ text, errText string }

func (t tmErr) MarshalText() ([]byte, error) { return []byte(t.text), nil }
func (t tmErr) Error() string                { return t.errText }

// methods that panic: a nil pointer receiver (the handler writes <nil>, like fmt and log/slog) and a
// non-nil receiver (the handler writes !PANIC: <panic value>)
type ptrTM struct{ s string }

func (p *ptrTM) MarshalText() ([]byte, error) { return []byte(p.s), nil }

type ptrErr struct{ s string }

func (p *ptrErr) Error() string { return p.s }

type tmPanics struct{ v any }

func (t tmPanics) MarshalText() ([]byte, error) { panic(t.v) }

type errPanics struct{ v any }

func (e errPanics) Error() string { panic(e.v) }

type myErr struct{ s string }

func (e myErr) Error() string { return e.s }

type stringer struct{ s string }

func (s stringer) String() string { return s.s }

type plain struct {
	A string
	B int
}

type valuer struct{ v slog.Value }

func (v valuer) LogValue() slog.Value { return v.v }

var zones = []*time.Location{time.UTC, time.FixedZone("", 8*3600), time.FixedZone("x", -(3*3600 + 30*60)), time.FixedZone("y", 14*3600)}

func randTime(g *hk.Rng) time.Time {
	sec := int64(g.Intn(1<<31))*int64(1+g.Intn(100)) - 62135596800*int64(g.Intn(2))
	if sec < -62135596800 {
		sec = -62135596800
	}
	return time.Unix(sec, int64(g.Intn(1e9))).In(zones[g.Intn(len(zones))])
}

var hostile = []string{
	" k=v", "a b", "a=b", "\"", "\"q\"", "\"\"", "\\", "a\\b", "\\\"", "x=\"y\"", "\n", "a\nb", "\r\n", "\t",
	" level=ERROR msg=forged", "\ntime=2000-01-01T00:00:00Z level=INFO msg=forged", "\x00", "\x7f", "\x1b[31m",
	"\u00a0", "a\u00a0b", "\u2028", "\u2029", "\u0085", "\u3000", "\u1680", "\u200b", "\ufeff", "\ufffd", "\u00ad",
	"\xff", "a\xffb", "\xc0\x80", "\xed\xa0\x80", "\xf4\x90\x80\x80", "\xe2\x82", "\x80", "\u00e9", "\u65e5\u672c\u8a9e", "\U0001f600", "\U000e0001",
	"=", " ", "  ", "a ", " a", "a=", "=a", "a\"", "'", "`", "a.b", ".", "..", "a.", ".a", "key", "time", "msg", "level", "source",
	"<nil>", "!BADKEY", "\\x00", "\\u00e9", "\\n",
}

func (r *runner) randString(g *hk.Rng) string {
	switch g.Intn(10) {
	case 0:
		return ""
	case 1, 2:
		return hostile[g.Intn(len(hostile))]
	case 3, 4:
		return []string{"k", "key", "id", "user", "path", "a.b", "x_1", "value", "42", "true"}[g.Intn(10)]
	}
	n := 1 + g.Intn(8)
	if g.Chance(5) {
		n = 20 + g.Intn(200)
	}
	var b []byte
	for i := 0; i < n; i++ {
		switch g.Intn(8) {
		case 0:
			b = append(b, " =\"\\\n\t\r.'"[g.Intn(9)])
		case 1:
			b = append(b, byte(g.Intn(256)))
		case 2:
			b = utf8.AppendRune(b, rune(g.Intn(0x3000)))
		case 3:
			b = append(b, hostile[g.Intn(len(hostile))]...)
		case 4:
			b = utf8.AppendRune(b, rune(g.Intn(0x110000)))
		default:
			const plainChars = "abcdefghijklmnopqrstuvwxyzABCXYZ0123456789-_/:,.{}[]()<>?%^@+~#$&*!|;"
			b = append(b, plainChars[g.Intn(len(plainChars))])
		}
	}
	return string(b)
}

// randLeaf returns a slog value of a random kind together with its abstract description.
func (r *runner) randLeaf(g *hk.Rng, key string) (slog.Attr, node) {
	s := r.randString(g)
	k := g.Intn(22)
	name := ""
	var a slog.Attr
	var n node
	sN := func(t string) node { return node{kind: 's', key: key, text: t} }
	vN := func(t string) node { return node{kind: 'v', key: key, text: t} }
	switch k {
	case 0, 1, 2, 3:
		name, a, n = "string", slog.String(key, s), sN(s)
	case 4:
		i := int64(g.U64())
		if g.Chance(50) {
			i = int64(g.Intn(2000)) - 1000
		}
		name, a, n = "int64", slog.Int64(key, i), vN(strconv.FormatInt(i, 10))
	case 5:
		u := g.U64()
		name, a, n = "uint64", slog.Uint64(key, u), vN(strconv.FormatUint(u, 10))
	case 6:
		fs := []float64{0, math.Copysign(0, -1), 1, -1.5, math.NaN(), math.Inf(1), math.Inf(-1), 1e21, 1e-7, math.MaxFloat64, math.SmallestNonzeroFloat64, math.Float64frombits(g.U64()), float64(g.Intn(1000000)) / 100}
		f := fs[g.Intn(len(fs))]
		name, a, n = "float64", slog.Float64(key, f), vN(strconv.FormatFloat(f, 'g', -1, 64))
	case 7:
		b := g.Bool()
		name, a, n = "bool", slog.Bool(key, b), vN(strconv.FormatBool(b))
	case 8:
		ds := []time.Duration{0, 1, 999, 1500, time.Microsecond, time.Millisecond * 3 / 2, time.Second, time.Hour*100 + 3, -time.Minute, math.MinInt64, math.MaxInt64, time.Duration(g.U64())}
		d := ds[g.Intn(len(ds))]
		name, a, n = "duration", slog.Duration(key, d), vN(d.String())
	case 9:
		t := randTime(g)
		name, a, n = "time", slog.Time(key, t), vN(t.Format(time.RFC3339))
	case 10:
		name, a, n = "textmarshaler_ok", slog.Any(key, tmOK{s}), sN(s)
	case 11:
		name, a, n = "textmarshaler_fail", slog.Any(key, tmFail{s}), sN(s)
	case 12:
		name, a, n = "textmarshaler_and_error", slog.Any(key, tmErr{s, "other"}), sN(s)
	case 13:
		if g.Bool() {
			name, a, n = "error", slog.Any(key, myErr{s}), sN(s)
		} else {
			name, a, n = "error", slog.Any(key, fmt.Errorf("wrap: %w", myErr{s})), sN("wrap: "+s)
		}
	case 14:
		name, a, n = "bytes", slog.Any(key, []byte(s)), sN(s)
	case 15:
		name, a, n = "ansistring", slog.Any(key, logger.AnsiString{Prefix: "\x1b[31m", Value: s}), sN(s)
	case 16:
		vs := []any{nil, []int{1, 2}, map[string]int{s: 1}, plain{s, 7}, &plain{s, 7}, stringer{s}, []string{s, s}, int8(-3), uintptr(9), complex(1, -2), [2]bool{true, false}, struct{}{}}
		v := vs[g.Intn(len(vs))]
		var t string
		switch x := v.(type) { // the kinds slog.AnyValue turns into non-Any values
		case int8:
			name, a, n = "any_int8", slog.Any(key, x), vN(strconv.FormatInt(int64(x), 10))
		case uintptr:
			name, a, n = "any_uintptr", slog.Any(key, x), vN(strconv.FormatUint(uint64(x), 10))
		default:
			t = fmt.Sprint(v)
			name, a, n = "any_sprint", slog.Any(key, v), sN(t)
		}
	case 17:
		// LogValuer resolving to a leaf
		ia, in := r.randLeaf(g, key)
		depth := 1 + g.Intn(3)
		v := ia.Value
		for i := 0; i < depth; i++ {
			v = slog.AnyValue(valuer{v})
		}
		name, a, n = "logvaluer", slog.Attr{Key: key, Value: v}, in
	case 20:
		switch g.Intn(4) {
		case 0:
			name, a, n = "textmarshaler_nilptr", slog.Any(key, (*ptrTM)(nil)), sN("<nil>")
		case 1:
			name, a, n = "textmarshaler_ptr", slog.Any(key, &ptrTM{s}), sN(s)
		case 2:
			name, a, n = "textmarshaler_panics", slog.Any(key, tmPanics{s}), sN("!PANIC: "+s)
		default:
			name, a, n = "textmarshaler_panics", slog.Any(key, tmPanics{errors.New(s)}), sN("!PANIC: "+s)
		}
	case 21:
		switch g.Intn(3) {
		case 0:
			name, a, n = "error_nilptr", slog.Any(key, (*ptrErr)(nil)), sN("<nil>")
		case 1:
			name, a, n = "error_panics", slog.Any(key, errPanics{s}), sN("!PANIC: "+s)
		default:
			name, a, n = "error_panics", slog.Any(key, errPanics{g.Intn(100)}), node{}
			n = sN("!PANIC: " + fmt.Sprint(a.Value.Any().(errPanics).v))
		}
	case 18:
		hs := hostile[g.Intn(len(hostile))]
		name, a, n = "string_hostile", slog.String(key, hs), sN(hs)
	default:
		name, a, n = "string_empty", slog.String(key, ""), sN("")
	}
	r.kinds[name]++
	return a, n
}

func (r *runner) randAttr(g *hk.Rng, depth int) (slog.Attr, node) {
	key := r.randString(g)
	if depth > 0 && g.Chance(30) {
		if g.Chance(25) {
			key = "" // inline group
			r.kinds["group_inline"]++
		}
		nm := g.Intn(4)
		if g.Chance(10) {
			nm = 0
			r.kinds["group_empty"]++
		}
		var as []slog.Attr
		var ns []node
		for i := 0; i < nm; i++ {
			a, n := r.randAttr(g, depth-1)
			as = append(as, a)
			ns = append(ns, n)
		}
		r.kinds["group"]++
		v := slog.GroupValue(as...)
		if g.Chance(20) {
			v = slog.AnyValue(valuer{v}) // LogValuer resolving to a group
			r.kinds["logvaluer_group"]++
		}
		return slog.Attr{Key: key, Value: v}, node{kind: 'g', key: key, members: ns}
	}
	return r.randLeaf(g, key)
}

func (r *runner) randAttrs(g *hk.Rng, max, depth int) ([]slog.Attr, []node) {
	n := g.Intn(max + 1)
	var as []slog.Attr
	var ns []node
	for i := 0; i < n; i++ {
		a, nd := r.randAttr(g, depth)
		as = append(as, a)
		ns = append(ns, nd)
	}
	return as, ns
}

func (r *runner) randGroupName(g *hk.Rng) string {
	for {
		var s string
		if g.Chance(40) {
			s = []string{"g", "req", "a.b", "a b", "\"g\"", "g=1", ".", "x.", "h\u00a0", "\xff", "a\nb"}[g.Intn(11)]
		} else {
			s = r.randString(g)
		}
		if s != "" {
			return s
		}
	}
}

func (r *runner) randChain(g *hk.Rng, maxLen int) []step {
	n := g.Intn(maxLen + 1)
	var c []step
	for i := 0; i < n; i++ {
		if g.Bool() {
			c = append(c, step{group: true, name: r.randGroupName(g)})
		} else {
			as, ns := r.randAttrs(g, 3, 2)
			c = append(c, step{attrs: as, nodes: ns})
		}
	}
	return c
}

// ---------------------------------------------------------------- sweeps

var fixedTime = time.Date(2023, 8, 16, 0, 35, 15, 208873091, time.FixedZone("", 8*3600))

// one record with s in all four positions
func (r *runner) combined(s string, i int) {
	var chain []step
	if s != "" {
		chain = []step{{group: true, name: s}}
	}
	r.run(tcase{chain: chain, lvl: i % 5, tm: fixedTime, msg: s,
		attrs: []slog.Attr{slog.String(s, s)}, nodes: []node{{kind: 's', key: s, text: s}}})
}

// s in one position at a time
func (r *runner) separate(s string, i int) {
	r.run(tcase{lvl: i % 5, tm: fixedTime, msg: s, addSource: i%2 == 0, zeroPC: i%4 == 0, site: i % len(sites)})
	r.run(tcase{lvl: i % 5, tm: fixedTime, msg: "m", attrs: []slog.Attr{slog.String(s, "v")}, nodes: []node{{kind: 's', key: s, text: "v"}}})
	r.run(tcase{lvl: i % 5, tm: fixedTime, msg: "m", attrs: []slog.Attr{slog.String("k", s)}, nodes: []node{{kind: 's', key: "k", text: s}}})
	if s != "" {
		r.run(tcase{chain: []step{{group: true, name: s}}, lvl: i % 5, tm: fixedTime, msg: "m",
			attrs: []slog.Attr{slog.Int("k", i)}, nodes: []node{{kind: 'v', key: "k", text: strconv.Itoa(i)}}})
		// as key of a group around a leaf, and as a With attribute behind a group
		r.run(tcase{lvl: i % 5, tm: fixedTime, msg: "m",
			attrs: []slog.Attr{slog.Group(s, slog.String("k", "v"))}, nodes: []node{{kind: 'g', key: s, members: []node{{kind: 's', key: "k", text: "v"}}}}})
	}
	r.run(tcase{chain: []step{{group: true, name: "g"}, {attrs: []slog.Attr{slog.String(s, s)}, nodes: []node{{kind: 's', key: s, text: s}}}}, lvl: i % 5, tm: fixedTime, msg: "m", viaLogger: 1 + i%2})
	// through the other leaf kinds that carry text
	r.run(tcase{lvl: i % 5, tm: fixedTime, msg: "m",
		attrs: []slog.Attr{slog.Any("e", myErr{s}), slog.Any("t", tmOK{s}), slog.Any("f", tmFail{s}), slog.Any("b", []byte(s)), slog.Any("a", logger.AnsiString{Value: s}), slog.Any("s", stringer{s})},
		nodes: []node{{kind: 's', key: "e", text: s}, {kind: 's', key: "t", text: s}, {kind: 's', key: "f", text: s}, {kind: 's', key: "b", text: s}, {kind: 's', key: "a", text: s}, {kind: 's', key: "s", text: s}}})
	// methods that panic inside the handler: nil pointer receivers and panic values carrying s
	r.run(tcase{lvl: i % 5, tm: fixedTime, msg: "m", viaLogger: i % 2,
		attrs: []slog.Attr{slog.Any("tn", (*ptrTM)(nil)), slog.Any("tp", tmPanics{s}), slog.Any("en", (*ptrErr)(nil)), slog.Any("ep", errPanics{s}), slog.Any("ee", errPanics{errors.New(s)}), slog.Any("t", &ptrTM{s})},
		nodes: []node{{kind: 's', key: "tn", text: "<nil>"}, {kind: 's', key: "tp", text: "!PANIC: " + s}, {kind: 's', key: "en", text: "<nil>"}, {kind: 's', key: "ep", text: "!PANIC: " + s}, {kind: 's', key: "ee", text: "!PANIC: " + s}, {kind: 's', key: "t", text: s}}})
}

func dumpTables(e *hk.Env) error {
	var sb strings.Builder
	nr := map[string]int{}
	dump := func(name string, f func(rune) bool) {
		sb.WriteString("T " + name)
		start := rune(-1)
		for r := rune(0x80); r <= 0x110000; r++ {
			in := r < 0x110000 && f(r)
			if in && start < 0 {
				start = r
			}
			if !in && start >= 0 {
				fmt.Fprintf(&sb, " %d:%d", start, r-1)
				nr[name]++
				start = -1
			}
		}
		sb.WriteString("\n")
	}
	dump("space", unicode.IsSpace)
	dump("uprint", unicode.IsPrint)
	dump("sprint", strconv.IsPrint)
	e.Stats["table_ranges"] = nr
	e.Stats["unicode_version"] = unicode.Version
	if err := os.WriteFile(filepath.Join(e.Out, "tables.txt"), []byte(sb.String()), 0o644); err != nil {
		return err
	}
	if vd := os.Getenv("VERIF_DIR"); vd != "" {
		dst := filepath.Join(vd, ".build", "c13-tables.txt")
		tmp := fmt.Sprintf("%s.tmp%d", dst, os.Getpid())
		if err := os.WriteFile(tmp, []byte(sb.String()), 0o644); err != nil {
			return err
		}
		return os.Rename(tmp, dst)
	}
	return nil
}

func run(e *hk.Env) error {
	if err := dumpTables(e); err != nil {
		return err
	}
	r := &runner{e: e, seenQ: map[string]bool{}, maxQ: 60000, kinds: map[string]int{}, srcSeen: map[string]int{}, distinct: map[uint64]struct{}{}}
	if e.Thorough() {
		r.maxQ = 400000
	}
	g := e.Rng.Fork()

	// 1. the empty string and every 1-byte string, one position at a time and combined
	r.separate("", 0)
	r.combined("", 0)
	for b := 0; b < 256; b++ {
		s := string([]byte{byte(b)})
		r.separate(s, b)
		r.combined(s, b)
	}
	e.Stats["one_byte_strings"] = 256
	// 2. hostile strings, Unicode spaces, non-printing runes, invalid UTF-8
	special := append([]string(nil), hostile...)
	nsp := 0
	for c := rune(0); c < 0x110000; c++ {
		if unicode.IsSpace(c) {
			special = append(special, string(c), "a"+string(c)+"b")
			nsp++
		}
	}
	e.Stats["unicode_spaces"] = nsp
	for _, c := range []rune{0x80, 0x9f, 0xad, 0x34f, 0x61c, 0x115f, 0x180e, 0x200b, 0x200e, 0x202e, 0x2060, 0x2066, 0xd7ff, 0xe000, 0xf8ff, 0xfeff, 0xfff9, 0xfffc, 0xfffd, 0xfffe, 0xffff, 0x10000, 0x1d173, 0xe0001, 0xe0100, 0xf0000, 0x10fffd, 0x10ffff} {
		special = append(special, string(c), "x"+string(c))
	}
	for _, s := range []string{"\x80", "\xbf", "\xc0", "\xc1\xbf", "\xc2", "\xc2\x20", "\xdf", "\xe0\x80\x80", "\xe0\x9f\xbf", "\xe0\xa0", "\xed\xa0\x80", "\xed\xbf\xbf", "\xef\xbf", "\xf0\x80\x80\x80", "\xf0\x8f\xbf\xbf", "\xf0\x90\x80", "\xf4\x8f\xbf", "\xf4\x90\x80\x80", "\xf5\x80\x80\x80", "\xf8\x88\x80\x80\x80", "\xfe", "\xff\xfe", "a\x80=b", "\xe2\x80\xa8"[:2] + " x"} {
		special = append(special, s, s+"z")
	}
	for i, s := range special {
		r.separate(s, i)
		r.combined(s, i)
	}
	e.Stats["special_strings"] = len(special)
	// 3. 2-byte strings
	stride := 23
	if e.Thorough() {
		stride = 1
	}
	n2 := 0
	for v := g.Intn(stride); v < 65536; v += stride {
		r.combined(string([]byte{byte(v >> 8), byte(v)}), v)
		n2++
	}
	e.Stats["two_byte_strings"] = n2
	e.Stats["two_byte_stride"] = stride
	// 4. Unicode scalars (and surrogates, which Go turns into U+FFFD)
	limit := rune(0x3000)
	if e.Thorough() {
		limit = 0x30000
	}
	nsc := 0
	scalar := func(c rune) {
		r.combined(string(c), int(c))
		if c%7 == 0 {
			r.combined("x"+string(c)+"y", int(c))
		}
		nsc++
	}
	for c := rune(0x80); c < limit; c++ {
		scalar(c)
	}
	for _, base := range []rune{0xd7ff, 0xe000, 0xfdd0, 0xfff0, 0x10000, 0x1fff0, 0x20000, 0x2fff0, 0x30000, 0x3fff0, 0xe0000, 0xe0100, 0xefff0, 0xf0000, 0xffff0, 0x100000, 0x10fff0} {
		for c := base; c < base+16 && c <= 0x10ffff; c++ {
			if c >= limit {
				scalar(c)
			}
		}
	}
	nsample := 3000
	if e.Thorough() {
		nsample = 100000
	}
	for i := 0; i < nsample; i++ {
		scalar(limit + rune(g.Intn(int(0x110000-limit))))
	}
	e.Stats["scalars"] = nsc
	e.Stats["scalars_exhaustive_below"] = fmt.Sprintf("U+%X", limit)
	// 4b. source on: every call site (file names with space, '=', quotes, Unicode spaces, backslash) through
	// Logger.LogAttrs and through hand-built records, PC == 0, all levels, with and without a chain
	nsrc := 0
	for si := range sites {
		for lv := 0; lv < 5; lv++ {
			for via := 0; via < 2; via++ {
				for _, ch := range [][]step{nil, {{group: true, name: "g h"}}} {
					r.run(tcase{chain: ch, lvl: lv, addSource: true, tm: fixedTime, msg: "m s", viaLogger: via, site: si,
						attrs: []slog.Attr{slog.String("k", "v")}, nodes: []node{{kind: 's', key: "k", text: "v"}}})
					nsrc++
				}
			}
		}
	}
	for lv := 0; lv < 5; lv++ {
		r.run(tcase{lvl: lv, addSource: true, tm: fixedTime, msg: "zero pc", zeroPC: true})
		r.run(tcase{lvl: lv, addSource: true, tm: fixedTime, msg: "", zeroPC: true, chain: []step{{group: true, name: "g"}},
			attrs: []slog.Attr{slog.Int("n", lv)}, nodes: []node{{kind: 'v', key: "n", text: strconv.Itoa(lv)}}})
		nsrc += 2
	}
	e.Stats["source_sweep_cases"] = nsrc
	// 4c. every Logger method (plain and *f) from its own wrapper, source on: the source item must be the wrapper's call line
	nm := 0
	for mi := range methods {
		m := &methods[mi]
		for _, src := range []bool{true, true, false} {
			for ci, ch := range [][]step{nil, {{group: true, name: "g h"}, {attrs: []slog.Attr{slog.String("w", "x y")}, nodes: []node{{kind: 's', key: "w", text: "x y"}}}}} {
				for _, msg := range []string{"m", "m s", "a=b\nc", ""} {
					c := tcase{chain: ch, lvl: m.lvl, addSource: src, msg: msg, viaLogger: 3, method: m}
					if !m.formatted {
						c.attrs = []slog.Attr{slog.String("k", "v"), slog.Int("n", ci)}
						c.nodes = []node{{kind: 's', key: "k", text: "v"}, {kind: 'v', key: "n", text: strconv.Itoa(ci)}}
					}
					r.run(c)
					nm++
				}
			}
		}
	}
	e.Stats["method_sweep_cases"] = nm
	// 4d. malformed argument lists through Logger.Info / Logger.With: !BADKEY
	bad := "!BADKEY"
	sN := func(k, t string) node { return node{kind: 's', key: k, text: t} }
	vN := func(k, t string) node { return node{kind: 'v', key: k, text: t} }
	type badCase struct {
		args  []any
		nodes []node
	}
	badCases := []badCase{
		{[]any{"k"}, []node{sN(bad, "k")}},
		{[]any{"k k"}, []node{sN(bad, "k k")}},
		{[]any{42}, []node{vN(bad, "42")}},
		{[]any{"a", 1, "b"}, []node{vN("a", "1"), sN(bad, "b")}},
		{[]any{3.5, "x", "y z"}, []node{vN(bad, "3.5"), sN("x", "y z")}},
		{[]any{myErr{"e r"}}, []node{sN(bad, "e r")}},
		{[]any{nil}, []node{sN(bad, "<nil>")}},
		{[]any{slog.String("p", "q"), "tail"}, []node{sN("p", "q"), sN(bad, "tail")}},
		{[]any{[]byte("b b"), true}, []node{sN(bad, "b b"), vN(bad, "true")}},
		{[]any{"", ""}, []node{sN("", "")}},
		{[]any{"k", "v", 7, 8}, []node{sN("k", "v"), vN(bad, "7"), vN(bad, "8")}},
		{[]any{time.Second, "d"}, []node{vN(bad, "1s"), sN(bad, "d")}},
	}
	for bi, bc := range badCases {
		for _, mi := range []int{1, 2, 5} { // Info, Warn, Log
			m := &methods[mi]
			r.run(tcase{lvl: m.lvl, addSource: bi%2 == 0, msg: "bad", viaLogger: 3, method: m, rawArgs: bc.args, nodes: bc.nodes})
			r.run(tcase{lvl: m.lvl, addSource: bi%2 == 1, msg: "bad", viaLogger: 3, method: m,
				chain: []step{{group: true, name: "g"}, {rawArgs: bc.args, nodes: bc.nodes}}, rawArgs: []any{}})
		}
	}
	e.Stats["badkey_cases"] = len(badCases) * 6
	// 4e. long inputs (a reader must not depend on a size threshold): hostile content at the start, in the middle and
	// at the end of long messages, keys, values and group names
	sizes := []int{64, 1024, 2150, 4096}
	bigSizes := []int{17 * 1024, 70 * 1024}
	hostileBits := []string{"", "\u00a0", "\u2028", "=", "\"", " ", "\n", "\x00", "\xff", "\u0085", "\u200b"}
	bigBits := []string{"", "\u00a0", "=", "\xff"}
	fillers := []string{"a", "\u00e9", "ab/c-"}
	nlong := 0
	long := func(size int, bit string, place int, fill string) string {
		var sb strings.Builder
		pos := []int{0, size / 2, size}[place]
		for sb.Len() < pos {
			sb.WriteString(fill)
		}
		sb.WriteString(bit)
		for sb.Len() < size {
			sb.WriteString(fill)
		}
		return sb.String()
	}
	longCase := func(s string, position int) {
		c := tcase{lvl: nlong % 5, tm: fixedTime, msg: "m", tag: "L", viaLogger: nlong % 2}
		switch position {
		case 0:
			c.msg = s
		case 1:
			c.attrs, c.nodes = []slog.Attr{slog.String(s, "v")}, []node{{kind: 's', key: s, text: "v"}}
		case 2:
			c.attrs, c.nodes = []slog.Attr{slog.String("k", s)}, []node{{kind: 's', key: "k", text: s}}
		case 3:
			c.chain = []step{{group: true, name: s}}
			c.attrs, c.nodes = []slog.Attr{slog.Any("k", myErr{"e"})}, []node{{kind: 's', key: "k", text: "e"}}
		}
		r.run(c)
		nlong++
	}
	for _, size := range sizes {
		for bi, bit := range hostileBits {
			for place := 0; place < 3; place++ {
				for position := 0; position < 4; position++ {
					longCase(long(size, bit, place, fillers[(bi+place+position)%len(fillers)]), position)
				}
			}
		}
	}
	for si, size := range bigSizes {
		for bi, bit := range bigBits {
			for place := 0; place < 3; place++ {
				for position := 0; position < 4; position++ {
					if !e.Thorough() && (si == 1 && place != 2 || (bi+place+position)%2 == 1) {
						continue
					}
					longCase(long(size, bit, place, fillers[(bi+place)%len(fillers)]), position)
				}
			}
		}
	}
	e.Stats["long_input_cases"] = nlong
	e.Stats["long_input_sizes"] = append(append([]int(nil), sizes...), bigSizes...)
	// 4f. values of standard-library types (TextMarshaler / Stringer / error) carrying hostile bytes
	e.Stats["stdlib_value_cases"] = r.stdSweep()
	// 5. random attribute trees, chains, levels, source on/off, three entry points
	nrand := 12000
	if e.Thorough() {
		nrand = 250000
	}
	via := map[int]int{}
	for i := 0; i < nrand; i++ {
		gi := g.Fork()
		as, ns := r.randAttrs(gi, 5, 5)
		c := tcase{chain: r.randChain(gi, 5), lvl: gi.Intn(5), addSource: gi.Chance(30), tm: randTime(gi), msg: r.randString(gi),
			attrs: as, nodes: ns, viaLogger: gi.Intn(3), site: gi.Intn(len(sites)), zeroPC: gi.Chance(15)}
		if c.viaLogger == 2 {
			c.site = 0
		}
		c.sample = i%997 == 5 && len(ns) > 0
		via[c.viaLogger]++
		r.run(c)
	}
	e.Stats["random_records"] = nrand
	e.Stats["random_entry_points(handle,logattrs,log)"] = via
	// 6. unquote cross-check on synthetic literals (accepts and rejects)
	nsyn := 20000
	if e.Thorough() {
		nsyn = 200000
	}
	alpha := []string{"\\", "\"", "x", "u", "U", "0", "1", "7", "8", "a", "f", "F", "n", "t", "'", "\n", "\x80", "\xff", "\u00e9", "\\x", "\\u00", "\\U0010", "\\377", "\\400", "\\ud800", "\\U00110000", " ", "=", "g", "\\\\", "\\\""}
	for i := 0; i < nsyn; i++ {
		var sb strings.Builder
		sb.WriteByte('"')
		for j, n := 0, g.Intn(6); j < n; j++ {
			sb.WriteString(alpha[g.Intn(len(alpha))])
		}
		if !g.Chance(10) {
			sb.WriteByte('"')
		}
		if g.Chance(5) {
			sb.WriteString("x")
		}
		r.maxQ++
		r.addQ(sb.String())
	}
	e.Stats["cases"] = r.ncases
	e.Stats["distinct_nontrivial"] = len(r.distinct)
	e.Stats["quoted_items_seen"] = r.quoted
	e.Stats["unquote_crosschecks"] = r.nQ
	e.Stats["value_kinds"] = r.kinds
	e.Stats["source_texts"] = r.srcSeen
	return nil
}
