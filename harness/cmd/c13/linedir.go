package main

import (
	"context"
	"log/slog"
	"runtime"

	"github.com/whoisnian/glb/logger"
)

// Call sites whose file names, as the runtime reports them, need quoting in a key=value
// line: the functions below are declared under //line directives. Each xxxLog takes its own
// pc one line above the logging call; each xxxPC returns a pc inside itself for hand-built records.

type site struct {
	name     string
	logAttrs func(l *logger.Logger, lvl slog.Level, msg string, attrs []slog.Attr) uintptr
	pc       func() uintptr
}

var sites = []site{
	{"plain", callLogAttrs, plainPC},
	{"space_eq", oddALog, oddAPC},
	{"quote", oddBLog, oddBPC},
	{"nbsp_dir", oddCLog, oddCPC},
	{"backslash_only", oddDLog, oddDPC},
}

//go:noinline
func plainPC() uintptr {
	var pcs [1]uintptr
	runtime.Callers(1, pcs[:])
	return pcs[0]
}

//line /srv/my app/ma=in.go:7
//go:noinline
func oddALog(l *logger.Logger, lvl slog.Level, msg string, attrs []slog.Attr) uintptr {
	var pcs [1]uintptr
	runtime.Callers(1, pcs[:])
	l.LogAttrs(context.Background(), lvl, msg, attrs...)
	return pcs[0]
}

//go:noinline
func oddAPC() uintptr {
	var pcs [1]uintptr
	runtime.Callers(1, pcs[:])
	return pcs[0]
}

//line /srv/a"b/c".go:100
//go:noinline
func oddBLog(l *logger.Logger, lvl slog.Level, msg string, attrs []slog.Attr) uintptr {
	var pcs [1]uintptr
	runtime.Callers(1, pcs[:])
	l.LogAttrs(context.Background(), lvl, msg, attrs...)
	return pcs[0]
}

//go:noinline
func oddBPC() uintptr {
	var pcs [1]uintptr
	runtime.Callers(1, pcs[:])
	return pcs[0]
}

//line /srv/dir with nbsp/key=value level=ERROR.go:4000
//go:noinline
func oddCLog(l *logger.Logger, lvl slog.Level, msg string, attrs []slog.Attr) uintptr {
	var pcs [1]uintptr
	runtime.Callers(1, pcs[:])
	l.LogAttrs(context.Background(), lvl, msg, attrs...)
	return pcs[0]
}

//go:noinline
func oddCPC() uintptr {
	var pcs [1]uintptr
	runtime.Callers(1, pcs[:])
	return pcs[0]
}

//line /srv/back\slash/x.go:1
//go:noinline
func oddDLog(l *logger.Logger, lvl slog.Level, msg string, attrs []slog.Attr) uintptr {
	var pcs [1]uintptr
	runtime.Callers(1, pcs[:])
	l.LogAttrs(context.Background(), lvl, msg, attrs...)
	return pcs[0]
}

//go:noinline
func oddDPC() uintptr {
	var pcs [1]uintptr
	runtime.Callers(1, pcs[:])
	return pcs[0]
}
