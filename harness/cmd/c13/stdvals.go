package main

import (
	"encoding"
	"encoding/json"
	"errors"
	"fmt"
	"log/slog"
	"math/big"
	"net"
	"net/netip"
	"net/url"
	"os"
	"reflect"
	"regexp"
	"strconv"
	"syscall"
	"time"

	"github.com/whoisnian/glb/logger"
)

// Values of standard-library types that implement encoding.TextMarshaler / fmt.Stringer / error and can
// carry caller-controlled bytes (zones, paths, fragments, names, operands). The expected token value is
// what the handler's documented rule yields for the value: TextMarshaler text (or its error's text),
// AnsiString value, error text, []byte as string, else fmt.Sprint - computed here with the stdlib.

func ruleText(v any) (s string) {
	defer func() {
		if r := recover(); r != nil {
			if rv := reflect.ValueOf(v); rv.Kind() == reflect.Pointer && rv.IsNil() {
				s = "<nil>"
			} else {
				s = fmt.Sprintf("!PANIC: %v", r)
			}
		}
	}()
	switch x := v.(type) {
	case encoding.TextMarshaler:
		b, err := x.MarshalText()
		if err != nil {
			return err.Error()
		}
		return string(b)
	case logger.AnsiString:
		return x.Value
	case error:
		return x.Error()
	case []byte:
		return string(x)
	}
	return fmt.Sprint(v)
}

// stdNode: the abstract description of slog.Any(key, v) for a stdlib value.
func stdNode(key string, v any) (slog.Attr, node, bool) {
	a := slog.Any(key, v)
	switch a.Value.Kind() {
	case slog.KindAny:
		return a, node{kind: 's', key: key, text: ruleText(a.Value.Any())}, true
	case slog.KindString:
		return a, node{kind: 's', key: key, text: a.Value.String()}, true
	case slog.KindDuration:
		return a, node{kind: 'v', key: key, text: a.Value.Duration().String()}, true
	case slog.KindTime:
		return a, node{kind: 'v', key: key, text: a.Value.Time().Format(time.RFC3339)}, true
	case slog.KindInt64:
		return a, node{kind: 'v', key: key, text: strconv.FormatInt(a.Value.Int64(), 10)}, true
	case slog.KindUint64:
		return a, node{kind: 'v', key: key, text: strconv.FormatUint(a.Value.Uint64(), 10)}, true
	case slog.KindBool:
		return a, node{kind: 'v', key: key, text: strconv.FormatBool(a.Value.Bool())}, true
	}
	return a, node{}, false
}

var stdHostile = []string{
	"eth0", "Ethernet 2", "x\ntime=2000-01-01T00:00:00Z level=ERROR msg=forged", "a=b", "q\"z", "\"", "\u00a0", "a\u2028b",
	"\xff", "\t", "\\", "\u0085", "k=v w=x", "\x00", "\x7f",
}

// stdValues returns the stdlib values built around the hostile text h.
func stdValues(h string) []any {
	a6 := netip.MustParseAddr("fe80::1")
	var vs []any
	add := func(v ...any) { vs = append(vs, v...) }
	z := a6.WithZone(h)
	add(z, &z, netip.AddrPortFrom(z, 8080), netip.PrefixFrom(z, 64), netip.PrefixFrom(a6, 64), netip.Addr{}, netip.AddrPort{},
		netip.MustParseAddr("10.0.0.1"), netip.MustParseAddrPort("[::1]:53"))
	add(net.ParseIP("::1"), net.IP(h), net.IP(nil), &net.IPNet{IP: net.ParseIP("10.0.0.0"), Mask: net.CIDRMask(8, 32)}, &net.IPNet{IP: net.IP(h), Mask: net.IPMask(h)},
		&net.TCPAddr{IP: net.ParseIP("fe80::1"), Port: 80, Zone: h}, &net.UDPAddr{IP: net.ParseIP("fe80::2"), Port: 53, Zone: h},
		&net.IPAddr{IP: net.ParseIP("fe80::3"), Zone: h}, &net.UnixAddr{Name: h, Net: "unix"}, net.HardwareAddr(h))
	add(&url.URL{Scheme: "http", Host: "h", Path: "/" + h, Fragment: h}, &url.URL{Scheme: "mailto", Opaque: h}, url.URL{Scheme: "x", Opaque: h},
		&url.URL{Scheme: "http", Host: h, RawQuery: h}, (*url.URL)(nil), url.UserPassword(h, h), url.Values{h: {h}})
	add(time.Duration(1500), time.Duration(len(h))*time.Hour, time.March, time.Saturday, time.FixedZone(h, 3600), time.UTC)
	add(big.NewInt(-42), new(big.Int).Lsh(big.NewInt(1), 200), (*big.Int)(nil), big.NewFloat(1.5), big.NewRat(3, 7))
	if re, err := regexp.Compile(regexp.QuoteMeta(h)); err == nil {
		add(re)
	}
	if re, err := regexp.Compile("[" + regexp.QuoteMeta(h) + "a]+ ?"); err == nil {
		add(re)
	}
	add(&net.OpError{Op: h, Net: "tcp", Err: errors.New(h)}, &os.PathError{Op: "open", Path: h, Err: syscall.ENOENT}, &url.Error{Op: h, URL: h, Err: errors.New(h)},
		&strconv.NumError{Func: "Atoi", Num: h, Err: strconv.ErrSyntax}, errors.Join(errors.New(h), errors.New("second")), fmt.Errorf("ctx %q: %w", h, os.ErrNotExist),
		&net.DNSError{Err: h, Name: h, Server: h}, &net.AddrError{Err: h, Addr: h}, syscall.EINVAL, &os.LinkError{Op: "rename", Old: h, New: h, Err: syscall.EXDEV})
	add(json.Number(h), json.RawMessage(h), slog.LevelInfo+2, slog.KindGroup, os.FileMode(0o644), reflect.TypeOf(h), []error{errors.New(h)}, [2]netip.Addr{z, a6})
	return vs
}

type tnode struct {
	a slog.Attr
	n node
}

// stdSweep: every value as a record attribute, a With attribute, a group member and a LogValuer result.
func (r *runner) stdSweep() int {
	n := 0
	types := map[string]int{}
	for hi, h := range stdHostile {
		for vi, v := range stdValues(h) {
			a, nd, ok := stdNode("v", v)
			if !ok {
				continue
			}
			types[fmt.Sprintf("%T", v)]++
			i := hi + vi
			// record attribute (three entry points in turn)
			r.run(tcase{lvl: i % 5, tm: fixedTime, msg: "m", viaLogger: i % 3, attrs: []slog.Attr{a}, nodes: []node{nd}})
			// With attribute behind a group
			r.run(tcase{lvl: i % 5, tm: fixedTime, msg: "m", viaLogger: (i + 1) % 2,
				chain: []step{{group: true, name: "g"}, {attrs: []slog.Attr{a}, nodes: []node{nd}}}})
			// member of a keyed and of an inline group
			r.run(tcase{lvl: i % 5, tm: fixedTime, msg: "m", viaLogger: i % 2,
				attrs: []slog.Attr{slog.Group("grp", a, slog.Group("", a))},
				nodes: []node{{kind: 'g', key: "grp", members: []node{nd, {kind: 'g', key: "", members: []node{nd}}}}}})
			// result of a LogValuer, directly and inside a group value
			lv := slog.Attr{Key: "v", Value: slog.AnyValue(valuer{a.Value})}
			lg := slog.Attr{Key: "lg", Value: slog.AnyValue(valuer{slog.GroupValue(a)})}
			r.run(tcase{lvl: i % 5, tm: fixedTime, msg: "m", viaLogger: i % 2,
				attrs: []slog.Attr{lv, lg}, nodes: []node{nd, {kind: 'g', key: "lg", members: []node{nd}}}})
			n += 4
		}
	}
	r.e.Stats["stdlib_value_types"] = types
	return n
}
