package main

import (
	"context"
	"runtime"

	"github.com/whoisnian/glb/logger"
)

// Every logging method of Logger, each called from its own wrapper. The wrapper takes its pc
// one line above the call, so the expected `source` item is this file and that line + 1:
// the CALLER of the Logger method, whatever depth the method uses internally.

type method struct {
	name      string
	lvl       int  // index into levels
	formatted bool // *f variant: args go into the message, no attributes
	call      func(l *logger.Logger, msg string, args []any) uintptr
}

//go:noinline
func mDebug(l *logger.Logger, msg string, args []any) uintptr {
	var pcs [1]uintptr
	runtime.Callers(1, pcs[:])
	l.Debug(msg, args...)
	return pcs[0]
}

//go:noinline
func mInfo(l *logger.Logger, msg string, args []any) uintptr {
	var pcs [1]uintptr
	runtime.Callers(1, pcs[:])
	l.Info(msg, args...)
	return pcs[0]
}

//go:noinline
func mWarn(l *logger.Logger, msg string, args []any) uintptr {
	var pcs [1]uintptr
	runtime.Callers(1, pcs[:])
	l.Warn(msg, args...)
	return pcs[0]
}

//go:noinline
func mError(l *logger.Logger, msg string, args []any) uintptr {
	var pcs [1]uintptr
	runtime.Callers(1, pcs[:])
	l.Error(msg, args...)
	return pcs[0]
}

//go:noinline
func mPanicArr(l *logger.Logger, msg string, args []any) (pcs [1]uintptr) {
	defer func() { recover() }()
	runtime.Callers(1, pcs[:])
	l.Panic(msg, args...)
	return pcs
}

func mPanic(l *logger.Logger, msg string, args []any) uintptr { return mPanicArr(l, msg, args)[0] }

//go:noinline
func mLog(l *logger.Logger, msg string, args []any) uintptr {
	var pcs [1]uintptr
	runtime.Callers(1, pcs[:])
	l.Log(context.Background(), logger.LevelFatal, msg, args...)
	return pcs[0]
}

//go:noinline
func mDebugf(l *logger.Logger, msg string, args []any) uintptr {
	var pcs [1]uintptr
	runtime.Callers(1, pcs[:])
	l.Debugf("%s", msg)
	return pcs[0]
}

//go:noinline
func mInfof(l *logger.Logger, msg string, args []any) uintptr {
	var pcs [1]uintptr
	runtime.Callers(1, pcs[:])
	l.Infof("%s", msg)
	return pcs[0]
}

//go:noinline
func mWarnf(l *logger.Logger, msg string, args []any) uintptr {
	var pcs [1]uintptr
	runtime.Callers(1, pcs[:])
	l.Warnf("%s%s", msg, "")
	return pcs[0]
}

//go:noinline
func mErrorf(l *logger.Logger, msg string, args []any) uintptr {
	var pcs [1]uintptr
	runtime.Callers(1, pcs[:])
	l.Errorf("%s", msg)
	return pcs[0]
}

//go:noinline
func mPanicfArr(l *logger.Logger, msg string, args []any) (pcs [1]uintptr) {
	defer func() { recover() }()
	runtime.Callers(1, pcs[:])
	l.Panicf("%s", msg)
	return pcs
}

func mPanicf(l *logger.Logger, msg string, args []any) uintptr { return mPanicfArr(l, msg, args)[0] }

//go:noinline
func mLogf(l *logger.Logger, msg string, args []any) uintptr {
	var pcs [1]uintptr
	runtime.Callers(1, pcs[:])
	l.Logf(context.Background(), logger.LevelWarn, "%s", msg)
	return pcs[0]
}

var methods = []method{
	{"Debug", 0, false, mDebug}, {"Info", 1, false, mInfo}, {"Warn", 2, false, mWarn}, {"Error", 3, false, mError},
	{"Panic", 3, false, mPanic}, {"Log", 4, false, mLog},
	{"Debugf", 0, true, mDebugf}, {"Infof", 1, true, mInfof}, {"Warnf", 2, true, mWarnf}, {"Errorf", 3, true, mErrorf},
	{"Panicf", 3, true, mPanicf}, {"Logf", 2, true, mLogf},
}
