package main

import (
	"context"
	"encoding/json"
	"errors"
	"fmt"
	"io"
	"os"
	"runtime"
	"sort"
	"strconv"
	"strings"
	"sync"
	"sync/atomic"
	"syscall"
	"time"

	"github.com/whoisnian/glb/util/ioutil"
	"verifharness/hk"
)

// C19: ProgressWriter.
//
// One run = one ProgressWriter around a scripted wrapped writer, one writer goroutine that
// performs the script (Write / WriteString) and then Close, one consumer goroutine reading
// Status().  The wrapped writer reports exactly what the script says (short counts, errors)
// and, for the gated kinds, returns only when the controller lets it.
//
// Case line (decimal):
//
//	E <wkind> <ckind> <nops> { <isString> <n> <reported> <err> <Size() after the call> }* <nrecv> { <value> }* <closed> <npieces> { <count reported by one call to the wrapped writer> }*
//
// Size() is read by the writing goroutine right after each call.  Violations judged here
// (timeouts) are written as "VIOL <what> <case-like description>".
func main() { hk.Main("C19", run) }

type opSpec struct {
	str  bool
	n, k int
	err  bool
}

const (
	wPlainGated  = iota // io.Writer only, each underlying call returns when released
	wStringGated        // io.Writer + io.StringWriter, gated
	wPlainFree          // io.Writer only, returns immediately
	wStringFree         // io.Writer + io.StringWriter, returns immediately
)
const (
	cAbsent = iota // nobody receives until all writes returned (then drains for Close)
	cFast          // receives in a loop from the start
	cSlow          // receives one value at a time when told, sometimes gives up waiting
	cLate          // like cFast but starts after half of the calls
	cOnce          // waits for the first update, receives it, then stays busy until Close's send
	// receives the update of the LAST call, stays busy; after Close() has started (and is blocked in its send)
	// it calls pw.Size() from its own goroutine and only then receives. Race-free on the unchanged code: the
	// receive of the last update synchronises with the writer, which performs no write before Close's send.
	cSizeAtClose
)

var errScripted = errors.New("scripted failure")

// The property counts the bytes of a failed write whatever the error IS: the scripted failures cycle through error
// identities that retry / classification helpers single out (interrupted and would-block system calls, short write,
// EOF, deadline and context errors, a net.Error-like temporary timeout). The model only knows "failed".
type tempTimeout struct{}

func (tempTimeout) Error() string   { return "scripted i/o timeout" }
func (tempTimeout) Timeout() bool   { return true }
func (tempTimeout) Temporary() bool { return true }

var errKinds = []error{
	errScripted,
	fmt.Errorf("write: %w", syscall.EINTR),
	syscall.EINTR,
	&os.PathError{Op: "write", Path: "scripted", Err: syscall.EAGAIN},
	io.ErrShortWrite,
	io.EOF,
	os.ErrDeadlineExceeded,
	context.DeadlineExceeded,
	context.Canceled,
	tempTimeout{},
	io.ErrClosedPipe,
	syscall.EPIPE,
	io.ErrUnexpectedEOF,
}

// under is the scripted wrapped writer.
type under struct {
	script  []opSpec
	cur     int    // index of the scripted call in progress, set by the writing goroutine before each call
	reached []bool // the wrapped writer was called for script[i]
	gated   bool
	entered chan int
	gate    chan struct{}
	aborted chan struct{}
	viaStr  int
	viaWr   int
	badLen  int
	// A ProgressWriter may hand one call to the wrapped writer in several pieces. The script of call i says how
	// many bytes of that call's input the wrapped writer accepts in total (k) and whether the piece on which
	// that point is reached (and every later piece) also returns an error.
	calls    []int  // wrapped calls made for script[i]
	accepted []int  // bytes reported so far for script[i]
	errSeen  []bool // some wrapped call of script[i] returned an error
	pieces   int    // wrapped calls beyond the first per scripted call
	counts   []int  // what each call made to the wrapped writer reported, in order
}

func (u *under) do(l int, viaString bool) (int, error) {
	// keyed on the call the writing goroutine announced, not on a running count: a ProgressWriter that does
	// not forward a zero-length write must not shift the script
	i := u.cur
	if viaString {
		u.viaStr++
	} else {
		u.viaWr++
	}
	if i >= len(u.script) {
		return 0, errScripted
	}
	u.reached[i] = true
	first := u.calls[i] == 0
	u.calls[i]++
	op := u.script[i]
	if first && l != op.n {
		u.badLen++ // the call arrives in pieces (or altered)
	}
	if !first {
		u.pieces++
	}
	if u.gated && first {
		select {
		case u.entered <- i:
		case <-u.aborted:
		}
		<-u.gate
	}
	var m int
	hit := false
	switch {
	case op.k > op.n: // over-reporting wrapped writer: claims k on the first piece
		if first {
			m, hit = op.k, true
		} else {
			m = l
		}
	case u.accepted[i]+l >= op.k:
		m, hit = op.k-u.accepted[i], true
	default:
		m = l
	}
	u.accepted[i] += m
	u.counts = append(u.counts, m)
	if hit && op.err {
		u.errSeen[i] = true
		return m, errKinds[(i+len(u.counts))%len(errKinds)]
	}
	return m, nil
}

// payloads: slices of two shared buffers (the ProgressWriter and the wrapped writers only look at lengths)
var payloadBytes = make([]byte, 6<<20)
var payloadString = strings.Repeat("s", 6<<20)

func bytePayload(n int) []byte {
	if n <= len(payloadBytes) {
		return payloadBytes[:n]
	}
	return make([]byte, n)
}
func strPayload(n int) string {
	if n <= len(payloadString) {
		return payloadString[:n]
	}
	return strings.Repeat("s", n)
}

// sizeClass: call sizes around the boundaries implementations care about
func sizeClass(r *hk.Rng) int {
	switch x := r.Intn(100); {
	case x < 55:
		return r.Intn(5)
	case x < 70:
		return r.Intn(1 << 16)
	case x < 80:
		return 4096 - 1 + r.Intn(3)
	case x < 88:
		return 65536 - 1 + r.Intn(3)
	case x < 94:
		return 1<<20 - 1 + r.Intn(3)
	default:
		return 1<<20 + r.Intn(4<<20)
	}
}

// fullW accepts everything.
type fullW struct{}

func (fullW) Write(p []byte) (int, error) { return len(p), nil }

type plainW struct{ u *under }

func (w plainW) Write(p []byte) (int, error) { return w.u.do(len(p), false) }

type stringW struct{ u *under }

func (w stringW) Write(p []byte) (int, error)       { return w.u.do(len(p), false) }
func (w stringW) WriteString(s string) (int, error) { return w.u.do(len(s), true) }

type consumer struct {
	mu                  sync.Mutex
	vals                []int
	closed              bool
	inRecv              atomic.Int32  // cSlow: 1 while a token's receive is outstanding
	tok                 chan struct{} // cSlow: permission for one receive
	leave               chan struct{} // cSlow: abandon the current receive
	drain               chan struct{} // closed: switch to free-running receive loop
	quit                chan struct{} // closed: stop whatever you do
	done                chan struct{}
	sizeq               chan struct{} // cSizeAtClose: call Size(), then receive until closed
	sizeFn              func() int
	sizeSeen, sizeAsked int
}

func (c *consumer) got(v int) {
	c.mu.Lock()
	c.vals = append(c.vals, v)
	c.mu.Unlock()
}
func (c *consumer) count() int {
	c.mu.Lock()
	defer c.mu.Unlock()
	return len(c.vals)
}

// loop: free-running receive until closed or quit.
func (c *consumer) loop(ch chan int) {
	for {
		select {
		case v, ok := <-ch:
			if !ok {
				c.mu.Lock()
				c.closed = true
				c.mu.Unlock()
				return
			}
			c.got(v)
		case <-c.quit:
			return
		}
	}
}

// stepwise: one receive per token, possibly abandoned; then drain.
func (c *consumer) stepwise(ch chan int) {
	for {
		select {
		case <-c.tok:
			c.inRecv.Store(1)
			select {
			case v, ok := <-ch:
				if !ok {
					c.mu.Lock()
					c.closed = true
					c.mu.Unlock()
					return
				}
				c.got(v)
				c.inRecv.Store(0)
			case <-c.leave:
				c.inRecv.Store(0)
			case <-c.drain:
				c.loop(ch)
				return
			case <-c.quit:
				return
			}
		case <-c.drain:
			c.loop(ch)
			return
		case <-c.sizeq:
			c.sizeSeen = c.sizeFn()
			c.sizeAsked = 1
			c.loop(ch)
			return
		case <-c.quit:
			return
		}
	}
}

type result struct {
	sizes       []int
	recv        []int
	closed      bool
	viol        string
	leaves      int
	viaStr      int
	viaWr       int
	retMismatch int
	skipped     []bool
	reported    []int // what the wrapped writer reported for each scripted call, summed over its pieces
	reportedErr []bool
	pieces      int
	counts      []int // per call made to the wrapped writer
	doubleClose string
	skip        string // the run was abandoned (a bounded wait of the harness expired): an outcome, not a verdict
	sizePolled  bool
	lat         []time.Duration // gated kinds: gate release -> the call returned
}

// spinUntil polls cond, yielding, for at most d. Every wait of this harness is bounded: an expiry is an
// outcome (the scenario was not reached), never by itself a violation.
func spinUntil(cond func() bool, d time.Duration) bool {
	deadline := time.Now().Add(d)
	for !cond() {
		if time.Now().After(deadline) {
			return false
		}
		runtime.Gosched()
	}
	return true
}

const spinBound = 3 * time.Millisecond

func yield(n int) {
	for i := 0; i < n; i++ {
		runtime.Gosched()
	}
}

var blockBound = time.Second

// oneRun executes one scripted run. plan bits steer the slow consumer and the pauses.
func oneRun(wk, ck int, script []opSpec, plan uint64) result {
	u := &under{script: script, reached: make([]bool, len(script)), calls: make([]int, len(script)),
		accepted: make([]int, len(script)), errSeen: make([]bool, len(script)), gated: wk == wPlainGated || wk == wStringGated,
		entered: make(chan int, 1), gate: make(chan struct{}), aborted: make(chan struct{})}
	var pw *ioutil.ProgressWriter
	if wk == wPlainGated || wk == wPlainFree {
		pw = ioutil.NewProgressWriter(plainW{u})
	} else {
		pw = ioutil.NewProgressWriter(stringW{u})
	}
	ch := pw.Status()
	res := result{sizes: make([]int, 0, len(script))}
	c := &consumer{tok: make(chan struct{}), leave: make(chan struct{}), drain: make(chan struct{}),
		quit: make(chan struct{}), done: make(chan struct{}), sizeq: make(chan struct{}), sizeFn: pw.Size}
	started := false
	start := func(stepwise bool) {
		started = true
		go func() {
			defer close(c.done)
			ch := pw.Status() // fetched by the consumer itself: for the late kinds during / after the writes
			if stepwise {
				c.stepwise(ch)
			} else {
				c.loop(ch)
			}
		}()
	}
	wdone := make(chan int)
	closeGo := make(chan struct{})
	closing := make(chan struct{})
	cdone := make(chan struct{})
	wexit := make(chan struct{})
	sizes := make([]int, len(script))
	retBad := 0
	skipped := make([]bool, len(script))
	lat := make([]time.Duration, 0, len(script))
	startW := make(chan struct{})
	go func() {
		defer close(wexit)
		<-startW
		for i, op := range script {
			var n int
			var err error
			u.cur = i
			if op.str {
				n, err = pw.WriteString(strPayload(op.n))
			} else {
				n, err = pw.Write(bytePayload(op.n))
			}
			if !u.reached[i] {
				// the call was answered without asking the wrapped writer: nothing was reported for it
				skipped[i] = true
			} else if n != u.accepted[i] || (err != nil) != u.errSeen[i] {
				retBad++
			}
			sizes[i] = pw.Size()
			select {
			case wdone <- i:
			case <-u.aborted:
			}
		}
		<-closeGo
		close(closing)
		pw.Close()
		close(cdone)
	}()

	closeGoClosed := false
	abort := func() {
		// release everything so that no goroutine stays behind
		close(u.aborted)
		drainQuit, drainDone := make(chan struct{}), make(chan struct{})
		go func() {
			defer close(drainDone)
			for {
				select {
				case _, ok := <-ch:
					if !ok {
						return
					}
				case <-drainQuit:
					return
				}
			}
		}()
		close(u.gate)
		if !closeGoClosed {
			closeGoClosed = true
			close(closeGo)
		}
		select {
		case <-wexit:
		case <-time.After(5 * time.Second):
		}
		close(drainQuit)
		<-drainDone
		close(c.quit)
		if started {
			select {
			case <-c.done:
			case <-time.After(5 * time.Second):
			}
		}
	}

	switch ck {
	case cFast:
		start(false)
	case cSlow, cOnce, cSizeAtClose:
		start(true)
	}
	if len(script) == 0 || ck != cOnce {
		close(startW)
	}
	for i := range script {
		if ck == cOnce && i == 0 {
			// the consumer enters its receive before the first call starts
			select {
			case c.tok <- struct{}{}:
				spinUntil(func() bool { return c.inRecv.Load() == 1 }, spinBound)
				yield(5)
			case <-time.After(blockBound):
			}
			close(startW)
		}
		if ck == cSizeAtClose && i == len(script)-1 {
			// the consumer enters its receive before the last call is released
			select {
			case c.tok <- struct{}{}:
				// with a buffering implementation the receive may complete at once on an older total
				spinUntil(func() bool { return c.inRecv.Load() == 1 }, spinBound)
				yield(5)
			case <-time.After(blockBound):
			}
		}
		if ck == cLate && !started && i >= (len(script)+1)/2 {
			start(false)
		}
		before := c.count()
		tokGiven := false
		if ck == cSlow && (plan>>(uint(i)%16))&1 == 1 && c.inRecv.Load() == 0 {
			select {
			case c.tok <- struct{}{}:
				tokGiven = true
			case <-time.After(2 * time.Millisecond):
			}
		}
		if u.gated {
			select {
			case <-u.entered:
			case <-wdone:
				// the call returned without reaching the wrapped writer: fine for a zero-length write
				// (it contributes 0 either way), a defect otherwise
				if script[i].n != 0 {
					res.viol = fmt.Sprintf("call-%d-of-%d-bytes-returned-without-reaching-the-wrapped-writer", i, script[i].n)
					res.sizes = sizes[:i]
					abort()
					return res
				}
				continue
			case <-time.After(blockBound):
				res.viol = fmt.Sprintf("call-%d-did-not-reach-the-wrapped-writer", i)
				abort()
				return res
			}
		}
		if (plan>>(16+uint(i)%16))&1 == 1 || (ck == cOnce && i == 0) || (ck == cSizeAtClose && i == len(script)-1) {
			yield(3) // give the consumer a chance to block in its receive
		}
		t0 := time.Now()
		if u.gated {
			select {
			case u.gate <- struct{}{}:
			case <-time.After(blockBound):
				res.skip = "wrapped-writer-not-at-its-gate"
				abort()
				return res
			}
		}
		select {
		case <-wdone:
			if u.gated {
				lat = append(lat, time.Since(t0))
			}
		case <-time.After(blockBound):
			res.viol = fmt.Sprintf("Write-blocked-at-call-%d", i)
			res.sizes = sizes[:i]
			c.mu.Lock()
			res.recv = append([]int(nil), c.vals...)
			c.mu.Unlock()
			abort()
			return res
		}
		if tokGiven && (plan>>(32+uint(i)%16))&1 == 1 && c.count() == before && c.inRecv.Load() == 1 {
			// the consumer is (or will be) waiting without having received: make it give up
			select {
			case c.leave <- struct{}{}:
				res.leaves++
			case <-time.After(2 * time.Millisecond):
			}
		}
	}
	res.sizes = sizes
	// Close: a receiver is needed (documented contract)
	switch {
	case !started:
		start(false)
	case ck == cSlow || ck == cOnce:
		close(c.drain)
	}
	// Size() from the consumer goroutine is ordered after the writer's last update of the total only if the
	// consumer has received the value of the LAST call (a positive count, so that the value identifies the
	// call); with anything else (not delivered, or an older buffered total taken) the consumer just drains.
	sizePoll := false
	if ck == cSizeAtClose {
		last := len(script) - 1
		spinUntil(func() bool { return c.inRecv.Load() == 0 }, spinBound)
		c.mu.Lock()
		sizePoll = len(script) > 0 && script[last].k > 0 && !skipped[last] && len(c.vals) > 0 && c.vals[len(c.vals)-1] == sizes[last] && c.inRecv.Load() == 0
		c.mu.Unlock()
		if !sizePoll {
			close(c.drain)
		}
	}
	closeGoClosed = true
	close(closeGo)
	if sizePoll {
		// Close() has been entered; give it time to block in its send, then let the consumer poll Size()
		select {
		case <-closing:
		case <-time.After(blockBound):
		}
		time.Sleep(300 * time.Microsecond)
		select {
		case c.sizeq <- struct{}{}:
		case <-time.After(blockBound):
		}
	}
	select {
	case <-cdone:
	case <-time.After(2 * blockBound):
		res.viol = "Close-blocked-with-a-receiver-waiting"
		if sizePoll {
			res.viol = "close-deadlock-consumer-called-Size-while-Close-was-pending"
		}
		res.sizes = sizes
		abort()
		res.recv = c.vals
		return res
	}
	select {
	case <-wexit:
	case <-time.After(5 * time.Second):
	}
	select {
	case <-c.done:
	case <-time.After(blockBound):
		// the channel was not closed: the consumer still waits
		close(c.quit)
		select {
		case <-c.done:
		case <-time.After(5 * time.Second):
		}
	}
	res.sizePolled = sizePoll
	res.recv = c.vals
	res.closed = c.closed
	if res.closed {
		afterClose(pw, &res)
	}
	if c.sizeAsked == 1 && len(sizes) > 0 && c.sizeSeen != sizes[len(sizes)-1] {
		res.viol = fmt.Sprintf("Size-polled-by-the-consumer-during-Close-is-%d-not-%d", c.sizeSeen, sizes[len(sizes)-1])
	}
	res.viaStr, res.viaWr = u.viaStr, u.viaWr
	res.retMismatch = retBad + u.badLen
	res.skipped = skipped
	res.lat = lat
	for i, s := range skipped {
		if s && script[i].n != 0 && res.viol == "" {
			res.viol = fmt.Sprintf("call-%d-of-%d-bytes-returned-without-reaching-the-wrapped-writer", i, script[i].n)
		}
	}
	res.reported, res.reportedErr, res.pieces, res.counts = u.accepted, u.errSeen, u.pieces, u.counts
	return res
}

func caseFields(tag string, wk, ck int, script []opSpec, r result) []string {
	f := []string{tag, strconv.Itoa(wk), strconv.Itoa(ck), strconv.Itoa(len(script))}
	for i, op := range script {
		sz := -1
		if i < len(r.sizes) {
			sz = r.sizes[i]
		}
		k, er := op.k, op.err
		if i < len(r.reported) {
			k, er = r.reported[i], r.reportedErr[i] // what the wrapped writer really reported (0 if it was not asked)
		}
		f = append(f, b2s(op.str), strconv.Itoa(op.n), strconv.Itoa(k), b2s(er), strconv.Itoa(sz))
	}
	f = append(f, strconv.Itoa(len(r.recv)))
	for _, v := range r.recv {
		f = append(f, strconv.Itoa(v))
	}
	f = append(f, b2s(r.closed))
	// trailer: the counts reported by the wrapped writer, one per call made to it
	counts := r.counts
	if counts == nil {
		for i, op := range script {
			if i < len(r.skipped) && r.skipped[i] {
				continue
			}
			counts = append(counts, op.k)
		}
	}
	f = append(f, strconv.Itoa(len(counts)))
	for _, c := range counts {
		f = append(f, strconv.Itoa(c))
	}
	return f
}

func b2s(b bool) string {
	if b {
		return "1"
	}
	return "0"
}

func parseCase(line string) (wk, ck int, script []opSpec, ok bool) {
	f := strings.Fields(line)
	for len(f) > 0 && f[0] != "E" {
		f = f[1:]
	}
	if len(f) < 4 {
		return
	}
	wk, _ = strconv.Atoi(f[1])
	ck, _ = strconv.Atoi(f[2])
	n, _ := strconv.Atoi(f[3])
	if len(f) < 4+5*n {
		return
	}
	for i := 0; i < n; i++ {
		g := f[4+5*i:]
		a, _ := strconv.Atoi(g[1])
		b, _ := strconv.Atoi(g[2])
		script = append(script, opSpec{g[0] == "1", a, b, g[3] == "1"})
	}
	return wk, ck, script, true
}

// veryLate: three writes with nobody receiving, then Close(); the consumer arrives only `delay` after Close()
// was called. It must still receive the final total and then see the channel closed: Close waits.
func veryLate(delay time.Duration) ([]opSpec, result) {
	sc := []opSpec{{false, 3, 3, false}, {true, 4, 2, true}, {false, 5, 5, false}}
	u := &under{script: sc, reached: make([]bool, len(sc)), calls: make([]int, len(sc)),
		accepted: make([]int, len(sc)), errSeen: make([]bool, len(sc)), aborted: make(chan struct{})}
	pw := ioutil.NewProgressWriter(plainW{u})
	res := result{skipped: make([]bool, len(sc))}
	sizes := make([]int, len(sc))
	closing, cdone := make(chan struct{}), make(chan struct{})
	go func() {
		for i, op := range sc {
			u.cur = i
			if op.str {
				pw.WriteString(strPayload(op.n))
			} else {
				pw.Write(bytePayload(op.n))
			}
			sizes[i] = pw.Size()
		}
		close(closing)
		pw.Close()
		close(cdone)
	}()
	select {
	case <-closing:
	case <-time.After(5 * time.Second):
		// three writes with nobody receiving did not return: this is the property ("a Write never blocks")
		res.viol = "Write-blocked-with-nobody-receiving"
		go func() {
			for range pw.Status() {
			}
		}()
		return sc, res
	}
	res.sizes = sizes
	res.reported, res.reportedErr, res.counts = u.accepted, u.errSeen, u.counts
	time.Sleep(delay)
	ch := pw.Status()
	deadline := time.After(5 * time.Second)
recv:
	for {
		select {
		case v, ok := <-ch:
			if !ok {
				res.closed = true
				break recv
			}
			res.recv = append(res.recv, v)
		case <-deadline:
			break recv
		}
	}
	select {
	case <-cdone:
	case <-time.After(5 * time.Second):
		res.viol = "Close-blocked-with-a-late-receiver"
		go func() {
			for range ch {
			}
		}()
	}
	if res.closed && res.viol == "" {
		afterClose(pw, &res)
	}
	return sc, res
}

// stress: a free-running writer (n one-byte writes, then Close) against a consumer that receives as fast as
// it can. Judged here, by the property's clauses only: no Write may stop making progress (2 s without a
// completed call), the received values are non-decreasing and never exceed the bytes written so far, the last
// one is the final total, then the channel is closed.
func stress(n int) (viol string, received int) {
	pw := ioutil.NewProgressWriter(fullW{})
	var progress atomic.Int64
	wdone := make(chan struct{})
	go func() {
		defer close(wdone)
		p := []byte{0}
		for i := 0; i < n; i++ {
			pw.Write(p)
			progress.Store(int64(i + 1))
		}
		pw.Close()
	}()
	type cres struct {
		n, last int
		bad     string
		closed  bool
	}
	cdone := make(chan cres, 1)
	quit := make(chan struct{})
	go func() {
		var r cres
		ch := pw.Status()
		for {
			select {
			case v, ok := <-ch:
				if !ok {
					r.closed = true
					cdone <- r
					return
				}
				if v < r.last && r.bad == "" {
					r.bad = fmt.Sprintf("received-%d-after-%d", v, r.last)
				}
				if w := int(progress.Load()) + 1; v > w && r.bad == "" {
					r.bad = fmt.Sprintf("received-%d-with-at-most-%d-bytes-written", v, w)
				}
				r.last = v
				r.n++
			case <-quit:
				cdone <- r
				return
			}
		}
	}()
	lastSeen, lastChange := int64(-1), time.Now()
	for {
		select {
		case <-wdone:
			var r cres
			select {
			case r = <-cdone:
			case <-time.After(2 * time.Second):
				close(quit)
				r = <-cdone
			}
			switch {
			case r.bad != "":
				return r.bad, r.n
			case r.last != n:
				return fmt.Sprintf("last-value-received-%d-is-not-the-final-total-%d", r.last, n), r.n
			case !r.closed:
				return "channel-not-closed-after-Close", r.n
			}
			return "", r.n
		case <-time.After(50 * time.Millisecond):
			if p := progress.Load(); p != lastSeen {
				lastSeen, lastChange = p, time.Now()
			} else if time.Since(lastChange) > 2*time.Second {
				close(quit)
				r := <-cdone
				// release the writer, whatever it waits for (best effort; the goroutine may stay behind)
				go func() {
					for range pw.Status() {
					}
				}()
				if p == int64(n) {
					return "Close-blocked-with-the-consumer-receiving", r.n
				}
				return fmt.Sprintf("Write-blocked-at-call-%d-with-the-consumer-receiving", p), r.n
			}
		}
	}
}

var doubleCloseTried atomic.Int32

// afterClose: use of the object after Close() has returned. Status() fetched again must be the closed
// channel (a receive yields "closed" at once, no further value); a second Close() is only recorded
// (on the unchanged code it panics: send on closed channel).
func afterClose(pw *ioutil.ProgressWriter, res *result) {
	select {
	case v, ok := <-pw.Status():
		if ok {
			res.viol = fmt.Sprintf("Status-fetched-after-Close-delivers-a-value-%d", v)
		}
	case <-time.After(blockBound):
		if res.viol == "" {
			res.viol = "Status-fetched-after-Close-is-not-the-closed-channel"
		}
	}
	if doubleCloseTried.Add(1) <= 40 {
		out := make(chan string, 1)
		go func() {
			defer func() {
				if r := recover(); r != nil {
					out <- "panics"
				}
			}()
			pw.Close()
			out <- "returns"
		}()
		select {
		case res.doubleClose = <-out:
		case <-time.After(blockBound):
			res.doubleClose = "blocks"
		}
	}
}

func median(d []time.Duration) time.Duration {
	s := append([]time.Duration(nil), d...)
	sort.Slice(s, func(i, j int) bool { return s[i] < s[j] })
	return s[len(s)/2]
}

func run(e *hk.Env) error {
	t0run := time.Now()
	// very late consumers run beside everything else: started first, joined last
	lateDelays := []time.Duration{1500 * time.Millisecond}
	if e.Thorough() {
		lateDelays = append(lateDelays, 6*time.Second)
	}
	type lateRes struct {
		sc  []opSpec
		res result
	}
	lateCh := make(chan lateRes, len(lateDelays))
	for _, d := range lateDelays {
		go func(d time.Duration) {
			sc, res := veryLate(d)
			lateCh <- lateRes{sc, res}
		}(d)
	}
	// three goroutines per run: more Ps only make the scheduler spin on a busy machine
	if os.Getenv("GOMAXPROCS") == "" && runtime.NumCPU() > 4 {
		runtime.GOMAXPROCS(4)
	}
	e.Stats["gomaxprocs"] = runtime.GOMAXPROCS(0)
	// quick alphabet: (isString, n, reported, err)
	alpha := []opSpec{
		{false, 2, 2, false}, {false, 2, 1, true}, {false, 2, 0, true}, {false, 0, 0, false},
		{true, 2, 2, false}, {true, 3, 1, true}, {true, 0, 0, false}, {false, 2, 1, false},
	}
	maxLen := 3
	extraLen4 := []opSpec{{false, 2, 2, false}, {false, 2, 1, true}, {true, 3, 0, true}, {true, 1, 1, false}}
	nRandom := 4000
	if e.Thorough() {
		alpha = append(alpha, opSpec{true, 2, 2, true}, opSpec{false, 1, 3, false})
		maxLen = 4
		nRandom = 60000
	}
	var scripts [][]opSpec
	var gen func(al []opSpec, prefix []opSpec, l int, only int)
	gen = func(al []opSpec, prefix []opSpec, l int, only int) {
		if only < 0 || len(prefix) == only {
			scripts = append(scripts, append([]opSpec(nil), prefix...))
		}
		if l == 0 {
			return
		}
		for _, o := range al {
			gen(al, append(prefix[:len(prefix):len(prefix)], o), l-1, only)
		}
	}
	gen(alpha, nil, maxLen, -1)
	if !e.Thorough() {
		gen(extraLen4, nil, 4, 4)
	}
	e.Stats["exhaustive_scripts"] = len(scripts)
	e.Stats["exhaustive_alphabet"] = len(alpha)
	e.Stats["exhaustive_max_len"] = 4

	viol := 0
	stats := map[string]int{}
	distinct := map[string]bool{}
	emit := func(wk, ck int, sc []opSpec, r result) {
		if r.skip != "" {
			stats["runs_abandoned_"+r.skip]++
			return
		}
		if r.viol != "" {
			viol++
			f := caseFields("E", wk, ck, sc, r)
			e.Case(append([]string{"VIOL", r.viol}, f...)...)
			return
		}
		f := caseFields("E", wk, ck, sc, r)
		e.Case(f...)
		distinct[strings.Join(f, " ")] = true
		if stats["cases"]%977 == 5 {
			e.Sample("samples", strings.Join(f, " "), 6)
		}
		stats["cases"]++
		stats["calls"] += len(sc)
		if len(r.recv) > 1 {
			stats["values_delivered_by_writes"] += len(r.recv) - 1
			stats["runs_with_delivery"]++
		}
		stats["consumer_gave_up_waiting"] += r.leaves
		stats["Status_fetched_again_after_Close"]++
		if r.doubleClose != "" {
			stats["second_Close_"+r.doubleClose]++
		}
		stats["wrapped_WriteString_calls"] += r.viaStr
		stats["wrapped_Write_calls"] += r.viaWr
		stats["return_value_not_passed_through"] += r.retMismatch
		stats[fmt.Sprintf("wkind_%d", wk)]++
		stats[fmt.Sprintf("ckind_%d", ck)]++
		for _, op := range sc {
			switch {
			case op.err && op.k > 0:
				stats["calls_failed_with_bytes"]++
			case op.err:
				stats["calls_failed_without_bytes"]++
			case op.k < op.n:
				stats["calls_short_without_error"]++
			}
		}
	}
	const maxViol = 4

	// replay of a recorded case: the same script, writer and consumer kind, many schedules
	if e.Replay != "" {
		if b, err := os.ReadFile(e.Replay); err == nil {
			var p struct {
				Case string `json:"case"`
			}
			if json.Unmarshal(b, &p) == nil {
				if wk, ck, sc, ok := parseCase(p.Case); ok {
					r := e.Rng.Fork()
					for i := 0; i < 300 && viol < maxViol; i++ {
						emit(wk, ck, sc, oneRun(wk, ck, sc, r.U64()))
					}
					for k, v := range stats {
						e.Stats[k] = v
					}
					return nil
				}
			}
		}
	}

	r := e.Rng.Fork()
	for _, sc := range scripts {
		for wk := 0; wk < 4 && viol < maxViol; wk++ {
			for ck := 0; ck < 6 && viol < maxViol; ck++ {
				if ck == cSizeAtClose {
					if len(sc) >= 1 && (wk == wPlainGated || wk == wStringGated) {
						res := oneRun(wk, ck, sc, r.U64())
						emit(wk, ck, sc, res)
						if res.viol == "" && res.sizePolled {
							stats["size_polled_during_pending_Close_achieved"]++
						}
					}
					continue
				}
				if ck != cOnce {
					emit(wk, ck, sc, oneRun(wk, ck, sc, r.U64()))
					continue
				}
				if len(sc) < 2 {
					continue
				}
				// forced schedule: first update delivered, the following ones dropped, then Close.
				// Confirmed by the observation; repeated until seen.
				for try := 0; try < 10 && viol < maxViol; try++ {
					res := oneRun(wk, ck, sc, r.U64())
					emit(wk, ck, sc, res)
					stats["forced_once_then_close_attempts"]++
					if res.viol == "" && len(res.recv) == 2 && res.recv[0] == sc[0].k {
						stats["forced_once_then_close_achieved"]++
						break
					}
				}
			}
		}
	}
	// single huge calls (an implementation may hand them on in pieces): the wrapped writer stops at a point
	// before, on or after the 4 KiB / 64 KiB / 1 MiB boundaries, with or without an error, while a consumer
	// is receiving
	for _, n := range []int{1<<20 + 1, 2 << 20, 3<<20 + 100, 5 << 20} {
		for _, fp := range []int{n, 0, 1, 4096, 65536, 1<<20 - 1, 1 << 20, 1<<20 + 1, 1<<20 + 4096, 2 << 20, n - 1} {
			if fp > n {
				continue
			}
			for _, er := range []bool{false, true} {
				for _, str := range []bool{false, true} {
					sc := []opSpec{{false, 3, 3, false}, {str, n, fp, er}, {false, 2, 2, false}}
					for _, wk := range []int{wPlainGated, wStringFree} {
						for _, cp := range []struct {
							ck   int
							plan uint64
						}{{cFast, ^uint64(0)}, {cSlow, 0xFFFFFFFF}} {
							if viol >= maxViol {
								break
							}
							emit(wk, cp.ck, sc, oneRun(wk, cp.ck, sc, cp.plan))
							stats["huge_single_call_runs"]++
						}
					}
				}
			}
		}
	}
	// random longer scripts
	lenHist := map[int]int{}
	for i := 0; i < nRandom && viol < maxViol; i++ {
		l := 1 + r.Intn(12)
		if r.Chance(10) {
			l = 13 + r.Intn(28)
		}
		lenHist[l/8*8]++
		sc := make([]opSpec, l)
		for j := range sc {
			n := sizeClass(r)
			op := opSpec{str: r.Bool(), n: n, k: n}
			switch r.Intn(6) {
			case 0: // short with error
				op.k, op.err = r.Intn(n+1), true
			case 1: // nothing written, error
				op.k, op.err = 0, true
			case 2: // short without error (contract violation of the wrapped writer)
				op.k = r.Intn(n + 1)
			case 3: // everything written, error anyway
				op.err = true
			}
			if r.Chance(2) {
				op.k = n + 1 + r.Intn(3) // over-reporting wrapped writer
			}
			sc[j] = op
		}
		wk, ck := r.Intn(4), r.Intn(5)
		emit(wk, ck, sc, oneRun(wk, ck, sc, r.U64()))
	}
	// A Write must not wait for a receiver: with nobody receiving it has to be as quick as with a consumer
	// parked in its receive. Latency = from releasing the gated wrapped writer to the return of the call.
	// A stall is reported only if the median over 200 calls is too long in each of three rounds
	// (bound: 300 us + 20 x the median with a waiting consumer; the unchanged code stays below 1/10 of it).
	{
		sc := make([]opSpec, 200)
		for i := range sc {
			sc[i] = opSpec{false, 1, 1, false}
		}
		stalled, rounds := 0, 3
		var medA, medW time.Duration
		for round := 0; round < rounds && viol < maxViol; round++ {
			ra := oneRun(wPlainGated, cAbsent, sc, 0)
			rw := oneRun(wPlainGated, cFast, sc, ^uint64(0))
			emit(wPlainGated, cAbsent, sc, ra)
			emit(wPlainGated, cFast, sc, rw)
			if ra.viol != "" || rw.viol != "" || len(ra.lat) == 0 || len(rw.lat) == 0 {
				break
			}
			medA, medW = median(ra.lat), median(rw.lat)
			e.Stats[fmt.Sprintf("write_latency_round%d_us_absent_vs_waiting", round)] = fmt.Sprintf("%.1f / %.1f",
				float64(medA.Nanoseconds())/1e3, float64(medW.Nanoseconds())/1e3)
			if medA > 300*time.Microsecond+20*medW {
				stalled++
			}
		}
		if stalled == rounds {
			viol++
			e.Case("VIOL", "write-stalls-when-nobody-receives", fmt.Sprintf("median_latency_us_consumer_absent=%d", medA.Microseconds()),
				fmt.Sprintf("consumer_waiting=%d", medW.Microseconds()), "E", "0", "0", "1", "0", "1", "1", "0", "-1", "0", "0")
		}
	}
	// stress rounds: within about 2 s (thorough 20 s)
	{
		rounds, per := 0, 100000
		limit := 2 * time.Second
		if e.Thorough() {
			limit = 20 * time.Second
		}
		recvd := 0
		for t0 := time.Now(); time.Since(t0) < limit && viol < maxViol; rounds++ {
			v, nrec := stress(per)
			recvd += nrec
			if v != "" {
				viol++
				e.Case("VIOL", v, fmt.Sprintf("free-running-writer-of-%d-one-byte-writes-against-a-fast-consumer", per),
					"E", "2", "1", "1", "0", "1", "1", "0", "-1", "0", "0")
				break
			}
		}
		stats["stress_rounds_of_100000_writes"] = rounds
		stats["stress_values_received"] = recvd
	}
	for range lateDelays {
		lr := <-lateCh
		emit(wPlainFree, cAbsent, lr.sc, lr.res)
		stats["very_late_consumer_runs"]++
	}
	budget := 90 * time.Second
	if e.Thorough() {
		budget = 25 * time.Minute
	}
	if el := time.Since(t0run); el > budget {
		viol++
		e.Case("VIOL", "harness-wall-budget-exceeded", fmt.Sprintf("elapsed_s=%d", int(el.Seconds())), fmt.Sprintf("budget_s=%d", int(budget.Seconds())))
	}
	e.Stats["harness_elapsed_s"] = int(time.Since(t0run).Seconds())
	e.Stats["random_scripts"] = nRandom
	e.Stats["random_len_hist_by_8"] = lenHist
	for k, v := range stats {
		e.Stats[k] = v
	}
	e.Stats["distinct_nontrivial"] = len(distinct)
	e.Stats["harness_violations"] = viol
	e.Stats["goroutines_at_end"] = runtime.NumGoroutine()
	return nil
}
