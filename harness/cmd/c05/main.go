package main

// C05: requests are isolated — pooled per-request Store state never leaks between requests.
//
// One case line per history on one real Mux:
//
//	E <prefix> <S|C> <nn> {<name>}*nn <nev> {event}*nev
//
// events, in the order they really happened (logged under one mutex):
//
//	R <pattern> <method>                                         Handle returned (between requests only)
//	Q <pattern> <method>                                         Handle panicked (route rejected); the harness recovered and goes on with the Mux
//	B <k> <path> <method> <who> <status> <id> <any> {<value>}*nn   request k entered its handler; everything read through the Store
//	W <k> <status>                                               W.Status as read back right after an own action of request k on its writer changed it
//	                                                             (WriteHeader, Flush, installing a wrapper writer; its relay: Logger.Relay sets 200 at
//	                                                             REQ_END and 500 after a recovered panic) - whatever recording policy the writer has
//	X <k> <who> <status> <id> <any> {<value>}*nn                   everything read AGAIN at handler exit
//	Y <k> ret|rec|esc <who> <status> <id> <any> {<value>}*nn       ... and AGAIN in the relay after the handler returned / panicked and Logger.Relay
//	                                                             recovered / while the panic unwinds through a relay that does not recover
//
// S = the B events are in ticket order (one goroutine, or overlap forced with channels), C = 8 goroutines.
// who = r<i> | nr | badinfo.  Fields hex ("-" = empty) except k, status, code.
//
// Go-side oracle (lines "VIOL ..."): every request is served again on a FRESH Mux with the routes registered at that
// time; any difference in who/any/values, a non-zero status at entry, anything but the request's own status writes changing
// between entry, exit and the relay's second look, an id that repeats within the Mux, or a failed registration is a violation.
// Whether a handler panic leaves ServeHTTP or is recovered by it is NOT judged (not part of C05); it is only counted.

import (
	"fmt"
	"io"
	"log/slog"
	"net/http"
	"net/http/httptest"
	"net/url"
	"os"
	"path/filepath"
	"runtime"
	"runtime/debug"
	"strconv"
	"strings"
	"sync"
	"syscall"
	"unsafe"

	"github.com/whoisnian/glb/httpd"
	"github.com/whoisnian/glb/logger"
	"sync/atomic"
	"time"
	"verifharness/hk"
)

// The binary is built with -race.  By default the race runtime only sets exit code 66 at exit, which the runner would
// report as "harness failed" and the observed cases would be lost; so the process re-executes itself once with
// GORACE=exitcode=0 log_path=<out>/race and run() turns every race report into a VIOL line next to the other findings.
func main() {
	if os.Getenv("C05_GORACE_SET") == "" {
		out := ""
		for i, a := range os.Args {
			if a == "-out" && i+1 < len(os.Args) {
				out = os.Args[i+1]
			}
		}
		if out != "" {
			os.MkdirAll(out, 0o755)
			env := append(os.Environ(), "C05_GORACE_SET=1", "GORACE=exitcode=0 log_path="+filepath.Join(out, "race"))
			if exe, err := os.Executable(); err == nil {
				syscall.Exec(exe, os.Args, env) // only returns on error; then just run in this process
			}
		}
	}
	hk.Main("C05", run)
}

// raceReports: the reports the race runtime wrote so far
func raceReports(e *hk.Env) []string {
	files, _ := filepath.Glob(filepath.Join(e.Out, "race.*"))
	var res []string
	for _, f := range files {
		b, err := os.ReadFile(f)
		if err != nil {
			continue
		}
		for _, rep := range strings.Split(string(b), "==================") {
			if strings.Contains(rep, "DATA RACE") {
				res = append(res, rep)
			}
		}
		os.Remove(f)
	}
	return res
}

type route struct{ pat, meth string }

const (
	bRet = iota
	bRec
	bEsc
)

type reqSpec struct {
	path, meth string
	behave     int
	code       int
	flush      int // 0 no Flush, 1 Flush before WriteHeader, 2 after
	// the handler REPLACES the exported Store.W (a wrapper writer with status 201 over the same Origin) and/or Store.P
	// (a copy of the current Params) and leaves them there, as a middleware might
	replaceW, replaceP bool
	// RE-ENTRANT use of the Mux from inside the handler:
	nested    *reqSpec // nested dispatch: the handler calls mux.ServeHTTP(store.W, r2) for this other request (key nestedK)
	nestedK   int
	auxNested bool   // ... or dispatches to a second, unobserved Mux with its store.W
	regInside *route // the handler registers this route on the Mux that is serving it
	holdLate  bool   // forced overlap: wait AFTER the request's own writes instead of before them
	// forced overlap: the handler signals entered and waits for release before it goes on
	entered, release chan struct{}
	once             *sync.Once
}

func (q *reqSpec) signalEntered() {
	if q.entered != nil {
		q.once.Do(func() { close(q.entered) })
	}
}

type look struct {
	who    string
	status int
	id     string
	any    string
	vals   []string
}

type obs struct {
	look               // at handler entry
	exit, after look   // at handler exit; in the relay after the handler
	own         int    // W.Status as read back after the request's last own action on the writer
	foreign     string // W.Status changed while the request did nothing
	ownExit     int    // ... at handler exit
	ran         int
	ptr         uintptr
}

type reqCtx struct {
	k    int
	spec *reqSpec
	o    obs
	idx  int // which handler ran (-1 no-route)
	// the generations of the no-route handler and of the relay that must run (the newest when the request was served)
	wantNR, wantRelay int
	staleNR           bool
}

// parameter names used in patterns: case variants, prefixes and extensions of each other
var paramPool = []string{"a", "A", "ab", "id", "ID", "b"}

// the keys every handler looks up, at entry, at exit and in the relay
var allNames = []string{"a", "A", "ab", "abc", "b", "B", "i", "id", "ID", "Id", "id2", "zz"}

// world: one Mux with the observing handlers.
type world struct {
	mux    *httpd.Mux
	lg     *logger.Logger
	routes []route // accepted, in order: route ids
	atts   []route // every registration attempt, accepted or rejected
	mu     sync.Mutex
	events []string
	nev    int
	ctxs   sync.Map // *http.Request -> *reqCtx
	log    bool
	// HandleNoRoute / HandleRelay may be called again between requests: every call installs a handler of a new
	// GENERATION; a request must run the newest ones (and see the newest no-route RouteInfo in Store.I)
	nrGen, relayGen int
	inner           []served   // requests served by nested dispatch, in the order they finished
	aux             *httpd.Mux // the second Mux of nested dispatch
}

func newWorld(log bool) *world {
	w := &world{mux: httpd.NewMux(), log: log}
	w.lg = logger.New(logger.NewNanoHandler(io.Discard, logger.NewOptions(slog.LevelInfo, false, false)))
	w.installNoRoute()
	w.installRelay()
	w.aux = httpd.NewMux()
	w.aux.Handle("/aux/:n", "GET", func(s *httpd.Store) { s.W.WriteHeader(202) })
	return w
}

func (w *world) event(fields ...string) {
	if !w.log {
		return
	}
	w.mu.Lock()
	w.events = append(w.events, strings.Join(fields, " "))
	w.nev++
	w.mu.Unlock()
}

func (w *world) installNoRoute() {
	w.nrGen++
	w.mux.HandleNoRoute(w.handlerGen(-1, w.nrGen))
}

func (w *world) installRelay() {
	w.relayGen++
	gen := w.relayGen
	w.mux.HandleRelay(func(s *httpd.Store) { w.relay(s, gen) })
}

func clone(s string) string { return string(append([]byte(nil), s...)) }

// read: everything a handler can read through the Store; a panicking accessor is an outcome, not a crash
func (w *world) read(s *httpd.Store, idx int, stale bool) (l look) {
	l.vals = make([]string, len(allNames))
	l.who = "nr"
	if idx >= 0 {
		l.who = "r" + strconv.Itoa(idx)
	}
	if stale {
		defer func() { l.who = "stale-" + l.who }() // an older generation of the no-route handler / relay ran
	}
	defer func() {
		if recover() != nil {
			l.who = "panic" // e.g. Params.Get indexing past V
		}
	}()
	if idx >= 0 {
		if s.I == nil || s.I.Path != w.routes[idx].pat || s.I.Method != w.routes[idx].meth {
			l.who = "badinfo"
		}
	} else if s.I == nil || s.I.Path != "" || s.I.Method != "" {
		l.who = "badinfo"
	}
	l.status = s.W.Status
	l.id = clone(s.GetID()) // GetID aliases the Store's buffer
	l.any = s.RouteParamAny()
	for i, n := range allNames {
		l.vals[i] = s.RouteParam(n)
	}
	return l
}

func (l look) fields() []string {
	f := []string{l.who, strconv.Itoa(l.status), hk.Hxs(l.id), hk.Hxs(l.any)}
	for _, v := range l.vals {
		f = append(f, hk.Hxs(v))
	}
	return f
}

func (w *world) handler(idx int) httpd.HandlerFunc { return w.handlerGen(idx, 0) }

func (w *world) handlerGen(idx int, gen int) httpd.HandlerFunc {
	return func(s *httpd.Store) {
		cv, _ := w.ctxs.Load(s.R)
		c := cv.(*reqCtx)
		o := &c.o
		o.ran++
		c.idx = idx
		c.staleNR = idx < 0 && gen != c.wantNR
		o.look = w.read(s, idx, c.staleNR)
		o.own = o.look.status
		o.ptr = uintptr(unsafe.Pointer(s))
		w.event(append([]string{"B", strconv.Itoa(c.k), hk.Hxs(c.spec.path), hk.Hxs(c.spec.meth)}, o.look.fields()...)...)
		if c.spec.entered != nil && !c.spec.holdLate {
			c.spec.signalEntered()
			<-c.spec.release
		}
		if st := s.W.Status; st != o.own { // nothing of this request has run since the entry look (it may have been held)
			o.foreign = fmt.Sprintf("W.Status went from %d to %d between handler entry and the request's first own action", o.own, st)
		}
		// after each of the request's OWN actions on the writer the status is read back: how an implementation records a
		// status (last code wins, first final code wins, ...) is not C05's business, only that it is this request's doing
		noted := func() {
			if st := s.W.Status; st != o.own {
				o.own = st
				w.event("W", strconv.Itoa(c.k), strconv.Itoa(st))
			}
		}
		if c.spec.replaceP {
			s.P = &httpd.Params{K: append([]string(nil), s.P.K...), V: append([]string(nil), s.P.V...)}
		}
		if c.spec.replaceW {
			s.W = &httpd.ResponseWriter{Origin: s.W.Origin, Status: 201}
			noted()
		}
		if c.spec.flush == 1 {
			s.W.Flush()
			noted()
		}
		if c.spec.code != 0 {
			s.W.WriteHeader(c.spec.code)
			noted()
		}
		if c.spec.flush == 2 {
			s.W.Flush()
			noted()
		}
		if c.spec.regInside != nil { // Handle called by a handler on the Mux that is serving it (events R / Q, in place)
			w.register(*c.spec.regInside)
		}
		if c.spec.nested != nil { // nested dispatch with the Store's own writer: an internal redirect
			n := len(w.atts)
			ic, esc := w.serveW(s.W, c.spec.nestedK, c.spec.nested)
			w.mu.Lock()
			w.inner = append(w.inner, served{k: c.spec.nestedK, spec: *c.spec.nested, nroutes: n, o: ic.o, escaped: esc})
			w.mu.Unlock()
			noted() // what the inner request wrote went through this request's writer
		}
		if c.spec.auxNested { // ... or to a mounted second Mux
			func() {
				defer func() { recover() }()
				w.aux.ServeHTTP(s.W, &http.Request{Method: "GET", URL: &url.URL{Path: "/aux/1"}, RequestURI: "/aux/1", Header: http.Header{}, RemoteAddr: "10.0.0.1:1"})
			}()
			noted()
		}
		if c.spec.entered != nil && c.spec.holdLate {
			c.spec.signalEntered()
			<-c.spec.release
			if st := s.W.Status; st != o.own {
				o.foreign = fmt.Sprintf("W.Status went from %d to %d while the request was held in flight after its own writes", o.own, st)
			}
		}
		o.ownExit = o.own
		o.exit = w.read(s, idx, c.staleNR)
		w.event(append([]string{"X", strconv.Itoa(c.k)}, o.exit.fields()...)...)
		if c.spec.behave != bRet {
			panic("handler panic of request " + strconv.Itoa(c.k))
		}
	}
}

// relay: Logger.Relay (recovers), or nothing (the panic leaves ServeHTTP); in both cases the Store is read once more
// after the handler, before ServeHTTP resets it.
func (w *world) relay(s *httpd.Store, gen int) {
	cv, _ := w.ctxs.Load(s.R)
	c, _ := cv.(*reqCtx)
	if c == nil {
		w.lg.Relay(s)
		return
	}
	defer func() {
		if c.o.ran == 0 {
			return
		}
		if st := s.W.Status; st != c.o.own { // Logger.Relay: implicit 200 at REQ_END, 500 after a recovered panic
			c.o.own = st
			w.event("W", strconv.Itoa(c.k), strconv.Itoa(st))
		}
		c.o.after = w.read(s, c.idx, c.staleNR || gen != c.wantRelay)
		how := [...]string{"ret", "rec", "esc"}[c.spec.behave]
		w.event(append([]string{"Y", strconv.Itoa(c.k), how}, c.o.after.fields()...)...)
	}()
	if c.spec.behave == bEsc {
		s.I.HandlerFunc(s) // a relay that does not recover: the panic leaves ServeHTTP
		return
	}
	w.lg.Relay(s)
}

// register: false if Handle panicked
func (w *world) register(r route) (ok bool) {
	w.atts = append(w.atts, r)
	idx := len(w.routes)
	ok = func() (ok bool) {
		defer func() {
			if recover() != nil {
				ok = false
			}
		}()
		w.mux.Handle(r.pat, r.meth, w.handler(idx))
		return true
	}()
	if ok {
		w.routes = append(w.routes, r)
		w.event("R", hk.Hxs(r.pat), hk.Hxs(r.meth))
	} else {
		w.event("Q", hk.Hxs(r.pat), hk.Hxs(r.meth)) // the caller of Handle recovers and keeps using the Mux
	}
	return ok
}

// serve: runs one request; escaped reports a panic leaving ServeHTTP
func (w *world) serve(k int, q *reqSpec) (c *reqCtx, escaped bool) {
	return w.serveW(httptest.NewRecorder(), k, q)
}

// serveWatched: for requests whose handler calls back into the Mux (Handle); a handler that never returns is an outcome
func (w *world) serveWatched(k int, q *reqSpec) (c *reqCtx, escaped, hung bool) {
	type res struct {
		c   *reqCtx
		esc bool
	}
	done := make(chan res, 1)
	go func() {
		c, esc := w.serve(k, q)
		done <- res{c, esc}
	}()
	select {
	case r := <-done:
		return r.c, r.esc, false
	case <-time.After(3 * time.Second):
		return &reqCtx{k: k, spec: q}, false, true
	}
}

func (w *world) serveW(rec http.ResponseWriter, k int, q *reqSpec) (c *reqCtx, escaped bool) {
	r := &http.Request{Method: q.meth, URL: &url.URL{Path: q.path}, RequestURI: q.path, Header: http.Header{}, RemoteAddr: "10.0.0.1:1"}
	c = &reqCtx{k: k, spec: q, wantNR: w.nrGen, wantRelay: w.relayGen}
	w.ctxs.Store(r, c)
	defer w.ctxs.Delete(r)
	func() {
		defer func() {
			if recover() != nil {
				escaped = true
			}
		}()
		w.mux.ServeHTTP(rec, r)
	}()
	return c, escaped
}

// ---------------------------------------------------------------------------------------------------------------

type served struct {
	k       int
	spec    reqSpec
	nroutes int // registration attempts made when it was served
	o       obs
	escaped bool
}

type history struct {
	w      *world
	seq    bool
	served []served
	viol   []string
}

func (h *history) line() string {
	prefix := ""
	for _, s := range h.served {
		if len(s.o.id) >= 9 {
			prefix = s.o.id[:9]
			break
		}
	}
	mode := "C"
	if h.seq {
		mode = "S"
	}
	var sb strings.Builder
	sb.WriteString(hk.Hxs(prefix))
	sb.WriteString(" " + mode + " " + strconv.Itoa(len(allNames)))
	for _, n := range allNames {
		sb.WriteString(" " + hk.Hxs(n))
	}
	sb.WriteString(" " + strconv.Itoa(len(h.w.events)))
	for _, e := range h.w.events {
		sb.WriteString(" " + e)
	}
	return sb.String()
}

// oracle: the same request on a fresh Mux with the routes registered so far
func (h *history) judge(e *hk.Env, st *stats) {
	h.served = append(h.served, h.w.inner...) // the requests served by nested dispatch are requests like the others
	ids := map[string]int{}
	for _, s := range h.served {
		bad := func(what string) {
			h.viol = append(h.viol, fmt.Sprintf("%s k=%d path=%q method=%q", what, s.k, s.spec.path, s.spec.meth))
		}
		if s.o.ran != 1 {
			bad(fmt.Sprintf("handler ran %d times", s.o.ran))
			continue
		}
		if s.escaped != (s.spec.behave == bEsc) {
			st.escapeDiffers++ // informational only: whether ServeHTTP lets a handler panic through is not part of C05
		}
		fw := newWorld(false)
		for _, r := range h.w.atts[:s.nroutes] {
			fw.register(r)
		}
		q := s.spec
		q.entered, q.release, q.once = nil, nil, nil
		fc, _ := fw.serve(0, &q)
		f := fc.o
		if f.who != s.o.who {
			bad(fmt.Sprintf("handler %s, fresh Mux %s", s.o.who, f.who))
		}
		if f.any != s.o.any {
			bad(fmt.Sprintf("RouteParamAny %q, fresh Mux %q", s.o.any, f.any))
		}
		for i := range allNames {
			if i < len(s.o.vals) && i < len(f.vals) && f.vals[i] != s.o.vals[i] {
				bad(fmt.Sprintf("RouteParam(%q) %q, fresh Mux %q", allNames[i], s.o.vals[i], f.vals[i]))
			}
		}
		if s.o.status != 0 {
			bad(fmt.Sprintf("W.Status %d at handler entry", s.o.status))
		}
		if s.o.foreign != "" {
			bad(s.o.foreign)
		}
		for _, again := range []struct {
			when  string
			l, fl look
		}{{"at handler exit", s.o.exit, f.exit}, {"in the relay after the handler", s.o.after, f.after}} {
			l := again.l
			if l.id != s.o.id {
				bad(fmt.Sprintf("GetID changed during the request: %q then %q %s", s.o.id, l.id, again.when))
			}
			if l.who != s.o.who || l.any != s.o.any || strings.Join(l.vals, "\x00") != strings.Join(s.o.vals, "\x00") {
				bad(fmt.Sprintf("route / params changed during the request: %s %q %q then %s %q %q %s", s.o.who, s.o.any, s.o.vals, l.who, l.any, l.vals, again.when))
			}
			if l.status != again.fl.status { // the same request doing the same things on a fresh Mux of the same implementation
				bad(fmt.Sprintf("W.Status %d %s, %d for the same request on a fresh Mux", l.status, again.when, again.fl.status))
			}
		}
		if prev, dup := ids[s.o.id]; dup {
			bad(fmt.Sprintf("GetID %q already given to request %d", s.o.id, prev))
		}
		ids[s.o.id] = s.k
		if s.o.id == "" {
			bad("GetID is empty")
		}
	}
	line := h.line()
	for i, v := range h.viol {
		if i < 3 {
			e.Case("VIOL", strings.ReplaceAll(v, " ", "_"), "history:", "E", line)
		}
	}
	e.Case("E", line)
	st.histories++
	st.requests += len(h.served)
	st.events += len(h.w.events)
	ptrs := map[uintptr]bool{}
	for _, s := range h.served {
		ptrs[s.o.ptr] = true
		switch {
		case s.o.who == "nr":
			st.noroute++
		case strings.HasPrefix(s.o.who, "r"):
			st.matched++
		}
		if s.spec.flush != 0 {
			st.flushes++
		}
		if s.spec.replaceW {
			st.replacedW++
		}
		if s.spec.replaceP {
			st.replacedP++
		}
		switch s.spec.behave {
		case bRec:
			st.recovered++
		case bEsc:
			st.escaped++
		}
		for _, v := range s.o.vals {
			if v != "" {
				st.withValues++
				break
			}
		}
	}
	st.distinctStores += len(ptrs)
	st.violations += len(h.viol)
}

type stats struct {
	histories, requests, events, matched, noroute, recovered, escaped, withValues, distinctStores, violations                     int
	escapeDiffers, flushes, rehandled, idOnlyRequests, rejectedRegs, replacedW, replacedP, nestedDispatch, regInsideHandler, hung int
	lateMoreParams, overlapForced                                                                                                 int
}

// ---------------------------------------------------------------------------------------------------------------
// generators

func genRoutes(r *hk.Rng, n int) []route {
	var res []route
	for i := 0; i < n; i++ {
		np := r.Intn(4)
		if i == n-1 && r.Chance(60) {
			np = 3 // the last one tends to have the most params (registered late)
		}
		perm := append([]string{}, paramPool...)
		for j := len(perm) - 1; j > 0; j-- {
			x := r.Intn(j + 1)
			perm[j], perm[x] = perm[x], perm[j]
		}
		pat := "/r" + strconv.Itoa(i)
		if i == 0 && r.Chance(30) {
			pat = "" // the root route
		}
		for j := 0; j < np; j++ {
			if r.Chance(25) {
				pat += "/k"
			}
			if j == np-1 && r.Chance(25) {
				pat += "/*"
			} else {
				pat += "/:" + perm[j]
			}
		}
		if r.Chance(20) {
			pat += "/x"
		}
		if pat == "" {
			pat = "/"
		}
		meth := "GET"
		switch r.Intn(6) {
		case 0:
			meth = "*"
		case 1:
			meth = "POST"
		}
		res = append(res, route{pat, meth})
	}
	return res
}

// genBad: a registration Handle should reject (repeated or empty :name, unknown method, duplicate of an earlier route),
// preferably under the prefix of an earlier attempt so that the nodes it leaves behind sit next to real routes
func genBad(r *hk.Rng, atts []route) route {
	tails := []string{"/:a/:a", "/:", "/k/:b/:b", "/:id/x/:id", "/:a/:A/:a", "/:ab/:b/:ab/x"}
	base := "/r" + strconv.Itoa(r.Intn(5))
	if len(atts) > 0 && r.Chance(75) {
		parts := strings.Split(atts[r.Intn(len(atts))].pat, "/")
		var keep []string
		for _, p := range parts {
			if p != "" && p != "*" {
				keep = append(keep, p)
			}
		}
		if len(keep) > 0 {
			keep = keep[:1+r.Intn(len(keep))]
			base = "/" + strings.Join(keep, "/")
		}
	}
	switch k := r.Intn(100); {
	case k < 70:
		// a name of the tail may repeat one of the base: fine, still rejected (or accepted, whatever Handle says is logged)
		return route{base + tails[r.Intn(len(tails))], "GET"}
	case k < 80 && len(atts) > 0:
		a := atts[r.Intn(len(atts))]
		return route{strings.NewReplacer(":a", ":zz", ":b", ":a", ":id", ":b").Replace(a.pat) + "/", a.meth} // same shape, other names
	case k < 90:
		return route{base + "/x", []string{"FETCH", "", "get"}[r.Intn(3)]}
	default:
		return route{base + "/:id/:id", "*"}
	}
}

var fillers = []string{"1", "22", "xy", "k", "x", ":a", "*", "%20"}

func genRequest(r *hk.Rng, routes []route) reqSpec {
	q := reqSpec{meth: "GET"}
	switch k := r.Intn(100); {
	case k < 55 && len(routes) > 0: // derived from a registered pattern
		rt := routes[r.Intn(len(routes))]
		parts := strings.Split(rt.pat, "/")
		for i, p := range parts {
			if strings.HasPrefix(p, ":") {
				parts[i] = fillers[r.Intn(len(fillers))]
			} else if p == "*" {
				parts[i] = []string{"rest", "r/s//t", "", "1/2/3"}[r.Intn(4)]
			}
		}
		switch r.Intn(10) {
		case 0: // partially matched: cut the tail
			if len(parts) > 2 {
				parts = parts[:len(parts)-1]
			}
		case 1: // partially matched: wrong last literal
			parts[len(parts)-1] = "zzz"
		case 2:
			parts = append(parts, "more")
		}
		q.path = strings.Join(parts, "/")
		q.meth = rt.meth
		if q.meth == "*" || r.Chance(15) {
			q.meth = []string{"GET", "POST", "PUT", "BOGUS"}[r.Intn(4)]
		}
	case k < 70:
		q.path = []string{"/zz/1", "/nope", "/r0/1/2/3/4/5", "/r1", "/r9/1"}[r.Intn(5)]
	case k < 80:
		q.path = []string{"/", "", "//", "x"}[r.Intn(4)]
	default:
		q.path = "/r" + strconv.Itoa(r.Intn(4)) + "/" + fillers[r.Intn(len(fillers))] + "/" + fillers[r.Intn(len(fillers))]
	}
	switch k := r.Intn(100); {
	case k < 12:
		q.behave = bRec
	case k < 22:
		q.behave = bEsc
	}
	if r.Chance(40) {
		q.code = []int{200, 201, 404, 500}[r.Intn(4)]
	}
	if r.Chance(25) {
		q.flush = 1 + r.Intn(2)
	}
	if r.Chance(8) {
		q.replaceW = true
	}
	if r.Chance(8) {
		q.replaceP = true
	}
	return q
}

func countParams(pat string) int {
	n := 0
	for _, p := range strings.Split(pat, "/") {
		if strings.HasPrefix(p, ":") || p == "*" {
			n++
		}
	}
	return n
}

// one goroutine, 1..40 operations, registrations between requests
func sequentialHistory(e *hk.Env, r *hk.Rng, st *stats) {
	h := &history{w: newWorld(true), seq: true}
	pending := genRoutes(r, 1+r.Intn(5))
	nops := 1 + r.Intn(40)
	k := 0
	maxp := -1
	servedAny := false
	for op := 0; op < nops; op++ {
		if len(pending) > 0 && (len(h.w.routes) == 0 || r.Chance(15)) {
			rt := pending[0]
			pending = pending[1:]
			h.w.register(rt) // whether Handle accepts it is judged by the specification (event R or Q)
			if p := countParams(rt.pat); p > maxp {
				if servedAny && maxp >= 0 {
					st.lateMoreParams++
				}
				maxp = p
			}
			continue
		}
		if r.Chance(7) { // a registration that Handle rejects; the harness recovers, the Mux is used on
			if !h.w.register(genBad(r, h.w.atts)) {
				st.rejectedRegs++
			}
			continue
		}
		if r.Chance(6) { // the other two registrations, between requests: a new no-route info, the relay again
			if r.Chance(70) {
				h.w.installNoRoute()
			}
			if r.Chance(50) {
				h.w.installRelay()
			}
			st.rehandled++
		}
		q := genRequest(r, h.w.atts)
		c, esc := h.w.serve(k, &q)
		h.served = append(h.served, served{k: k, spec: q, nroutes: len(h.w.atts), o: c.o, escaped: esc})
		servedAny = true
		k++
	}
	h.judge(e, st)
}

// overlap forced with channels: request A is held inside its handler while B (and C) run completely on the same Mux
func overlapHistory(e *hk.Env, r *hk.Rng, st *stats) {
	h := &history{w: newWorld(true), seq: true}
	for _, rt := range genRoutes(r, 2+r.Intn(3)) {
		h.w.register(rt)
	}
	k := 0
	reentrant := r.Chance(50)
	if reentrant {
		// RE-ENTRANT use first: handlers that dispatch again with their own writer (same Mux / a second Mux) and a handler
		// that registers a route on the Mux serving it; then the overlapping plain requests below look at what that left
		for j := 0; j < 2+r.Intn(4); j++ {
			q := genRequest(r, h.w.routes)
			if r.Chance(70) {
				in := genRequest(r, h.w.routes)
				in.behave = bRet
				q.nested, q.nestedK = &in, k+1
			} else {
				q.auxNested = true
			}
			c, esc := h.w.serve(k, &q)
			h.served = append(h.served, served{k: k, spec: q, nroutes: len(h.w.atts), o: c.o, escaped: esc})
			k += 2
			st.nestedDispatch++
		}
		if r.Chance(60) && st.hung < 2 { // two stuck handlers are enough to report
			late := route{"/late" + strconv.Itoa(r.Intn(3)) + "/:" + paramPool[r.Intn(len(paramPool))], "GET"}
			q := genRequest(r, h.w.routes)
			q.behave = bRet
			q.regInside = &late
			n := len(h.w.atts)
			c, esc, hung := h.w.serveWatched(k, &q)
			if hung {
				e.Case("VIOL", "handler-never-returned:", fmt.Sprintf("a_handler_that_calls_mux.Handle(%q,%q)_on_the_Mux_serving_it_did_not_return_within_3s_(path_%q)", late.pat, late.meth, q.path))
				st.violations++
				st.hung++
				return // the goroutine is stuck inside the Mux: nothing more can be learnt from this history
			}
			h.served = append(h.served, served{k: k, spec: q, nroutes: n, o: c.o, escaped: esc})
			k++
			st.regInsideHandler++
			for _, p := range []string{late.pat[:6] + "/7", late.pat[:6] + "/8/9", late.pat[:6]} {
				q2 := reqSpec{path: p, meth: "GET"}
				c, esc := h.w.serve(k, &q2)
				h.served = append(h.served, served{k: k, spec: q2, nroutes: len(h.w.atts), o: c.o, escaped: esc})
				k++
			}
		}
	}
	rounds := 1 + r.Intn(4)
	for round := 0; round < rounds; round++ {
		depth := 1 + r.Intn(3)
		type held struct {
			q    *reqSpec
			done chan served
			k    int
		}
		var stack []held
		for d := 0; d < depth; d++ {
			q := genRequest(r, h.w.routes)
			q.entered, q.release, q.once = make(chan struct{}), make(chan struct{}), new(sync.Once)
			q.holdLate = r.Chance(50)
			hd := held{q: &q, done: make(chan served, 1), k: k}
			k++
			n := len(h.w.atts)
			go func() {
				c, esc := h.w.serve(hd.k, hd.q)
				hd.q.signalEntered() // ServeHTTP ended without reaching the handler (it panicked earlier)
				hd.done <- served{k: hd.k, spec: *hd.q, nroutes: n, o: c.o, escaped: esc}
			}()
			<-q.entered // hd is now inside its handler, id read once
			stack = append(stack, hd)
			// complete requests while the held ones are in flight
			for j := 0; j < 1+r.Intn(3); j++ {
				q2 := genRequest(r, h.w.routes)
				c, esc := h.w.serve(k, &q2)
				h.served = append(h.served, served{k: k, spec: q2, nroutes: len(h.w.atts), o: c.o, escaped: esc})
				k++
			}
		}
		for i := len(stack) - 1; i >= 0; i-- {
			close(stack[i].q.release)
			h.served = append(h.served, <-stack[i].done)
		}
		st.overlapForced += depth
	}
	h.judge(e, st)
}

// 8 goroutines, registrations between the phases
func concurrentHistory(e *hk.Env, r *hk.Rng, st *stats, perWorker int) {
	h := &history{w: newWorld(true), seq: false}
	pending := genRoutes(r, 2+r.Intn(4))
	k := 0
	phases := 1 + r.Intn(3)
	for ph := 0; ph < phases; ph++ {
		nreg := 1 + r.Intn(2)
		for i := 0; i < nreg && len(pending) > 0; i++ {
			h.w.register(pending[0])
			pending = pending[1:]
		}
		const workers = 8
		specs := make([][]reqSpec, workers)
		keys := make([][]int, workers)
		for wk := 0; wk < workers; wk++ {
			for j := 0; j < perWorker; j++ {
				specs[wk] = append(specs[wk], genRequest(r, h.w.routes))
				keys[wk] = append(keys[wk], k)
				k++
			}
		}
		out := make([][]served, workers)
		var wg sync.WaitGroup
		n := len(h.w.atts)
		for wk := 0; wk < workers; wk++ {
			wg.Add(1)
			go func(wk int) {
				defer wg.Done()
				for j := range specs[wk] {
					q := specs[wk][j]
					c, esc := h.w.serve(keys[wk][j], &q)
					out[wk] = append(out[wk], served{k: keys[wk][j], spec: q, nroutes: n, o: c.o, escaped: esc})
				}
			}(wk)
		}
		wg.Wait()
		for wk := range out {
			h.served = append(h.served, out[wk]...)
		}
	}
	h.judge(e, st)
}

func run(e *hk.Env) error {
	if os.Getenv("VERIF_SMOKE386") != "" {
		return smoke386(e)
	}
	var st stats
	// maximal Store reuse: sync.Pool is emptied by the GC, so keep the GC away from the tight loops
	old := debug.SetGCPercent(-1)
	defer debug.SetGCPercent(old)

	// the two repaired defects as regression histories (corpus in code: always run first)
	{
		h := &history{w: newWorld(true), seq: true}
		h.w.register(route{"/u/:a/:b", "GET"})
		h.w.register(route{"/:id/:ID", "POST"})
		for i, q := range []reqSpec{{path: "/u/1/2", meth: "GET"}, {path: "/nope/x", meth: "GET"}, {path: "/u/1", meth: "GET"}, {path: "/1/2", meth: "POST"}, {path: "/u/7/8", meth: "GET", flush: 1}} {
			q := q
			c, esc := h.w.serve(i, &q)
			h.served = append(h.served, served{k: i, spec: q, nroutes: 2, o: c.o, escaped: esc})
		}
		h.judge(e, &st)
		h = &history{w: newWorld(true), seq: true}
		h.w.register(route{"/a/:x", "GET"})
		q := reqSpec{path: "/a/1", meth: "GET"}
		c, esc := h.w.serve(0, &q)
		h.served = append(h.served, served{k: 0, spec: q, nroutes: 1, o: c.o, escaped: esc})
		h.w.register(route{"/b/:x/:y", "GET"})
		q2 := reqSpec{path: "/b/1/2", meth: "GET"}
		c, esc = h.w.serve(1, &q2)
		h.served = append(h.served, served{k: 1, spec: q2, nroutes: 2, o: c.o, escaped: esc})
		h.judge(e, &st)
	}

	{ // HandleNoRoute / HandleRelay called again after requests were served: pooled Stores must not keep the old no-route info
		h := &history{w: newWorld(true), seq: true}
		h.w.register(route{"/a/:id", "GET"})
		k := 0
		for round := 0; round < 3; round++ {
			for _, p := range []string{"/zz", "/a/1", "/zz/1", "/"} {
				q := reqSpec{path: p, meth: "GET"}
				c, esc := h.w.serve(k, &q)
				h.served = append(h.served, served{k: k, spec: q, nroutes: 1, o: c.o, escaped: esc})
				k++
			}
			h.w.installNoRoute()
			h.w.installRelay()
		}
		h.judge(e, &st)
	}

	{ // a rejected registration (recovered) leaves nodes behind; requests under it; then a route registered there
		h := &history{w: newWorld(true), seq: true}
		k := 0
		serve := func(p string, q reqSpec) {
			q.path, q.meth = p, "GET"
			c, esc := h.w.serve(k, &q)
			h.served = append(h.served, served{k: k, spec: q, nroutes: len(h.w.atts), o: c.o, escaped: esc})
			k++
		}
		h.w.register(route{"/u/:id/:id", "GET"})
		h.w.register(route{"/w/*", "GET"})
		h.w.register(route{"/w/:a/:a", "GET"})
		for _, p := range []string{"/u/5", "/u/5/6", "/w/1", "/zz"} {
			serve(p, reqSpec{})
		}
		h.w.register(route{"/u/:id", "GET"})
		for _, p := range []string{"/u/7", "/u/8", "/w/2"} {
			serve(p, reqSpec{})
		}
		// handlers that replace Store.W / Store.P, then plain requests on the recycled Stores
		serve("/u/9", reqSpec{replaceW: true})
		serve("/u/10", reqSpec{})
		serve("/u/11", reqSpec{replaceP: true})
		serve("/u/12", reqSpec{})
		serve("/zz", reqSpec{replaceW: true, replaceP: true, code: 404})
		serve("/u/13", reqSpec{})
		h.judge(e, &st)
	}

	nSeq, nOverlap, nConc, perWorker := 1500, 300, 60, 12
	if e.Thorough() {
		nSeq, nOverlap, nConc, perWorker = 40000, 6000, 1500, 25
	}
	r := e.Rng.Fork()
	for i := 0; i < nSeq; i++ {
		sequentialHistory(e, r, &st)
		if i%40 == 39 {
			runtime.GC() // between histories only
		}
	}
	e.Stats["sequential_histories"] = nSeq
	seqReq, seqStores := st.requests, st.distinctStores
	for i := 0; i < nOverlap; i++ {
		overlapHistory(e, r, &st)
		if i%40 == 39 {
			runtime.GC()
		}
	}
	e.Stats["forced_overlap_histories"] = nOverlap
	for i := 0; i < nConc; i++ {
		concurrentHistory(e, r, &st, perWorker)
		if i%10 == 9 {
			runtime.GC()
		}
	}
	e.Stats["concurrent_histories_8_goroutines"] = nConc

	// one long history on ONE Mux, ids only: no id may repeat (a counter that wraps or is truncated before rendering shows
	// here).  How the id looks is the implementation's business; that it is prefix + base36(i) is only counted.
	{
		n := 60000
		if e.Thorough() {
			n = 400000
		}
		mux := httpd.NewMux()
		var got string
		mux.HandleNoRoute(func(s *httpd.Store) { got = clone(s.GetID()) })
		seen := make(map[string]int, n)
		req := &http.Request{Method: "GET", URL: &url.URL{Path: "/"}, RequestURI: "/", Header: http.Header{}}
		rec := httptest.NewRecorder()
		bad, otherLayout := 0, 0
		for i := 1; i <= n && bad < 3; i++ {
			got = ""
			mux.ServeHTTP(rec, req)
			if j, dup := seen[got]; dup {
				bad++
				e.Case("VIOL", fmt.Sprintf("GetID_%q_of_request_%d_on_one_Mux_was_already_given_to_request_%d", got, i, j))
			} else if got == "" {
				bad++
				e.Case("VIOL", fmt.Sprintf("GetID_of_request_%d_on_one_Mux_is_empty", i))
			}
			if len(got) < 10 || got[9:] != strconv.FormatUint(uint64(i), 36) {
				otherLayout++
			}
			seen[got] = i
		}
		st.idOnlyRequests = n
		st.violations += bad
		e.Stats["id_only_history_ids_not_prefix_plus_base36_ticket_(informational)"] = otherLayout
	}
	e.Stats["id_only_history_requests_on_one_mux"] = st.idOnlyRequests
	e.Stats["handler_panic_propagation_differs_from_relay_kind_(informational)"] = st.escapeDiffers
	e.Stats["requests_with_Flush"] = st.flushes
	e.Stats["requests_whose_handler_dispatched_again_with_its_own_writer"] = st.nestedDispatch
	e.Stats["requests_whose_handler_registered_a_route_on_its_own_mux"] = st.regInsideHandler
	e.Stats["registrations_rejected_by_Handle_and_recovered"] = st.rejectedRegs
	e.Stats["requests_whose_handler_replaced_Store_W"] = st.replacedW
	e.Stats["requests_whose_handler_replaced_Store_P"] = st.replacedP
	e.Stats["HandleNoRoute_HandleRelay_again_between_requests"] = st.rehandled

	races := raceReports(e)
	for i, rep := range races {
		if i < 3 {
			var frames []string
			for _, l := range strings.Split(rep, "\n") {
				l = strings.TrimSpace(l)
				if strings.HasPrefix(l, "WARNING") || strings.HasPrefix(l, "Write at") || strings.HasPrefix(l, "Read at") || strings.HasPrefix(l, "Previous") ||
					(strings.Contains(l, "/httpd/") && strings.Contains(l, ".go:")) || strings.HasPrefix(l, "github.com/whoisnian/glb/httpd") {
					frames = append(frames, l)
				}
			}
			if len(frames) > 14 {
				frames = frames[:14]
			}
			e.Case("VIOL", "data_race_reported_by_the_Go_race_detector:", strings.Join(frames, " | "))
		}
	}
	e.Stats["data_races_reported"] = len(races)
	e.Stats["cases"] = st.requests
	e.Stats["histories"] = st.histories
	e.Stats["requests"] = st.requests
	e.Stats["events"] = st.events
	e.Stats["requests_matched"] = st.matched
	e.Stats["requests_noroute"] = st.noroute
	e.Stats["requests_with_param_values"] = st.withValues
	e.Stats["handler_panics_recovered_by_relay"] = st.recovered
	e.Stats["handler_panics_escaping_ServeHTTP"] = st.escaped
	e.Stats["registrations_with_more_params_after_serving"] = st.lateMoreParams
	e.Stats["requests_held_in_flight_by_channels"] = st.overlapForced
	e.Stats["sequential_requests"] = seqReq
	e.Stats["sequential_distinct_store_pointers"] = seqStores
	e.Stats["go_side_oracle_violations"] = st.violations
	e.Stats["distinct_nontrivial"] = st.histories
	e.Sample("samples", map[string]any{"names_queried_in_every_handler": allNames, "example_routes": fmt.Sprint(genRoutes(hk.NewRng(7), 4))}, 5)
	return nil
}

// smoke386: the short subset run by the GOARCH=386 binary (lib/httpd_static.py, thorough tier): one Mux, a few hundred
// requests, several in flight; a panic escaping ServeHTTP on its own account is "VIOL panic-on-386 ...".
func smoke386(e *hk.Env) error {
	mux := httpd.NewMux()
	var served, inFlight, maxInFlight atomic.Int64
	gate := make(chan struct{})
	h := func(s *httpd.Store) {
		n := inFlight.Add(1)
		for {
			m := maxInFlight.Load()
			if n <= m || maxInFlight.CompareAndSwap(m, n) {
				break
			}
		}
		_ = s.RouteParam("x") + s.RouteParamAny() + s.GetID()
		<-gate // the first wave of requests is held in flight together
		inFlight.Add(-1)
		served.Add(1)
	}
	mux.Handle("/a/:x", "GET", h)
	mux.Handle("/b/*", "*", h)
	mux.HandleNoRoute(h)
	var mu sync.Mutex
	panics := 0
	serve := func(p string) {
		defer func() {
			if r := recover(); r != nil {
				mu.Lock()
				if panics < 3 {
					e.Case("VIOL", "panic-on-386", "ServeHTTP_panicked_on_GOARCH=386_for_path", hk.Hxs(p), strings.ReplaceAll(fmt.Sprint(r), " ", "_"))
				}
				panics++
				mu.Unlock()
			}
		}()
		mux.ServeHTTP(httptest.NewRecorder(), &http.Request{Method: "GET", URL: &url.URL{Path: p}, RequestURI: p, Header: http.Header{}, RemoteAddr: "10.0.0.1:1"})
	}
	var wg sync.WaitGroup
	paths := []string{"/a/1", "/b/r/s", "/zz", "/", "", "/a/"}
	for g := 0; g < 8; g++ {
		wg.Add(1)
		go func(g int) {
			defer wg.Done()
			for i := 0; i < 50; i++ {
				serve(paths[(g+i)%len(paths)])
			}
		}(g)
	}
	for i := 0; i < 2000 && inFlight.Load() < 8 && panics == 0; i++ {
		time.Sleep(time.Millisecond)
	}
	close(gate)
	wg.Wait()
	e.Case("SMOKE386", fmt.Sprintf("requests=%d served=%d max_in_flight=%d panics=%d", 400, served.Load(), maxInFlight.Load(), panics))
	e.Stats["smoke386_requests"] = 400
	e.Stats["smoke386_panics"] = panics
	return nil
}
