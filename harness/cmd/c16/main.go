package main

import (
	"bytes"
	"fmt"
	"os"
	"os/exec"
	"strings"

	"github.com/whoisnian/glb/util/strutil"
	"verifharness/hk"
)

// C16: ShellEscape / ShellEscapeExceptTilde.
// Cases: "E <s> <ShellEscape(s)> <ShellEscapeExceptTilde(s)>".
// The outputs are also handed to the real dash and bash in batches
// (printf '%s\0' <escaped words>), with HOME=/h; disagreement is written as
// "SHELLFAIL <shell> <variant> <s> <got>".
func main() { hk.Main("C16", runC16) }

var c16Alphabet = []byte{'\'', '"', '\\', '$', '`', ' ', '\n', ';', '&', '|', '*', '~', '!', '#', 'a'}

func runC16(e *hk.Env) error {
	maxLen := 4
	nRandom := 20000
	if e.Thorough() {
		maxLen = 5
		nRandom = 200000
	}
	var inputs []string
	// exhaustive over the alphabet
	var gen func(prefix []byte, l int)
	gen = func(prefix []byte, l int) {
		inputs = append(inputs, string(prefix))
		if l == 0 {
			return
		}
		for _, c := range c16Alphabet {
			gen(append(prefix[:len(prefix):len(prefix)], c), l-1)
		}
	}
	gen(nil, maxLen)
	e.Stats["exhaustive_strings"] = len(inputs)
	// second exhaustive pass: a wider alphabet (tab, CR, braces, comma, glob/redirect/grouping characters, '=', '/', '%') up to length 3
	wide := append(append([]byte{}, c16Alphabet...), '\t', '\r', '{', ',', '}', '?', '[', ']', '<', '>', '(', ')', '=', '/', '%', '^', '-')
	var gen2 func(prefix []byte, l int)
	gen2 = func(prefix []byte, l int) {
		if len(prefix) > 0 {
			inputs = append(inputs, string(prefix))
		}
		if l == 0 {
			return
		}
		for _, c := range wide {
			gen2(append(prefix[:len(prefix):len(prefix)], c), l-1)
		}
	}
	gen2(nil, 3)
	e.Stats["exhaustive_wide_alphabet_len3"] = len(wide)
	e.Stats["exhaustive_max_len"] = maxLen
	// every single byte except NUL, and "~/" + every byte
	for b := 1; b < 256; b++ {
		inputs = append(inputs, string([]byte{byte(b)}), "~/"+string([]byte{byte(b)}), "~"+string([]byte{byte(b)}))
	}
	// the tilde variants of the short exhaustive strings
	n0 := len(inputs)
	for i := 0; i < n0 && i < 60000; i++ {
		if len(inputs[i]) <= 3 {
			inputs = append(inputs, "~/"+inputs[i])
		}
	}
	// random byte strings without NUL, biased towards special characters
	r := e.Rng.Fork()
	lens := map[int]int{}
	for i := 0; i < nRandom; i++ {
		l := r.Intn(24)
		if r.Chance(5) {
			l = 100 + r.Intn(400)
		}
		b := make([]byte, l)
		for j := range b {
			switch {
			case r.Chance(40):
				b[j] = c16Alphabet[r.Intn(len(c16Alphabet))]
			case r.Chance(30):
				b[j] = byte(1 + r.Intn(255))
			default:
				b[j] = "abcXYZ09/-_.=:,{}[]()<>?%^@+"[r.Intn(28)]
			}
		}
		if r.Chance(10) {
			b = append([]byte("~/"), b...)
		}
		lens[len(b)/64*64]++
		inputs = append(inputs, string(b))
	}
	e.Stats["random_strings"] = nRandom
	// shell idioms: multi-byte tokens that mean something to a shell (parameter / command / arithmetic expansion, tilde
	// forms, assignments, redirections, reserved words, here-doc and history markers). Random bytes essentially never spell
	// them, and a function that singles one of them out ("leave $HOME/ to the shell like ~/") is exactly what the property
	// forbids. Every token alone, as a prefix, after "~/", and in random concatenations of two to four tokens.
	idioms := []string{"$HOME", "$HOME/", "${HOME}", "${HOME}/", "$PWD/", "$USER", "$PATH", "$IFS", "$0", "$1", "$@", "$*", "$#", "$?", "$$", "$!", "$-",
		"${x}", "${x:-y}", "${x:=y}", "${#x}", "${x%/*}", "${x##*/}", "$(id)", "$(echo x)", "`id`", "$((1+1))", "$[1+1]", "$'\\n'", "$\"x\"",
		"~", "~/", "~root", "~root/", "~+", "~+/", "~-", "~-/", "~nobody/x", "~/~", "~//", "~/$HOME", "~/`id`", "~/$(id)", "~/*", "~/ x", "~/'", "~/\"",
		"x=~/y", "PATH=~/bin:$PATH", "a=b", "a=b c", "-n", "-e", "--", "-", "!", "!!", "!$", "!x", "^a^b", "#x", "# x", "x #y", "%1",
		"*", "?", "[a-z]", "[!a]", "{a,b}", "{1..3}", "*.go", "/*", "./*", "../..", ".", "..", "/", "//", "/etc/passwd", "a/b c/d",
		">x", ">>x", "<x", "<<EOF", "<<<x", "2>&1", "&>x", ">|x", "<>x", "|", "||", "&", "&&", ";", ";;", "(", ")", "(x)", "{ x; }",
		"if", "then", "fi", "for", "do", "done", "while", "case", "esac", "in", "function", "time", "exec", "eval", "exit", "true", ":", "[", "[[", "]]", "test",
		"\\", "\\\n", "\\'", "'\\''", "'\"'\"'", "\"'\"", "''", "\"\"", "' '", "a'b", "a\"b", "a'b\"c'd", "'a'", "\"a\"", "$'a'", "\n", "\r\n", "\t", " ", "  ",
		"\x1b[31m", "\x7f", "\xff", "\xc3", "\u00e9", "\u3000", "\u2028"}
	nIdiom := 0
	for _, w := range idioms {
		inputs = append(inputs, w, w+"x", "x"+w, "~/"+w, w+"/x y", w+" "+w)
		nIdiom += 6
	}
	nCat := 3000
	if e.Thorough() {
		nCat = 40000
	}
	for i := 0; i < nCat; i++ {
		var sb strings.Builder
		for k := 2 + r.Intn(3); k > 0; k-- {
			sb.WriteString(idioms[r.Intn(len(idioms))])
			if r.Chance(25) {
				sb.WriteByte("/ x'\"$"[r.Intn(6)])
			}
		}
		inputs = append(inputs, sb.String())
		nIdiom++
	}
	e.Stats["shell_idiom_strings"] = nIdiom
	// every Unicode code point of the BMP (and the astral "special" ranges) embedded in a word: the functions must be
	// transparent to every character, visible or not (a "bidi hardening" that dropped invisible controls was a seeded regression)
	nUni := 0
	addCP := func(cp rune) {
		if cp >= 0xD800 && cp <= 0xDFFF {
			return
		}
		c := string(cp)
		inputs = append(inputs, "a"+c+"b")
		nUni++
		if cp%16 == 0 || (cp >= 0x2000 && cp <= 0x206F) || (cp >= 0xFE00 && cp <= 0xFEFF) {
			inputs = append(inputs, c, "~/"+c+"'"+c, c+c+" "+c)
			nUni += 3
		}
	}
	for cp := rune(1); cp <= 0xFFFF; cp++ {
		addCP(cp)
	}
	for _, rg := range [][2]rune{{0x1F300, 0x1F64F}, {0xE0000, 0xE007F}, {0xE0100, 0xE01EF}, {0x10FFF0, 0x10FFFF}, {0x1D400, 0x1D4FF}} {
		for cp := rg[0]; cp <= rg[1]; cp++ {
			addCP(cp)
		}
	}
	if e.Thorough() {
		for cp := rune(0x10000); cp <= 0x10FFFF; cp += 7 {
			addCP(cp)
		}
	}
	// short strings over the invisible / formatting characters
	special := []rune{0x85, 0xA0, 0xAD, 0x200B, 0x200C, 0x200D, 0x200E, 0x200F, 0x2028, 0x2029, 0x202A, 0x202B, 0x202C, 0x202D, 0x202E,
		0x2060, 0x2066, 0x2067, 0x2068, 0x2069, 0xFEFF, 0xFFFD, 0xFFFE, 0x0301, 0x1F600}
	for _, a := range special {
		for _, b := range special {
			inputs = append(inputs, string([]rune{a, b}), "x"+string(a)+"'"+string(b)+"y")
			nUni += 2
		}
	}
	e.Stats["unicode_code_point_cases"] = nUni
	e.Stats["random_len_hist_by_64"] = lens

	// The functions must not depend on process-global state: repeat a subset of the inputs under other
	// environments (a "fish support" keyed on $SHELL was a seeded regression) and append them as further cases.
	envVariants := [][2]string{{"SHELL", "/usr/bin/fish"}, {"SHELL", "fish"}, {"SHELL", "/bin/zsh"}, {"SHELL", ""},
		{"HOME", "/we ird'home"}, {"LANG", "C"}, {"LC_ALL", "tr_TR.UTF-8"}, {"IFS", ":"}, {"GOOS", "windows"}, {"TERM", "dumb"}}
	type envCase struct{ s, e, t string }
	var envCases []envCase
	subset := []string{}
	for i := 0; i < n0 && i < len(inputs); i++ {
		if len(inputs[i]) <= 2 {
			subset = append(subset, inputs[i])
		}
	}
	for b := 1; b < 256; b++ {
		subset = append(subset, "x"+string([]byte{byte(b)})+"'y", "~/"+string([]byte{byte(b)}))
	}
	for _, ev := range envVariants {
		old, had := os.LookupEnv(ev[0])
		os.Setenv(ev[0], ev[1])
		for _, s := range subset {
			envCases = append(envCases, envCase{s, strutil.ShellEscape(s), strutil.ShellEscapeExceptTilde(s)})
		}
		if had {
			os.Setenv(ev[0], old)
		} else {
			os.Unsetenv(ev[0])
		}
	}
	e.Stats["env_variants"] = len(envVariants)
	e.Stats["env_variant_cases"] = len(envCases)

	esc := make([]string, len(inputs))
	esct := make([]string, len(inputs))
	nq := 0
	for i, s := range inputs {
		esc[i] = strutil.ShellEscape(s)
		esct[i] = strutil.ShellEscapeExceptTilde(s)
		if strings.Contains(s, "'") {
			nq++
		}
		e.Case("E", hk.Hxs(s), hk.Hxs(esc[i]), hk.Hxs(esct[i]))
	}
	// env-variant cases are appended to the same arrays so that the real shells judge them too
	for _, c := range envCases {
		inputs = append(inputs, c.s)
		esc = append(esc, c.e)
		esct = append(esct, c.t)
		e.Case("E", hk.Hxs(c.s), hk.Hxs(c.e), hk.Hxs(c.t))
	}
	e.Stats["cases"] = len(inputs)
	e.Stats["with_single_quote"] = nq
	for i := 0; i < 5; i++ {
		k := (i*7919 + 13) % len(inputs)
		e.Sample("samples", map[string]string{"s": inputs[k], "escaped": esc[k], "except_tilde": esct[k]}, 5)
	}

	// real shells
	for _, sh := range []string{"dash", "bash"} {
		path, err := exec.LookPath(sh)
		if err != nil {
			e.Stats["shell_"+sh] = "absent"
			continue
		}
		fails, checked := 0, 0
		const batch = 400
		for variant, outs := range [][]string{esc, esct} {
			for lo := 0; lo < len(inputs); lo += batch {
				hi := min(lo+batch, len(inputs))
				script := "printf '%s\\0' " + strings.Join(outs[lo:hi], " ")
				cmd := exec.Command(path, "-c", script)
				cmd.Env = []string{"HOME=/h", "PATH=/usr/bin:/bin"}
				cmd.Dir = "/"
				var stdout bytes.Buffer
				cmd.Stdout = &stdout
				runErr := cmd.Run()
				got := bytes.Split(stdout.Bytes(), []byte{0})
				if len(got) > 0 && len(got[len(got)-1]) == 0 {
					got = got[:len(got)-1]
				}
				ok := runErr == nil && len(got) == hi-lo
				for k := lo; k < hi && ok; k++ {
					want := inputs[k]
					if variant == 1 && strings.HasPrefix(want, "~/") {
						want = "/h" + want[1:]
					}
					if string(got[k-lo]) != want {
						ok = false
					}
				}
				checked += hi - lo
				if ok {
					continue
				}
				// locate the failing words one by one
				for k := lo; k < hi; k++ {
					c := exec.Command(path, "-c", "printf '%s\\0' "+outs[k])
					c.Env = cmd.Env
					c.Dir = "/"
					o, err1 := c.Output()
					want := inputs[k]
					if variant == 1 && strings.HasPrefix(want, "~/") {
						want = "/h" + want[1:]
					}
					if fails >= 40 {
						break
					}
					if err1 != nil || string(o) != want+"\x00" {
						fails++
						e.Case("SHELLFAIL", sh, fmt.Sprint(variant), hk.Hxs(inputs[k]), hk.Hx(o))
					}
				}
			}
		}
		e.Stats["shell_"+sh+"_words_checked"] = checked
		e.Stats["shell_"+sh+"_failures"] = fails
	}
	return nil
}
