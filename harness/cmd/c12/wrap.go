package main

import (
	"fmt"
	"net"
	"sync"
	"time"

	"github.com/whoisnian/glb/util/netutil"
	"verifharness/hk"
)

// Thorough tier only: state carried across an exact power-of-two number of updates.
//
// A victim address inside a range X of writer 0 is looked up (answer a0), then 4 writers toggle their
// own ranges for a total of EXACTLY `total` Add/Remove calls (2^16, then 2^24) such that X ends in the
// other state, and the victim is the very first lookup afterwards: it must give the new answer.  Then all
// owned ranges are compared with what their owners did last.  (A memo / version counter truncated to 16 or
// 24 bits makes a stale answer look current again after exactly that many updates.)  Wrap-arounds beyond
// 2^24 updates (2^32 in particular) are not exercised.
func runWrapScenario(e *hk.Env, total int) {
	f := netutil.NewIPv4Filter()
	// into map mode first, with unrelated ranges
	for i := 0; i < 300; i++ {
		f.Add(&net.IPNet{IP: net.IP{172, byte(16 + i%16), byte(i / 16), 0}, Mask: net.CIDRMask(24, 32)})
	}
	const nW = 4
	type own struct {
		n       *net.IPNet
		present bool
	}
	owned := make([][]own, nW)
	for w := range owned {
		for j := 0; j < 3; j++ {
			owned[w] = append(owned[w], own{n: &net.IPNet{IP: net.IP{10, byte(w), byte(j), 0}, Mask: net.CIDRMask(24, 32)}})
		}
	}
	victim := net.IP{10, 0, 0, 77}
	nviol := 0
	viol := func(kind string, ip net.IP, got, want bool, phase string) {
		if nviol < 5 {
			nviol++
			e.Case("VIOL", kind, fmt.Sprintf("seed=%d", e.Seed), fmt.Sprintf("updates_between_the_two_lookups=%d", total), "probe="+hk.Hx(ip),
				fmt.Sprintf("got=%v", got), fmt.Sprintf("want=%v", want), "phase="+phase)
		}
	}
	t0 := time.Now()
	for phase := 0; phase < 2; phase++ { // phase 0: X absent -> present (stale false); phase 1: present -> absent (stale true)
		a0 := f.Contains(victim)
		if a0 != owned[0][0].present {
			viol("wrap-scenario-first-lookup", victim, a0, owned[0][0].present, fmt.Sprint(phase))
		}
		// writer 0: an odd number of toggles of X (its range 0) so that X changes state; the others make up the total
		counts := [nW]int{total/nW + 1, total/nW - 1, total / nW, total - 3*(total/nW)}
		var wg sync.WaitGroup
		for w := 0; w < nW; w++ {
			wg.Add(1)
			go func(w int) {
				defer wg.Done()
				cnt := counts[w]
				for i := 0; i < cnt; i++ {
					o := &owned[w][0]
					if w != 0 {
						o = &owned[w][i%3]
					}
					if o.present {
						f.Remove(o.n)
					} else {
						f.Add(o.n)
					}
					o.present = !o.present
				}
			}(w)
		}
		wg.Wait()
		// the victim first
		got := f.Contains(victim)
		if got != owned[0][0].present {
			viol("stale-answer-after-exact-update-count", victim, got, owned[0][0].present, fmt.Sprint(phase))
		}
		for w := range owned {
			for j := range owned[w] {
				ip := append(net.IP{}, owned[w][j].n.IP...)
				ip[3] = 200
				if g := f.Contains(ip); g != owned[w][j].present {
					viol("wrap-scenario-final-membership", ip, g, owned[w][j].present, fmt.Sprint(phase))
				}
				e.Count("wrap_scenario_final_probes", 1)
			}
		}
	}
	e.Count("wrap_scenarios", 1)
	e.Stats[fmt.Sprintf("wrap_scenario_%d_updates_wall_s", total)] = fmt.Sprintf("%.1f", time.Since(t0).Seconds())
	if nviol > 0 {
		e.Count("violations", nviol)
	}
}
