package main

import (
	"fmt"
	"net"
	"runtime"
	"sync"
	"sync/atomic"
	"time"

	"github.com/whoisnian/glb/util/netutil"
	"verifharness/hk"
)

// "Removers hammering exactly at the switch": a fresh filter is pre-filled sequentially to exactly 256
// list slots (255 in some rounds); the ranges belong to k removers.  Then k+1 goroutines leave a spin
// barrier at the same instant: one performs the 257th Add - the migration - while every remover removes
// (and sometimes re-adds) ranges of ITS OWN that are present.  Afterwards every range must be exactly
// what its owner did last: a range whose owner removed it last and that is still reported is a
// resurrected range ("VIOL removed-range-resurrected").  One round in eight is also written as a history
// line (pre-fill, the adder, then each remover's calls in program order, then probes) for the extracted
// Coq function.  Time stamps around the calls tell how many crossings had a Remove overlapping the
// migrating Add.
type swOp struct {
	add    bool
	r      *rng
	t0, t1 int64
	res    int
}

func runSwitchRound(e *hk.Env, seed uint64, n int, rnd *hk.Rng) {
	f := netutil.NewIPv4Filter()
	rd := &round{e: e, seed: seed, n: n, f: f}
	k := 2 + rnd.Intn(6)
	nPre := 256
	if rnd.Chance(15) {
		nPre = 255 // the adder's second Add migrates
	}
	oneLen := 0
	if rnd.Chance(12) {
		oneLen = []int{32, 24, 28}[rnd.Intn(3)]
		e.Count("switch_rounds_with_one_prefix_length_in_the_list", 1)
	}
	var line []string
	pre := make([]*rng, nPre)
	for i := range pre {
		r := &rng{ip: [4]byte{172, byte(16 + i%16), byte(i / 16), byte(rnd.Intn(256))}, ones: 24 + rnd.Intn(9)}
		if oneLen > 0 { // the whole list has ONE prefix length
			r.ones = oneLen
		} else if i%37 == 5 {
			r = &rng{ip: [4]byte{byte(64 + 2*(i/37)), 9, 9, 9}, ones: 9 + rnd.Intn(8)} // a few short prefixes, disjoint
		}
		pre[i] = r
		ip, mask := argOf(r, rnd)
		o := wop{add: true, r: r, ip: ip, mask: mask}
		rd.apply(&o)
		line = append(line, o.token())
	}
	// programs: remover j owns pre[i] with i%k == j
	progs := make([][]swOp, k)
	final := map[*rng]bool{}
	for _, r := range pre {
		final[r] = true
	}
	for j := 0; j < k; j++ {
		nops := 1 + rnd.Intn(4)
		var mine []*rng
		for i := j; i < nPre; i += k {
			mine = append(mine, pre[i])
		}
		for q := 0; q < nops; q++ {
			r := mine[rnd.Intn(len(mine))]
			if rnd.Chance(25) { // among the oldest / newest slots
				r = mine[rnd.Intn(min(2, len(mine)))]
			}
			add := !final[r] && rnd.Chance(50)
			if final[r] {
				add = false
			}
			progs[j] = append(progs[j], swOp{add: add, r: r})
			final[r] = add
		}
	}
	adder := []swOp{{add: true, r: &rng{ip: [4]byte{10, 1, 2, byte(rnd.Intn(256))}, ones: 20 + rnd.Intn(13)}}}
	if nPre == 255 || rnd.Chance(20) {
		adder = append(adder, swOp{add: true, r: &rng{ip: [4]byte{10, 200, 2, byte(rnd.Intn(256))}, ones: 20 + rnd.Intn(13)}})
	}
	for i := range adder {
		final[adder[i].r] = true
	}
	args := func(o *swOp) *net.IPNet {
		return &net.IPNet{IP: net.IP(u32b(o.r.first() | 1&^o.r.mask())), Mask: net.CIDRMask(o.r.ones, 32)}
	}
	var ready atomic.Int32
	var start atomic.Bool
	var wg sync.WaitGroup
	run := func(prog []swOp) {
		defer wg.Done()
		nets := make([]*net.IPNet, len(prog))
		for i := range prog {
			nets[i] = args(&prog[i])
		}
		ready.Add(1)
		for !start.Load() {
		}
		for i := range prog {
			o := &prog[i]
			func() {
				defer func() {
					if p := recover(); p != nil {
						o.res = 2
					}
				}()
				o.t0 = time.Now().UnixNano()
				if o.add {
					o.res = errCode(f.Add(nets[i]))
				} else {
					o.res = errCode(f.Remove(nets[i]))
				}
				o.t1 = time.Now().UnixNano()
			}()
		}
	}
	wg.Add(k + 1)
	go run(adder)
	for j := 0; j < k; j++ {
		go run(progs[j])
	}
	for int(ready.Load()) < k+1 {
		runtime.Gosched()
	}
	start.Store(true)
	wg.Wait()

	for _, prog := range append([][]swOp{adder}, progs...) {
		for i := range prog {
			if prog[i].res == 2 {
				if v, _ := e.Stats["switch_round_panics"].(int); v < 3 {
					kind := "panic-in-Remove"
					if prog[i].add {
						kind = "panic-in-Add"
					}
					e.Case("VIOL", kind, fmt.Sprintf("seed=%d", seed), fmt.Sprintf("switch_round=%d", n), "range="+prog[i].r.String(),
						fmt.Sprintf("prefilled=%d", nPre), fmt.Sprintf("one_prefix_length=%d", oneLen))
				}
				e.Count("switch_round_panics", 1)
				e.Count("violations", 1)
			}
		}
	}
	// the migrating Add is the adder's call that made the 257th slot
	mig := &adder[len(adder)-1]
	if nPre == 256 {
		mig = &adder[0]
	}
	overlap := 0
	for j := range progs {
		for i := range progs[j] {
			o := &progs[j][i]
			if !o.add && o.t0 <= mig.t1 && o.t1 >= mig.t0 {
				overlap++
			}
		}
	}
	e.Count("switch_rounds", 1)
	e.Count("switch_round_removers", k)
	if overlap > 0 {
		e.Count("switch_rounds_with_remove_overlapping_the_migrating_add", 1)
		e.Count("removes_overlapping_the_migrating_add", overlap)
	}
	// every range is what its owner did last
	nviol := 0
	checkRange := func(r *rng) {
		for _, a := range []uint32{r.first(), r.last()} {
			got, panicked := rd.contains(u32b(a))
			e.Count("switch_round_final_probes", 1)
			if (got != final[r] || panicked) && nviol < 3 {
				nviol++
				kind := "removed-range-resurrected"
				if final[r] {
					kind = "present-range-lost"
				}
				rd.e.Case("VIOL", kind, fmt.Sprintf("seed=%d", seed), fmt.Sprintf("switch_round=%d", n), "probe="+hk.Hx(u32b(a)), "range="+r.String(),
					fmt.Sprintf("got=%v", got), fmt.Sprintf("want=%v", final[r]), fmt.Sprintf("removers=%d", k), fmt.Sprintf("prefilled=%d", nPre),
					fmt.Sprintf("removes_overlapping_the_migrating_add=%d", overlap))
			}
		}
	}
	touched := map[*rng]bool{}
	for j := range progs {
		for i := range progs[j] {
			if !touched[progs[j][i].r] {
				touched[progs[j][i].r] = true
				checkRange(progs[j][i].r)
			}
		}
	}
	for i := range adder {
		checkRange(adder[i].r)
	}
	for q := 0; q < 6; q++ {
		r := pre[rnd.Intn(nPre)]
		if !touched[r] {
			checkRange(r)
		}
	}
	if nviol > 0 {
		e.Count("violations", nviol)
	}
	if n%8 == 0 || nviol > 0 { // also as a history line for the extracted Coq function
		tok := func(o *swOp) string {
			nt := args(o)
			c := "R"
			if o.add {
				c = "A"
			}
			return fmt.Sprintf("%s:%s:%s:%d", c, hk.Hx(nt.IP), hk.Hx(nt.Mask), o.res)
		}
		for i := range adder {
			line = append(line, tok(&adder[i]))
		}
		for j := range progs {
			for i := range progs[j] {
				line = append(line, tok(&progs[j][i]))
			}
		}
		for j := range progs {
			for i := range progs[j] {
				r := progs[j][i].r
				got, _ := rd.contains(u32b(r.first()))
				c := 0
				if got {
					c = 1
				}
				line = append(line, fmt.Sprintf("C:%s:%d", hk.Hx(u32b(r.first())), c))
			}
		}
		e.Case(append([]string{"E"}, line...)...)
		e.Count("switch_rounds_also_judged_by_the_extracted_function", 1)
	}
}
