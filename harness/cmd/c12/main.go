package main

import (
	"encoding/binary"
	"encoding/json"
	"errors"
	"fmt"
	"net"
	"os"
	"os/exec"
	"path/filepath"
	"runtime"
	"strings"
	"sync"
	"sync/atomic"
	"time"

	"github.com/whoisnian/glb/util/netutil"
	"verifharness/hk"
)

// C12: IPv4Filter under concurrency (built with -race).
//
// Many short rounds, each on a FRESH filter that is pre-filled to just below the 256-slot switch, so
// that the 257th Add (the migration) happens once per round, under contention:
//   - 4-16 writer goroutines, each with its own ranges (10.<w>.<j>.0/20..32), add / remove / re-add them;
//   - in some rounds one more writer toggles 0.0.0.0/0;
//   - 4-8 reader goroutines probe, until the writers are done:
//     stable ranges (added before the churn, never removed)            -> must be true
//     never-covered addresses                                          -> must be false while /0 is off
//     ranges in churn, bracketed by their owner's published state word  -> true if present throughout,
//     false if absent throughout (and /0 off throughout)
//   - after the churn the quiescent filter is probed and ONE history line is written: the pre-fill, then
//     every writer's calls in its program order, one writer after the other, then the probes.  The extracted
//     Coq function replays it on the model and the specification (C12_quiescent: the order between
//     writers is irrelevant for disjoint owners).
//
// Violations of the concurrent assertions are "VIOL ..." lines.  The rounds run in a child process (this
// binary re-executed) so that a race report ("WARNING: DATA RACE" on stderr, exit code 66) or a crash
// ("fatal error: concurrent map writes") of the code under test becomes a VIOL line of the parent.
//
// Schedules cannot be forced (no callbacks inside Add/Contains): the schedule quantifier is covered by
// stress only.
func main() { hk.Main("C12", runC12) }

const (
	stAbsent   = 0
	stChanging = 1
	stPresent  = 2
)

type rng struct {
	ip   [4]byte
	ones int
	word atomic.Uint64 // epoch<<2 | state, written by the owner only
}

func (r *rng) mask() uint32 {
	if r.ones == 0 {
		return 0
	}
	return ^uint32(0) << (32 - r.ones)
}
func (r *rng) first() uint32 { return binary.BigEndian.Uint32(r.ip[:]) & r.mask() }
func (r *rng) last() uint32  { return r.first() | ^r.mask() }
func (r *rng) String() string {
	return fmt.Sprintf("%d.%d.%d.%d/%d", r.ip[0], r.ip[1], r.ip[2], r.ip[3], r.ones)
}

func u32b(x uint32) []byte {
	b := make([]byte, 4)
	binary.BigEndian.PutUint32(b, x)
	return b
}

type wop struct {
	add  bool
	r    *rng   // nil for an invalid argument
	ip   []byte // the bytes handed to the filter
	mask []byte
	res  int
}

func errCode(err error) int {
	switch {
	case err == nil:
		return 0
	case errors.Is(err, netutil.ErrInvalidIPv4CIDR): // a wrapped ErrInvalidIPv4CIDR is still that error
		return 1
	}
	return 2
}

type round struct {
	e        *hk.Env
	seed     uint64
	n        int
	f        *netutil.IPv4Filter
	stable   []*rng
	writers  [][]wop
	owned    [][]*rng
	toggler  []wop
	toggles  bool
	zeroWord atomic.Uint64 // mod 4: 0 = 0.0.0.0/0 certainly off, 2 = certainly on, 1 / 3 = an Add / Remove of it is in progress
	neighbours []uint32 // outside neighbours (first-1, last+1) of stable ranges that no stable range covers
	started  atomic.Int64  // valid non-/0 Adds started / completed (the 257th is the migration)
	done     atomic.Int64
	stop     atomic.Bool
	viol     atomic.Int64
}

func (rd *round) violation(kind string, probe []byte, r *rng, got, want bool, extra string) {
	if rd.viol.Add(1) > 5 {
		return
	}
	name := "-"
	if r != nil {
		name = r.String()
	}
	rd.e.Case("VIOL", kind, fmt.Sprintf("seed=%d", rd.seed), fmt.Sprintf("round=%d", rd.n), "probe="+hk.Hx(probe),
		"range="+name, fmt.Sprintf("got=%v", got), fmt.Sprintf("want=%v", want),
		fmt.Sprintf("writers=%d", len(rd.writers)), fmt.Sprintf("toggling=%v", rd.toggles), extra)
}

func (rd *round) contains(ip []byte) (res bool, panicked bool) {
	defer func() {
		if p := recover(); p != nil {
			panicked = true
		}
	}()
	return rd.f.Contains(net.IP(ip)), false
}

func (rd *round) apply(o *wop) {
	defer func() {
		if p := recover(); p != nil {
			o.res = 2
		}
	}()
	n := &net.IPNet{IP: net.IP(o.ip), Mask: net.IPMask(o.mask)}
	if o.add {
		o.res = errCode(rd.f.Add(n))
	} else {
		o.res = errCode(rd.f.Remove(n))
	}
}

func (o *wop) token() string {
	k := "R"
	if o.add {
		k = "A"
	}
	return fmt.Sprintf("%s:%s:%s:%d", k, hk.Hx(o.ip), hk.Hx(o.mask), o.res)
}

// the bytes given to Add/Remove: any address of the range (host bits set)
func argOf(r *rng, rnd *hk.Rng) ([]byte, []byte) {
	a := r.first() | (uint32(rnd.U64()) & ^r.mask())
	return u32b(a), net.CIDRMask(r.ones, 32)
}

func runRound(e *hk.Env, seed uint64, n int, rnd *hk.Rng) {
	rd := &round{e: e, seed: seed, n: n, f: netutil.NewIPv4Filter()}
	var line []string

	// ---- pre-fill (sequential): stable ranges of many prefix lengths + filler, up to 256-k slots
	room := 1 + rnd.Intn(24) // free list slots left for the churn
	nPre := 256 - room
	if rnd.Chance(10) {
		nPre = 256 // the very first concurrent Add migrates
	}
	if rnd.Chance(5) {
		nPre = 150 + rnd.Intn(100) // the switch comes late in the round
	}
	shortStable := []rng{{ip: [4]byte{64, 1, 2, 3}, ones: 3}, {ip: [4]byte{128, 200, 0, 0}, ones: 9}, {ip: [4]byte{100, 64, 9, 9}, ones: 10},
		{ip: [4]byte{192, 168, 77, 1}, ones: 16}, {ip: [4]byte{198, 18, 0, 0}, ones: 15}, {ip: [4]byte{224, 0, 0, 0}, ones: 4}, {ip: [4]byte{32, 0, 0, 0}, ones: 6}}
	for i := 0; i < nPre; i++ {
		var r *rng
		if i < len(shortStable) && rnd.Chance(70) {
			r = &rng{ip: shortStable[i].ip, ones: shortStable[i].ones}
		} else {
			// 172.16+(i%16).(i/16).x / 17..32 inside its own /24 when >= 24, else its own /16 block per i%16... keep them disjoint: use /24../32
			r = &rng{ip: [4]byte{172, byte(16 + i%16), byte(i / 16), byte(rnd.Intn(256))}, ones: 24 + rnd.Intn(9)}
		}
		ip, mask := argOf(r, rnd)
		o := wop{add: true, r: r, ip: ip, mask: mask}
		rd.apply(&o)
		line = append(line, o.token())
		rd.stable = append(rd.stable, r)
		rd.started.Add(1)
		rd.done.Add(1)
	}

	// outside neighbours of the stable ranges that nothing will ever cover
	for _, r := range rd.stable {
		for _, a := range []uint32{r.first() - 1, r.last() + 1} {
			free := a>>24 != 10
			for _, q := range rd.stable {
				if a&q.mask() == q.first() {
					free = false
					break
				}
			}
			if free {
				rd.neighbours = append(rd.neighbours, a)
			}
		}
	}

	// ---- programs
	nW := 4 + rnd.Intn(13)
	nR := 4 + rnd.Intn(5)
	rd.toggles = rnd.Chance(30)
	rd.writers = make([][]wop, nW)
	rd.owned = make([][]*rng, nW)
	for w := 0; w < nW; w++ {
		nown := 2 + rnd.Intn(6)
		for j := 0; j < nown; j++ {
			rd.owned[w] = append(rd.owned[w], &rng{ip: [4]byte{10, byte(w), byte(j), byte(rnd.Intn(256))}, ones: 20 + rnd.Intn(13)})
			// /20../23 would overlap the neighbouring j: keep own blocks 16 apart for those
			r := rd.owned[w][j]
			if r.ones < 24 {
				r.ip[2] = byte(j * 16)
			} else {
				r.ip[2] = byte(j*16 + rnd.Intn(16))
			}
		}
		nops := 6 + rnd.Intn(20)
		present := make([]bool, nown)
		for k := 0; k < nops; k++ {
			j := rnd.Intn(nown)
			r := rd.owned[w][j]
			var o wop
			switch {
			case rnd.Chance(4): // an invalid argument: rejected, changes nothing
				o = wop{add: rnd.Bool(), ip: net.IP(u32b(r.first())).To16(), mask: net.CIDRMask(r.ones, 32)}
				if rnd.Bool() {
					o.ip, o.mask = u32b(r.first()), []byte{0xff, 0, 0xff, 0}
				}
			case !present[j] && rnd.Chance(10): // removal of a range that is not there
				ip, mask := argOf(r, rnd)
				o = wop{add: false, r: r, ip: ip, mask: mask}
			case !present[j] || rnd.Chance(15): // add (sometimes a duplicate)
				ip, mask := argOf(r, rnd)
				o = wop{add: true, r: r, ip: ip, mask: mask}
				present[j] = true
			default:
				ip, mask := argOf(r, rnd)
				o = wop{add: false, r: r, ip: ip, mask: mask}
				present[j] = false
			}
			rd.writers[w] = append(rd.writers[w], o)
		}
	}
	if rd.toggles {
		for k := 0; k < 4+rnd.Intn(12); k++ {
			ip := u32b(uint32(rnd.U64()))
			rd.toggler = append(rd.toggler, wop{add: k%2 == 0, ip: ip, mask: net.CIDRMask(0, 32)})
		}
	}

	// ---- churn
	var start atomic.Bool
	var wg, rg sync.WaitGroup
	yield := make([]uint64, nW+1)
	for i := range yield {
		yield[i] = rnd.U64()
	}
	for w := 0; w < nW; w++ {
		wg.Add(1)
		go func(w int) {
			defer wg.Done()
			for !start.Load() {
				runtime.Gosched()
			}
			y := yield[w]
			for k := range rd.writers[w] {
				o := &rd.writers[w][k]
				if y&3 == 0 {
					runtime.Gosched()
				}
				y = y>>2 | y<<62
				if o.r == nil {
					rd.apply(o)
					continue
				}
				ep := o.r.word.Load() >> 2
				o.r.word.Store((ep+1)<<2 | stChanging)
				if o.add {
					rd.started.Add(1)
				}
				rd.apply(o)
				if o.add {
					rd.done.Add(1)
					o.r.word.Store((ep+2)<<2 | stPresent)
				} else {
					o.r.word.Store((ep+2)<<2 | stAbsent)
				}
			}
		}(w)
	}
	if rd.toggles {
		wg.Add(1)
		go func() {
			defer wg.Done()
			for !start.Load() {
				runtime.Gosched()
			}
			for k := range rd.toggler {
				o := &rd.toggler[k]
				rd.zeroWord.Add(1) // 1 or 3: changing
				rd.apply(o)
				rd.zeroWord.Add(1) // 2: certainly on (after Add returned) / 0: certainly off (after Remove returned)
				for y := 0; y < 1+int(yield[nW]>>uint(k%32)&7)*2; y++ { // leave the flag alone for a while
					runtime.Gosched()
				}
			}
		}()
	}
	type rstat struct{ lookups, stableTrue, neverFalse, churnTrue, churnFalse, atSwitch, undecided, zeroOnTrue, neighbourFalse int }
	rstats := make([]rstat, nR)
	for q := 0; q < nR; q++ {
		rg.Add(1)
		rr := rnd.Fork()
		go func(q int, rr *hk.Rng) {
			defer rg.Done()
			st := &rstats[q]
			for !start.Load() {
				runtime.Gosched()
			}
			for it := 0; ; it++ {
				if rd.stop.Load() && it >= 20 {
					return
				}
				z1 := rd.zeroWord.Load()
				d1 := rd.done.Load()
				var probe []byte
				var r *rng
				var w1 uint64
				kind := rr.Intn(10)
				switch {
				case kind < 5 && len(rd.stable) > 0: // a stable range, biased to the oldest slots and the last ones
					i := rr.Intn(len(rd.stable))
					if rr.Chance(30) {
						i = rr.Intn(min(len(rd.stable), 4))
					} else if rr.Chance(20) {
						i = len(rd.stable) - 1 - rr.Intn(min(len(rd.stable), 4))
					}
					r = rd.stable[i]
					a := r.first()
					if rr.Bool() {
						a = r.last()
					}
					probe = u32b(a)
					kind = 0
				case kind < 7: // never covered: 11.x.x.x, 200.x.x.x, and the gaps between the writers' blocks (10.<w>.255.x)
					switch c := rr.Intn(5); {
					case c >= 3 && len(rd.neighbours) > 0: // the address just outside a stable range
						probe = u32b(rd.neighbours[rr.Intn(len(rd.neighbours))])
						kind = 3
					case c == 0:
						probe = []byte{11, byte(rr.Intn(256)), byte(rr.Intn(256)), byte(rr.Intn(256))}
					case c == 1:
						probe = []byte{200, byte(rr.Intn(256)), byte(rr.Intn(256)), byte(rr.Intn(256))}
					default:
						probe = []byte{10, byte(rr.Intn(nW)), 255, byte(rr.Intn(256))}
					}
					if kind != 3 {
						kind = 1
					}
				default: // a range in churn
					w := rr.Intn(nW)
					r = rd.owned[w][rr.Intn(len(rd.owned[w]))]
					a := r.first()
					if rr.Bool() {
						a = r.last()
					}
					probe = u32b(a)
					w1 = r.word.Load()
					kind = 2
				}
				if rr.Chance(35) {
					probe = net.IP(probe).To16()
				}
				got, panicked := rd.contains(probe)
				w2 := uint64(0)
				if kind == 2 {
					w2 = r.word.Load()
				}
				s2 := rd.started.Load()
				z2 := rd.zeroWord.Load()
				zeroOff := z1 == z2 && z1%4 == 0
				zeroOn := z1 == z2 && z1%4 == 2
				st.lookups++
				if d1 <= 256 && s2 >= 257 {
					st.atSwitch++
				}
				if panicked {
					rd.violation("panic-in-Contains", probe, r, false, false, "")
					continue
				}
				if zeroOn { // 0.0.0.0/0 present for the whole call: everything is inside it
					st.zeroOnTrue++
					if !got {
						rd.violation("zero-present-throughout-missed", probe, r, got, true, fmt.Sprintf("zero_word=%d", z1))
					}
				}
				switch kind {
				case 0:
					st.stableTrue++
					if !got {
						rd.violation("stable-range-missed", probe, r, got, true, fmt.Sprintf("adds_done_before=%d adds_started_after=%d", d1, s2))
					}
				case 1, 3:
					if zeroOff && kind == 3 {
						st.neighbourFalse++
					}
					if zeroOff {
						st.neverFalse++
						if got {
							rd.violation("never-covered-address-reported", probe, nil, got, false, fmt.Sprintf("adds_done_before=%d adds_started_after=%d", d1, s2))
						}
					} else {
						st.undecided++
					}
				default:
					switch {
					case w1 == w2 && w1&3 == stPresent:
						st.churnTrue++
						if !got {
							rd.violation("present-throughout-missed", probe, r, got, true, fmt.Sprintf("epoch=%d adds_done_before=%d adds_started_after=%d", w1>>2, d1, s2))
						}
					case w1 == w2 && w1&3 == stAbsent && zeroOff:
						st.churnFalse++
						if got {
							rd.violation("absent-throughout-reported", probe, r, got, false, fmt.Sprintf("epoch=%d adds_done_before=%d adds_started_after=%d", w1>>2, d1, s2))
						}
					default:
						st.undecided++
					}
				}
			}
		}(q, rr)
	}
	start.Store(true)
	wg.Wait()
	rd.stop.Store(true)
	rg.Wait()

	// ---- quiescent: one history line, judged by the extracted Coq function
	for w := range rd.writers {
		for k := range rd.writers[w] {
			line = append(line, rd.writers[w][k].token())
		}
	}
	for k := range rd.toggler {
		line = append(line, rd.toggler[k].token())
	}
	probe := func(b []byte) {
		got, panicked := rd.contains(b)
		c := 0
		if got {
			c = 1
		}
		if panicked {
			c = 2
		}
		line = append(line, fmt.Sprintf("C:%s:%d", hk.Hx(b), c))
	}
	nprobe := 0
	for w := range rd.owned {
		for _, r := range rd.owned[w] {
			probe(u32b(r.first()))
			probe(net.IP(u32b(r.last())).To16())
			nprobe += 2
			if rnd.Chance(30) {
				probe(u32b(r.first() - 1))
				probe(net.IP(u32b(r.last() + 1)).To16())
				nprobe += 2
			}
		}
	}
	for i := 0; i < 8 && len(rd.stable) > 0; i++ {
		r := rd.stable[rnd.Intn(len(rd.stable))]
		if i < 2 {
			r = rd.stable[i*(len(rd.stable)-1)]
		}
		probe(u32b(r.first()))
		probe(net.IP(u32b(r.last())).To16())
		nprobe += 2
	}
	probe([]byte{11, 1, 2, 3})
	probe(net.ParseIP("2001:db8::1"))
	// repeated lookup of one address across exactly N updates on the quiescent filter (no other lookup in between)
	tag := "E"
	{
		nUpd := []int{1, 2, 3}[rnd.Intn(3)]
		switch {
		case n == 7: // once per run: ~10 s for the driver (the specification's Remove is linear in the live set)
			nUpd = 65536
		case n%10 == 3:
			nUpd = []int{255, 256, 257, 1024}[rnd.Intn(4)]
		}
		a := &rng{ip: [4]byte{10, 251, byte(rnd.Intn(256)), 9}, ones: 24 + rnd.Intn(9)}
		x := &rng{ip: [4]byte{10, 252, byte(rnd.Intn(256)), 9}, ones: 24 + rnd.Intn(9)}
		pa := u32b(a.first())
		if rnd.Chance(40) {
			pa = net.IP(pa).To16()
		}
		call := func(add bool, r *rng, times int) {
			o := wop{add: add, r: r, ip: u32b(r.first()), mask: net.CIDRMask(r.ones, 32)}
			for i := 0; i < times; i++ {
				rd.apply(&o)
				if o.res != 0 {
					break
				}
			}
			if times == 1 || o.res != 0 {
				line = append(line, o.token())
			} else {
				line = append(line, fmt.Sprintf("*%d*%s", times, o.token()))
				tag = "L"
			}
		}
		present := rnd.Bool()
		if present {
			call(true, a, 1)
		}
		probe(pa)
		before := rnd.Intn(nUpd)
		call(false, x, before) // removals of a range that is not there: successful updates
		call(!present, a, 1)
		call(false, x, nUpd-1-before)
		probe(pa)
		probe(pa)
		e.Count(fmt.Sprintf("post_quiescence_repeated_lookup_across_%d_updates", nUpd), 1)
	}
	// up - down - up on the quiescent filter (every fourth round): remove down to 129 / 128 / 127 / few ranges,
	// remove a few more that are still there, add more than 256 OTHER ranges, look up everything removed
	if n%4 == 1 {
		presentNow := map[*rng]bool{}
		for w := range rd.writers {
			for k := range rd.writers[w] {
				if o := &rd.writers[w][k]; o.r != nil && o.res == 0 {
					presentNow[o.r] = o.add
				}
			}
		}
		live := 0
		for _, p := range presentNow {
			if p {
				live++
			}
		}
		seenStable := map[[2]uint32]bool{}
		var stable []*rng
		for _, r := range rd.stable {
			k := [2]uint32{r.first(), uint32(r.ones)}
			if !seenStable[k] {
				seenStable[k] = true
				stable = append(stable, r)
			}
		}
		live += len(stable)
		call := func(add bool, r *rng) {
			ip, mask := argOf(r, rnd)
			o := wop{add: add, r: r, ip: ip, mask: mask}
			rd.apply(&o)
			line = append(line, o.token())
		}
		floor := []int{129, 128, 127, 128, 60, 5}[rnd.Intn(6)]
		var gone []*rng
		for len(stable) > 0 && live > floor {
			i := rnd.Intn(len(stable))
			r := stable[i]
			stable[i] = stable[len(stable)-1]
			stable = stable[:len(stable)-1]
			call(false, r)
			gone = append(gone, r)
			live--
		}
		for q := 0; q < 1+rnd.Intn(4) && len(stable) > 0; q++ { // still present, removed in the "small" era
			r := stable[len(stable)-1]
			stable = stable[:len(stable)-1]
			call(false, r)
			gone = append(gone, r)
			probe(u32b(r.first()))
			live--
		}
		for i := 0; live < 262+rnd.Intn(8); i++ { // other ranges, across 256 / 257 again
			call(true, &rng{ip: [4]byte{10, 253, byte(i), byte(rnd.Intn(256))}, ones: 24 + rnd.Intn(9)})
			live++
		}
		for _, r := range gone {
			a := r.first()
			if rnd.Bool() {
				a = r.last()
			}
			probe(u32b(a))
		}
		for _, r := range stable {
			probe(u32b(r.first()))
		}
		e.Count("post_quiescence_up_down_up_rounds", 1)
	}
	e.Case(append([]string{tag}, line...)...)

	e.Count("rounds", 1)
	if int(rd.done.Load()) > 256 {
		e.Count("rounds_crossing_switch", 1)
	}
	if rd.toggles {
		e.Count("rounds_toggling_zero", 1)
	}
	e.Count("writer_goroutines", nW)
	e.Count("reader_goroutines", nR)
	e.Count("final_probes", nprobe+2)
	nops := 0
	for w := range rd.writers {
		nops += len(rd.writers[w])
	}
	e.Count("concurrent_updates", nops+len(rd.toggler))
	for _, st := range rstats {
		e.Count("lookups", st.lookups)
		e.Count("lookups_asserted_stable_true", st.stableTrue)
		e.Count("lookups_asserted_never_false", st.neverFalse)
		e.Count("lookups_asserted_present_throughout_true", st.churnTrue)
		e.Count("lookups_asserted_absent_throughout_false", st.churnFalse)
		e.Count("lookups_undecided", st.undecided)
		e.Count("lookups_asserted_zero_present_throughout_true", st.zeroOnTrue)
		e.Count("lookups_asserted_stable_outside_neighbour_false", st.neighbourFalse)
		e.Count("lookups_overlapping_switch_window", st.atSwitch)
		if st.atSwitch > 0 {
			e.Count("reader_goroutines_with_lookup_at_switch", 1)
		}
	}
	if v := rd.viol.Load(); v > 0 {
		e.Count("violations", int(v))
	}
	if n < 3 {
		lk := 0
		for _, st := range rstats {
			lk += st.lookups
		}
		e.Sample("samples", map[string]any{"round": n, "prefilled_slots": nPre, "writers": nW, "readers": nR, "toggles_zero": rd.toggles,
			"concurrent_updates": nops + len(rd.toggler), "lookups": lk, "valid_adds_total": rd.done.Load(),
			"writer0_program": func() string {
				var t []string
				for k := range rd.writers[0] {
					t = append(t, rd.writers[0][k].token())
				}
				return strings.Join(t, " ")
			}()}, 3)
	}
}

func child(e *hk.Env) error {
	budget := 5 * time.Second
	minRounds := 210
	swRounds := 2200
	if e.Thorough() {
		budget = 110 * time.Second
		minRounds = 3000
		swRounds = 30000
	}
	if e.Replay != "" {
		budget, minRounds, swRounds = 3*time.Second, 50, 300
	}
	if os.Getenv("VERIF_C12_SMOKE") == "1" { // short pass, used for the GOARCH=386 build
		budget, minRounds, swRounds = time.Second, 20, 100
	}
	if os.Getenv("VERIF_C12_ONLY_WRAP") == "1" { // debugging aid: only the long exact-update-count scenario
		budget, minRounds, swRounds = 0, 0, 0
	}
	t0 := time.Now()
	for n := 0; ; n++ {
		el := time.Since(t0)
		if (el > budget && n >= minRounds) || el > 3*budget {
			break
		}
		runRound(e, e.Seed, n, e.Rng.Fork())
		if v, _ := e.Stats["violations"].(int); v >= 10 {
			break
		}
	}
	e.Stats["churn_wall_s"] = fmt.Sprintf("%.1f", time.Since(t0).Seconds())
	t1 := time.Now()
	for n := 0; n < swRounds; n++ {
		runSwitchRound(e, e.Seed, n, e.Rng.Fork())
		if v, _ := e.Stats["violations"].(int); v >= 10 {
			break
		}
	}
	e.Stats["switch_rounds_wall_s"] = fmt.Sprintf("%.1f", time.Since(t1).Seconds())
	if e.Thorough() && e.Replay == "" && os.Getenv("VERIF_C12_SMOKE") != "1" {
		runWrapScenario(e, 1<<16)
		runWrapScenario(e, 1<<24)
	}
	e.Stats["gomaxprocs"] = runtime.GOMAXPROCS(0)
	return nil
}

func runC12(e *hk.Env) error {
	if os.Getenv("VERIF_C12_CHILD") == "1" {
		return child(e)
	}
	// parent: run the rounds in a child so that race reports and crashes of the code under test are observed
	dir := filepath.Join(e.Out, "child")
	os.MkdirAll(dir, 0o755)
	defer os.RemoveAll(dir)
	args := []string{"-out", dir, "-tier", e.Tier, "-seed", fmt.Sprint(e.Seed)}
	if e.Replay != "" {
		args = append(args, "-replay", e.Replay)
	}
	cmd := exec.Command(os.Args[0], args...)
	cmd.Env = append(os.Environ(), "VERIF_C12_CHILD=1", "GORACE=halt_on_error=0 exitcode=66")
	errf, err := os.Create(filepath.Join(dir, "stderr.txt"))
	if err != nil {
		return err
	}
	cmd.Stderr = errf
	cmd.Stdout = errf
	runErr := cmd.Run()
	errf.Close()
	stderr, _ := os.ReadFile(filepath.Join(dir, "stderr.txt"))
	// the child's cases and counters
	if data, err := os.ReadFile(filepath.Join(dir, "cases.txt")); err == nil {
		for _, l := range strings.Split(string(data), "\n") {
			if l != "" {
				e.Case(l)
			}
		}
	}
	if data, err := os.ReadFile(filepath.Join(dir, "stats.json")); err == nil {
		var st map[string]any
		if json.Unmarshal(data, &st) == nil {
			for k, v := range st {
				if f, ok := v.(float64); ok {
					e.Stats[k] = int(f)
				} else {
					e.Stats[k] = v
				}
			}
		}
	}
	e.Stats["cases"] = e.Stats["rounds"]
	e.Stats["race_detector"] = raceEnabled
	text := string(stderr)
	nraces := strings.Count(text, "WARNING: DATA RACE")
	e.Stats["data_race_reports"] = nraces
	condense := func(marker string) string {
		i := strings.Index(text, marker)
		if i < 0 {
			return ""
		}
		seg := text[i:]
		if len(seg) > 1500 {
			seg = seg[:1500]
		}
		var keep []string
		for _, l := range strings.Split(seg, "\n") {
			l = strings.TrimSpace(l)
			if l == "" {
				continue
			}
			if strings.Contains(l, "netutil.") || strings.HasPrefix(l, "WARNING") || strings.HasPrefix(l, "fatal error") ||
				strings.HasPrefix(l, "panic:") || strings.HasPrefix(l, "Read at") || strings.HasPrefix(l, "Write at") ||
				strings.HasPrefix(l, "Previous") || strings.Contains(l, "filter.go") {
				keep = append(keep, strings.ReplaceAll(l, " ", "_"))
			}
			if len(keep) >= 10 {
				break
			}
		}
		return strings.Join(keep, "|")
	}
	switch {
	case nraces > 0:
		e.Case("VIOL", "data-race", fmt.Sprintf("seed=%d", e.Seed), fmt.Sprintf("reports=%d", nraces), condense("WARNING: DATA RACE"))
	case runErr != nil && (strings.Contains(text, "fatal error:") || strings.Contains(text, "panic:")):
		m := "fatal error:"
		if !strings.Contains(text, m) {
			m = "panic:"
		}
		e.Case("VIOL", "crash", fmt.Sprintf("seed=%d", e.Seed), condense(m))
	case runErr != nil:
		tail := text
		if len(tail) > 800 {
			tail = tail[len(tail)-800:]
		}
		return fmt.Errorf("child failed: %v: %s", runErr, tail)
	}
	e.Sample("samples", "each round: fresh filter pre-filled to 232..256 slots; 4-16 writers with own ranges 10.<w>.<j>/20..32 (add/remove/re-add, host bits set, a few invalid arguments); 4-8 readers; 30% of rounds toggle 0.0.0.0/0; one final history line per round", 5)
	return nil
}
