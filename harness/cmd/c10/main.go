package main

import (
	"flag"
	"fmt"
	"os"
	"path/filepath"
	"reflect"
	"strconv"
	"strings"
	"testing"
	"time"

	"github.com/whoisnian/glb/config"
	"verifharness/hk"
)

// C10: command-line grammar of config.FlagSet.Parse.
//
//	T <idx> <hexname>:<kind>:<hexdefault>,...                         flag table idx (0 = c10Cfg, 1.. = the small structs) in flagList order
//	E <idx> <intsize> <mode> <unchanged> <vec> <class> <detail> <args> <help> <fields>
//
// mode P0: Parse(vec) on a fresh struct of table idx + FlagSet; P1: a LATER Parse(vec) on the FlagSet of the preceding
// P0 line (unchanged = the struct's fields are as before the call); F: config.FromCommandLine with os.Args = cmd + vec;
// FT: the same after testing.Init() has registered package testing's flags in the global flag.CommandLine.
//
// intsize = strconv.IntSize of the platform the harness was built for (VERIF_C10_MODE=ints: only the integer vectors,
// used for the GOARCH=386 pass).
//
// vec/args/fields are comma separated hex tokens ("-" = empty token, "." = empty list).
// class: 0 nil, 1 bad flag syntax, 2 not defined, 3 needs an argument, 4 any other error
// (Value.Set error, -config file unreadable), 5 PANIC. detail: the text the message carries.
// The verdict only distinguishes nil / error / PANIC; classes 1-3 (message prefix) and detail refine byte drift.
// fields (only when class 0): canonical texts of b v s name n u d f k dry-run log.level größe \xffz inner.
func main() { hk.Main("C10", runC10) }

type c10Inner struct {
	Inner string `flag:"|inner|in|nested string"`
}

type c10Cfg struct {
	B    bool          `flag:"b,false,a bool"`
	V    bool          `flag:"v,,another bool"`
	S    string        `flag:"s,,a string"`
	Name string        `flag:"name,def,a longer name"`
	N    int           `flag:"n,42,an int"`
	U    uint64        `flag:"u,0,a uint64"`
	D    time.Duration `flag:"d,1s,a duration"`
	F    float64       `flag:"f,,a float"`
	K    []byte        `flag:"k,,bytes"`
	Dry  bool          `flag:"dry-run,false,a name with - inside"`
	Log  string        `flag:"log.level,info,a name with . inside"`
	Size int           `flag:"größe,7,a non-ASCII name"`
	Odd  uint64        "flag:\"\\xffz,,a name with a non-UTF-8 byte\""
	Sub  c10Inner
}

// small flag sets: a non-ASCII name is the longest in bytes (S1, S3) or ties with "config" (S2)
type c10S1 struct {
	Größe int
	V     bool
}

type c10S2 struct {
	Größ string `flag:"größ,x,ties with config in bytes"`
	Q    bool
}

type c10S3 struct {
	A string `flag:"naïveté-ñ,d,the longest name"`
	B int
	C bool `flag:"résumé"`
	W uint
}

type c10Tab struct {
	idx   int
	table string
	mk    func() any
	paths []string
	flags []struct{ name, kind string }
}

var c10Tabs = []c10Tab{
	{0, c10Table, func() any { return &c10Cfg{} },
		[]string{"B", "V", "S", "Name", "N", "U", "D", "F", "K", "Dry", "Log", "Size", "Odd", "Sub.Inner"}, nil},
	{1, "help:bool:false,config:string:,größe:int:,v:bool:", func() any { return &c10S1{} }, []string{"Größe", "V"},
		[]struct{ name, kind string }{{"größe", "int"}, {"v", "bool"}}},
	{2, "help:bool:false,config:string:,größ:string:x,q:bool:", func() any { return &c10S2{} }, []string{"Größ", "Q"},
		[]struct{ name, kind string }{{"größ", "string"}, {"q", "bool"}}},
	{3, "help:bool:false,config:string:,naïveté-ñ:string:d,b:int:,résumé:bool:,w:uint:", func() any { return &c10S3{} }, []string{"A", "B", "C", "W"},
		[]struct{ name, kind string }{{"naïveté-ñ", "string"}, {"b", "int"}, {"résumé", "bool"}, {"w", "uint"}}},
}

// the nested-struct zoo (reflect.StructOf): outer fields Name/Verbose/Count and one nested group of k = 1..6 inner fields,
// placed first / in the middle / last, nested one or two levels deep; table index 4 + (k-1)*3 + pos
func c10Zoo() (tabs []c10Tab) {
	str, bl, in := reflect.TypeOf(""), reflect.TypeOf(false), reflect.TypeOf(0)
	outer := []reflect.StructField{
		{Name: "Name", Type: str, Tag: `flag:"name,def,outer string"`},
		{Name: "Verbose", Type: bl, Tag: `flag:"verbose"`},
		{Name: "Count", Type: in, Tag: `flag:"count,3"`},
	}
	outerT := []string{"name:string:def", "verbose:bool:", "count:int:3"}
	outerF := []struct{ name, kind string }{{"name", "string"}, {"verbose", "bool"}, {"count", "int"}}
	for k := 1; k <= 6; k++ {
		var inner []reflect.StructField
		var innerT []string
		var innerF []struct{ name, kind string }
		for j := 1; j <= k; j++ {
			t, kind := in, "int"
			switch j % 3 {
			case 1:
				t, kind = str, "string"
			case 2:
				t, kind = bl, "bool"
			}
			n := "i" + strconv.Itoa(j)
			inner = append(inner, reflect.StructField{Name: "I" + strconv.Itoa(j), Type: t, Tag: reflect.StructTag(`flag:"` + n + `"`)})
			innerT = append(innerT, n+":"+kind+":")
			innerF = append(innerF, struct{ name, kind string }{n, kind})
		}
		for pos := 0; pos < 3; pos++ {
			for depth := 1; depth <= 2; depth++ {
				grpT := reflect.StructOf(inner)
				prefix := "Grp."
				if depth == 2 {
					grpT = reflect.StructOf([]reflect.StructField{{Name: "Sub", Type: grpT}})
					prefix = "Grp.Sub."
				}
				grp := reflect.StructField{Name: "Grp", Type: grpT}
				var fields []reflect.StructField
				var tt []string
				var paths []string
				var ff []struct{ name, kind string }
				addInner := func() {
					fields = append(fields, grp)
					tt = append(tt, innerT...)
					ff = append(ff, innerF...)
					for _, f := range inner {
						paths = append(paths, prefix+f.Name)
					}
				}
				addOuter := func(lo, hi int) {
					for i := lo; i < hi; i++ {
						fields = append(fields, outer[i])
						tt = append(tt, outerT[i])
						ff = append(ff, outerF[i])
						paths = append(paths, outer[i].Name)
					}
				}
				switch pos {
				case 0:
					addInner()
					addOuter(0, 3)
				case 1:
					addOuter(0, 1)
					addInner()
					addOuter(1, 3)
				default:
					addOuter(0, 3)
					addInner()
				}
				typ := reflect.StructOf(fields)
				tabs = append(tabs, c10Tab{4 + (k-1)*3 + pos, "help:bool:false,config:string:," + strings.Join(tt, ","),
					func() any { return reflect.New(typ).Interface() }, paths, ff})
			}
		}
	}
	return tabs
}

func c10Canon(v reflect.Value, goPath string) string {
	for _, p := range strings.Split(goPath, ".") {
		v = v.FieldByName(p)
	}
	switch x := v.Interface().(type) {
	case bool:
		return strconv.FormatBool(x)
	case int:
		return strconv.Itoa(x)
	case uint:
		return strconv.FormatUint(uint64(x), 10)
	case uint64:
		return strconv.FormatUint(x, 10)
	case string:
		return x
	case float64:
		return strconv.FormatFloat(x, 'g', -1, 64)
	case time.Duration:
		return strconv.FormatInt(int64(x), 10)
	case []byte:
		return string(x)
	}
	panic("type of " + goPath)
}

const c10Table = "help:bool:false,config:string:,b:bool:false,v:bool:,s:string:,name:string:def,n:int:42,u:uint64:0,d:duration:1s,f:float64:,k:bytes:,dry-run:bool:false,log.level:string:info,größe:int:7,\xffz:uint64:,inner:string:in"

// two distinct bool flags (b, v), explicit empty values for a bool and a non-bool flag, "-b=false",
// values that look like flags, the terminator, near-misses, an unparsable value
var c10Alphabet = []string{"-b", "-v", "--b", "-b=false", "-b=", "-s", "-s=x", "--s=", "-s=-b", "x", "-", "--", "---s", "-=v", "-u", "-n=zz"}
var c10Extra = []string{"-dry-run", "--log.level=a.b-c", "-größe=8", "-\xffz=9", "-dry", "-log", "-n", "-n=7", "-n=", "-=", "--=v", "--v=true", "-help", "", "-x=", "-name", "--name=a=b", "-k=QQ==", "-d=1m", "-f=1.5", "-inner", "-u=", "--name="}

func joinHex(l []string) string {
	if len(l) == 0 {
		return "."
	}
	p := make([]string, len(l))
	for i, s := range l {
		p[i] = hk.Hxs(s)
	}
	return strings.Join(p, ",")
}

type c10Obs struct {
	class  int
	detail string
	args   []string
	help   bool
	fields []string
}

type c10Sess struct {
	cfg any
	fs  *config.FlagSet
}

func c10Snapshot(tab *c10Tab, cfg any) []string {
	val := reflect.ValueOf(cfg).Elem()
	var l []string
	for _, p := range tab.paths {
		l = append(l, c10Canon(val, p))
	}
	return l
}

// c10Run: one call. sess == nil: fresh struct + FlagSet (mode P0, or F/FT through FromCommandLine); otherwise a later
// Parse on sess's FlagSet (and sess is filled by a P0 call when empty).
func c10Run(tab *c10Tab, sess *c10Sess, mode string, vec []string) (o c10Obs, unchanged bool) {
	unchanged = true
	defer func() {
		if r := recover(); r != nil {
			o = c10Obs{class: 5, detail: fmt.Sprint(r)}
		}
	}()
	var cfg any
	var fs *config.FlagSet
	var err error
	var fromArgs []string
	switch {
	case mode == "F" || mode == "FT":
		cfg = tab.mk()
		saved := os.Args
		os.Args = append([]string{"cmd"}, vec...)
		fromArgs, err = config.FromCommandLine(cfg)
		os.Args = saved
	case sess != nil && sess.fs != nil:
		cfg, fs = sess.cfg, sess.fs
		before := c10Snapshot(tab, cfg)
		err = fs.Parse(append([]string(nil), vec...))
		after := c10Snapshot(tab, cfg)
		for i := range before {
			if before[i] != after[i] {
				unchanged = false
			}
		}
	default:
		cfg = tab.mk()
		fs, err = config.NewFlagSet(cfg)
		if err != nil {
			return c10Obs{class: 4, detail: "NewFlagSet: " + err.Error()}, true
		}
		if sess != nil {
			sess.cfg, sess.fs = cfg, fs
		}
		err = fs.Parse(append([]string(nil), vec...))
	}
	if err != nil {
		msg := err.Error()
		for i, p := range []string{"config: bad flag syntax: ", "config: flag provided but not defined: ", "config: flag needs an argument: "} {
			if strings.HasPrefix(msg, p) {
				return c10Obs{class: i + 1, detail: msg[len(p):]}, unchanged
			}
		}
		return c10Obs{class: 4}, unchanged
	}
	if fs != nil {
		o.args = fs.Args()
		o.help = fs.ShowUsage()
	} else {
		o.args = fromArgs // FromCommandLine returns Args(); had ShowUsage() been true it would have exited
	}
	o.fields = c10Snapshot(tab, cfg)
	return o, unchanged
}

var c10Values = map[string][]string{
	"bool":     {"true", "false", "1", "0", "t", "F", "TRUE", "True", "", "yes", "2", "tRUE"},
	"string":   {"x", "", "a=b", "-b", "--", "=", "hello world", "\xff\xfe", "-s=1", "---"},
	"uint":     {"0", "7", "4294967295", "4294967296", "0x100000000", "18446744073709551615", "18446744073709551616", "-1", "", "zz", "0xFFFFFFFF"},
	"int":      {"2147483647", "2147483648", "-2147483648", "-2147483649", "4294967297", "0x100000000", "0x7fffffff", "-0x80000000", "7", "-7", "+7", "0x1F", "0b101", "0o17", "017", "9223372036854775807", "-9223372036854775808", "9223372036854775808", "-9223372036854775809", "zz", "", "1_000", "0x", "-", "+", "0", "00", "08", "-0x8000000000000000", "1e3", " 1"},
	"uint64":   {"0", "7", "18446744073709551615", "18446744073709551616", "-1", "0XFF", "0xffffffffffffffff", "0x10000000000000000", "", "+1", "zz", "0_7", "0B11"},
	"duration": {"1s", "1h2m3s", "-5m", "0", "100ms", "1.5s", "5", "1d", "9223372036854775807ns", "9223372036854775808ns", "-9223372036854775808ns", "2562047h47m16s854ms775us807ns", "2562048h", "1\xc2\xb5s", "1\xce\xbcs", "+3us", "", "s", "-", "1h-2m", "1 s", "01h", "-0", "+0"},
	"float64":  {"1.5", "7", "1e3", "zz", "", "NaN", "inf", "0x1p-2", "-0", "1e400", ".5", "1_0"},
	"bytes":    {"aGVsbG8=", "aGVsbG8", "", "QQ==", "QUI=", "QUJD", "!!!!", "QQ=", "QQ==Q", "QQ\n==", "QUJDRA==", "QR==", "====", "QUJD\r\n", "+/+/", "-_-_"},
}

var c10Flags = []struct{ name, kind string }{
	{"b", "bool"}, {"v", "bool"}, {"s", "string"}, {"name", "string"}, {"n", "int"}, {"u", "uint64"},
	{"d", "duration"}, {"f", "float64"}, {"k", "bytes"}, {"inner", "string"},
	{"dry-run", "bool"}, {"log.level", "string"}, {"größe", "int"}, {"\xffz", "uint64"}, {"help", "bool"}, {"config", "string"},
}

var c10NearMiss = []string{"-", "--", "---x", "-=", "-x=", "--=v", "-=v", "----", "---", "- ", "-\x00", "--b=", "-b=", "--s", "-s==", "--s=-", "-ss", "-B", "--help=0", "-help=x", "-h"}

func c10Random(r *hk.Rng) []string {
	n := r.Intn(9)
	var vec []string
	var last string
	for len(vec) < n {
		p := r.Intn(100)
		switch {
		case p < 70: // well-formed flag
			fi := r.Intn(14)
			if r.Chance(6) {
				fi = 14 + r.Intn(2)
			}
			f := c10Flags[fi]
			if last != "" && r.Chance(15) { // repeat the previous flag
				for _, g := range c10Flags {
					if g.name == last {
						f = g
					}
				}
			}
			last = f.name
			kind := f.kind
			vals := c10Values[kind]
			val := vals[r.Intn(len(vals))]
			if r.Chance(12) { // a value that looks like a flag or carries '='
				val = []string{"-b", "--", "-s=1", "--name", "a=b", "=", "-"}[r.Intn(7)]
			}
			if f.name == "config" {
				val = "" // what a non-empty -config does is C09's business
			}
			dash := "-"
			if r.Bool() {
				dash = "--"
			}
			switch {
			case kind == "bool" && r.Chance(60):
				vec = append(vec, dash+f.name)
				if r.Chance(25) { // stray value after a bool flag
					vec = append(vec, []string{"true", "false", "x", "0"}[r.Intn(4)])
				}
			case r.Bool():
				vec = append(vec, dash+f.name+"="+val)
			default:
				vec = append(vec, dash+f.name, val)
			}
		case p < 80:
			vec = append(vec, c10NearMiss[r.Intn(len(c10NearMiss))])
		case p < 86: // unknown names
			vec = append(vec, []string{"-x", "--unknown", "-x=1", "-bb", "-sub.inner", "-Sub_Inner", "-N", "--x", "-in", "-dry", "-run", "-log", "-level", "-gr\xc3\xb6", "-\xff"}[r.Intn(15)])
		case p < 92: // plain arguments
			vec = append(vec, []string{"x", "file.txt", "", "a=b", "=", "7"}[r.Intn(6)])
		default: // arbitrary bytes
			l := r.Intn(6)
			b := make([]byte, l)
			for j := range b {
				if r.Chance(45) {
					b[j] = "-=bsn"[r.Intn(5)]
				} else {
					b[j] = byte(r.Intn(256))
				}
			}
			vec = append(vec, string(b))
		}
	}
	return vec
}

func runC10(e *hk.Env) error {
	for _, kv := range os.Environ() {
		if strings.HasPrefix(kv, "CFG_") {
			os.Unsetenv(kv[:strings.IndexByte(kv, '=')])
		}
	}
	// an empty working directory: no -config value can name an existing file
	cwd, err := os.Getwd()
	if err != nil {
		return err
	}
	base := os.Getenv("VERIF_DIR")
	if base == "" {
		base = "/verif"
	}
	os.MkdirAll(filepath.Join(base, ".build"), 0o755)
	tmp, err := os.MkdirTemp(filepath.Join(base, ".build"), "c10-cwd-")
	if err != nil {
		return err
	}
	if err = os.Chdir(tmp); err != nil {
		return err
	}
	defer func() { os.Chdir(cwd); os.RemoveAll(tmp) }()

	c10Tabs = append(c10Tabs[:4:4], c10Zoo()...)
	// the table lines, from the harness's own description of the structs
	for _, tab := range c10Tabs {
		var tl []string
		for _, ent := range strings.Split(tab.table, ",") {
			p := strings.Split(ent, ":")
			tl = append(tl, hk.Hxs(p[0])+":"+p[1]+":"+hk.Hxs(p[2]))
		}
		e.Case("T", strconv.Itoa(tab.idx), strings.Join(tl, ","))
	}
	c10Tabs[0].flags = c10Flags[:14]
	intsOnly := os.Getenv("VERIF_C10_MODE") == "ints"
	e.Stats["int_size"] = strconv.IntSize

	classes := map[string]int{}
	className := []string{"nil", "bad_syntax", "not_defined", "needs_argument", "other_error", "PANIC"}
	distinct := map[string]struct{}{}
	lens := map[int]int{}
	total := 0
	cur := &c10Tabs[0]
	mode := "P0"
	var sess *c10Sess
	emit := func(vec []string) {
		o, unch := c10Run(cur, sess, mode, vec)
		total++
		classes[className[o.class]]++
		lens[len(vec)]++
		key := joinHex(vec)
		distinct[strconv.Itoa(cur.idx)+" "+key] = struct{}{}
		h := "0"
		if o.help {
			h = "1"
		}
		fields := "."
		if o.class == 0 {
			fields = joinHex(o.fields)
		}
		e.Case("E", strconv.Itoa(cur.idx), strconv.Itoa(strconv.IntSize), mode, map[bool]string{false: "0", true: "1"}[unch], key, strconv.Itoa(o.class), hk.Hxs(o.detail), joinHex(o.args), h, fields)
		if total%9973 == 7 {
			e.Sample("samples", map[string]any{"vector": vec, "class": className[o.class], "detail": o.detail, "args": o.args, "fields": o.fields}, 6)
		}
	}

	// small flag sets (and, in ints mode, only these + the integer flags of the big struct): every flag with every
	// value of its kind in the four spellings, alone and followed by other flags; exhaustive short vectors
	spellTab := func(i int, name, val string) []string {
		switch i {
		case 0:
			return []string{"-" + name + "=" + val}
		case 1:
			return []string{"--" + name + "=" + val}
		case 2:
			return []string{"-" + name, val}
		}
		return []string{"--" + name, val}
	}
	smallSets := func() {
		t0 := total
		for ti := range c10Tabs {
			cur = &c10Tabs[ti]
			for _, f := range cur.flags {
				if intsOnly && f.kind != "int" && f.kind != "uint" {
					continue
				}
				if ti == 0 && !intsOnly {
					continue // the big struct gets its own sweeps below
				}
				for _, val := range c10Values[f.kind] {
					for sp := 0; sp < 4; sp++ {
						if f.kind == "bool" && sp >= 2 {
							continue
						}
						emit(spellTab(sp, f.name, val))
						emit(append(spellTab(sp, f.name, val), "rest", "-"+f.name))
						emit(append([]string{"-" + cur.flags[len(cur.flags)-1].name + "="}, spellTab(sp, f.name, val)...))
					}
				}
				if f.kind == "bool" {
					emit([]string{"-" + f.name})
					emit([]string{"--" + f.name, "x"})
				}
			}
			if ti > 0 && !intsOnly {
				maxL := 3
				if ti >= 4 {
					maxL = 2 // the nested-struct zoo: 36 types
				}
				var alpha []string
				for _, f := range cur.flags {
					alpha = append(alpha, "-"+f.name, "--"+f.name+"=", "-"+f.name+"=1")
				}
				alpha = append(alpha, "x", "--", "-help")
				var gen func(prefix []string, l int)
				gen = func(prefix []string, l int) {
					if l == 0 {
						emit(prefix)
						return
					}
					for _, t := range alpha {
						gen(append(prefix[:len(prefix):len(prefix)], t), l-1)
					}
				}
				for l := 1; l <= maxL; l++ {
					gen(nil, l)
				}
			}
		}
		cur = &c10Tabs[0]
		e.Stats["small_flagset_vectors"] = total - t0
	}
	if intsOnly {
		smallSets()
		e.Stats["cases"] = total
		e.Stats["distinct_nontrivial"] = len(distinct)
		e.Stats["class_histogram"] = classes
		return nil
	}

	// corpus (regression vectors), one vector per line, tokens comma separated hex
	if e.Corpus != "" {
		if b, err := os.ReadFile(filepath.Join(e.Corpus, "vectors.txt")); err == nil {
			for _, line := range strings.Split(string(b), "\n") {
				line = strings.TrimSpace(line)
				if line == "" || strings.HasPrefix(line, "#") {
					continue
				}
				var vec []string
				if line != "." {
					for _, t := range strings.Split(line, ",") {
						vec = append(vec, string(hk.Unhx(t)))
					}
				}
				emit(vec)
			}
		}
	}

	smallSets()
	// (a) exhaustive
	maxLen, maxLenExtra, nRandom := 4, 2, 30000
	if e.Thorough() {
		maxLen, maxLenExtra, nRandom = 5, 3, 400000
	}
	// shortest vectors first, so that the first reported failure is a small one
	var gen func(alpha []string, prefix []string, l int)
	gen = func(alpha []string, prefix []string, l int) {
		if l == 0 {
			emit(prefix)
			return
		}
		for _, t := range alpha {
			gen(alpha, append(prefix[:len(prefix):len(prefix)], t), l-1)
		}
	}
	for l := 0; l <= maxLen; l++ {
		gen(c10Alphabet, nil, l)
	}
	e.Stats["exhaustive_alphabet"] = c10Alphabet
	e.Stats["exhaustive_max_len"] = maxLen
	e.Stats["exhaustive_vectors"] = total
	t1 := total
	all := append(append([]string{}, c10Alphabet...), c10Extra...)
	for l := 1; l <= maxLenExtra; l++ {
		gen(all, nil, l)
	}
	e.Stats["exhaustive2_alphabet_size"] = len(all)
	e.Stats["exhaustive2_max_len"] = maxLenExtra
	e.Stats["exhaustive2_vectors"] = total - t1
	// every flag with every value of its kind, in the four forms (value handling per kind)
	t2 := total
	for _, f := range c10Flags {
		for _, val := range c10Values[f.kind] {
			if f.name == "config" && val != "" {
				continue // what a non-empty -config does is C09's business
			}
			emit([]string{"-" + f.name + "=" + val})
			emit([]string{"--" + f.name + "=" + val, "rest"})
			emit([]string{"-" + f.name, val})
			emit([]string{"--" + f.name, val, "--", "-b"})
			emit([]string{"-" + f.name + "=" + val, "-" + f.name + "="})
			emit([]string{"-" + f.name + "=", "-" + f.name + "=" + val})
		}
	}
	e.Stats["per_kind_value_vectors"] = total - t2
	// a flag repeated with different values (last wins) in all four spellings, also with empty values
	t3 := total
	spell := func(i int, name, val string) []string {
		switch i {
		case 0:
			return []string{"-" + name + "=" + val}
		case 1:
			return []string{"--" + name + "=" + val}
		case 2:
			return []string{"-" + name, val}
		}
		return []string{"--" + name, val}
	}
	for _, f := range c10Flags[:14] {
		vals := c10Values[f.kind]
		for i := 0; i < 4; i++ {
			for j := 0; j < 4; j++ {
				for k := 0; k < 3; k++ {
					v1, v2 := vals[(i+2*j+k)%len(vals)], vals[(3*i+j+5*k+1)%len(vals)]
					if f.kind == "bool" && (i >= 2 || j >= 2) {
						continue // bool flags never take the next token
					}
					vec := append(spell(i, f.name, v1), spell(j, f.name, v2)...)
					emit(vec)
					emit(append(append([]string{"-v"}, vec...), "-b", "tail"))
					emit(append(append(spell(j, f.name, ""), vec...), "--", "-x"))
				}
			}
		}
	}
	e.Stats["repeat_spelling_vectors"] = total - t3
	// (c) histories: two Parse calls on ONE FlagSet — the first fails after having recorded flags (or succeeds), the second
	// carries another vector
	tH := total
	firsts := [][]string{{"-n=7", "-nosuch"}, {"-s=old", "-n"}, {"-n=abc"}, {"-b", "-v", "---x"}, {"-s=old", "-u"}, {"-b"}, {}, {"-name=x", "-d=zz"}, {"-v", "-k=!!!!", "rest"}}
	secondAlpha := []string{"-b", "-s=new", "x", "--", "-v=false", "-n=1"}
	var seconds [][]string
	seconds = append(seconds, []string{})
	for _, a := range secondAlpha {
		seconds = append(seconds, []string{a})
		for _, b := range secondAlpha {
			seconds = append(seconds, []string{a, b})
		}
	}
	history := func(v1, v2 []string) {
		sess = &c10Sess{}
		mode = "P0"
		emit(v1)
		mode = "P1"
		emit(v2)
		mode, sess = "P0", nil
	}
	for _, v1 := range firsts {
		for _, v2 := range seconds {
			history(v1, v2)
		}
	}
	rh := e.Rng.Fork()
	nHist := 3000
	if e.Thorough() {
		nHist = 60000
	}
	for i := 0; i < nHist; i++ {
		history(c10Random(rh), c10Random(rh))
	}
	e.Stats["history_calls"] = total - tH

	// (d) the FromCommandLine entry point (os.Args), before and after package testing's flags are registered in the global
	// flag.CommandLine; tokens spelled like global flags in value position, after "--", after the first non-flag, and as flags
	fromCL := func(names []string) {
		alpha := []string{"-s", "-b", "x", "--", "-test.v", "--test.run=x", "-test.timeout", "5s", "-test.v=true", "-n", "-test.count=2", "-name=-test.v"}
		var gen func(prefix []string, l int)
		gen = func(prefix []string, l int) {
			if l == 0 {
				emit(prefix)
				return
			}
			for _, t := range alpha {
				gen(append(prefix[:len(prefix):len(prefix)], t), l-1)
			}
		}
		for l := 0; l <= 3; l++ {
			gen(nil, l)
		}
		for _, n := range names {
			for _, d := range []string{"-", "--"} {
				emit([]string{"-s", d + n})
				emit([]string{"-s", d + n, "-b"})
				emit([]string{"--name", d + n + "=1", "rest"})
				emit([]string{"--", d + n + "=1", "x"})
				emit([]string{"-b", "x", d + n, "-v"})
				emit([]string{d + n})
				emit([]string{"-b", d + n + "=1"})
				emit([]string{"-s=" + d + n, d + n + "=true"})
			}
		}
	}
	tF := total
	mode = "F"
	fromCL([]string{"test.v", "test.run", "test.timeout", "test.short", "test.count", "test.bench", "test.paniconexit0"})
	testing.Init()
	var global []string
	flag.VisitAll(func(f *flag.Flag) { global = append(global, f.Name) })
	e.Stats["global_flags_after_testing_init"] = len(global)
	mode = "FT"
	fromCL(global)
	// and plain Parse again in the new process state
	mode = "P0"
	for l := 0; l <= 2; l++ {
		gen(c10Alphabet, nil, l)
	}
	for _, n := range global {
		emit([]string{"-s", "-" + n, "-b"})
		emit([]string{"--", "-" + n + "=1"})
		emit([]string{"-" + n})
	}
	e.Stats["from_command_line_and_testing_init_vectors"] = total - tF

	// (b) grammar-aware random
	r := e.Rng.Fork()
	for i := 0; i < nRandom; i++ {
		emit(c10Random(r))
	}
	e.Stats["random_vectors"] = nRandom
	e.Stats["cases"] = total
	e.Stats["distinct_nontrivial"] = len(distinct)
	e.Stats["class_histogram"] = classes
	e.Stats["vector_len_histogram"] = lens
	return nil
}
