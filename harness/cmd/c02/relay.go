package main

import (
	"bytes"
	"encoding/json"
	"errors"
	"fmt"
	"net/http"
	"net/http/httptest"
	"regexp"
	"strconv"
	"strings"

	"github.com/whoisnian/glb/httpd"
	"github.com/whoisnian/glb/logger"
	"verifharness/hk"
	"verifharness/lg"
)

// Logger.Relay is an entry point that makes records itself: REQ_BEG and REQ_END at Info and, for a route that panics, one
// record at Error carrying the stack (up to 64 KiB: the oversized-line path). Every one of them is a record like any other:
// exactly one Write with the whole line iff its OWN level is enabled, none otherwise - whatever the other records of the same
// request do. relaySweep drives Relay under one threshold with returning and panicking routes and reports each record
// separately:
//
//	T <kind> <threshold> <level of that record> Relay:<route>:<REQ_BEG|REQ_END|PANIC> <logger shape> <writes> <eq>
//
// writes = Write calls that carry that record (and no other); eq = the chunk is one whole line: it ends with the newline
// (Text/JSON: the only one; JSON: a valid object), and agrees with what the same request makes through the same logger with
// everything enabled (the yardstick) once time, duration, request id and the stack text are blanked.
// A Write that carries none or several of the request's records is a violation by itself (VIOL).

type relayRoute struct {
	name   string
	panics bool
	fn     func(s *httpd.Store, marker string)
}

func relayDeepRecursionWithALongNameSoThatOneHundredFramesOfTheTracebackExceedThePooledBufferLimitOfSixteenKibibytesEachFrameTakesMoreThanOneHundredSixtyFourBytes(depth int, marker string, a, b, c uint64) int {
	if depth == 0 {
		panic(marker)
	}
	return 1 + relayDeepRecursionWithALongNameSoThatOneHundredFramesOfTheTracebackExceedThePooledBufferLimitOfSixteenKibibytesEachFrameTakesMoreThanOneHundredSixtyFourBytes(depth-1, marker, a+1, b+2, c+3)
}

type relayStruct struct {
	M string
	N int
}

var relayRoutes = []relayRoute{
	{"returns", false, func(*httpd.Store, string) {}},
	{"returns-after-204", false, func(s *httpd.Store, _ string) { s.W.WriteHeader(http.StatusNoContent) }},
	{"returns-after-body", false, func(s *httpd.Store, _ string) { s.Respond200([]byte("ok")) }},
	{"panics-string", true, func(_ *httpd.Store, m string) { panic(m) }},
	{"panics-error", true, func(_ *httpd.Store, m string) { panic(errors.New(m)) }},
	{"panics-struct", true, func(_ *httpd.Store, m string) { panic(relayStruct{m, 7}) }},
	{"panics-after-header", true, func(s *httpd.Store, m string) { s.W.WriteHeader(http.StatusAccepted); panic(m) }},
	{"panics-after-body", true, func(s *httpd.Store, m string) { s.Respond200([]byte("partial")); panic(m) }},
	{"panics-deep-stack", true, func(_ *httpd.Store, m string) {
		relayDeepRecursionWithALongNameSoThatOneHundredFramesOfTheTracebackExceedThePooledBufferLimitOfSixteenKibibytesEachFrameTakesMoreThanOneHundredSixtyFourBytes(120, m, 1, 2, 3)
	}},
}

var relaySeq int
var relayViol int
var relayPanicLineMax int

var reRelayNum = regexp.MustCompile(`\d+`)
var reRelayDur = regexp.MustCompile(`(dur"?[=:]"?)\d+`)

// relayNorm blanks what legitimately differs between two runs of the same request: time, duration, request id
func relayNorm(k lg.Kind, line []byte, tid string) []byte {
	line = lg.NormTime(k, line)
	line = reRelayDur.ReplaceAll(line, []byte("${1}D"))
	if tid != "" {
		line = bytes.ReplaceAll(line, []byte(tid), []byte("TID"))
	}
	return line
}

// relayHeadTail: the line of the panic record without the stack text (goroutine numbers, addresses differ from run to run):
// everything before "goroutine " and everything from the panic value on
func relayHeadTail(line []byte, marker string) (head, tail []byte) {
	head = line
	if i := bytes.Index(line, []byte("goroutine ")); i >= 0 {
		head = line[:i]
	}
	if i := bytes.LastIndex(line, []byte(marker)); i >= 0 {
		tail = line[i+len(marker):]
	}
	return
}

type relayObs struct {
	chunks [][]byte
	tid    string
	marker string
	code   int
	esc    any // a panic that escaped Relay
}

func relayRequest(l *logger.Logger, c *lg.Capture, rt relayRoute) relayObs {
	relaySeq++
	o := relayObs{marker: "c02relayboom" + strconv.Itoa(relaySeq) + "x"}
	mux := httpd.NewMux()
	mux.HandleRelay(l.Relay)
	mux.Handle("/x", http.MethodGet, func(s *httpd.Store) {
		o.tid = strings.Clone(s.GetID())
		rt.fn(s, o.marker)
	})
	c.Take()
	rw := httptest.NewRecorder()
	func() {
		defer func() { o.esc = recover() }()
		mux.ServeHTTP(rw, httptest.NewRequest(http.MethodGet, "/x", nil))
	}()
	o.code = rw.Code
	o.chunks = c.Take()
	return o
}

// which of the request's records a chunk carries: 0 REQ_BEG, 1 REQ_END, 2 PANIC; -1 none or several
func relayClassify(ch []byte, marker string) int {
	which, n := -1, 0
	for i, pat := range []string{"REQ_BEG", "REQ_END", marker} {
		if c := bytes.Count(ch, []byte(pat)); c > 0 {
			which = i
			n++
			if i < 2 && c > 1 {
				n++
			}
		}
	}
	if n != 1 {
		return -1
	}
	return which
}

func relayWhole(k lg.Kind, ch []byte) bool {
	if len(ch) == 0 || ch[len(ch)-1] != '\n' {
		return false
	}
	switch k {
	case lg.JSON:
		var m map[string]any
		return bytes.Count(ch, []byte{'\n'}) == 1 && json.Unmarshal(ch, &m) == nil
	case lg.Text:
		return bytes.Count(ch, []byte{'\n'}) == 1
	}
	return true
}

// relaySweep: l is the logger under the threshold th (destination c), ls the same logger with everything enabled (destination cs).
func relaySweep(e *hk.Env, k lg.Kind, th int, shape string, l, ls *logger.Logger, c, cs *lg.Capture) (calls, bad int) {
	recNames := []string{"REQ_BEG", "REQ_END", "PANIC"}
	recLevels := []int{int(logger.LevelInfo), int(logger.LevelInfo), int(logger.LevelError)}
	for _, rt := range relayRoutes {
		got := relayRequest(l, c, rt)
		want := relayRequest(ls, cs, rt)
		// the yardstick: everything enabled, one chunk per record
		var ref [3][]byte
		for _, ch := range want.chunks {
			if i := relayClassify(ch, want.marker); i >= 0 {
				ref[i] = bytes.ReplaceAll(relayNorm(k, ch, want.tid), []byte(want.marker), []byte("MARKER"))
			}
		}
		var n [3]int
		var ok [3]bool
		var viol []string
		for _, ch := range got.chunks {
			i := relayClassify(ch, got.marker)
			if i < 0 {
				viol = append(viol, "Write-carries-none-or-several-of-the-request's-records got="+hk.Hx(clipb(ch)))
				continue
			}
			n[i]++
			line := bytes.ReplaceAll(relayNorm(k, ch, got.tid), []byte(got.marker), []byte("MARKER"))
			same := ref[i] != nil && bytes.Equal(line, ref[i])
			if i == 1 && ref[i] != nil && !same {
				// REQ_END carries the duration in milliseconds (Nano: without a key): compare with every number blanked
				same = bytes.Equal(reRelayNum.ReplaceAll(line, []byte("N")), reRelayNum.ReplaceAll(ref[i], []byte("N")))
			}
			if i == 2 && ref[i] != nil {
				h1, t1 := relayHeadTail(line, "MARKER")
				h2, t2 := relayHeadTail(ref[i], "MARKER")
				same = bytes.Equal(h1, h2) && bytes.Equal(t1, t2)
				if len(ch) > relayPanicLineMax {
					relayPanicLineMax = len(ch)
				}
			}
			ok[i] = n[i] == 1 && relayWhole(k, ch) && same
		}
		if got.esc != nil {
			// not C02's business (C15 contains panics), but a record lost to an escaping panic would be blamed on the gate: say so
			viol = append(viol, fmt.Sprintf("panic-escaped-Relay:%v", got.esc))
		}
		nrec := 2
		if rt.panics {
			nrec = 3
		}
		for i := 0; i < nrec; i++ {
			calls++
			b := 0
			if ok[i] {
				b = 1
			}
			e.Case("T", strconv.Itoa(int(k)), strconv.Itoa(th), strconv.Itoa(recLevels[i]), "Relay:"+rt.name+":"+recNames[i], shape, strconv.Itoa(n[i]), strconv.Itoa(b))
			should := recLevels[i] >= th
			if (should && !ok[i]) || (!should && n[i] != 0) {
				viol = append(viol, fmt.Sprintf("record=%s level=%d writes=%d expected-writes=%d whole-line=%d", recNames[i], recLevels[i], n[i], map[bool]int{true: 1, false: 0}[should], b))
			}
		}
		if !rt.panics && n[2] > 0 {
			viol = append(viol, "panic-record-for-a-route-that-returned")
		}
		if len(viol) > 0 {
			bad++
			relayViol++
			if relayViol <= 6 {
				if len(viol) > 4 {
					viol = append(viol[:4], fmt.Sprintf("(+%d more)", len(viol)-4))
				}
				e.Case("VIOL", "c02", fmt.Sprintf("threshold kind=%s threshold=%d entry=Relay route=%s logger=%s writes=%d", k, th, rt.name, shape, len(got.chunks)), strings.Join(viol, ";"))
			}
		}
	}
	return
}
