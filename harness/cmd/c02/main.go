package main

import (
	"bytes"
	"context"
	"errors"
	"fmt"
	"io"
	"io/fs"
	"log/slog"
	"net/http"
	"net/http/httptest"
	"os"
	"regexp"
	"runtime"
	"sort"
	"strconv"
	"strings"
	"sync"
	"sync/atomic"
	"syscall"
	"time"

	"github.com/whoisnian/glb/httpd"
	"github.com/whoisnian/glb/logger"
	"verifharness/hk"
	"verifharness/lg"
)

// C02: one Write per record, the whole line, never interleaved.
//
// Cases
//
//	E <kind> <nthreads> <overlaps> <formatted-disabled> P:<id>:<thread>:<enabled>:<depth>… W:<id>:<eq>…
//	    one scenario: the planned records (id, goroutine, at an enabled level?, length of the handler's chain) and the
//	    Write calls the destination received, in order (record id found in the chunk, 0 = none/several; chunk
//	    byte-identical to what the implementation writes for that record logged alone through a logger rebuilt
//	    from the same chain?), Write calls that began while another was in progress, disabled records whose
//	    values were formatted.
//	VIOL c02 …   the harness' own verdict with the scenario
func main() { hk.MainRace("C02", run) }

// ------------------------------------------------------------------------------------------------ recording writer

type chunk struct {
	data       []byte
	overlapped bool
}

type recWriter struct {
	inside   atomic.Int32
	overlaps atomic.Int64
	mu       sync.Mutex
	chunks   []chunk
	armed    atomic.Bool
	entered  chan struct{}
	release  chan struct{}
	// failEvery > 0: every failEvery-th Write reports a transient failure (short write, EAGAIN, timeout) after having been
	// handed the whole line: the logger must not react with further Write calls for that record
	failEvery int
	unwind    bool // among the failures also: Write panics / Write calls runtime.Goexit (it never returns)
	nwrites   atomic.Int64
}

type timeoutErr struct{}

func (timeoutErr) Error() string   { return "injected: i/o timeout" }
func (timeoutErr) Timeout() bool   { return true }
func (timeoutErr) Temporary() bool { return true }

func newRecWriter() *recWriter {
	return &recWriter{entered: make(chan struct{}, 1), release: make(chan struct{})}
}

func (w *recWriter) Write(p []byte) (int, error) {
	ov := w.inside.Add(1) != 1
	if ov {
		w.overlaps.Add(1)
	}
	w.mu.Lock()
	w.chunks = append(w.chunks, chunk{append([]byte(nil), p...), ov})
	w.mu.Unlock()
	if w.armed.CompareAndSwap(true, false) {
		w.entered <- struct{}{}
		<-w.release
	}
	w.inside.Add(-1)
	if n := w.nwrites.Add(1); w.failEvery > 0 && n%int64(w.failEvery) == 0 {
		kinds := int64(8)
		if w.unwind {
			kinds = 10
		}
		switch (n / int64(w.failEvery)) % kinds {
		case 8:
			panic("injected: the destination's Write panics")
		case 9:
			runtime.Goexit() // e.g. t.Fatal in a test sink: the goroutine unwinds, deferred calls run, Write never returns
		case 4:
			return 0, errors.New("injected: disk full")
		case 5:
			return 0, &fs.PathError{Op: "write", Path: "injected.log", Err: os.ErrClosed}
		case 6:
			return 0, io.ErrClosedPipe
		case 7:
			return len(p) / 4, syscall.EPIPE
		case 0:
			return len(p) / 2, io.ErrShortWrite
		case 1:
			return 0, syscall.EAGAIN
		case 2:
			return len(p) / 3, timeoutErr{}
		default:
			return 0, syscall.EINTR
		}
	}
	return len(p), nil
}

func (w *recWriter) count() int {
	w.mu.Lock()
	defer w.mu.Unlock()
	return len(w.chunks)
}

// ------------------------------------------------------------------------------------------------ gates in values

// gate counts how often the values of a record were formatted and can park the formatting goroutine.
type gate struct {
	mu      sync.Mutex
	hits    map[int]int
	park    map[int]bool // record ids whose formatting parks
	parked  chan int
	resume  map[int]chan struct{}
	reached chan int // non-blocking notification that formatting of a record started
}

func newGate() *gate {
	return &gate{hits: map[int]int{}, park: map[int]bool{}, parked: make(chan int, 64), resume: map[int]chan struct{}{}, reached: make(chan int, 1024)}
}

func (g *gate) hit(rid int) {
	if g == nil {
		return
	}
	g.mu.Lock()
	g.hits[rid]++
	first := g.hits[rid] == 1
	p := g.park[rid] && first
	var ch chan struct{}
	if p {
		ch = make(chan struct{})
		g.resume[rid] = ch
	}
	g.mu.Unlock()
	if first {
		select {
		case g.reached <- rid:
		default:
		}
	}
	if p {
		g.parked <- rid
		<-ch
	}
}

func (g *gate) hitCount(rid int) int {
	g.mu.Lock()
	defer g.mu.Unlock()
	return g.hits[rid]
}

type gateLV struct {
	g   *gate
	rid int
}

func (v gateLV) LogValue() slog.Value {
	v.g.hit(v.rid)
	return slog.StringValue("lv" + strconv.Itoa(v.rid))
}

// gateAny is reached through json.Marshaler (JSON), encoding.TextMarshaler (Text) or fmt.Stringer (Nano, Logf).
type gateAny struct {
	g   *gate
	rid int
}

func (v gateAny) MarshalJSON() ([]byte, error) {
	v.g.hit(v.rid)
	return []byte(`"mj` + strconv.Itoa(v.rid) + `"`), nil
}
func (v gateAny) MarshalText() ([]byte, error) {
	v.g.hit(v.rid)
	return []byte("mt" + strconv.Itoa(v.rid)), nil
}
func (v gateAny) String() string { v.g.hit(v.rid); return "st" + strconv.Itoa(v.rid) }

// ------------------------------------------------------------------------------------------------ plan

type rec struct {
	id      int
	thread  int
	level   slog.Level
	enabled bool
	via     int // 0 handler.Handle (fixed time), 1 Logger.LogAttrs, 2 Logger.Logf, 3 Logger.Info-family (log)
	hidx    int // which handler of the scenario
	size    int
	gateKnd int  // 0 none, 1 LogValuer, 2 Marshaler/Stringer
	park    bool // formatting parks
	bigMsg  bool // the size goes into the message instead of the attributes
	ctxMode int  // 0 background, 1 cancelled context, 2 context whose deadline has passed (the logger must not care)
	tIdx    int  // which of lg.Times a hand-built record carries
	pc      int  // which of lg.PCs a hand-built record carries (handlers with addSource)
}

type hdl struct {
	chain  []lg.Step
	during int // -1: exists before the run; t >= 0: derived by goroutine t during the run (from handler parent)
	parent int
	after  int // a derivation during the run happens after its goroutine has emitted this many records
	apiAt  int // steps chain[apiAt:] are made through logger.New(h).With / WithGroup (one *Logger per node), the earlier ones through the Handler
}

// node: a handler and the Logger around it; h == nil when the node was derived through the Logger API (no access to its handler)
type node struct {
	h logger.Handler
	l *logger.Logger
}

func rootNode(h logger.Handler) node { return node{h, logger.New(h)} }

func deriveNode(n node, st lg.Step, api bool) node {
	if api || n.h == nil {
		if st.Group != "" {
			return node{nil, n.l.WithGroup(st.Group)}
		}
		var args []any
		for _, a := range st.Attrs() {
			args = append(args, a)
		}
		return node{nil, n.l.With(args...)}
	}
	return rootNode(lg.ApplyStep(n.h, st))
}

func (h hdl) build(root node) node {
	n := root
	for i, st := range h.chain {
		n = deriveNode(n, st, i >= h.apiAt)
	}
	return n
}

type scenario struct {
	kind      lg.Kind
	name      string
	threshold slog.Level
	nthr      int
	handlers  []hdl
	recs      []rec
	gateWrite bool // goroutine 0's first record is held inside Write while the others try
	colorful  bool
	addSource bool
	failEvery int  // destination reports a transient error for every n-th Write
	unwind    bool // … or does not return at all: panic (recovered around the logging call) / runtime.Goexit (call made on a joined helper goroutine)
	presolo   bool // the solo lines are made BEFORE the run, on an emptied buffer pool (two GCs)
	noFmtWait bool // formatting happens under the lock in this build (probe): do not wait for formatters behind a held lock
}

func pad(n int) string { return strings.Repeat("p", n) }

func (r *rec) msg() string {
	if r.bigMsg {
		return lg.Msg(r.id) + "-" + pad(r.size)
	}
	return lg.Msg(r.id)
}

func (r *rec) attrs(g *gate) []slog.Attr {
	h := r.size / 2
	if r.bigMsg {
		h = 2
	}
	as := []slog.Attr{slog.String("a", pad(h))}
	switch r.gateKnd {
	case 1:
		as = append(as, slog.Any("gate", gateLV{g, r.id}))
	case 2:
		as = append(as, slog.Any("gate", gateAny{g, r.id}))
	}
	if r.bigMsg {
		as = append(as, slog.String("b", pad(3)), slog.Int("n", r.id))
		return as
	}
	as = append(as, slog.String("b", pad(r.size-h)), slog.Int("n", r.id))
	return as
}

// emit logs the record through handler h (or a Logger around it).
func (r *rec) emit(n node, g *gate) (err error) {
	h, l := n.h, n.l
	via := r.via
	if h == nil && via == 0 {
		via = 1
	}
	defer func() {
		if p := recover(); p != nil {
			err = fmt.Errorf("panic: %v", p)
		}
	}()
	ctx := context.Background()
	switch r.ctxMode {
	case 1:
		c, cancel := context.WithCancel(ctx)
		cancel()
		ctx = c
	case 2:
		c, cancel := context.WithDeadline(ctx, time.Unix(1, 0))
		defer cancel()
		ctx = c
	}
	switch via {
	case 0:
		return h.Handle(ctx, lg.NewRecordAt(lg.TimeAt(r.tIdx), r.level, r.msg(), lg.PCs[r.pc%len(lg.PCs)], r.attrs(g)...))
	case 1:
		l.LogAttrs(ctx, r.level, r.msg(), r.attrs(g)...)
	case 2:
		l.Logf(ctx, r.level, "LOG%dEND %v %s", r.id, gateAny{g, r.id}, pad(r.size))
	default:
		var args []any
		for _, a := range r.attrs(g) {
			args = append(args, a)
		}
		switch r.level {
		case logger.LevelDebug:
			l.Debug(r.msg(), args...)
		case logger.LevelInfo:
			l.Info(r.msg(), args...)
		case logger.LevelWarn:
			l.Warn(r.msg(), args...)
		default:
			l.Error(r.msg(), args...)
		}
	}
	return nil
}

// solo: the implementation alone. A disabled record is logged with the threshold lowered so that a line exists to compare with
// (only used to describe a violation).
func (sc *scenario) solo(r *rec) []byte {
	var c lg.Capture
	root := lg.NewHandlerOpts(sc.kind, &c, slog.Level(-1000), sc.colorful, sc.addSource)
	lg.Cold(root) // the reference comes from a fresh root whose caches (its own and package-level ones) are cold
	c.Take()
	n := sc.handlers[r.hidx].build(rootNode(root))
	r.emit(n, nil)
	if len(c.Chunks) != 1 {
		return nil
	}
	return sc.norm(r, c.Chunks[0])
}

// lines made through a Logger carry time.Now(): blank the time on both sides
func (sc *scenario) norm(r *rec, line []byte) []byte {
	if r.via != 0 || sc.handlers[r.hidx].apiAt < len(sc.handlers[r.hidx].chain) {
		return lg.NormTime(sc.kind, line)
	}
	return line
}

type outcome struct {
	bad      int
	writes   int
	overlaps int
}

func clipb(b []byte) []byte {
	if len(b) > 240 {
		return append(append([]byte(nil), b[:200]...), []byte(fmt.Sprintf("...(%d bytes)", len(b)))...)
	}
	return b
}

func (sc *scenario) describe() string {
	var sb strings.Builder
	fmt.Fprintf(&sb, "%s/%s/threshold=%d/threads=%d/colour=%v/source=%v/", sc.kind, sc.name, sc.threshold, sc.nthr, sc.colorful, sc.addSource)
	if sc.failEvery > 0 {
		fmt.Fprintf(&sb, "writer-fails-every=%d/", sc.failEvery)
		if sc.unwind {
			sb.WriteString("incl-panic-and-Goexit-in-Write/")
		}
	}
	sb.WriteString("handlers=")
	for i, h := range sc.handlers {
		if i > 0 {
			sb.WriteByte(',')
		}
		fmt.Fprintf(&sb, "h%d:len%d", i, len(h.chain))
		if h.apiAt < len(h.chain) {
			fmt.Fprintf(&sb, "(LoggerAPI@%d)", h.apiAt)
		}
		if h.during >= 0 {
			fmt.Fprintf(&sb, "(during@g%d)", h.during)
		}
	}
	sb.WriteString("/records=")
	for i, r := range sc.recs {
		if i > 0 {
			sb.WriteByte(',')
		}
		fmt.Fprintf(&sb, "#%d@g%d:h%d:lvl%d:via%d:%dB", r.id, r.thread, r.hidx, r.level, r.via, r.size)
		if r.bigMsg {
			sb.WriteString(":msg")
		}
		if r.ctxMode > 0 {
			fmt.Fprintf(&sb, ":ctx%d", r.ctxMode)
		}
		if r.via == 0 {
			fmt.Fprintf(&sb, ":t=%s", lg.TimeAt(r.tIdx).Format("15:04:05Z07:00"))
		}
		if r.park {
			sb.WriteString(":park")
		}
	}
	return sb.String()
}

func execute(e *hk.Env, sc *scenario) outcome {
	w := newRecWriter()
	w.failEvery = sc.failEvery
	w.unwind = sc.unwind
	g := newGate()
	root := rootNode(lg.NewHandlerOpts(sc.kind, w, sc.threshold, sc.colorful, sc.addSource))
	hs := make([]node, len(sc.handlers))
	ready := make([]chan struct{}, len(sc.handlers))
	for i := range sc.handlers {
		ready[i] = make(chan struct{})
	}
	for i, h := range sc.handlers {
		if h.during < 0 {
			hs[i] = h.build(root)
			close(ready[i])
		}
	}
	pre := map[int][]byte{}
	if sc.presolo {
		runtime.GC()
		runtime.GC()
		for i := range sc.recs {
			pre[sc.recs[i].id] = sc.solo(&sc.recs[i])
		}
	}
	nPark := 0
	for _, r := range sc.recs {
		if r.park {
			g.park[r.id] = true
			nPark++
		}
	}
	var errMu sync.Mutex
	var errs []string
	addErr := func(s string) {
		errMu.Lock()
		errs = append(errs, s)
		errMu.Unlock()
	}
	returned := make([]atomic.Int32, sc.nthr)
	worker := func(t int) {
		// derivations this goroutine performs during the run, after it has emitted `emitted` records
		emitted := 0
		derive := func() {
			for i, h := range sc.handlers {
				if h.during == t && h.after == emitted {
					<-ready[h.parent]
					func() {
						defer func() {
							if p := recover(); p != nil {
								errMu.Lock()
								errs = append(errs, fmt.Sprint("panic in derive: ", p))
								errMu.Unlock()
								hs[i] = hs[h.parent]
							}
							close(ready[i])
						}()
						hs[i] = deriveNode(hs[h.parent], h.chain[len(h.chain)-1], len(h.chain)-1 >= h.apiAt)
					}()
				}
			}
		}
		derive()
		for i := range sc.recs {
			r := &sc.recs[i]
			if r.thread != t {
				continue
			}
			<-ready[r.hidx]
			// C02 does not constrain the error value Handle returns: while faults are injected any error is accepted
			// (wrapped, annotated, replaced); without injected faults an error is reported
			var err error
			if sc.unwind {
				// the logging call runs on a helper goroutine that is joined: Write may end it with runtime.Goexit
				fin := make(chan struct{})
				go func() {
					defer close(fin)
					err = r.emit(hs[r.hidx], g)
				}()
				<-fin
			} else {
				err = r.emit(hs[r.hidx], g)
			}
			if err != nil && sc.failEvery == 0 {
				errMu.Lock()
				errs = append(errs, err.Error())
				errMu.Unlock()
			}
			returned[t].Add(1)
			emitted++
			derive()
		}
	}
	var wg sync.WaitGroup
	spawn := func(t int) {
		wg.Add(1)
		go func() { defer wg.Done(); worker(t) }()
	}
	notBlocked := 0
	switch {
	case sc.gateWrite:
		// goroutine 0 is held inside Write; the others must all block before Write
		w.armed.Store(true)
		spawn(0)
		select {
		case <-w.entered:
		case <-time.After(5 * time.Second):
			addErr("gated writer never entered Write")
		}
		want := map[int]bool{}
		for t := 1; t < sc.nthr; t++ {
			for _, r := range sc.recs {
				if r.thread == t && r.enabled && r.gateKnd != 0 {
					want[r.id] = true
					break
				}
			}
			spawn(t)
		}
		if sc.noFmtWait {
			want = nil
		}
		deadline := time.After(3 * time.Second)
		for len(want) > 0 {
			select {
			case rid := <-g.reached:
				delete(want, rid)
			case <-deadline:
				want = nil
			}
		}
		time.Sleep(3 * time.Millisecond)
		if w.count() != 1 {
			notBlocked = w.count() - 1
		}
		for t := 1; t < sc.nthr; t++ {
			for _, r := range sc.recs {
				if r.thread == t {
					// the first record of t: if it is enabled, t cannot have returned from it
					if r.enabled && returned[t].Load() > 0 {
						notBlocked++
					}
					break
				}
			}
		}
		close(w.release)
	default:
		for t := 0; t < sc.nthr; t++ {
			spawn(t)
		}
		if nPark > 0 {
			// wait until every parking formatter is parked (holding its pooled buffer), let the others finish, then resume
			var parked []int
			deadline := time.After(5 * time.Second)
		waitPark:
			for len(parked) < nPark {
				select {
				case rid := <-g.parked:
					parked = append(parked, rid)
				case <-deadline:
					addErr("formatter never parked")
					break waitPark
				}
			}
			// the other goroutines run to completion meanwhile (bounded wait: formatting is outside the lock)
			others := 0
			parkThreads := map[int]bool{}
			for _, r := range sc.recs {
				if r.park {
					parkThreads[r.thread] = true
				}
			}
			for _, r := range sc.recs {
				if !parkThreads[r.thread] {
					others++
				}
			}
			until := time.Now().Add(2 * time.Second)
			for time.Now().Before(until) {
				done := 0
				for t := 0; t < sc.nthr; t++ {
					if !parkThreads[t] {
						done += int(returned[t].Load())
					}
				}
				if done >= others {
					break
				}
				time.Sleep(200 * time.Microsecond)
			}
			g.mu.Lock()
			for i := len(parked) - 1; i >= 0; i-- { // resume in reverse order
				close(g.resume[parked[i]])
			}
			// anything that parks later is resumed at once
			for rid := range g.park {
				g.park[rid] = false
			}
			g.mu.Unlock()
		}
	}
	// per-scenario deadline: a hang is a finding with the scenario, not a harness timeout
	allDone := make(chan struct{})
	go func() { wg.Wait(); close(allDone) }()
	select {
	case <-allDone:
	case <-time.After(sc.deadline()):
		// open every gate of the harness, then look again
		if sc.gateWrite {
			select {
			case <-w.release:
			default:
				close(w.release)
			}
		}
		g.mu.Lock()
		for rid, ch := range g.resume {
			select {
			case <-ch:
			default:
				close(ch)
			}
			g.park[rid] = false
		}
		for rid := range g.park {
			g.park[rid] = false
		}
		g.mu.Unlock()
		select {
		case <-allDone:
		case <-time.After(2 * time.Second):
			deadlocks++
			what := "deadlock"
			if sc.unwind {
				what = fmt.Sprintf("record-never-written-after-writer-panic(writes=%d)", w.count())
			}
			e.Case("VIOL", "c02", what, "scenario="+strings.ReplaceAll(sc.describe(), " ", "_"), "goroutines="+goroutineStates())
			e.Case("E", strconv.Itoa(int(sc.kind)), strconv.Itoa(sc.nthr), "0", "0", "W:0:0")
			return outcome{bad: 1}
		}
	}

	// ---- judge
	out := outcome{}
	byID := map[int]*rec{}
	nEnabled := 0
	for i := range sc.recs {
		byID[sc.recs[i].id] = &sc.recs[i]
		if sc.recs[i].enabled {
			nEnabled++
		}
	}
	var viol []string
	fields := []string{"E", strconv.Itoa(int(sc.kind)), strconv.Itoa(sc.nthr)}
	var wfields []string
	seen := map[int]int{}
	for _, c := range w.chunks {
		out.writes++
		id := lg.RecordID(c.data)
		r := byID[id]
		eq := false
		if r != nil {
			got := sc.norm(r, c.data)
			var want []byte
			if sc.presolo {
				want = pre[r.id]
			} else {
				want = sc.solo(r)
			}
			eq = want != nil && bytes.Equal(got, want)
			seen[id]++
			if !r.enabled {
				viol = append(viol, fmt.Sprintf("write-for-disabled-record #%d", id))
			} else if !eq {
				viol = append(viol, fmt.Sprintf("chunk-is-not-the-line-of-record #%d got=%s want=%s", id, hk.Hx(clipb(got)), hk.Hx(clipb(want))))
			}
		} else {
			id = 0
			viol = append(viol, "chunk-belongs-to-no-record got="+hk.Hx(clipb(c.data)))
		}
		b := 0
		if eq {
			b = 1
		}
		wfields = append(wfields, fmt.Sprintf("W:%d:%d", id, b))
	}
	if out.writes != nEnabled {
		viol = append(viol, fmt.Sprintf("writes=%d enabled-records=%d", out.writes, nEnabled))
	}
	for id, n := range seen {
		if n > 1 {
			viol = append(viol, fmt.Sprintf("record #%d written %d times", id, n))
		}
	}
	out.overlaps = int(w.overlaps.Load())
	if out.overlaps > 0 {
		viol = append(viol, fmt.Sprintf("overlapping-writes=%d", out.overlaps))
	}
	if notBlocked > 0 {
		viol = append(viol, fmt.Sprintf("not-blocked-by-writer-inside-Write=%d", notBlocked))
	}
	fmtDisabled := 0
	for _, r := range sc.recs {
		if !r.enabled && g.hitCount(r.id) > 0 {
			fmtDisabled++
		}
	}
	if fmtDisabled > 0 {
		viol = append(viol, fmt.Sprintf("disabled-records-formatted=%d", fmtDisabled))
	}
	for _, s := range errs {
		viol = append(viol, "error="+strings.ReplaceAll(s, " ", "_"))
	}
	fields = append(fields, strconv.Itoa(out.overlaps+notBlocked), strconv.Itoa(fmtDisabled))
	for _, r := range sc.recs {
		en := 0
		if r.enabled {
			en = 1
		}
		fields = append(fields, fmt.Sprintf("P:%d:%d:%d:%d", r.id, r.thread, en, len(sc.handlers[r.hidx].chain)))
	}
	fields = append(fields, wfields...)
	e.Case(fields...)
	if len(viol) > 0 {
		out.bad = 1
		if len(viol) > 4 {
			viol = append(viol[:4], fmt.Sprintf("(+%d more)", len(viol)-4))
		}
		e.Case("VIOL", "c02", strings.Join(viol, ";"), "scenario="+strings.ReplaceAll(sc.describe(), " ", "_"))
	}
	return out
}

var scenarioDeadline = 20 * time.Second

// with an unwinding writer a hang is the expected symptom of a lock that is not released by defer: wait less
func (sc *scenario) deadline() time.Duration {
	if sc.unwind {
		return 6 * time.Second
	}
	return scenarioDeadline
}

var deadlocks int

var reGoroutine = regexp.MustCompile(`(?m)^goroutine \d+ \[([^\]]+)\]:\n((?:.+\n)+)`)
var reLoggerFrame = regexp.MustCompile(`github.com/whoisnian/glb/logger\.([^\s(]+(?:\([^)]*\))?[^\s(]*)\(`)

// goroutineStates: "<wait reason>@<innermost glb/logger function> x count" for the goroutines that are inside the logger
func goroutineStates() string {
	buf := make([]byte, 1<<20)
	buf = buf[:runtime.Stack(buf, true)]
	counts := map[string]int{}
	for _, m := range reGoroutine.FindAllSubmatch(buf, -1) {
		if f := reLoggerFrame.FindSubmatch(m[2]); f != nil {
			counts[strings.ReplaceAll(string(m[1]), " ", "_")+"@"+string(f[1])]++
		}
	}
	var parts []string
	for k, n := range counts {
		parts = append(parts, fmt.Sprintf("%sx%d", k, n))
	}
	sort.Strings(parts)
	if len(parts) == 0 {
		return "-"
	}
	return strings.Join(parts, ",")
}

// probe: one goroutine is held inside Write (so it holds the output lock); does another goroutine's FORMATTING proceed meanwhile?
// (formatting under the lock is correct, only less concurrent: then the forced schedules that park formatters are pointless.)
// With twoRoots the second goroutine logs through an independent root handler on the same destination: its Write must be seen
// overlapping - the negative control of the overlap detector.
func probe(k lg.Kind, twoRoots bool) (formatted, overlapped bool) {
	w := newRecWriter()
	g := newGate()
	a := lg.NewHandler(k, w, logger.LevelDebug)
	b := a.WithAttrs([]slog.Attr{slog.Int("d", 1)})
	if twoRoots {
		b = lg.NewHandler(k, w, logger.LevelDebug)
	}
	w.armed.Store(true)
	done := make(chan struct{}, 2)
	go func() {
		defer func() { recover(); done <- struct{}{} }()
		a.Handle(context.Background(), lg.NewRecord(logger.LevelInfo, lg.Msg(1)))
	}()
	select {
	case <-w.entered:
	case <-time.After(3 * time.Second):
		return false, false
	}
	go func() {
		defer func() { recover(); done <- struct{}{} }()
		b.Handle(context.Background(), lg.NewRecord(logger.LevelInfo, lg.Msg(2), slog.Any("gate", gateLV{g, 2})))
	}()
	select {
	case <-g.reached:
		formatted = true
	case <-time.After(300 * time.Millisecond):
	}
	time.Sleep(5 * time.Millisecond)
	overlapped = w.overlaps.Load() > 0
	close(w.release)
	for i := 0; i < 2; i++ {
		select {
		case <-done:
		case <-time.After(3 * time.Second):
		}
	}
	return
}

// ------------------------------------------------------------------------------------------------ threshold sweep

var sweepThresholds = []int{-8, -1, 0, 1, 2, 3, 4, 5, 6, 7, 8, 9, 11, 12, 13, 15, 16, 17, 20, 100}
var validLevels = []slog.Level{logger.LevelDebug, logger.LevelInfo, logger.LevelWarn, logger.LevelError, logger.LevelFatal}

// thresholdSweep: one goroutine, every threshold (also between and beyond the named levels) x every valid record level x
// three handlers x root / With / WithGroup logger x every entry point that does not exit: exactly one Write carrying the
// whole line iff level >= threshold, no Write otherwise.
//
//	T <kind> <threshold> <level> <entry> <shape> <writes> <eq>
func thresholdSweep(e *hk.Env) (calls, bad int) {
	ctx := context.Background()
	shapes := []struct {
		name  string
		chain []lg.Step
	}{{"root", nil}, {"With", []lg.Step{withStep(1)}}, {"WithGroup", []lg.Step{{Group: "g"}}}}
	type entry struct {
		name string
		ok   func(lv slog.Level) bool
		call func(l *logger.Logger, h logger.Handler, lv slog.Level, msg string)
	}
	named := func(lv slog.Level) bool { return lv <= logger.LevelError } // Fatal() exits, Panic() panics
	any := func(slog.Level) bool { return true }
	entries := []entry{
		{"Named", named, func(l *logger.Logger, _ logger.Handler, lv slog.Level, msg string) {
			switch lv {
			case logger.LevelDebug:
				l.Debug(msg, "k", 1)
			case logger.LevelInfo:
				l.Info(msg, "k", 1)
			case logger.LevelWarn:
				l.Warn(msg, "k", 1)
			default:
				l.Error(msg, "k", 1)
			}
		}},
		{"Namedf", named, func(l *logger.Logger, _ logger.Handler, lv slog.Level, msg string) {
			switch lv {
			case logger.LevelDebug:
				l.Debugf("%s k=%d", msg, 1)
			case logger.LevelInfo:
				l.Infof("%s k=%d", msg, 1)
			case logger.LevelWarn:
				l.Warnf("%s k=%d", msg, 1)
			default:
				l.Errorf("%s k=%d", msg, 1)
			}
		}},
		{"Panic", func(lv slog.Level) bool { return lv == logger.LevelError }, func(l *logger.Logger, _ logger.Handler, lv slog.Level, msg string) {
			defer func() { recover() }()
			l.Panic(msg, "k", 1)
		}},
		{"Panicf", func(lv slog.Level) bool { return lv == logger.LevelError }, func(l *logger.Logger, _ logger.Handler, lv slog.Level, msg string) {
			defer func() { recover() }()
			l.Panicf("%s k=%d", msg, 1)
		}},
		{"Log", any, func(l *logger.Logger, _ logger.Handler, lv slog.Level, msg string) { l.Log(ctx, lv, msg, "k", 1) }},
		{"Logf", any, func(l *logger.Logger, _ logger.Handler, lv slog.Level, msg string) {
			l.Logf(ctx, lv, "%s k=%d", msg, 1)
		}},
		{"LogAttrs", any, func(l *logger.Logger, _ logger.Handler, lv slog.Level, msg string) {
			l.LogAttrs(ctx, lv, msg, slog.Int("k", 1))
		}},
		{"Enabled+Handle", any, func(_ *logger.Logger, h logger.Handler, lv slog.Level, msg string) {
			if h.Enabled(lv) { // as Logger does, with a hand-built record
				h.Handle(ctx, lg.NewRecord(lv, msg, slog.Int("k", 1)))
			}
		}},
	}
	id := 0
	for _, k := range lg.Kinds {
		for _, th := range sweepThresholds {
			for _, sh := range shapes {
				var c lg.Capture
				h := lg.Apply(lg.NewHandler(k, &c, slog.Level(th)), sh.chain)
				l := logger.New(h)
				// the yardstick: the same logger with everything enabled
				var cs lg.Capture
				hs := lg.Apply(lg.NewHandler(k, &cs, slog.Level(-1000)), sh.chain)
				ls := logger.New(hs)
				// Relay logs REQ_BEG and REQ_END at Info behind its own Enabled gate: two whole lines iff threshold <= Info
				{
					mux := httpd.NewMux()
					mux.HandleRelay(l.Relay)
					mux.Handle("/x", http.MethodGet, func(*httpd.Store) {})
					func() {
						defer func() { recover() }()
						mux.ServeHTTP(httptest.NewRecorder(), httptest.NewRequest(http.MethodGet, "/x", nil))
					}()
					got := c.Take()
					calls++
					shaped := len(got) == 2 && bytes.Contains(got[0], []byte("REQ_BEG")) && bytes.Contains(got[1], []byte("REQ_END"))
					for _, ch := range got {
						shaped = shaped && bytes.Count(ch, []byte{'\n'}) == 1 && ch[len(ch)-1] == '\n'
					}
					writes, b := len(got)/2, 0
					if len(got)%2 == 1 {
						writes = 90 + len(got)
					}
					if shaped {
						b = 1
					}
					e.Case("T", strconv.Itoa(int(k)), strconv.Itoa(th), "4", "Relay(2-records)", sh.name, strconv.Itoa(writes), strconv.Itoa(b))
					should := 4 >= th
					if (should && !shaped) || (!should && len(got) != 0) {
						bad++
						if bad <= 6 {
							e.Case("VIOL", "c02", fmt.Sprintf("threshold kind=%s threshold=%d level=4 entry=Relay logger=%s writes=%d expected-writes=%d", k, th, sh.name,
								len(got), map[bool]int{true: 2, false: 0}[should]))
						}
					}
				}
				// every record Relay makes (REQ_BEG, REQ_END at Info; the panic record at Error), returning and panicking routes: relay.go
				{
					rc, _ := relaySweep(e, k, th, sh.name, l, ls, &c, &cs) // its violations are counted in relayViol (own VIOL budget)
					calls += rc
				}
				for _, lv := range validLevels {
					for _, en := range entries {
						if !en.ok(lv) {
							continue
						}
						id++
						calls++
						msg := lg.Msg(id)
						func() {
							defer func() { recover() }()
							en.call(l, h, lv, msg)
						}()
						func() {
							defer func() { recover() }()
							en.call(ls, hs, lv, msg)
						}()
						got, want := c.Take(), cs.Take()
						eq := len(got) == 1 && len(want) == 1 && bytes.Equal(lg.NormTime(k, got[0]), lg.NormTime(k, want[0]))
						b := 0
						if eq {
							b = 1
						}
						e.Case("T", strconv.Itoa(int(k)), strconv.Itoa(th), strconv.Itoa(int(lv)), en.name, sh.name, strconv.Itoa(len(got)), strconv.Itoa(b))
						should := int(lv) >= th
						if (should && !eq) || (!should && len(got) != 0) {
							bad++
							if bad <= 6 {
								var first []byte
								if len(got) > 0 {
									first = got[0]
								}
								e.Case("VIOL", "c02", fmt.Sprintf("threshold kind=%s threshold=%d level=%d entry=%s logger=%s writes=%d expected-writes=%d", k, th, int(lv), en.name, sh.name,
									len(got), map[bool]int{true: 1, false: 0}[should]), "got="+hk.Hx(clipb(first)))
							}
						}
					}
				}
			}
		}
	}
	return
}

// ------------------------------------------------------------------------------------------------ generators

var sizes = []int{10, 100, 1000, 4000, 15000, 16300, 17000, 40000, 65536}
var levels = []slog.Level{logger.LevelDebug, logger.LevelInfo, logger.LevelWarn, logger.LevelError}

func withStep(i int) lg.Step {
	return lg.Step{Attrs: func() []slog.Attr {
		return []slog.Attr{slog.String("w"+strconv.Itoa(i), "v"+strconv.Itoa(i)), slog.Int("i", i)}
	}}
}

// handlers: mode 0 root only; 1 derived before the run; 2 derived during the run by the goroutines
func mkHandlers(r *hk.Rng, mode, nthr int) []hdl {
	hs := []hdl{{chain: nil, during: -1, parent: -1}}
	switch mode {
	case 1:
		hs = append(hs,
			hdl{chain: []lg.Step{withStep(1)}, during: -1, apiAt: r.Intn(2)},
			hdl{chain: []lg.Step{{Group: "g"}}, during: -1, apiAt: r.Intn(2)},
			hdl{chain: []lg.Step{withStep(1), {Group: "g"}, withStep(2)}, during: -1, apiAt: r.Intn(4)})
		// With blocks of >= 16 KiB and >= 64 KiB (the pre-rendered attributes alone exceed the pooled-buffer limit)
		for _, n := range []int{16<<10 + r.Intn(2000), 64<<10 + r.Intn(5000)} {
			n := n
			big := lg.Step{Attrs: func() []slog.Attr { return []slog.Attr{slog.String("blk", pad(n)), slog.Int("i", n)} }}
			hs = append(hs, hdl{chain: []lg.Step{big}, during: -1, apiAt: r.Intn(2)})
		}
	case 2:
		hs = append(hs, hdl{chain: []lg.Step{withStep(1)}, during: -1, apiAt: r.Intn(2)}) // a shared parent with attributes
		for t := 0; t < nthr; t++ {
			parent := r.Intn(2)
			var st lg.Step
			if r.Chance(35) {
				st = lg.Step{Group: "g" + strconv.Itoa(t)}
			} else {
				st = withStep(10 + t)
			}
			np := len(hs[parent].chain)
			apiAt := hs[parent].apiAt // a node made through the Logger API has only Logger children
			if apiAt >= np {
				apiAt = np + r.Intn(2)
			}
			hs = append(hs, hdl{chain: append(append([]lg.Step(nil), hs[parent].chain...), st), during: t, parent: parent, apiAt: apiAt})
		}
	}
	return hs
}

func pickHandler(r *hk.Rng, hs []hdl, mode, t int) int {
	switch mode {
	case 0:
		return 0
	case 1:
		return r.Intn(len(hs))
	default:
		if r.Chance(60) {
			return 2 + t // the one this goroutine derives
		}
		return r.Intn(2)
	}
}

func run(e *hk.Env) error {
	r := e.Rng.Fork()
	nextID := 0
	newRec := func(sc *scenario, t, hidx int, level slog.Level, via, size, gk int, park bool) {
		nextID++
		sc.recs = append(sc.recs, rec{id: nextID, thread: t, level: level, enabled: level >= sc.threshold, via: via, hidx: hidx, size: size, gateKnd: gk, park: park,
			bigMsg: !park && r.Chance(25), pc: r.Intn(4), tIdx: r.Intn(len(lg.Times)), ctxMode: []int{0, 0, 0, 1, 2}[r.Intn(5)]})
	}
	scen, bad, writes, recsTotal, disabledTotal := 0, 0, 0, 0, 0
	hist := map[string]int{}
	sizeHist := map[int]int{}
	durs := map[string]float64{}
	skipped := 0
	thrHist := map[int]int{}
	fmtUnderLock := map[lg.Kind]bool{}
	do := func(sc *scenario) {
		if deadlocks >= 2 {
			return // the build hangs: two scenarios reported, the rest would only add waiting time
		}
		sc.colorful, sc.addSource = r.Chance(25), r.Chance(45)
		if (sc.name == "free" || sc.name == "stress" || sc.name == "gated-writer" || sc.name == "residue" || sc.name == "parked-formatter") && r.Chance(35) {
			sc.failEvery = 1 + r.Intn(4) // every n-th Write reports a failure: transient, generic, closed file / pipe, EPIPE
			sc.unwind = r.Chance(50)     // … or panics / Goexits
		}
		sc.noFmtWait = fmtUnderLock[sc.kind]
		if sc.noFmtWait && sc.name == "parked-formatter" {
			skipped++
			return
		}
		if sc.threshold > logger.LevelDebug {
			for i := range sc.recs {
				// Handle itself has no level gate: records below the level go through Logger
				if !sc.recs[i].enabled && sc.recs[i].via == 0 {
					sc.recs[i].via = 1
				}
			}
		}
		t0 := time.Now()
		o := execute(e, sc)
		durs[sc.name] += time.Since(t0).Seconds()
		scen++
		bad += o.bad
		writes += o.writes
		hist[sc.name]++
		thrHist[sc.nthr]++
		for _, rc := range sc.recs {
			recsTotal++
			if !rc.enabled {
				disabledTotal++
			}
			sizeHist[rc.size]++
		}
		if scen <= 4 {
			e.Sample("samples", sc.describe(), 5)
		}
	}
	// probes: is formatting done outside the output lock (then goroutines can be parked in it)? does the overlap detector work?
	ful, neg := map[string]bool{}, map[string]bool{}
	for _, k := range lg.Kinds {
		formatted, _ := probe(k, false)
		fmtUnderLock[k] = !formatted
		ful[k.String()] = !formatted
		_, ov := probe(k, true)
		neg[k.String()] = ov
	}
	e.Stats["formatting_under_lock"] = ful
	e.Stats["negative_control_two_roots_overlap_detected"] = neg
	reps := 6
	if e.Thorough() {
		reps = 60
	}
	for rep := 0; rep < reps; rep++ {
		for _, k := range lg.Kinds {
			// 1. residue: a 64 KiB line (and other sizes across the 16 KiB pool limit) followed by short lines, one goroutine
			// sizes around the pool limit: line lengths 16383/16384/16385 and buffer capacities of exactly 16384 (14.3 .. 16 KB lines)
			for _, big := range []int{65536, 40000, 17000, 16300, 1000, 14200 + r.Intn(200), 14400 + r.Intn(1500), 16384 - 120 + r.Intn(125), 8192 + 256*r.Intn(36)} {
				sc := &scenario{kind: k, name: "residue", threshold: logger.LevelInfo, nthr: 1, handlers: mkHandlers(r, 1, 1)}
				for i := 0; i < 8; i++ {
					sz := 10
					if i%3 == 0 {
						sz = big
					}
					newRec(sc, 0, r.Intn(len(sc.handlers)), levels[1+r.Intn(3)], r.Intn(4), sz, r.Intn(3), false)
				}
				do(sc)
			}
			// 1b. a line that leaves a buffer of critical capacity in the pool, THEN loggers are derived, other loggers write,
			// the derived ones write: compared with solo lines made beforehand on an emptied pool
			for i := 0; i < 6; i++ {
				big := []int{14300 + r.Intn(150), 14400 + r.Intn(1900), 16384 - 130 + r.Intn(135), 8192 + 256*r.Intn(36), 15000, 16000}[i]
				sc := &scenario{kind: k, name: "residue-derive", threshold: logger.LevelInfo, nthr: 1, presolo: true}
				sc.handlers = []hdl{{during: -1, parent: -1},
					{chain: []lg.Step{withStep(1)}, during: 0, parent: 0, after: 1, apiAt: r.Intn(2)},
					{chain: []lg.Step{withStep(1), {Group: "g"}}, during: 0, parent: 1, after: 1, apiAt: 1 + r.Intn(2)},
					{chain: []lg.Step{withStep(2)}, during: 0, parent: 0, after: 3, apiAt: r.Intn(2)}}
				if sc.handlers[1].apiAt == 0 {
					sc.handlers[2].apiAt = 0 // a node made through the Logger API has only Logger children
				}
				newRec(sc, 0, 0, logger.LevelError, 0, big, 0, false)
				sc.recs[len(sc.recs)-1].bigMsg = i%2 == 0
				newRec(sc, 0, 0, logger.LevelError, r.Intn(4), 10, 0, false)
				newRec(sc, 0, 0, logger.LevelError, r.Intn(4), 900, 0, false)
				for _, hx := range []int{1, 2, 0, 3, 1, 2, 3} {
					newRec(sc, 0, hx, logger.LevelError, r.Intn(4), []int{10, 100, 1000}[r.Intn(3)], 0, false)
				}
				do(sc)
			}
			for _, n := range []int{2, 4, 16} {
				for mode := 0; mode < 3; mode++ {
					for _, th := range []slog.Level{logger.LevelDebug, logger.LevelInfo, logger.LevelWarn, logger.LevelError} {
						// 2. free running
						sc := &scenario{kind: k, name: "free", threshold: th, nthr: n, handlers: mkHandlers(r, mode, n)}
						per := 2 + r.Intn(4)
						for t := 0; t < n; t++ {
							for i := 0; i < per; i++ {
								sz := sizes[r.Intn(len(sizes))]
								if n == 16 && sz > 20000 && r.Chance(70) {
									sz = sizes[r.Intn(4)]
								}
								newRec(sc, t, pickHandler(r, sc.handlers, mode, t), levels[r.Intn(4)], r.Intn(4), sz, r.Intn(3), false)
							}
						}
						do(sc)
						if th == logger.LevelError {
							continue
						}
						// 3. one goroutine held inside Write while the others try
						sc = &scenario{kind: k, name: "gated-writer", threshold: th, nthr: n, handlers: mkHandlers(r, mode, n), gateWrite: true}
						newRec(sc, 0, pickHandler(r, sc.handlers, mode, 0), logger.LevelError, r.Intn(2), sizes[r.Intn(5)], 0, false)
						for t := 1; t < n; t++ {
							lv := levels[r.Intn(4)]
							if t == 1 {
								lv = logger.LevelError
							}
							newRec(sc, t, pickHandler(r, sc.handlers, mode, t), lv, r.Intn(2), sizes[r.Intn(4)], 1+r.Intn(2), false)
							if r.Chance(50) {
								newRec(sc, t, pickHandler(r, sc.handlers, mode, t), levels[r.Intn(4)], r.Intn(4), sizes[r.Intn(4)], r.Intn(3), false)
							}
						}
						do(sc)
						// 4. goroutines parked in the middle of formatting (holding their pooled buffers) while others log and finish
						sc = &scenario{kind: k, name: "parked-formatter", threshold: th, nthr: n, handlers: mkHandlers(r, mode, n)}
						np := 1 + r.Intn(min(3, n-1))
						for t := 0; t < n; t++ {
							if t < np {
								newRec(sc, t, pickHandler(r, sc.handlers, mode, t), logger.LevelError, r.Intn(2), sizes[r.Intn(len(sizes))], 1+r.Intn(2), true)
								newRec(sc, t, pickHandler(r, sc.handlers, mode, t), levels[r.Intn(4)], r.Intn(4), sizes[r.Intn(3)], r.Intn(3), false)
							} else {
								for i := 0; i < 3; i++ {
									newRec(sc, t, pickHandler(r, sc.handlers, mode, t), levels[r.Intn(4)], r.Intn(4), sizes[r.Intn(len(sizes))], r.Intn(3), false)
								}
							}
						}
						do(sc)
					}
				}
			}
			// 5. thresholds: everything below the level, values carry gates: zero Writes, zero formatting
			for _, n := range []int{2, 16} {
				sc := &scenario{kind: k, name: "all-disabled", threshold: logger.LevelFatal, nthr: n, handlers: mkHandlers(r, 1, n)}
				for t := 0; t < n; t++ {
					for i := 0; i < 4; i++ {
						newRec(sc, t, r.Intn(4), levels[r.Intn(4)], 1+r.Intn(3), sizes[r.Intn(4)], 1+r.Intn(2), false)
					}
				}
				do(sc)
			}
		}
		// 6. stress (thorough: long; quick: short): many goroutines, many records, small and oversized lines mixed
		rounds := 3
		if e.Thorough() {
			rounds = 25
		}
		for i := 0; i < rounds; i++ {
			k := lg.Kinds[i%3]
			n := []int{4, 16, 16}[r.Intn(3)]
			sc := &scenario{kind: k, name: "stress", threshold: logger.LevelInfo, nthr: n, handlers: mkHandlers(r, 2, n)}
			per := 40
			for t := 0; t < n; t++ {
				for j := 0; j < per; j++ {
					sz := sizes[r.Intn(4)]
					if r.Chance(8) {
						sz = sizes[4+r.Intn(5)]
					}
					newRec(sc, t, pickHandler(r, sc.handlers, 2, t), levels[r.Intn(4)], r.Intn(4), sz, r.Intn(3), false)
				}
			}
			do(sc)
		}
	}
	e.Stats["scenarios_skipped_formatting_under_lock"] = skipped
	e.Stats["deadlocks"] = deadlocks
	tcalls, tbad := thresholdSweep(e)
	e.Stats["threshold_sweep_calls"] = tcalls
	e.Stats["threshold_sweep_violating"] = tbad
	e.Stats["relay_sweep_violating_requests"] = relayViol
	e.Stats["relay_sweep_routes"] = len(relayRoutes)
	e.Stats["relay_sweep_longest_panic_line"] = relayPanicLineMax
	e.Stats["threshold_sweep_thresholds"] = sweepThresholds
	e.Stats["seconds_by_scenario"] = durs
	e.Stats["cases"] = scen + tcalls
	e.Stats["scenarios"] = hist
	e.Stats["scenarios_violating"] = bad
	e.Stats["records"] = recsTotal
	e.Stats["records_below_level"] = disabledTotal
	e.Stats["writes_observed"] = writes
	e.Stats["record_size_hist"] = sizeHist
	e.Stats["goroutines_hist"] = thrHist
	return nil
}
