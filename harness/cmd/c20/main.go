package main

import (
	"bytes"
	"fmt"
	"os"
	"path/filepath"
	"regexp"
	"sort"
	"strconv"
	"strings"
	"sync"
	"syscall"
	"time"

	"github.com/whoisnian/glb/daemon"
	"verifharness/hk"
)

// C20: daemon.Launch hand-shake.
//
// This binary plays all three roles. Launch re-executes os.Args[0] (made absolute below) with
// ENV_DAEMON_NAME / ENV_DAEMON_FLAG set; daemon.Run() at the very start of main turns such a process
// into the launcher or the daemon (handler c20Daemon) and the process exits afterwards.
//
// Parent mode: for daemon delay {0,50,300 ms} x launcher pause {0,200 ms} (hook VERIF_PAUSE_LAUNCH_AFTERSTART,
// read by the launcher, inherited through os.Environ()) x {1,4} concurrent Launch calls:
//
//	E <delay_ms> <pause_ms> <n> <i> <class> <pid_matches> <marker_at_return> <alive> <reparented> <launcher_gone> <hex err>
//	VIOL <scenario> ...      when a Launch violates the property (the same case also has its E line)
//
// class: ok | run ("start launcher: …") | stderr | stdout ("launcher stdout: …") | other (timeout).
// The daemon writes <dir>/marker.<its pid> ("<pid> <unix nanos>") before Done(), so the daemon of a FAILED
// Launch is found and killed too; every process carrying our VERIF_C20_DIR in its environment is killed at
// the end of each group, whatever happened.
const (
	handlerName = "verif-c20"
	envDir      = "VERIF_C20_DIR"
	envDelay    = "VERIF_C20_DELAY"
	envLife     = "VERIF_C20_LIFE"
	envPause    = "VERIF_PAUSE_LAUNCH_AFTERSTART"
)

func init() { daemon.Register(handlerName, c20Daemon) }

func main() {
	if daemon.Run() {
		os.Exit(0)
	}
	hk.Main("C20", runC20)
}

// c20Daemon is the registered handler: marker, optional delay, Done(), live on.
func c20Daemon() {
	dir := os.Getenv(envDir)
	pid := os.Getpid()
	if dir != "" {
		tmp := filepath.Join(dir, fmt.Sprintf(".tmp.%d", pid))
		if err := os.WriteFile(tmp, []byte(fmt.Sprintf("%d %d\n", pid, time.Now().UnixNano())), 0o644); err == nil {
			os.Rename(tmp, filepath.Join(dir, fmt.Sprintf("marker.%d", pid)))
		}
	}
	if d, err := time.ParseDuration(os.Getenv(envDelay)); err == nil && d > 0 {
		time.Sleep(d)
	}
	derr := daemon.Done()
	if dir != "" {
		msg := "ok"
		if derr != nil {
			msg = derr.Error()
		}
		os.WriteFile(filepath.Join(dir, fmt.Sprintf("done.%d", pid)), []byte(fmt.Sprintf("%d %s\n", time.Now().UnixNano(), msg)), 0o644)
	}
	life := 20 * time.Second
	if d, err := time.ParseDuration(os.Getenv(envLife)); err == nil && d > 0 {
		life = d
	}
	time.Sleep(life)
}

type procStat struct {
	ok    bool
	state byte
	ppid  int
}

func readStat(pid int) procStat {
	b, err := os.ReadFile(fmt.Sprintf("/proc/%d/stat", pid))
	if err != nil {
		return procStat{}
	}
	// pid (comm) state ppid ...
	i := bytes.LastIndexByte(b, ')')
	if i < 0 {
		return procStat{}
	}
	f := strings.Fields(string(b[i+1:]))
	if len(f) < 2 {
		return procStat{}
	}
	pp, _ := strconv.Atoi(f[1])
	return procStat{ok: true, state: f[0][0], ppid: pp}
}

func alive(pid int) bool {
	st := readStat(pid)
	return st.ok && st.state != 'Z' && st.state != 'X'
}

// children of this process (any thread may have forked them)
func childrenOf(parent int) []int {
	var res []int
	ents, _ := os.ReadDir("/proc")
	for _, e := range ents {
		pid, err := strconv.Atoi(e.Name())
		if err != nil || pid == parent {
			continue
		}
		if st := readStat(pid); st.ok && st.ppid == parent && st.state != 'Z' {
			res = append(res, pid)
		}
	}
	return res
}

// strays: every process whose initial environment carries our directory (launchers and daemons of this group)
func strays(dir string) []int {
	var res []int
	needle := []byte(envDir + "=" + dir + "\x00")
	self := os.Getpid()
	ents, _ := os.ReadDir("/proc")
	for _, e := range ents {
		pid, err := strconv.Atoi(e.Name())
		if err != nil || pid == self {
			continue
		}
		b, err := os.ReadFile(fmt.Sprintf("/proc/%d/environ", pid))
		if err != nil {
			continue
		}
		if bytes.Contains(append(b, 0), needle) && alive(pid) {
			res = append(res, pid)
		}
	}
	sort.Ints(res)
	return res
}

func killAndWait(pids []int) {
	for _, p := range pids {
		syscall.Kill(p, syscall.SIGKILL)
	}
	deadline := time.Now().Add(3 * time.Second)
	for time.Now().Before(deadline) {
		any := false
		for _, p := range pids {
			if alive(p) {
				any = true
			}
		}
		if !any {
			return
		}
		time.Sleep(5 * time.Millisecond)
	}
}

func markerPid(dir string, pid int) (int, bool) {
	b, err := os.ReadFile(filepath.Join(dir, fmt.Sprintf("marker.%d", pid)))
	if err != nil {
		return 0, false
	}
	f := strings.Fields(string(b))
	if len(f) < 1 {
		return 0, true
	}
	p, _ := strconv.Atoi(f[0])
	return p, true
}

type launchObs struct {
	pid        int
	err        error
	timedOut   bool
	class      string
	pidMatches bool
	marker     bool
	alive      bool
	ppid       int
	reparented bool
	took       time.Duration
}

func classify(err error) string {
	switch {
	case err == nil:
		return "ok"
	case strings.HasPrefix(err.Error(), "start launcher:"):
		return "run"
	case strings.HasPrefix(err.Error(), "launcher stdout:"):
		return "stdout"
	default:
		return "stderr"
	}
}

func b01(b bool) string {
	if b {
		return "1"
	}
	return "0"
}

func oneLaunch(dir string) launchObs {
	type res struct {
		pid int
		err error
	}
	ch := make(chan res, 1)
	t0 := time.Now()
	go func() {
		defer func() {
			if r := recover(); r != nil {
				ch <- res{0, fmt.Errorf("panic: %v", r)}
			}
		}()
		pid, err := daemon.Launch(handlerName)
		ch <- res{pid, err}
	}()
	var o launchObs
	select {
	case r := <-ch:
		o.pid, o.err = r.pid, r.err
	case <-time.After(15 * time.Second):
		o.timedOut = true
		o.err = fmt.Errorf("Launch did not return within 15s")
	}
	o.took = time.Since(t0)
	// observations at the moment Launch returned
	if o.timedOut {
		o.class = "other"
		return o
	}
	o.class = classify(o.err)
	if o.err == nil && o.pid > 0 {
		mp, ok := markerPid(dir, o.pid)
		o.marker = ok
		o.pidMatches = ok && mp == o.pid
		st := readStat(o.pid)
		o.alive = st.ok && st.state != 'Z' && st.state != 'X'
		o.ppid = st.ppid
		o.reparented = o.alive && st.ppid != os.Getpid()
	}
	return o
}

var (
	reViol = regexp.MustCompile(`delay=(\d+)ms pause=(\d+)ms n=(\d+)`)
	reCase = regexp.MustCompile(`E (\d+) (\d+) (\d+) \d+ `)
)

func replayScenario(path string) (int, int, int, bool) {
	b, err := os.ReadFile(path)
	if err != nil {
		return 0, 0, 0, false
	}
	for _, re := range []*regexp.Regexp{reViol, reCase} {
		if m := re.FindSubmatch(b); m != nil {
			d, _ := strconv.Atoi(string(m[1]))
			p, _ := strconv.Atoi(string(m[2]))
			n, _ := strconv.Atoi(string(m[3]))
			if n >= 1 && n <= 64 && d <= 10000 && p <= 10000 {
				return d, p, n, true
			}
		}
	}
	return 0, 0, 0, false
}

func runC20(e *hk.Env) error {
	// Launch re-executes os.Args[0]: it must resolve no matter what the working directory is
	if exe, err := os.Executable(); err == nil {
		os.Args[0] = exe
	} else if abs, err := filepath.Abs(os.Args[0]); err == nil {
		os.Args[0] = abs
	}
	base := filepath.Join(e.Out, "c20")
	if v := os.Getenv("VERIF_DIR"); v != "" {
		base = filepath.Join(v, ".build", fmt.Sprintf("c20-%d", os.Getpid()))
	}
	os.MkdirAll(base, 0o755)
	defer os.RemoveAll(base)
	savedPause, hadPause := os.LookupEnv(envPause)
	defer func() {
		if hadPause {
			os.Setenv(envPause, savedPause)
		} else {
			os.Unsetenv(envPause)
		}
		os.Unsetenv(envDir)
		os.Unsetenv(envDelay)
		os.Unsetenv(envLife)
	}()

	delays := []int{0, 50, 300}
	pauses := []int{0, 200}
	conc := []int{1, 4}
	rounds := 1
	if e.Thorough() {
		delays = []int{0, 5, 20, 50, 100, 300}
		pauses = []int{0, 50, 200, 500}
		conc = []int{1, 4, 8}
		rounds = 5
	}
	if e.Replay != "" {
		// replay file of the runner: {"case": "VIOL delay=0ms pause=200ms n=4 …"} or {"case": "E 0 200 4 …"}
		if d, p, n, ok := replayScenario(e.Replay); ok {
			delays, pauses, conc, rounds = []int{d}, []int{p}, []int{n}, 3
			e.Stats["replay"] = fmt.Sprintf("delay=%dms pause=%dms n=%d x3", d, p, n)
		} else {
			e.Stats["replay"] = "scenario not recognised in " + e.Replay + ": full sweep"
		}
	}
	os.Setenv(envLife, "20s")
	self := os.Getpid()
	cases, viols, groups, leakedTotal := 0, 0, 0, 0
	classHist := map[string]int{}
	ppidHist := map[string]int{}
	var maxTook time.Duration
	for round := 0; round < rounds; round++ {
		for _, pause := range pauses {
			for _, delay := range delays {
				for _, n := range conc {
					groups++
					dir := filepath.Join(base, fmt.Sprintf("g%d", groups))
					os.MkdirAll(dir, 0o755)
					os.Setenv(envDir, dir)
					os.Setenv(envDelay, fmt.Sprintf("%dms", delay))
					if pause > 0 {
						os.Setenv(envPause, fmt.Sprintf("%dms", pause))
					} else {
						os.Unsetenv(envPause)
					}
					obs := make([]launchObs, n)
					var wg sync.WaitGroup
					for i := 0; i < n; i++ {
						wg.Add(1)
						go func(i int) {
							defer wg.Done()
							obs[i] = oneLaunch(dir)
						}(i)
					}
					wg.Wait()
					// the launchers are gone: this process has no child left
					kids := childrenOf(self)
					gone := len(kids) == 0
					// daemons that are running: claimed by a successful Launch, or leaked by a failed one
					claimed := map[int]bool{}
					for _, o := range obs {
						if o.err == nil {
							claimed[o.pid] = true
						}
					}
					// a failed Launch's daemon may still be on its way to the marker: give it a moment before counting
					anyFailed := false
					for _, o := range obs {
						if o.err != nil {
							anyFailed = true
						}
					}
					if anyFailed {
						time.Sleep(time.Duration(delay+150) * time.Millisecond)
					}
					var leaked []int
					for _, p := range strays(dir) {
						if !claimed[p] && readStat(p).ppid != self {
							leaked = append(leaked, p)
						}
					}
					leakedTotal += len(leaked)
					// a failed Launch returns no pid: "its daemon is alive" is judged on the group — as many unclaimed
					// daemons (with their markers) are running as Launch calls failed
					nFailed, leakedMarkers := 0, 0
					for _, o := range obs {
						if o.err != nil {
							nFailed++
						}
					}
					for _, p := range leaked {
						if mp, ok := markerPid(dir, p); ok && mp == p {
							leakedMarkers++
						}
					}
					for i := range obs {
						if obs[i].err != nil {
							obs[i].alive = len(leaked) >= nFailed
							obs[i].marker = leakedMarkers >= nFailed
						}
					}
					for i, o := range obs {
						cases++
						classHist[o.class]++
						if o.err == nil {
							ppidHist[strconv.Itoa(o.ppid)]++
						}
						if o.took > maxTook {
							maxTook = o.took
						}
						errText := ""
						if o.err != nil {
							errText = o.err.Error()
						}
						e.Case("E", strconv.Itoa(delay), strconv.Itoa(pause), strconv.Itoa(n), strconv.Itoa(i), o.class,
							b01(o.pidMatches), b01(o.marker), b01(o.alive), b01(o.reparented), b01(gone), hk.Hxs(errText))
						good := o.err == nil && o.pidMatches && o.marker && o.alive && o.reparented && gone
						if !good {
							viols++
							e.Case("VIOL", fmt.Sprintf("delay=%dms", delay), fmt.Sprintf("pause=%dms", pause), fmt.Sprintf("n=%d", n),
								fmt.Sprintf("i=%d", i), fmt.Sprintf("err=%q", errText), fmt.Sprintf("pid=%d", o.pid),
								"pid_matches="+b01(o.pidMatches), "marker_at_return="+b01(o.marker), "alive="+b01(o.alive),
								fmt.Sprintf("ppid=%d", o.ppid), "launcher_gone="+b01(gone),
								fmt.Sprintf("daemons_running_unclaimed=%v", leaked))
						}
						if i == 0 && round == 0 {
							e.Sample("samples", map[string]any{"delay_ms": delay, "pause_ms": pause, "concurrent": n, "err": errText,
								"pid": o.pid, "daemon_ppid": o.ppid, "took_ms": o.took.Milliseconds()}, 5)
						}
					}
					// always clean up: claimed daemons, leaked daemons, stuck launchers
					all := strays(dir)
					killAndWait(all)
					if left := strays(dir); len(left) > 0 {
						e.Count("cleanup_left_running", len(left))
					}
				}
			}
		}
	}
	e.Stats["cases"] = cases
	e.Stats["groups"] = groups
	e.Stats["harness_violations"] = viols
	e.Stats["outcome_classes"] = classHist
	e.Stats["daemon_parent_pids"] = ppidHist
	e.Stats["daemons_leaked_by_failed_launches"] = leakedTotal
	e.Stats["max_launch_ms"] = maxTook.Milliseconds()
	e.Stats["delays_ms"] = delays
	e.Stats["pauses_ms"] = pauses
	e.Stats["concurrency"] = conc
	e.Stats["rounds"] = rounds
	e.Stats["distinct_nontrivial"] = len(delays) * len(pauses) * len(conc)
	return nil
}
