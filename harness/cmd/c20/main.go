package main

import (
	"bytes"
	"fmt"
	"os"
	"path/filepath"
	"regexp"
	"runtime"
	"sort"
	"strconv"
	"strings"
	"sync"
	"sync/atomic"
	"syscall"
	"time"

	"github.com/whoisnian/glb/daemon"
	"verifharness/hk"
)

// C20: daemon.Launch hand-shake.
//
// This binary plays all three roles. Launch re-executes os.Args[0] (made absolute below) with
// ENV_DAEMON_NAME / ENV_DAEMON_FLAG set; daemon.Run() at the very start of main turns such a process
// into the launcher or the daemon (handler c20Daemon) and the process exits afterwards.
//
// Parent mode: for daemon delay {0,50,300 ms} x launcher pause {0,200 ms} (hook VERIF_PAUSE_LAUNCH_AFTERSTART,
// read by the launcher, inherited through os.Environ()) x {1,4} concurrent Launch calls:
//
//	E <delay_ms> <pause_ms> <n> <i> <class> <pid_matches> <marker_at_return> <alive> <reparented> <launcher_gone> <done_at_return> <right_handler> <done_nil> <survived> <variant> <hex err>
//	F <variant> <n> <i> <class> <pid> <daemons_left>      a Launch whose daemon dies before Done(): must fail (judged here)
//	VIOL <scenario> ...      when a Launch violates the property (the same case also has its E line)
//
// Daemon handler variants (VERIF_C20_STDERR, set by the caller per scenario): none | before | after | both —
// the handler writes a line to its stderr before Done() and / or 100 ms after Done(). 100 ms after Done() (after
// the late write, if any) every daemon touches <dir>/late.<pid>. <survived>: some 300 ms after Launch returned the
// daemon is still running and its late marker exists ("the daemon keeps running after Launch returns", also
// when it uses its stderr).
//
// <done_at_return>: the file the daemon writes immediately BEFORE calling Done() (predone.<pid>) existed when Launch
// returned — Launch did not return before Done() was entered. <right_handler>: two handler names are registered and
// used alternately; the returned pid must run the handler that was asked for and be returned by one Launch only.
// When the launcher pause is set, a successful Launch that took less than the pause means the hook is gone
// (harness error "hook missing": the forced schedule is not achieved).
//
// done-goroutine / done-locked-goroutine / handler-locked-goroutine: Done() is called from a fresh goroutine while the
// handler waits, from a goroutine wired to its own OS thread, or the whole handler runs on such a goroutine (the main
// goroutine of this binary is locked to the main OS thread, so these calls are on another thread for certain).
// More handler variants: exit / panic — the daemon dies before Done(): Launch must return an error in time and leave no
// daemon running (what the code does: "daemon: exit status N" from the launcher's stderr; the value returned beside the
// error is not judged), and the launches that FOLLOW it in this process must
// be unaffected (a sequence of such launches and normal ones runs from one goroutine); unsetenv / clearenv — the
// handler removes the ENV_DAEMON_* markers / its whole environment before Done(): Launch must still return nil and the
// right pid in time. <done_nil>: Done() returned nil in the daemon (recorded in done.<pid>). Every scenario has its
// own directory, so the marker a returned pid is compared with is the marker of THIS launch: a stale pid finds none.
//
// class: ok | run ("start launcher: …") | stderr | stdout ("launcher stdout: …") | other (timeout).
// The daemon writes <dir>/marker.<its pid> ("<pid> <unix nanos>") before Done(), so the daemon of a FAILED
// Launch is found and killed too; the daemons of a group (by their markers) and any stuck launcher are killed at
// the end of each group, whatever happened.
const (
	handlerA    = "verif-c20-a"
	handlerB    = "verif-c20-b"
	envBase     = "VERIF_C20_BASE" // set once, before the first Launch; scenario parameters travel in <base>/current
	envLife     = "VERIF_C20_LIFE"
	envPause    = "VERIF_PAUSE_LAUNCH_AFTERSTART"
	lateAfter   = 100 * time.Millisecond // the daemon's late stderr write / late marker, after Done()
	surviveWait = 300 * time.Millisecond // when the caller looks at the daemon again, after Launch returned
)

func init() {
	// the main goroutine keeps the process's main OS thread: "Done() called directly" is then on the main thread, and
	// the goroutine variants are certainly on another one
	runtime.LockOSThread()
	daemon.Register(handlerA, func() { c20Daemon(handlerA) })
	daemon.Register(handlerB, func() { c20Daemon(handlerB) })
}

func main() {
	lv := launcherVariant()
	if strings.Contains(lv, "pre-stdout") {
		os.Stdout.WriteString("c20: starting up\n") // a program whose init / main prints before Run() takes over
	}
	if daemon.Run() {
		if !handlerRan.Load() {
			launcherAfterRun(lv) // this process was the launcher: what a program may still do before it exits
		}
		os.Exit(0)
	}
	hk.Main("C20", runC20)
}

var handlerRan atomic.Bool

// launcherVariant: what the launcher PROGRAM does around Run() in the current scenario (4th line of <base>/current);
// empty in the top-level harness process (the base directory is not in its initial environment).
func launcherVariant() string {
	base := os.Getenv(envBase)
	if base == "" {
		return ""
	}
	b, err := os.ReadFile(filepath.Join(base, "current"))
	if err != nil {
		return ""
	}
	f := strings.Split(strings.TrimSpace(string(b)), "\n")
	if len(f) >= 4 {
		return f[3]
	}
	return ""
}

// launcherAfterRun: Run() has returned true in the launcher (the daemon called Done() or exited); a real program
// may print a farewell line, flush logs, or do clean-up work before it exits. Variants are joined with "+".
func launcherAfterRun(lv string) {
	for _, v := range strings.Split(lv, "+") {
		switch {
		case v == "post-stdout-short":
			os.Stdout.WriteString("bye\n")
		case v == "post-stdout-long":
			os.Stdout.WriteString(strings.Repeat("launcher done. ", 300) + "\n")
		case v == "post-stdout-4":
			os.Stdout.WriteString("done")
		case v == "post-stdout-bin":
			os.Stdout.Write([]byte{0xff, 0xfe, 0x00, 0x01, 0x7f, 0x80, 0x00, 0x00})
		case v == "post-stderr":
			os.Stderr.WriteString("c20 launcher: done\n")
		case strings.HasPrefix(v, "linger-"):
			if d, err := time.ParseDuration(strings.TrimPrefix(v, "linger-")); err == nil {
				time.Sleep(d)
			}
		}
	}
}

func variantToken(v, lv string) string {
	if lv == "" {
		return v
	}
	return v + "/" + lv
}

func orNone(s string) string {
	if s == "" {
		return "plain"
	}
	return s
}

func lingerOf(lv string) time.Duration {
	for _, v := range strings.Split(lv, "+") {
		if strings.HasPrefix(v, "linger-") {
			if d, err := time.ParseDuration(strings.TrimPrefix(v, "linger-")); err == nil {
				return d
			}
		}
	}
	return 0
}

// c20Daemon is the registered handler: marker, optional stderr line, optional delay, Done(), optional late
// stderr line, late marker, live on.
func c20Daemon(self string) {
	handlerRan.Store(true)
	// the scenario (directory, delay, stderr variant) is read from <base>/current, not from the environment: the
	// caller's environment at the time of Launch is not part of the property
	dir, delayStr, variant := "", "", ""
	if base := os.Getenv(envBase); base != "" {
		if b, err := os.ReadFile(filepath.Join(base, "current")); err == nil {
			f := strings.Split(strings.TrimSpace(string(b)), "\n")
			if len(f) >= 3 {
				dir, delayStr, variant = f[0], f[1], f[2]
			}
		}
	}
	if variant == "handler-locked-goroutine" {
		// the whole handler runs on a goroutine of its own that is wired to an OS thread (not the process's main
		// thread: the main goroutine stays locked to that one, see init)
		fin := make(chan struct{})
		go func() {
			defer close(fin)
			runtime.LockOSThread()
			c20Body(self, dir, delayStr, "handler-locked-goroutine")
		}()
		<-fin
		return
	}
	c20Body(self, dir, delayStr, variant)
}

func c20Body(self, dir, delayStr, variant string) {
	pid := os.Getpid()
	life := 20 * time.Second // everything needed from the environment is read before a variant scrubs it
	if d, err := time.ParseDuration(os.Getenv(envLife)); err == nil && d > 0 {
		life = d
	}
	if dir != "" {
		tmp := filepath.Join(dir, fmt.Sprintf(".tmp.%d", pid))
		if err := os.WriteFile(tmp, []byte(fmt.Sprintf("%d %d %s\n", pid, time.Now().UnixNano(), self)), 0o644); err == nil {
			os.Rename(tmp, filepath.Join(dir, fmt.Sprintf("marker.%d", pid)))
		}
	}
	if variant == "before" || variant == "both" {
		fmt.Fprintf(os.Stderr, "c20 daemon %d: starting up\n", pid)
	}
	if d, err := time.ParseDuration(delayStr); err == nil && d > 0 {
		time.Sleep(d)
	}
	switch variant {
	case "exit":
		os.Exit(3)
	case "panic":
		panic("c20 daemon: dies before Done()")
	case "unsetenv": // so that helpers started from os.Args[0] do not become daemons again
		os.Unsetenv("ENV_DAEMON_NAME")
		os.Unsetenv("ENV_DAEMON_FLAG")
	case "clearenv":
		os.Clearenv()
	}
	if dir != "" {
		os.WriteFile(filepath.Join(dir, fmt.Sprintf("predone.%d", pid)), []byte(fmt.Sprintf("%d\n", time.Now().UnixNano())), 0o644)
	}
	// which goroutine / OS thread calls Done() is the handler's business: directly, from a fresh goroutine while the
	// handler waits, or from a goroutine wired to its own OS thread
	var derr error
	switch variant {
	case "done-goroutine":
		ch := make(chan error, 1)
		go func() { ch <- daemon.Done() }()
		derr = <-ch
	case "done-locked-goroutine":
		ch := make(chan error, 1)
		go func() {
			runtime.LockOSThread()
			ch <- daemon.Done()
		}()
		derr = <-ch
	default:
		derr = daemon.Done()
	}
	if dir != "" {
		msg := "ok"
		if derr != nil {
			msg = derr.Error()
		}
		os.WriteFile(filepath.Join(dir, fmt.Sprintf("done.%d", pid)), []byte(fmt.Sprintf("%d %s\n", time.Now().UnixNano(), msg)), 0o644)
	}
	time.Sleep(lateAfter)
	if variant == "after" || variant == "both" {
		// with a broken pipe as fd 2 this write raises SIGPIPE and the Go runtime lets it kill the process
		fmt.Fprintf(os.Stderr, "c20 daemon %d: serving\n", pid)
	}
	if dir != "" {
		os.WriteFile(filepath.Join(dir, fmt.Sprintf("late.%d", pid)), []byte(fmt.Sprintf("%d\n", time.Now().UnixNano())), 0o644)
	}
	time.Sleep(life)
}

type procStat struct {
	ok    bool
	state byte
	ppid  int
}

func readStat(pid int) procStat {
	b, err := os.ReadFile(fmt.Sprintf("/proc/%d/stat", pid))
	if err != nil {
		return procStat{}
	}
	// pid (comm) state ppid ...
	i := bytes.LastIndexByte(b, ')')
	if i < 0 {
		return procStat{}
	}
	f := strings.Fields(string(b[i+1:]))
	if len(f) < 2 {
		return procStat{}
	}
	pp, _ := strconv.Atoi(f[1])
	return procStat{ok: true, state: f[0][0], ppid: pp}
}

func alive(pid int) bool {
	st := readStat(pid)
	return st.ok && st.state != 'Z' && st.state != 'X'
}

// children of this process (any thread may have forked them)
func childrenOf(parent int) []int {
	var res []int
	ents, _ := os.ReadDir("/proc")
	for _, e := range ents {
		pid, err := strconv.Atoi(e.Name())
		if err != nil || pid == parent {
			continue
		}
		if st := readStat(pid); st.ok && st.ppid == parent { // a zombie child is a launcher that was not reaped
			res = append(res, pid)
		}
	}
	return res
}

// strays: every process whose initial environment carries our base directory (launchers and daemons of this run)
func strays(base string) []int {
	var res []int
	needle := []byte(envBase + "=" + base + "\x00")
	self := os.Getpid()
	ents, _ := os.ReadDir("/proc")
	for _, e := range ents {
		pid, err := strconv.Atoi(e.Name())
		if err != nil || pid == self {
			continue
		}
		b, err := os.ReadFile(fmt.Sprintf("/proc/%d/environ", pid))
		if err != nil {
			continue
		}
		if bytes.Contains(append(b, 0), needle) && alive(pid) {
			res = append(res, pid)
		}
	}
	sort.Ints(res)
	return res
}

// groupPids: the daemons that wrote a marker into the group's directory and are running
func groupPids(dir string) []int {
	var res []int
	ents, _ := os.ReadDir(dir)
	for _, e := range ents {
		if strings.HasPrefix(e.Name(), "marker.") {
			if p, err := strconv.Atoi(strings.TrimPrefix(e.Name(), "marker.")); err == nil && alive(p) {
				res = append(res, p)
			}
		}
	}
	sort.Ints(res)
	return res
}

func killAndWait(pids []int) {
	for _, p := range pids {
		syscall.Kill(p, syscall.SIGKILL)
	}
	deadline := time.Now().Add(3 * time.Second)
	for time.Now().Before(deadline) {
		any := false
		for _, p := range pids {
			if alive(p) {
				any = true
			}
		}
		if !any {
			return
		}
		time.Sleep(5 * time.Millisecond)
	}
}

func markerInfo(dir string, pid int) (int, string, bool) {
	b, err := os.ReadFile(filepath.Join(dir, fmt.Sprintf("marker.%d", pid)))
	if err != nil {
		return 0, "", false
	}
	f := strings.Fields(string(b))
	if len(f) < 1 {
		return 0, "", true
	}
	p, _ := strconv.Atoi(f[0])
	h := ""
	if len(f) >= 3 {
		h = f[2]
	}
	return p, h, true
}

func markerPid(dir string, pid int) (int, bool) {
	p, _, ok := markerInfo(dir, pid)
	return p, ok
}

type launchObs struct {
	pid        int
	err        error
	timedOut   bool
	class      string
	pidMatches bool
	marker     bool
	alive      bool
	ppid       int
	reparented bool
	name       string // handler asked for
	ranHandler string // handler the returned pid runs (from its marker)
	rightH     bool
	doneAtRet  bool
	doneNil    bool
	survived   bool
	stateLater string // /proc state when looked at again ("gone" when the process has disappeared)
	took       time.Duration
	started    time.Time
	doneDuring time.Duration // Launch call -> the daemon entering Done() (from its predone marker); < 0 unknown
	returned   time.Time
}

func classify(err error) string {
	switch {
	case err == nil:
		return "ok"
	case strings.HasPrefix(err.Error(), "start launcher:"):
		return "run"
	case strings.HasPrefix(err.Error(), "launcher stdout:"):
		return "stdout"
	default:
		return "stderr"
	}
}

func b01(b bool) string {
	if b {
		return "1"
	}
	return "0"
}

// oneLaunch calls Launch with a bound. direct: on the calling goroutine (sequences: consecutive launches of one
// goroutine), a watchdog kills the stuck launcher instead; otherwise on a goroutine of its own.
func oneLaunch(dir, name string, limit time.Duration, direct bool) launchObs {
	type res struct {
		pid int
		err error
	}
	var o launchObs
	o.name = name
	o.doneDuring = -1
	t0 := time.Now()
	o.started = t0
	call := func() (r res) {
		defer func() {
			if p := recover(); p != nil {
				r = res{0, fmt.Errorf("panic: %v", p)}
			}
		}()
		pid, err := daemon.Launch(name)
		return res{pid, err}
	}
	if direct {
		var hung atomic.Bool
		wd := time.AfterFunc(limit, func() {
			hung.Store(true)
			killAndWait(childrenOf(os.Getpid()))
		})
		r := call()
		wd.Stop()
		o.pid, o.err = r.pid, r.err
		if hung.Load() {
			o.timedOut = true
			o.err = fmt.Errorf("Launch did not return within %v", limit)
		}
	} else {
		ch := make(chan res, 1)
		go func() { ch <- call() }()
		select {
		case r := <-ch:
			o.pid, o.err = r.pid, r.err
		case <-time.After(limit):
			o.timedOut = true
			o.err = fmt.Errorf("Launch did not return within %v", limit)
		}
	}
	o.took = time.Since(t0)
	o.returned = time.Now()
	// observations at the moment Launch returned
	if o.timedOut {
		o.class = "other"
		return o
	}
	o.class = classify(o.err)
	if o.err == nil && o.pid > 0 {
		mp, h, ok := markerInfo(dir, o.pid)
		o.marker = ok
		o.pidMatches = ok && mp == o.pid
		o.ranHandler = h
		o.rightH = ok && h == name
		pb, perr := os.ReadFile(filepath.Join(dir, fmt.Sprintf("predone.%d", o.pid)))
		o.doneAtRet = perr == nil
		if ns, err := strconv.ParseInt(strings.TrimSpace(string(pb)), 10, 64); perr == nil && err == nil {
			o.doneDuring = time.Unix(0, ns).Sub(t0)
		}
		st := readStat(o.pid)
		o.alive = st.ok && st.state != 'Z' && st.state != 'X'
		o.ppid = st.ppid
		o.reparented = o.alive && st.ppid != os.Getpid()
	}
	return o
}

var (
	reViol = regexp.MustCompile(`delay=(\d+)ms pause=(\d+)ms n=(\d+)`)
	reCase = regexp.MustCompile(`E (\d+) (\d+) (\d+) \d+ `)
)

func replayScenario(path string) (int, int, int, bool) {
	b, err := os.ReadFile(path)
	if err != nil {
		return 0, 0, 0, false
	}
	for _, re := range []*regexp.Regexp{reViol, reCase} {
		if m := re.FindSubmatch(b); m != nil {
			d, _ := strconv.Atoi(string(m[1]))
			p, _ := strconv.Atoi(string(m[2]))
			n, _ := strconv.Atoi(string(m[3]))
			if n >= 1 && n <= 64 && d <= 10000 && p <= 10000 {
				return d, p, n, true
			}
		}
	}
	return 0, 0, 0, false
}

func runC20(e *hk.Env) error {
	// Launch re-executes os.Args[0]: it must resolve no matter what the working directory is
	if exe, err := os.Executable(); err == nil {
		os.Args[0] = exe
	} else if abs, err := filepath.Abs(os.Args[0]); err == nil {
		os.Args[0] = abs
	}
	absArgv0, relArgv0, relGroups := os.Args[0], "", 0
	if cwd, err := os.Getwd(); err == nil && filepath.IsAbs(absArgv0) {
		if rel, err := filepath.Rel(cwd, absArgv0); err == nil && !filepath.IsAbs(rel) {
			if !strings.Contains(rel, "/") {
				rel = "./" + rel
			}
			if _, err := os.Stat(rel); err == nil {
				relArgv0 = rel
			}
		}
	}
	defer func() { os.Args[0] = absArgv0; e.Stats["groups_with_relative_argv0"] = relGroups }()
	base := filepath.Join(e.Out, "c20")
	if v := os.Getenv("VERIF_DIR"); v != "" {
		base = filepath.Join(v, ".build", fmt.Sprintf("c20-%d", os.Getpid()))
	}
	os.MkdirAll(base, 0o755)
	defer os.RemoveAll(base)
	savedPause, hadPause := os.LookupEnv(envPause)
	defer func() {
		if hadPause {
			os.Setenv(envPause, savedPause)
		} else {
			os.Unsetenv(envPause)
		}
		os.Unsetenv(envBase)
		os.Unsetenv(envLife)
	}()

	delays := []int{0, 50, 300}
	pauses := []int{0, 200}
	conc := []int{1, 4}
	rounds := 1
	stress, seqRounds := 4, 2
	lingers := []int{500, 3500} // ms the launcher stays around after Run() returned; timers longer than the longest are out of reach
	if e.Thorough() {
		lingers = []int{500, 3500, 6500, 12000}
		stress, seqRounds = 20, 10
		delays = []int{0, 5, 20, 50, 100, 300}
		pauses = []int{0, 50, 200, 500}
		conc = []int{1, 4, 8}
		rounds = 5
	}
	if e.Replay != "" {
		// replay file of the runner: {"case": "VIOL delay=0ms pause=200ms n=4 …"} or {"case": "E 0 200 4 …"}
		if d, p, n, ok := replayScenario(e.Replay); ok {
			delays, pauses, conc, rounds = []int{d}, []int{p}, []int{n}, 3
			e.Stats["replay"] = fmt.Sprintf("delay=%dms pause=%dms n=%d x3", d, p, n)
		} else {
			e.Stats["replay"] = "scenario not recognised in " + e.Replay + ": full sweep"
		}
	}
	os.Setenv(envLife, "20s")
	os.Setenv(envBase, base)
	self := os.Getpid()
	cases, viols, groups, leakedTotal, notSurvived, hookMissing, timeouts, expectedFailures := 0, 0, 0, 0, 0, 0, 0, 0
	observed := map[string]string{}
	forcedCases, forcedAchieved := 0, 0
	hookDetail := ""
	classHist := map[string]int{}
	ppidHist := map[string]int{}
	variantHist := map[string]int{}
	var maxTook time.Duration

	type scenario struct {
		delay, pause, n int
		variant         string
		direct          bool   // a step of a sequence: Launch is called on the sweep's own goroutine
		lv              string // launcher-program variant: what the launcher does around Run()
	}
	// observed only (what the code does is recorded, not judged): the launcher program prints to stderr after Run(),
	// or to stdout BEFORE Run() — the property says nothing about output of the launcher program itself
	observeOnly := func(lv string) bool { return strings.Contains(lv, "post-stderr") || strings.Contains(lv, "pre-stdout") }
	expectFail := func(v string) bool { return v == "exit" || v == "panic" }
	var scenarios []scenario
	for _, pause := range pauses {
		for _, delay := range delays {
			for _, n := range conc {
				scenarios = append(scenarios, scenario{delay, pause, n, "none", false, ""})
			}
		}
	}
	if e.Replay == "" {
		// slow daemons: a launcher that stops waiting after a grace period returns before Done(). Quick reaches 1 s,
		// thorough 4.5 s; a grace timer longer than the longest delay tested is only caught by the extracted action list.
		for _, n := range conc[:min(2, len(conc))] {
			scenarios = append(scenarios, scenario{1000, 0, n, "none", false, ""})
			if e.Thorough() {
				scenarios = append(scenarios, scenario{4500, 0, n, "none", false, ""})
			}
		}
		// handlers that scrub their environment before Done(), and daemons that die before Done()
		for _, v := range []string{"unsetenv", "clearenv", "exit", "panic"} {
			for _, n := range conc[:min(2, len(conc))] {
				scenarios = append(scenarios, scenario{delays[0], pauses[0], n, v, false, ""})
			}
		}
		// Done() called from another goroutine / OS thread than the handler's
		for _, v := range []string{"done-goroutine", "done-locked-goroutine", "handler-locked-goroutine"} {
			for _, n := range conc[:min(2, len(conc))] {
				scenarios = append(scenarios, scenario{delays[0], pauses[0], n, v, false, ""})
			}
			scenarios = append(scenarios, scenario{delays[len(delays)/2], pauses[len(pauses)-1], 1, v, false, ""})
		}
		// sequences in one goroutine: launches that fail (daemon dies before Done()) followed by normal ones
		seq := []string{"exit", "none", "panic", "none", "none", "exit", "exit", "none", "unsetenv", "panic", "after", "none"}
		for k := 0; k < seqRounds; k++ {
			for _, v := range seq {
				scenarios = append(scenarios, scenario{delays[0], pauses[0], 1, v, true, ""})
			}
		}
		// the launcher PROGRAM around Run(): prints after Run() returned (the pid must still be the daemon's), lingers
		// before it exits (clean-up work: Launch returns when the launcher is gone, nil + the right pid, daemon alive)
		for _, v := range []string{"post-stdout-short", "post-stdout-long", "post-stdout-4", "post-stdout-bin", "post-stderr", "pre-stdout"} {
			scenarios = append(scenarios, scenario{delays[0], pauses[0], 1, "none", false, v})
		}
		scenarios = append(scenarios, scenario{delays[0], pauses[0], 4, "none", false, "post-stdout-short"})
		for _, d := range lingers {
			scenarios = append(scenarios, scenario{delays[0], pauses[0], 1, "none", false, fmt.Sprintf("linger-%dms", d)})
		}
		// a daemon slow to reach Done() combined with a launcher slow to leave
		scenarios = append(scenarios, scenario{300, 0, 4, "none", false, fmt.Sprintf("linger-%dms", lingers[0])})
		scenarios = append(scenarios, scenario{300, 0, 1, "none", false, fmt.Sprintf("linger-%dms+post-stdout-short", lingers[len(lingers)-1])})
		// many overlapping launches under two names: state shared between Launch calls shows as a wrong handler
		for k := 0; k < stress; k++ {
			scenarios = append(scenarios, scenario{0, 0, 8, "none", false, ""})
		}
	}
	// the stderr variants on the two extreme timings (thorough: on every timing)
	for _, v := range []string{"before", "after", "both"} {
		if e.Thorough() || e.Replay != "" {
			for _, pause := range pauses {
				for _, delay := range delays {
					for _, n := range conc {
						scenarios = append(scenarios, scenario{delay, pause, n, v, false, ""})
					}
				}
			}
			continue
		}
		for _, n := range conc {
			scenarios = append(scenarios, scenario{delays[0], pauses[0], n, v, false, ""})
			scenarios = append(scenarios, scenario{delays[len(delays)/2], pauses[len(pauses)-1], n, v, false, ""})
		}
	}

	type group struct {
		sc       scenario
		round    int
		dir      string
		obs      []launchObs
		gone     bool
		leaked   []int
		returned time.Time // when the last Launch of the group returned
	}
	// finalize: look at the daemons again (surviveWait after Launch returned), write the cases, clean up
	finalize := func(g *group) {
		if w := surviveWait - time.Since(g.returned); w > 0 {
			time.Sleep(w)
		}
		for i := range g.obs {
			o := &g.obs[i]
			if o.err != nil || o.pid <= 0 {
				continue
			}
			// the late marker appears lateAfter after Done(); give a slow machine up to 2 s, a dead daemon none
			deadline := time.Now().Add(2 * time.Second)
			for {
				st := readStat(o.pid)
				running := st.ok && st.state != 'Z' && st.state != 'X'
				_, lerr := os.Stat(filepath.Join(g.dir, fmt.Sprintf("late.%d", o.pid)))
				if !st.ok {
					o.stateLater = "gone"
				} else {
					o.stateLater = string(st.state)
				}
				if running && lerr == nil {
					o.survived = true
					break
				}
				if !running || time.Now().After(deadline) {
					break
				}
				time.Sleep(10 * time.Millisecond)
			}
		}
		for i := range g.obs {
			o := &g.obs[i]
			if o.err == nil && o.pid > 0 {
				if b, err := os.ReadFile(filepath.Join(g.dir, fmt.Sprintf("done.%d", o.pid))); err == nil {
					f := strings.SplitN(strings.TrimSpace(string(b)), " ", 2)
					o.doneNil = len(f) == 2 && f[1] == "ok"
					if !o.doneNil && len(f) == 2 {
						o.stateLater += " Done()=" + strconv.Quote(f[1])
					}
				}
			}
		}
		if observeOnly(g.sc.lv) {
			for i, o := range g.obs {
				errText := ""
				if o.err != nil {
					errText = o.err.Error()
				}
				what := fmt.Sprintf("class=%s pid_matches=%s err=%q", o.class, b01(o.pidMatches), errText)
				observed[g.sc.lv] = what
				e.Case("L", g.sc.lv, strconv.Itoa(i), o.class, b01(o.pidMatches), strconv.Itoa(o.pid), hk.Hxs(errText))
			}
			killAndWait(append(groupPids(g.dir), childrenOf(self)...))
			return
		}
		if expectFail(g.sc.variant) {
			// the daemon died before Done(): Launch must say so (an error, in time) and nothing of it may be running
			left := groupPids(g.dir)
			for i, o := range g.obs {
				cases++
				expectedFailures++
				classHist["expected-failure:"+o.class]++
				variantHist[g.sc.variant]++
				errText := ""
				if o.err != nil {
					errText = o.err.Error()
				}
				e.Case("F", g.sc.variant, strconv.Itoa(g.sc.n), strconv.Itoa(i), o.class, strconv.Itoa(o.pid), strconv.Itoa(len(left)), hk.Hxs(errText))
				// the value returned BESIDE the error is outside the property (its premise is a handler that reaches Done())
				if o.err == nil || o.timedOut || len(left) > 0 {
					viols++
					e.Case("VIOL", "daemon_dies_before_done="+g.sc.variant, fmt.Sprintf("n=%d", g.sc.n), fmt.Sprintf("i=%d", i),
						fmt.Sprintf("err=%q", errText), fmt.Sprintf("pid=%d", o.pid), fmt.Sprintf("daemons_running=%v", left),
						"expected: an error, Launch returning in time, no daemon left running")
				}
			}
			killAndWait(append(groupPids(g.dir), childrenOf(self)...))
			return
		}
		for i, o := range g.obs {
			cases++
			classHist[o.class]++
			variantHist[g.sc.variant]++
			if o.err == nil {
				ppidHist[strconv.Itoa(o.ppid)]++
				if !o.survived {
					notSurvived++
				}
			}
			if o.took > maxTook {
				maxTook = o.took
			}
			errText := ""
			if o.err != nil {
				errText = o.err.Error()
			}
			e.Case("E", strconv.Itoa(g.sc.delay), strconv.Itoa(g.sc.pause), strconv.Itoa(g.sc.n), strconv.Itoa(i), o.class,
				b01(o.pidMatches), b01(o.marker), b01(o.alive), b01(o.reparented), b01(g.gone), b01(o.doneAtRet), b01(o.rightH),
				b01(o.doneNil), b01(o.survived), variantToken(g.sc.variant, g.sc.lv), hk.Hxs(errText))
			good := o.err == nil && o.pidMatches && o.marker && o.alive && o.reparented && g.gone && o.doneAtRet && o.rightH && o.doneNil && o.survived
			if !good {
				viols++
				e.Case("VIOL", fmt.Sprintf("delay=%dms", g.sc.delay), fmt.Sprintf("pause=%dms", g.sc.pause), fmt.Sprintf("n=%d", g.sc.n),
					"daemon_stderr="+g.sc.variant, "launcher_program="+orNone(g.sc.lv), fmt.Sprintf("i=%d", i), fmt.Sprintf("err=%q", errText), fmt.Sprintf("pid=%d", o.pid),
					"pid_matches="+b01(o.pidMatches), "marker_at_return="+b01(o.marker), "alive_at_return="+b01(o.alive),
					fmt.Sprintf("ppid=%d", o.ppid), "launcher_gone="+b01(g.gone), "done_entered_at_return="+b01(o.doneAtRet),
					"asked="+o.name, "runs="+o.ranHandler, "right_handler_and_distinct_pid="+b01(o.rightH), "done_returned_nil="+b01(o.doneNil),
					"sequence_step="+b01(g.sc.direct),
					fmt.Sprintf("survived_%dms_after_return=%s", surviveWait.Milliseconds(), b01(o.survived)), "state_later="+o.stateLater,
					fmt.Sprintf("daemons_running_unclaimed=%v", g.leaked))
			}
			if i == 0 && g.round == 0 {
				e.Sample("samples", map[string]any{"delay_ms": g.sc.delay, "pause_ms": g.sc.pause, "concurrent": g.sc.n,
					"daemon_stderr": g.sc.variant, "err": errText, "pid": o.pid, "daemon_ppid": o.ppid, "survived": o.survived,
					"took_ms": o.took.Milliseconds()}, 8)
			}
		}
		// always clean up: claimed daemons, leaked daemons, stuck launchers
		// (between groups no launcher is legitimately running: whatever child is left is stuck)
		killAndWait(append(groupPids(g.dir), childrenOf(self)...))
		if left := groupPids(g.dir); len(left) > 0 {
			e.Count("cleanup_left_running", len(left))
		}
	}
	var pend []*group
	defer func() {
		// whatever happens (panic included): nothing of ours stays behind
		killAndWait(append(strays(base), childrenOf(self)...))
		if left := strays(base); len(left) > 0 {
			e.Count("cleanup_left_running", len(left))
		}
	}()
	drain := func(all bool) {
		for len(pend) > 0 && (all || time.Since(pend[0].returned) >= surviveWait) {
			finalize(pend[0])
			pend = pend[1:]
		}
	}

	for round := 0; round < rounds; round++ {
		for _, sc := range scenarios {
			groups++
			g := &group{sc: sc, round: round, dir: filepath.Join(base, fmt.Sprintf("g%d", groups))}
			os.MkdirAll(g.dir, 0o755)
			tmp := filepath.Join(base, ".current.tmp")
			os.WriteFile(tmp, []byte(fmt.Sprintf("%s\n%dms\n%s\n%s\n", g.dir, sc.delay, sc.variant, sc.lv)), 0o644)
			os.Rename(tmp, filepath.Join(base, "current"))
			if sc.pause > 0 {
				os.Setenv(envPause, fmt.Sprintf("%dms", sc.pause))
			} else {
				os.Unsetenv(envPause)
			}
			// how the program was invoked is not the library's business: every third group runs as a program started
			// through a RELATIVE path (argv[0] = ../x/c20, resolved against the working directory the three processes share)
			if relArgv0 != "" && groups%3 == 2 {
				os.Args[0] = relArgv0
				relGroups++
			} else {
				os.Args[0] = absArgv0
			}
			g.obs = make([]launchObs, sc.n)
			limit := time.Duration(sc.delay+sc.pause)*time.Millisecond + lingerOf(sc.lv) + 3*time.Second
			var wg sync.WaitGroup
			if sc.direct {
				name := handlerA
				if groups%2 == 1 {
					name = handlerB
				}
				g.obs[0] = oneLaunch(g.dir, name, limit, true)
			}
			for i := 0; i < sc.n && !sc.direct; i++ {
				wg.Add(1)
				go func(i int) {
					defer wg.Done()
					name := handlerA
					if (i+groups)%2 == 1 {
						name = handlerB
					}
					g.obs[i] = oneLaunch(g.dir, name, limit, false)
				}(i)
			}
			wg.Wait()
			g.returned = time.Now()
			pend = append(pend, g)
			// each Launch has its own daemon
			seenPid := map[int]int{}
			for _, o := range g.obs {
				if o.err == nil {
					seenPid[o.pid]++
				}
			}
			for i := range g.obs {
				o := &g.obs[i]
				if o.err == nil && seenPid[o.pid] > 1 {
					o.rightH = false
				}
				if o.timedOut {
					timeouts++
				}
				// the forced schedule needs the hook: a successful Launch cannot be faster than the launcher's pause
				if sc.pause > 0 && o.err == nil && o.took < time.Duration(sc.pause)*time.Millisecond {
					hookMissing++
					hookDetail = fmt.Sprintf("%s=%dms but Launch returned after %dms", envPause, sc.pause, o.took.Milliseconds())
				}
				// … and it is ACHIEVED when the daemon entered Done() while the launcher was still paused behind Start
				// (a pause placed elsewhere, e.g. before the daemon is started, delays Launch as well but forces nothing)
				if sc.pause >= sc.delay+150 && o.err == nil && o.doneDuring >= 0 {
					forcedCases++
					if o.doneDuring < time.Duration(sc.pause)*time.Millisecond {
						forcedAchieved++
					}
				}
			}
			// the launchers are gone: this process has no child left (daemons of earlier groups are not our children)
			g.gone = len(childrenOf(self)) == 0
			// daemons that are running: claimed by a successful Launch, or leaked by a failed one
			claimed := map[int]bool{}
			nFailed := 0
			for _, o := range g.obs {
				if o.err == nil {
					claimed[o.pid] = true
				} else {
					nFailed++
				}
			}
			if nFailed > 0 && !expectFail(sc.variant) && !observeOnly(sc.lv) {
				// a failed Launch's daemon may still be on its way to the marker: give it a moment before counting
				time.Sleep(time.Duration(sc.delay+150) * time.Millisecond)
				leakedMarkers := 0
				for _, p := range groupPids(g.dir) {
					if !claimed[p] && readStat(p).ppid != self {
						g.leaked = append(g.leaked, p)
						if mp, ok := markerPid(g.dir, p); ok && mp == p {
							leakedMarkers++
						}
					}
				}
				leakedTotal += len(g.leaked)
				// a failed Launch returns no pid: "its daemon is alive" is judged on the group — as many unclaimed
				// daemons (with their markers) are running as Launch calls failed
				for i := range g.obs {
					if g.obs[i].err != nil {
						g.obs[i].alive = len(g.leaked) >= nFailed
						g.obs[i].marker = leakedMarkers >= nFailed
					}
				}
			}
			drain(false)
			if timeouts >= 3 {
				e.Stats["aborted"] = fmt.Sprintf("after %d Launch calls that did not return (scenario %d of %d)", timeouts, groups, len(scenarios)*rounds)
				break
			}
		}
		if timeouts >= 3 {
			break
		}
	}
	drain(true)
	e.Stats["cases"] = cases
	e.Stats["groups"] = groups
	e.Stats["harness_violations"] = viols
	e.Stats["outcome_classes"] = classHist
	e.Stats["daemon_parent_pids"] = ppidHist
	e.Stats["daemons_leaked_by_failed_launches"] = leakedTotal
	e.Stats["daemons_dead_after_return"] = notSurvived
	e.Stats["daemon_stderr_variants"] = variantHist
	e.Stats["max_launch_ms"] = maxTook.Milliseconds()
	e.Stats["delays_ms"] = delays
	e.Stats["pauses_ms"] = pauses
	e.Stats["concurrency"] = conc
	e.Stats["rounds"] = rounds
	e.Stats["distinct_nontrivial"] = len(scenarios) - max(0, stress-1)
	e.Stats["launch_timeouts"] = timeouts
	e.Stats["hook_missing"] = hookMissing
	e.Stats["forced_schedule_cases"] = forcedCases
	e.Stats["forced_schedule_achieved"] = forcedAchieved // Done() entered while the launcher was paused behind Start
	if os.Getenv("VERIF_C20_UNREADABLE") == "1" {
		e.Stats["launcher_shape"] = "not readable by the extractor: the forced schedule must be shown to have run"
		if hookMissing == 0 && (forcedCases == 0 || 2*forcedAchieved < forcedCases) {
			return fmt.Errorf("launcher shape not readable and the forced schedule was not achieved at run time (%d of %d forced launches had Done() entered during the pause): the ordering Notify-before-Done is not covered", forcedAchieved, forcedCases)
		}
	}
	e.Stats["expected_failures_checked"] = expectedFailures
	e.Stats["launcher_linger_ms_explored"] = lingers
	e.Stats["launcher_program_variants"] = "post-stdout-short/long/4/bin, linger, linger+post-stdout (judged); post-stderr, pre-stdout (observed only)"
	e.Stats["observed_only"] = observed
	if hookMissing > 0 {
		return fmt.Errorf("hook missing: forced schedule not achieved (%s, %d launches): the verifPause(\"launch.afterStart\") call right after cmd.Start() in daemon.launch is gone or no longer pauses", hookDetail, hookMissing)
	}
	return nil
}
