package main

import "verifharness/tl"

// C06: every accepted task is started exactly once, rejected tasks never; progress while the context is live.
// Families (each in a process of its own): Task values of every dynamic type (pointer, func adapter, structs with
// slice / map fields, equal comparable values, zero-size values) must each start exactly once; pushes that time out against a full lane; cancel inside every
// Done()/Err() call of PushTask; cancel when everything is idle after work was done; cancel points with a task
// in the queue goroutine's hands; work sharing as the progress case with a pinned worker; back-to-back
// New/push/cancel/Wait; random stress (cancel after everything ran => progress is checked; cancel at a random
// moment => exactly-once under cancellation).
func main() {
	tl.Main("C06", []tl.Family{{Name: "scripted", Run: scripted}, {Name: "timeoutrace", Run: timeoutrace}, {Name: "stress", Run: stress},
		{Name: "panicnil1", Run: panicnil1, Env: []string{"GODEBUG=panicnil=1"}}})
}

func scripted(en *tl.Engine) {
	reps := 1
	if en.E.Thorough() {
		reps = 8
	}
	for rep := 0; rep < reps; rep++ {
		for _, c := range tl.Configs() {
			n, q := c[0], c[1]
			en.Timeouts(n, q)
			en.TaskKinds(n, q, 3)
			en.Reentrant(n, q)
			en.DropHandle(n, q)
			en.NilTasks(n, q, 2)
			en.PanicNil(n, q)
			for k := 0; k < 4; k++ {
				en.CancelInsidePush(n, q, k, k%2 == 1)
			}
			en.IdleAfterWork(n, q, 1+q)
			for _, s := range []string{"Q1", "Q2", "P1"} {
				en.CancelPoint(n, q, s, "pinned", false)
			}
			en.CancelPoint(n, q, "Q2", "flight", false)
			if n >= 2 {
				en.WorkSharing(n, q, []int{0}, 0, q+2)
			}
		}
		for i := 0; i < 18; i++ {
			en.BackToBack(2+i%3, 1+(i/3)%3, i%3, i)
		}
	}
}

// a timeout racing a drain: the lane starts to drain at T+delta, delta swept around 0, also on a single P
func timeoutrace(en *tl.Engine) {
	reps := 2
	if en.E.Thorough() {
		reps = 12
	}
	for _, c := range [][2]int{{1, 1}, {1, 2}, {2, 1}, {2, 2}, {3, 1}, {1, 0}, {2, 0}, {2, 3}} {
		en.TimeoutRaces(c[0], c[1], reps)
	}
	en.RequireTimeoutRace()
	// volume: one worker goroutine handles far more than 2^16 tasks
	en.Volume(1, 3, 70000)
	if en.E.Thorough() {
		en.Volume(2, 1, 300000)
	}
}

func stress(en *tl.Engine) {
	small, big := 400, 40
	if en.E.Thorough() {
		small, big = 4000, 600
	}
	for i := 0; i < small; i++ {
		n, q := 1+en.Rng.Intn(3), en.Rng.Intn(3)
		en.Stress(n, q, tl.StressOpt{PanicPct: 10, Observers: 0, CancelMode: 0, Kinds: true}, i)
	}
	for i := 0; i < big; i++ {
		n, q := 1+en.Rng.Intn(4), en.Rng.Intn(4)
		en.Stress(n, q, tl.StressOpt{Big: true, PanicPct: 10, Observers: 1, CancelMode: 0, Kinds: true}, i)
	}
}

// the same panic scenarios in a process running with GODEBUG=panicnil=1 (panic(nil) makes recover() return nil)
func panicnil1(en *tl.Engine) {
	for _, c := range tl.Configs() {
		en.PanicNil(c[0], c[1])
	}
	for i := 0; i < 60; i++ {
		n, q := 1+en.Rng.Intn(3), en.Rng.Intn(3)
		en.Stress(n, q, tl.StressOpt{PanicPct: 40, Observers: 0, CancelMode: 1, Kinds: true}, i)
	}
}
