package main

import (
	"time"

	"verifharness/tl"
)

// C08: at most laneSize tasks at once; work sharing. Families: for laneSize 2-4 x queueSize 0-3, every target
// lane L and every set P of pinned workers with L's own worker in P and |P| < laneSize, everything pushed to
// lane L must start on a worker outside P; pinning through one lane only (the pinning tasks spread by sharing
// alone); the concurrency bound after every worker recovered panics (more never-ending tasks than workers);
// stress with tasks that stay in Start() for a while (concurrency reaches laneSize; the bound is a monitor over
// every history).
func main() {
	tl.Main("C08", []tl.Family{{Name: "idleprobe", Run: idleprobe, Background: true}, {Name: "sharing", Run: sharing}, {Name: "bound", Run: bound}, {Name: "stress", Run: stress}})
}

func reps(en *tl.Engine, quick, thorough int) int {
	if en.E.Thorough() {
		return thorough
	}
	return quick
}

func sharing(en *tl.Engine) {
	for rep := 0; rep < reps(en, 1, 5); rep++ {
		for _, c := range tl.Configs() {
			n, q := c[0], c[1]
			if n < 2 {
				en.WorkSharing(n, q, nil, 0, q+3) // no sharing possible with one worker: bound only
				continue
			}
			en.SharingSubsets(n, q)
			if n <= 3 {
				en.SharingSubsetsOneP(n, q) // GOMAXPROCS(1) before New
			}
			for m := 1; m < n; m++ {
				// all pinning tasks through the same lane: they spread over the workers by sharing alone
				en.WorkSharing(n, q, make([]int, m), 0, q+2)
				// target lane outside the pinned set
				pins := make([]int, m)
				for i := range pins {
					pins[i] = i
				}
				en.WorkSharing(n, q, pins, n-1, 2*(q+1)+1)
			}
		}
	}
}

func bound(en *tl.Engine) {
	for rep := 0; rep < reps(en, 1, 5); rep++ {
		for _, c := range tl.Configs() {
			en.BoundAfterPanics(c[0], c[1], 1+rep%3)
		}
	}
}

func stress(en *tl.Engine) {
	small, big := reps(en, 300, 3000), reps(en, 60, 800)
	for i := 0; i < small; i++ {
		n, q := 1+en.Rng.Intn(3), en.Rng.Intn(3)
		en.Stress(n, q, tl.StressOpt{PanicPct: 0, Observers: 0, SleepTasks: true, CancelMode: 1, Kinds: true}, i)
	}
	for i := 0; i < big; i++ {
		n, q := 1+en.Rng.Intn(4), en.Rng.Intn(4)
		en.Stress(n, q, tl.StressOpt{Big: true, PanicPct: 5, Observers: 0, SleepTasks: true, CancelMode: 0, Kinds: true}, i)
	}
}

// lanes created at process start and left completely idle; only after 12 s (thorough: also after 35 s) the
// pinned-worker sharing scenario runs on them. Runs in parallel to the other families.
func idleprobe(en *tl.Engine) {
	cfgs := [][2]int{{2, 1}, {3, 0}, {4, 2}}
	if en.E.Thorough() {
		en.IdleProbe(35*time.Second, cfgs)
		return
	}
	en.IdleProbe(12*time.Second, cfgs)
}
