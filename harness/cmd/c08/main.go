package main

import "verifharness/tl"

// C08: at most laneSize tasks at once; work sharing. Families: every non-empty proper subset size of pinned
// workers x target lane (everything pushed to one lane whose own worker may be pinned) for laneSize 2-4 x
// queueSize 0-3, and stress with tasks that stay in Start() for a while (concurrency reaches laneSize;
// the bound is a monitor over every history).
func main() { tl.Main("C08", run) }

func run(en *tl.Engine) {
	reps := 1
	if en.E.Thorough() {
		reps = 6
	}
	for rep := 0; rep < reps; rep++ {
		for _, c := range tl.Configs() {
			n, q := c[0], c[1]
			if n < 2 {
				en.WorkSharing(n, q, nil, 0, q+3) // no sharing possible with one worker: bound only
				continue
			}
			for m := 1; m < n; m++ {
				// pin workers through lanes 0..m-1, then everything to a pinned lane and to an unpinned one
				pins := make([]int, m)
				for i := range pins {
					pins[i] = i
				}
				en.WorkSharing(n, q, pins, 0, q+3)
				en.WorkSharing(n, q, pins, m-1, 2*(q+1)+1)
				en.WorkSharing(n, q, pins, n-1, q+2)
				// all pinning tasks through the same lane: they spread over the workers by sharing alone
				same := make([]int, m)
				en.WorkSharing(n, q, same, 0, q+2)
			}
		}
	}
	small, big := 300, 60
	if en.E.Thorough() {
		small, big = 3000, 800
	}
	for i := 0; i < small; i++ {
		n, q := 1+en.Rng.Intn(3), en.Rng.Intn(3)
		en.Stress(n, q, tl.StressOpt{PanicPct: 0, Observers: 0, SleepTasks: true, CancelMode: 1}, i)
	}
	for i := 0; i < big; i++ {
		n, q := 1+en.Rng.Intn(4), en.Rng.Intn(4)
		en.Stress(n, q, tl.StressOpt{Big: true, PanicPct: 5, Observers: 0, SleepTasks: true, CancelMode: 0}, i)
	}
}
