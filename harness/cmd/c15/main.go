package main

import (
	"bufio"
	"bytes"
	"context"
	"encoding/json"
	"errors"
	"fmt"
	"io"
	"log"
	"log/slog"
	"net"
	"net/http"
	"net/http/httptest"
	"net/http/httptrace"
	"os"
	"os/exec"
	"path/filepath"
	"regexp"
	"runtime"
	"sort"
	"strconv"
	"strings"
	"sync"
	"sync/atomic"
	"time"

	"github.com/whoisnian/glb/httpd"
	"github.com/whoisnian/glb/logger"
	"verifharness/hk"
)

// C15: Logger.Relay.
//
// A "site" is one httpd.Mux with HandleRelay(logger.New(h).Relay) for one log handler kind
// (Nano/Text/JSON) and one level threshold, writing to a recording writer; it is driven both
// through a real HTTP server (httptest) and by direct ServeHTTP calls with a ResponseRecorder.
// Every request carries a handler script (header-map only / WriteHeader / body via Write,
// io.Copy from a strings.Reader or a file / panic with a value of some kind); matched and
// unmatched routes run the same scripted handler (HandleNoRoute).  1..64 requests in flight.
//
// Case line (decimal):
//
//	E <mode 0 direct|1 server|2 server, raw half-closing client> <hkind 0 nano|1 text|2 json, + 10 if addSource, + 20 if colorful, + 100 x derivation of the Logger> <threshold> <route 0|1> <method> <reqno>
//	  <nacts> { <tag 0 nop|1 hdr|2 body|3 panic> <a> <b> }*
//	  <escaped> <wire status> <nbody> { <chunk> }* <nrec> { <tag 1 BEG|2 ERR|3 END|0 ?> <code> <ip ok> <method> <uri owner> <id owner> <pv> }*
//
// Violations judged here: "VIOL duplicate-id ...", "VIOL orphan-record ...", "VIOL undecodable-record ...",
// "VIOL panic-escaped-server-log ...".
func main() {
	// A data race found by the race detector must not hide the cases: the detector's exit code (default 66)
	// makes the runner stop before judging them. Re-run ourselves with GORACE=exitcode=3 ("harness reported a
	// problem, cases are valid"), so that a race in the code under test is reported together with the
	// failing inputs it produced (duplicate ids, records that do not pair up).
	if os.Getenv("GORACE") == "" && os.Getenv("VERIF_C15_CHILD") == "" {
		cmd := exec.Command(os.Args[0], os.Args[1:]...)
		cmd.Env = append(os.Environ(), "GORACE=exitcode=3", "VERIF_C15_CHILD=1")
		cmd.Stdout, cmd.Stderr = os.Stdout, os.Stderr
		if err := cmd.Run(); err != nil {
			if ee, ok := err.(*exec.ExitError); ok {
				os.Exit(ee.ExitCode())
			}
			fmt.Fprintln(os.Stderr, "re-exec failed:", err)
			os.Exit(3)
		}
		return
	}
	hk.Main("C15", run)
}

// ---------------------------------------------------------------- panic values

const (
	pvAbort     = 0 // http.ErrAbortHandler itself (outside the property, model only)
	pvString    = 1
	pvError     = 2
	pvInt       = 3
	pvStruct    = 4
	pvSlice     = 5
	pvNil       = 6  // panic(nil) -> *runtime.PanicNilError
	pvTypedNil  = 7  // nil pointer whose Error() dereferences
	pvErrPanics = 8  // non-nil value whose Error() panics
	pvStrPanics = 9  // non-nil non-error value whose String() panics
	pvWrapAbort = 10 // fmt.Errorf("...%w", http.ErrAbortHandler)
	pvJoinAbort = 11 // errors.Join(http.ErrAbortHandler, io.EOF)
	pvUnwrapNil = 12 // typed nil error whose Unwrap() panics
	pvMap       = 13 // uncomparable dynamic type
	// non-nil values whose marshalling methods panic (contained since /repo 8565de4)
	pvTextMarshalerPanics = 14
	pvJsonMarshalerPanics = 15
	pvFormatterPanics     = 16 // fmt.Formatter whose Format panics
	pvLogValuerPanics     = 17 // slog.LogValuer whose LogValue panics
	pvNilMapWrite         = 18 // genuine runtime.Error values
	pvIndexRange          = 19
	pvNilDeref            = 20
	pvDivZero             = 21
	pvChan                = 22
	pvFunc                = 23
	pvBigString           = 24 // 1 MiB string
	pvBadUtf8             = 25 // invalid UTF-8 text
	pvDeepStack           = 26 // string, raised 150 frames deep: the stack trace (the record's message) exceeds 16 KiB
	pvLongError           = 27 // error whose Error() is 40 KiB long
	pvString64K           = 28 // 64 KiB string
	numPanicKinds         = 29
	// not raised by doPanic: net/http's own panic inside a first WriteHeader(n) with n < 100 or n > 999
	// (checkWriteHeaderCode); = invalid_hdr_pv of Model/Relay.v
	pvInvalidHdr = 29
)

// invalidCode: net/http refuses the status code (and panics, unless a header was written before).
func invalidCode(c int) bool { return c < 100 || c > 999 }

// encCode: status codes in case lines are natural numbers; a negative int n is written as 2000000 - n (the model
// only needs to know that net/http rejects it).
func encCode(c int) int {
	if c < 0 {
		return 2000000 - c
	}
	return c
}
func decCode(c int) int {
	if c >= 2000000 && c < 3000000 {
		return 2000000 - c
	}
	return c
}

type longError struct{ n int }

func (e longError) Error() string { return fmt.Sprintf("long-%d-", e.n) + strings.Repeat("z", 40<<10) }

//go:noinline
func deepRecursionThatMakesTheStackTraceOfThePanicLongerThanSixteenKibibytesBecauseTheTracebackPrintsAtMostOneHundredFramesAndEveryFrameMustThereforeBeLongerThanOneHundredAndSixtyFourBytes(depth, n int, pad1, pad2, pad3 uint64) int {
	if depth == 0 {
		panic(fmt.Sprintf("deep-%d", n))
	}
	return 1 + deepRecursionThatMakesTheStackTraceOfThePanicLongerThanSixteenKibibytesBecauseTheTracebackPrintsAtMostOneHundredFramesAndEveryFrameMustThereforeBeLongerThanOneHundredAndSixtyFourBytes(depth-1, n, pad1+1, pad2+2, pad3+3)
}

var zero = 0
var emptyInts []int

var panicKinds = numPanicKinds

type plainStruct struct {
	A int
	B string
}
type derefErr struct{ msg string }

func (e *derefErr) Error() string { return e.msg }

type errPanics struct{ n int }

func (e errPanics) Error() string { panic(fmt.Sprintf("inner-%d", e.n)) }

type strPanics struct{ N int }

func (s strPanics) String() string { panic(fmt.Sprintf("inner-%d", s.N)) }

type unwrapNil struct{ inner error }

func (e *unwrapNil) Error() string { return "unwrap-nil" }
func (e *unwrapNil) Unwrap() error { return e.inner }

func doPanic(kind, n int) {
	switch kind {
	case pvAbort:
		panic(http.ErrAbortHandler)
	case pvString:
		panic(fmt.Sprintf("boom-%d", n))
	case pvError:
		panic(fmt.Errorf("err-%d", n))
	case pvInt:
		panic(1000000 + n)
	case pvStruct:
		panic(plainStruct{n, "x y"})
	case pvSlice:
		panic([]int{1, n})
	case pvNil:
		panic(nil)
	case pvTypedNil:
		var p *derefErr
		panic(p)
	case pvErrPanics:
		panic(errPanics{n})
	case pvStrPanics:
		panic(strPanics{n})
	case pvWrapAbort:
		panic(fmt.Errorf("wrap-%d: %w", n, http.ErrAbortHandler))
	case pvJoinAbort:
		panic(errors.Join(http.ErrAbortHandler, io.EOF))
	case pvUnwrapNil:
		var p *unwrapNil
		panic(p)
	case pvMap:
		panic(map[string]int{"k": n})
	case pvTextMarshalerPanics:
		panic(textMarshalerPanics{n})
	case pvJsonMarshalerPanics:
		panic(jsonMarshalerPanics{n})
	case pvFormatterPanics:
		panic(formatterPanics{n})
	case pvLogValuerPanics:
		panic(logValuerPanics{n})
	case pvNilMapWrite:
		var m map[string]int
		m["k"] = n
	case pvIndexRange:
		_ = emptyInts[5+zero]
	case pvNilDeref:
		var p *plainStruct
		_ = p.A
	case pvDivZero:
		_ = n / zero
	case pvChan:
		panic(make(chan int))
	case pvFunc:
		panic(func() {})
	case pvBigString:
		panic(fmt.Sprintf("big-%d-", n) + strings.Repeat("y", 1<<20))
	case pvBadUtf8:
		panic(fmt.Sprintf("bad-%d-\xff\xfe", n))
	case pvDeepStack:
		deepRecursionThatMakesTheStackTraceOfThePanicLongerThanSixteenKibibytesBecauseTheTracebackPrintsAtMostOneHundredFramesAndEveryFrameMustThereforeBeLongerThanOneHundredAndSixtyFourBytes(150, n, 1, 2, 3)
	case pvLongError:
		panic(longError{n})
	case pvString64K:
		panic(fmt.Sprintf("s64-%d-", n) + strings.Repeat("w", 64<<10))
	}
	panic("unknown panic kind")
}

var panicNilText = new(runtime.PanicNilError).Error()

// expectedPanicText: how the panic value of (kind, n) must appear in a record of handler hkind.
func expectedPanicText(kind, n, hkind int) string {
	switch kind {
	case pvString:
		return fmt.Sprintf("boom-%d", n)
	case pvError:
		return fmt.Sprintf("err-%d", n)
	case pvInt:
		return strconv.Itoa(1000000 + n)
	case pvStruct:
		if hkind == 2 {
			return fmt.Sprintf(`{"A":%d,"B":"x y"}`, n)
		}
		return fmt.Sprintf("{%d x y}", n)
	case pvSlice:
		if hkind == 2 {
			return fmt.Sprintf("[1,%d]", n)
		}
		return fmt.Sprintf("[1 %d]", n)
	case pvNil:
		return panicNilText
	case pvTypedNil:
		return "<nil>"
	case pvErrPanics:
		if hkind == 0 {
			return fmt.Sprintf("%%!v(PANIC=Error method: inner-%d)", n)
		}
		return fmt.Sprintf("!PANIC: inner-%d", n)
	case pvStrPanics:
		if hkind == 2 {
			return fmt.Sprintf(`{"N":%d}`, n)
		}
		return fmt.Sprintf("%%!v(PANIC=String method: inner-%d)", n)
	case pvWrapAbort:
		return fmt.Sprintf("wrap-%d: net/http: abort Handler", n)
	case pvJoinAbort:
		return "net/http: abort Handler\nEOF"
	case pvUnwrapNil:
		return "unwrap-nil"
	case pvMap:
		if hkind == 2 {
			return fmt.Sprintf(`{"k":%d}`, n)
		}
		return fmt.Sprintf("map[k:%d]", n)
	}
	return "\x00no such value"
}

// salient: what any reasonable rendering of the value must contain (all of them), and the least length.
func salient(kind, n int) ([]string, int) {
	num := strconv.Itoa(n)
	switch kind {
	case pvString:
		return []string{"boom-" + num}, 1
	case pvError:
		return []string{"err-" + num}, 1
	case pvInt:
		return []string{strconv.Itoa(1000000 + n)}, 1
	case pvStruct:
		return []string{num, "x y"}, 1
	case pvSlice, pvStrPanics, pvMap:
		return []string{num}, 1
	case pvWrapAbort:
		return []string{"wrap-" + num, "abort Handler"}, 1
	case pvJoinAbort:
		return []string{"abort Handler"}, 1
	case pvUnwrapNil:
		return []string{"unwrap-nil"}, 1
	case pvNilMapWrite:
		return []string{"nil map"}, 1
	case pvIndexRange:
		return []string{"index out of range"}, 1
	case pvNilDeref:
		return []string{"nil pointer"}, 1
	case pvDivZero:
		return []string{"divide by zero"}, 1
	case pvBigString:
		return []string{"big-" + num + "-", "yyyyyyyy"}, 1 << 20
	case pvBadUtf8:
		return []string{"bad-" + num + "-"}, 1
	case pvDeepStack:
		return []string{"deep-" + num}, 1
	case pvLongError:
		return []string{"long-" + num + "-", "zzzzzzzz"}, 40 << 10
	case pvString64K:
		return []string{"s64-" + num + "-", "wwwwwwww"}, 64 << 10
	case pvInvalidHdr: // n = the code; net/http: "invalid WriteHeader code <n>"
		return []string{"WriteHeader", num}, 1
	}
	return nil, 1 // nil, typed nils, values whose methods panic, chan, func: any non-empty text
}

// judgePanicText: kind = the expected rendering; 1000+kind = not the expected rendering, but non-empty and
// containing the salient payload (reported as DRIFT by the driver); 0 = empty or payload missing.
func judgePanicText(kind, n, hkind int, text string) int {
	if kind >= 1 && kind <= pvMap && text == expectedPanicText(kind, n, hkind) {
		return kind
	}
	subs, minLen := salient(kind, n)
	if len(strings.TrimSpace(text)) == 0 || len(text) < minLen {
		return 0
	}
	for _, s := range subs {
		if !strings.Contains(text, s) {
			return 0
		}
	}
	if kind >= 1 && kind <= pvMap {
		return 1000 + kind
	}
	return kind
}

// afterStack: the part of a Nano ERROR record that follows the stack trace (msg), i.e. the rendered value.
func afterStack(s string) string {
	i := strings.LastIndex(s, "\n\t")
	if i < 0 {
		return s
	}
	j := strings.IndexByte(s[i+2:], '\n')
	if j < 0 {
		return ""
	}
	return strings.TrimPrefix(s[i+2+j+1:], " ")
}

// ---------------------------------------------------------------- scripts

type action struct{ tag, a, b int }

const (
	aNop = iota
	aHdr
	aBody
	aPanic
	aFlush // a: 0 Flush(), 1 FlushError()
	// Store helpers; the case line carries their expansion into WriteHeader + helper body
	aError404    // store.Error404("<cB>")
	aError500    // store.Error500("<cB>")
	aRedirect    // store.Redirect("/to", 302)
	aRespond200  // store.Respond200("<cB>"), B = 0: empty content
	aRespondJson // store.RespondJson(map[string]int{"c": B})
	// request context; nothing is written: Nop for the model
	aCtxReplace // store.R = store.R.WithContext(ctx), a: 0 ctx cancelled, 1 deadline expired
	aCtxCancel  // cancels the context the request came with (direct mode; otherwise like aCtxReplace)
	aCtxWait    // waits (bounded) until the request's context is done: raw half-closing client
)

const viaHelper = 3
const redirectChunk = 777777
const redirectBody = "<a href=\"/to\">Found</a>.\n\n"

var methods = []string{"GET", "POST", "PUT", "DELETE", "PATCH", "HEAD", "OPTIONS"}

const methodHEAD = 5

// expand: the model actions of one harness action. http.Redirect writes its small HTML body only for GET
// and only when the handler has not set a Content-Type yet (http.Error, RespondJson and Redirect set one).
func expand(a action, method int, ctSet *bool) []action {
	switch a.tag {
	case aError404:
		*ctSet = true
		return []action{{aHdr, 404, 0}, {aBody, viaHelper, a.b}}
	case aError500:
		*ctSet = true
		return []action{{aHdr, 500, 0}, {aBody, viaHelper, a.b}}
	case aRedirect:
		had := *ctSet
		if methods[method] == "GET" || methods[method] == "HEAD" {
			*ctSet = true
		}
		if methods[method] == "GET" && !had {
			return []action{{aHdr, 302, 0}, {aBody, viaHelper, redirectChunk}}
		}
		return []action{{aHdr, 302, 0}}
	case aRespond200:
		if a.b == 0 {
			return []action{{aHdr, 200, 0}}
		}
		return []action{{aHdr, 200, 0}, {aBody, viaHelper, a.b}}
	case aRespondJson:
		*ctSet = true
		return []action{{aBody, viaHelper, a.b}}
	case aCtxReplace, aCtxCancel, aCtxWait:
		return []action{{aNop, 0, 0}}
	}
	return []action{a}
}

var directAddrs = []struct{ addr, ip string }{
	{"10.1.2.3:4567", "10.1.2.3"}, {"[2001:db8::1]:80", "2001:db8::1"}, {"192.0.2.77:1", "192.0.2.77"},
}

const errText = "Internal Server Error\n"
const errChunk = 999999
const junkChunk = 888888

var chunkDir string

func chunkContent(id int) string {
	s := fmt.Sprintf("<c%d>", id)
	if id%3 == 0 { // large: crosses net/http's 4 KiB buffer, so the header is flushed before the handler ends
		s += strings.Repeat("x", 9000)
	}
	return s
}

var ansiRe = regexp.MustCompile("\x1b\\[[0-9;]*m")
var chunkRe = regexp.MustCompile(`^<c(\d+)>x*`)
var jsonChunkRe = regexp.MustCompile(`^\{"c":(\d+)\}\n`)

func decodeBody(b string) []int {
	var out []int
	for len(b) > 0 {
		if strings.HasPrefix(b, errText) {
			out = append(out, errChunk)
			b = b[len(errText):]
			continue
		}
		if strings.HasPrefix(b, redirectBody) {
			out = append(out, redirectChunk)
			b = b[len(redirectBody):]
			continue
		}
		if m := jsonChunkRe.FindStringSubmatch(b); m != nil {
			id, _ := strconv.Atoi(m[1])
			out = append(out, id)
			b = b[len(m[0]):]
			continue
		}
		if m := chunkRe.FindStringSubmatch(b); m != nil {
			id, _ := strconv.Atoi(m[1])
			if m[0] == chunkContent(id) {
				out = append(out, id)
				b = b[len(m[0]):]
				b = strings.TrimPrefix(b, "\n") // http.Error ends its text with a newline
				continue
			}
		}
		out = append(out, junkChunk)
		break
	}
	return out
}

type reqSpec struct {
	no     int
	method int
	route  int
	mode   int
	script []action
	uri    string
	ip     string
	addr   string
	// learned
	mu   sync.Mutex
	tids []string
	// observed
	esc         bool
	wire        int
	body        []int
	cerr        string
	recs        []decRec
	batch       int
	cancel      context.CancelFunc // direct mode: cancels the context the request carries
	preCancel   int                // direct mode: 1 the context is already cancelled at entry, 2 its deadline has expired
	ctxDoneSeen atomic.Bool
	cfail       bool     // server mode: the client saw an error instead of a response
	locals      []string // server mode: local addresses of the connections used (= remote address in the server's log)
	retried     bool
}

type decRec struct {
	tag     int
	code    int
	ipOK    int
	method  int
	uOwner  int
	idOwner int
	pv      int
}

// ---------------------------------------------------------------- site

type recWriter struct {
	mu   sync.Mutex
	recs [][]byte
}

func (w *recWriter) Write(p []byte) (int, error) {
	c := append([]byte(nil), p...)
	w.mu.Lock()
	w.recs = append(w.recs, c)
	w.mu.Unlock()
	return len(p), nil
}
func (w *recWriter) take() [][]byte {
	w.mu.Lock()
	defer w.mu.Unlock()
	r := w.recs
	w.recs = nil
	return r
}

type site struct {
	hkind, thr int
	opt        int // bit 0: addSource, bit 1: colorful
	derive     int // how the Logger whose Relay is installed was obtained, see deriveLogger
	mux        *httpd.Mux
	out        *recWriter
	srv        *httptest.Server
	srvLog     *recWriter
	client     *http.Client
	mu         sync.Mutex
	specs      map[int]*reqSpec
	tidSeen    map[string]int
	active     atomic.Int64
}

// deriveLogger: 0 New(h); 1 New(h).With("svc","api"); 2 New(h).WithGroup("g");
// 3 New(h).With("svc","api").WithGroup("g").With("k",7). The Relay of a derived Logger must log like the
// original, with the derived attributes / group on every record.
func deriveLogger(l *logger.Logger, derive int) *logger.Logger {
	switch derive {
	case 1:
		return l.With("svc", "api")
	case 2:
		return l.WithGroup("g")
	case 3:
		return l.With("svc", "api").WithGroup("g").With("k", 7)
	}
	return l
}

func newSite(hkind, thr, opt, derive int) *site {
	s := &site{hkind: hkind, thr: thr, opt: opt, derive: derive, out: &recWriter{}, srvLog: &recWriter{}, specs: map[int]*reqSpec{}, tidSeen: map[string]int{}}
	opts := logger.NewOptions(slogLevel(thr), opt&2 != 0, opt&1 != 0)
	var h logger.Handler
	switch hkind {
	case 0:
		h = logger.NewNanoHandler(s.out, opts)
	case 1:
		h = logger.NewTextHandler(s.out, opts)
	default:
		h = logger.NewJsonHandler(s.out, opts)
	}
	s.mux = httpd.NewMux()
	s.mux.HandleRelay(deriveLogger(logger.New(h), derive).Relay)
	s.mux.Handle("/m/:n", httpd.MethodAll, s.scripted)
	s.mux.HandleNoRoute(s.scripted)
	// the client of a HEAD request (or of a flushed response) can be done before Relay's deferred REQ_END has
	// been written: count the calls that are still inside ServeHTTP
	s.srv = httptest.NewUnstartedServer(http.HandlerFunc(func(w http.ResponseWriter, r *http.Request) {
		s.active.Add(1)
		defer s.active.Add(-1)
		s.mux.ServeHTTP(w, r)
	}))
	s.srv.Config.ErrorLog = log.New(s.srvLog, "", 0)
	s.srv.Start()
	s.client = &http.Client{Timeout: 30 * time.Second,
		Transport:     &http.Transport{MaxIdleConnsPerHost: 64, DisableCompression: true},
		CheckRedirect: func(*http.Request, []*http.Request) error { return http.ErrUseLastResponse }}
	return s
}

func (s *site) close() {
	s.client.CloseIdleConnections()
	s.srv.Close()
}

// scripted is the handler under every route: it looks its script up by request number.
func (s *site) scripted(store *httpd.Store) {
	no, _ := strconv.Atoi(store.R.Header.Get("X-Verif-Req"))
	s.mu.Lock()
	sp := s.specs[no]
	s.mu.Unlock()
	if sp == nil {
		return
	}
	sp.mu.Lock()
	sp.tids = append(sp.tids, strings.Clone(store.GetID()))
	sp.mu.Unlock()
	for _, a := range sp.script {
		switch a.tag {
		case aNop:
			store.W.Header().Set("X-Nop", "1")
		case aHdr:
			store.W.WriteHeader(a.a)
		case aBody:
			switch a.a {
			case 0:
				store.W.Write([]byte(chunkContent(a.b)))
			case 1:
				io.Copy(store.W, strings.NewReader(chunkContent(a.b)))
			default:
				f, err := os.Open(filepath.Join(chunkDir, strconv.Itoa(a.b)))
				if err != nil {
					panic("harness: chunk file missing")
				}
				io.Copy(store.W, f)
				f.Close()
			}
		case aPanic:
			doPanic(a.a, sp.no)
		case aFlush:
			if a.a == 0 {
				store.W.Flush()
			} else {
				store.W.FlushError()
			}
		case aError404:
			store.Error404(chunkContent(a.b))
		case aError500:
			store.Error500(chunkContent(a.b))
		case aRedirect:
			store.Redirect("/to", http.StatusFound)
		case aRespond200:
			if a.b == 0 {
				store.Respond200(nil)
			} else {
				store.Respond200([]byte(chunkContent(a.b)))
			}
		case aRespondJson:
			store.RespondJson(map[string]int{"c": a.b})
		case aCtxReplace, aCtxCancel:
			if a.tag == aCtxCancel && sp.cancel != nil {
				sp.cancel()
				break
			}
			var ctx context.Context
			var cancel context.CancelFunc
			if a.a == 0 {
				ctx, cancel = context.WithCancel(store.R.Context())
			} else {
				ctx, cancel = context.WithDeadline(store.R.Context(), time.Now().Add(-time.Second))
			}
			cancel()
			store.R = store.R.WithContext(ctx)
		case aCtxWait:
			select {
			case <-store.R.Context().Done():
				sp.ctxDoneSeen.Store(true)
			case <-time.After(2 * time.Second):
			}
		}
	}
}

// do performs one request and fills the observed response fields.
// doRaw: a client that sends the request and half-closes its side at once (printf | nc): net/http then cancels
// the request's context while the client is still reading the response.
func (s *site) doRaw(sp *reqSpec) {
	conn, err := net.DialTimeout("tcp", s.srv.Listener.Addr().String(), 5*time.Second)
	if err != nil {
		sp.cfail, sp.cerr = true, err.Error()
		return
	}
	defer conn.Close()
	sp.mu.Lock()
	sp.locals = append(sp.locals, conn.LocalAddr().String())
	sp.mu.Unlock()
	conn.SetDeadline(time.Now().Add(20 * time.Second))
	fmt.Fprintf(conn, "%s %s HTTP/1.1\r\nHost: verif\r\nX-Verif-Req: %d\r\nConnection: close\r\n\r\n", methods[sp.method], sp.uri, sp.no)
	if tc, ok := conn.(*net.TCPConn); ok {
		tc.CloseWrite()
	}
	resp, err := http.ReadResponse(bufio.NewReader(conn), &http.Request{Method: methods[sp.method]})
	if err != nil {
		sp.cfail, sp.cerr = true, err.Error()
		return
	}
	b, rerr := io.ReadAll(resp.Body)
	resp.Body.Close()
	sp.wire = resp.StatusCode
	sp.body = decodeBody(string(b))
	if rerr != nil {
		sp.cfail, sp.cerr = true, rerr.Error()
	}
}

func (s *site) do(sp *reqSpec) {
	if sp.mode == 2 {
		s.doRaw(sp)
		return
	}
	if sp.mode == 1 {
		req, err := http.NewRequest(methods[sp.method], s.srv.URL+sp.uri, nil)
		if err != nil {
			sp.cerr = err.Error()
			return
		}
		req.Header.Set("X-Verif-Req", strconv.Itoa(sp.no))
		trace := &httptrace.ClientTrace{GotConn: func(ci httptrace.GotConnInfo) {
			sp.mu.Lock()
			sp.locals = append(sp.locals, ci.Conn.LocalAddr().String())
			sp.mu.Unlock()
		}}
		req = req.WithContext(httptrace.WithClientTrace(req.Context(), trace))
		resp, err := s.client.Do(req)
		if err != nil {
			// escaped panic or harness trouble (timeout, refused ...): decided in batch() from the server's log
			sp.cfail, sp.cerr = true, err.Error()
			return
		}
		b, rerr := io.ReadAll(resp.Body)
		resp.Body.Close()
		sp.wire = resp.StatusCode
		sp.body = decodeBody(string(b))
		if rerr != nil {
			sp.cfail, sp.cerr = true, rerr.Error()
		}
		return
	}
	req := httptest.NewRequest(methods[sp.method], sp.uri, nil)
	ctx, cancel := context.WithCancel(context.Background())
	switch sp.preCancel {
	case 1:
		cancel()
	case 2:
		ctx, cancel = context.WithDeadline(context.Background(), time.Now().Add(-time.Second))
	}
	defer cancel()
	sp.cancel = cancel
	req = req.WithContext(ctx)
	req.RemoteAddr = sp.addr
	req.Header.Set("X-Verif-Req", strconv.Itoa(sp.no))
	rec := httptest.NewRecorder()
	func() {
		defer func() {
			if r := recover(); r != nil {
				sp.esc = true
				sp.cerr = fmt.Sprintf("panic escaped ServeHTTP: %T", r)
			}
		}()
		s.mux.ServeHTTP(rec, req)
	}()
	sp.wire = rec.Code
	sp.body = decodeBody(rec.Body.String())
}

// ---------------------------------------------------------------- decoding of records

type rawRec struct {
	ok     bool
	level  string
	tag    string
	code   int
	ip     string
	method string
	path   string
	tid    string
	hasPv  bool
	pvText string // Text/JSON: the decoded value; Nano: everything after the level up to the tid
}

func tokenizeText(line string) (map[string]string, bool) {
	kv := map[string]string{}
	i := 0
	for i < len(line) {
		j := strings.IndexByte(line[i:], '=')
		if j < 0 {
			return nil, false
		}
		key := line[i : i+j]
		i += j + 1
		var val string
		if i < len(line) && line[i] == '"' {
			k := i + 1
			for k < len(line) && line[k] != '"' {
				if line[k] == '\\' {
					k++
				}
				k++
			}
			if k >= len(line) {
				return nil, false
			}
			u, err := strconv.Unquote(line[i : k+1])
			if err != nil {
				return nil, false
			}
			val = u
			i = k + 1
		} else {
			k := strings.IndexByte(line[i:], ' ')
			if k < 0 {
				k = len(line) - i
			}
			val = line[i : i+k]
			i += k
		}
		if _, dup := kv[key]; dup {
			return nil, false
		}
		kv[key] = val
		if i < len(line) {
			if line[i] != ' ' {
				return nil, false
			}
			i++
		}
	}
	return kv, true
}

// decodeRecord: the records must CARRY tag, ip, method, path, id (and code); further attributes are tolerated
// (unknown keys for Text / JSON, extra trailing values for Nano). known tells whether a token is the id of a
// request of the current batch: a Nano ERROR record has no keys, its id is looked up among the trailing tokens.
func decodeRecord(hkind, derive int, b []byte, known func(string) bool) rawRec {
	var r rawRec
	withTop, group, withInner := derive == 1 || derive == 3, derive >= 2, derive == 3
	if len(b) == 0 || b[len(b)-1] != '\n' {
		return r
	}
	line := string(b[:len(b)-1])
	switch hkind {
	case 1:
		if strings.ContainsRune(line, '\n') {
			return r
		}
		kv, ok := tokenizeText(line)
		if !ok {
			return r
		}
		g := ""
		if group {
			g = "g."
		}
		if withTop && kv["svc"] != "api" || withInner && kv["g.k"] != "7" {
			return r // the derived attributes are missing
		}
		r.level, r.tag, r.ip, r.method, r.path, r.tid = kv["level"], kv[g+"tag"], kv[g+"ip"], kv[g+"method"], kv[g+"path"], kv[g+"tid"]
		r.code, _ = strconv.Atoi(kv[g+"code"])
		r.pvText, r.hasPv = kv[g+"panic"]
		r.ok = true
	case 2:
		if strings.ContainsRune(line, '\n') {
			return r
		}
		var m map[string]json.RawMessage
		if json.Unmarshal([]byte(line), &m) != nil {
			return r
		}
		top := m
		str := func(k string) string {
			var s string
			if raw, ok := m[k]; ok {
				if json.Unmarshal(raw, &s) != nil {
					return string(raw)
				}
			}
			return s
		}
		r.level = str("level")
		if withTop && str("svc") != "api" {
			return r
		}
		if group {
			var inner map[string]json.RawMessage
			if json.Unmarshal(top["g"], &inner) != nil {
				return r
			}
			m = inner
			if withInner && string(m["k"]) != "7" {
				return r
			}
		}
		r.tag, r.ip, r.method, r.path, r.tid = str("tag"), str("ip"), str("method"), str("path"), str("tid")
		r.code, _ = strconv.Atoi(string(m["code"]))
		if raw, ok := m["panic"]; ok {
			r.hasPv = true
			var sv string
			if json.Unmarshal(raw, &sv) == nil {
				r.pvText = sv
			} else {
				var cb bytes.Buffer
				json.Compact(&cb, raw)
				r.pvText = cb.String()
			}
		}
		r.ok = true
	default: // nano: fields by position
		f := strings.Fields(line)
		if len(f) < 4 || len(f[0]) != 10 || len(f[1]) != 8 || len(f[2]) != 3 {
			return r
		}
		// values of With(...) come right after the message (none for REQ_BEG / REQ_END), keys and groups are not printed
		var extras []string
		if withTop {
			extras = append(extras, "api")
		}
		if withInner {
			extras = append(extras, "7")
		}
		if f[2] == "[I]" {
			if len(f) < 4+len(extras) {
				return r
			}
			for i, x := range extras {
				if f[3+i] != x {
					return r
				}
			}
			f = append(append([]string(nil), f[:3]...), f[3+len(extras):]...)
			if len(f) < 4 {
				return r
			}
		}
		switch f[2] {
		case "[I]":
			r.level = "INFO"
		case "[E]":
			r.level = "ERROR"
		default:
			r.level = f[2]
		}
		switch {
		case r.level == "INFO" && f[3] == "REQ_BEG" && len(f) >= 8:
			r.tag, r.ip, r.method, r.path, r.tid = f[3], f[4], f[5], f[6], f[7]
			r.ok = true
		case r.level == "INFO" && f[3] == "REQ_END" && len(f) >= 10:
			r.tag, r.ip, r.method, r.path, r.tid = f[3], f[6], f[7], f[8], f[9]
			c, err := strconv.Atoi(f[4])
			if _, err2 := strconv.Atoi(f[5]); err != nil || err2 != nil {
				return r
			}
			r.code = c
			r.ok = true
		case r.level == "ERROR":
			// "<stack> [derived values] <panic value> <id> [further values]": the id is the last token that is a
			// known id, searched backwards over the tokens after the stack trace (the last token if none is)
			k := strings.LastIndexByte(line, ' ')
			start := len(f[0]) + 1 + len(f[1]) + 1 + len(f[2]) + 1
			if tail := afterStack(line[start:]); len(tail) > 0 {
				base := len(line) - len(tail)
				for end := len(line); end > base; {
					sp := strings.LastIndexByte(line[base:end], ' ')
					if sp < 0 {
						break
					}
					if known(line[base+sp+1 : end]) {
						k = base + sp
						line = line[:end]
						break
					}
					end = base + sp
				}
			}
			r.tid = line[k+1:]
			rest := line[start:k]
			if !strings.HasPrefix(rest, "goroutine ") {
				return r
			}
			if len(extras) > 0 {
				// "<stack> api [7] <value>": cut the derived values off the front of what follows the stack
				after := afterStack(rest)
				want := strings.Join(extras, " ") + " "
				if !strings.HasPrefix(after, want) {
					return r
				}
				rest = rest[:len(rest)-len(after)] + after[len(want):]
			}
			r.hasPv, r.pvText = true, rest
			r.ok = true
		}
	}
	return r
}

func slogLevel(thr int) slog.Level { return slog.Level(thr) }

// ---------------------------------------------------------------- batches

type runner struct {
	rng         *hk.Rng
	harnessErrs []string
	e           *hk.Env
	nextNo      int
	stats       map[string]int
	viol        int
	dist        map[string]bool
}

func (rn *runner) violation(f ...string) {
	rn.viol++
	if rn.viol <= 30 {
		rn.e.Case(append([]string{"VIOL"}, f...)...)
	}
}

func methodIndex(m string) int {
	for i, x := range methods {
		if x == m {
			return i
		}
	}
	return 99
}

// panicOf: the kind of value the scripted handler panics with and the number its rendering carries (the request
// number, or the status code for net/http's own panic inside a first WriteHeader with a code it rejects).
func panicOf(sp *reqSpec) (kind, n int, has bool) {
	started := false
	for _, a := range sp.script {
		switch {
		case a.tag == aPanic:
			return a.a, sp.no, true
		case a.tag == aHdr:
			if !started && invalidCode(a.a) {
				return pvInvalidHdr, a.a, true
			}
			started = true
		case a.tag == aBody || a.tag == aFlush || a.tag >= aError404 && a.tag <= aRespondJson:
			started = true
		}
	}
	return 0, 0, false
}

func panicKindOf(sp *reqSpec) (int, bool) {
	k, _, has := panicOf(sp)
	return k, has
}

// batch runs the given requests concurrently against one site, then attributes the records.
func (rn *runner) batch(s *site, specs []*reqSpec) {
	s.mu.Lock()
	for _, sp := range specs {
		s.specs[sp.no] = sp
	}
	s.mu.Unlock()
	var wg sync.WaitGroup
	for _, sp := range specs {
		wg.Add(1)
		go func(sp *reqSpec) {
			defer wg.Done()
			s.do(sp)
		}(sp)
	}
	wg.Wait()
	for deadline := time.Now().Add(20 * time.Second); s.active.Load() > 0 && time.Now().Before(deadline); {
		time.Sleep(50 * time.Microsecond)
	}
	// server mode: an escaped panic = the server logged "http: panic serving <remote addr>" for a connection
	// this request used; a client error without such a line is the harness's problem (retried once).
	var panicLines, unmatched [][]byte
	for _, l := range s.srvLog.take() {
		if bytes.Contains(l, []byte("panic serving")) {
			rn.stats["server_log_panic_serving"]++
			panicLines = append(panicLines, l)
		} else if bytes.Contains(l, []byte("superfluous")) {
			rn.stats["server_log_superfluous_WriteHeader"]++
		} else {
			rn.stats["server_log_other"]++
		}
	}
	used := make([]bool, len(panicLines))
	var again []*reqSpec
	for _, sp := range specs {
		if sp.mode == 0 {
			continue
		}
		sp.mu.Lock()
		locals := append([]string(nil), sp.locals...)
		sp.mu.Unlock()
		for i, l := range panicLines {
			for _, la := range locals {
				if bytes.Contains(l, []byte("panic serving "+la+":")) {
					used[i] = true
					sp.esc = true
					sp.cerr = "server-log:-" + string(firstLine(l))
				}
			}
		}
		if sp.cfail && !sp.esc {
			rn.stats["client_errors_without_server_panic"]++
			if !sp.retried {
				again = append(again, sp)
			} else {
				rn.harnessErrs = append(rn.harnessErrs, fmt.Sprintf("req %d: %s", sp.no, sp.cerr))
			}
		}
	}
	for i, l := range panicLines {
		if !used[i] {
			unmatched = append(unmatched, l)
		}
	}
	for _, l := range unmatched {
		rn.violation("panic-escaped-server-log", strconv.Itoa(s.hkind), hk.Hx(firstLine(l)))
	}
	raw := s.out.take()
	// ids
	tidOwner := map[string]int{}
	pathOwner := map[string]int{}
	for _, sp := range specs {
		pathOwner[sp.uri] = sp.no
		sp.mu.Lock()
		tids := append([]string(nil), sp.tids...)
		sp.mu.Unlock()
		if len(tids) != 1 && !sp.esc && !sp.cfail {
			rn.violation("handler-ran-"+strconv.Itoa(len(tids))+"-times", "req", strconv.Itoa(sp.no))
		}
		for _, t := range tids {
			if prev, dup := s.tidSeen[t]; dup && prev != sp.no {
				rn.violation("duplicate-id", hk.Hxs(t), "requests", strconv.Itoa(prev), strconv.Itoa(sp.no))
			}
			s.tidSeen[t] = sp.no
			tidOwner[t] = sp.no
		}
	}
	byNo := map[int]*reqSpec{}
	for _, sp := range specs {
		byNo[sp.no] = sp
	}
	for _, b := range raw {
		if s.opt&2 != 0 {
			b = ansiRe.ReplaceAll(b, nil)
		}
		d := decodeRecord(s.hkind, s.derive, b, func(tok string) bool { return tidOwner[tok] != 0 })
		if !d.ok {
			rn.violation("undecodable-record", strconv.Itoa(s.hkind), hk.Hx(b))
			continue
		}
		rn.stats["records_decoded"]++
		to, po := tidOwner[d.tid], pathOwner[d.path]
		if to == 0 && po == 0 {
			rn.violation("orphan-record", strconv.Itoa(s.hkind), hk.Hx(b))
			continue
		}
		owners := []int{}
		if to != 0 {
			owners = append(owners, to)
		}
		if po != 0 && po != to {
			owners = append(owners, po)
		}
		for _, owner := range owners {
			sp := byNo[owner]
			dr := decRec{code: d.code, method: methodIndex(d.method), uOwner: po, idOwner: to}
			if d.ip == sp.ip {
				dr.ipOK = 1
			}
			switch {
			case d.level == "INFO" && d.tag == "REQ_BEG" && !d.hasPv:
				dr.tag = 1
			case d.level == "INFO" && d.tag == "REQ_END" && !d.hasPv:
				dr.tag = 3
			case d.level == "ERROR" && d.hasPv && d.tag == "":
				dr.tag = 2
				if k, n, has := panicOf(sp); has {
					text := d.pvText
					if s.hkind == 0 {
						text = afterStack(text)
					}
					dr.pv = judgePanicText(k, n, s.hkind, text)
				}
			}
			sp.recs = append(sp.recs, dr)
		}
	}
	for _, sp := range specs {
		if sp.cfail && !sp.esc {
			continue // not an observation of the code under test
		}
		rn.emit(s, sp, len(specs))
	}
	s.mu.Lock()
	for _, sp := range specs {
		delete(s.specs, sp.no)
	}
	s.mu.Unlock()
	if len(again) > 0 {
		var specs2 []*reqSpec
		for _, sp := range again {
			sp2 := rn.newSpec(rn.rng, sp.mode, sp.script)
			sp2.retried = true
			specs2 = append(specs2, sp2)
		}
		rn.batch(s, specs2)
	}
}

func firstLine(b []byte) []byte {
	if i := bytes.IndexByte(b, '\n'); i >= 0 {
		return b[:i]
	}
	return b
}

func (rn *runner) emit(s *site, sp *reqSpec, inflight int) {
	f := []string{"E", strconv.Itoa(sp.mode), strconv.Itoa(s.hkind + 10*s.opt + 100*s.derive), strconv.Itoa(s.thr), strconv.Itoa(sp.route),
		strconv.Itoa(sp.method), strconv.Itoa(sp.no)}
	var model []action
	ctSet := false
	for _, a := range sp.script {
		model = append(model, expand(a, sp.method, &ctSet)...)
	}
	f = append(f, strconv.Itoa(len(model)))
	for _, a := range model {
		if a.tag == aHdr {
			a.a = encCode(a.a)
		}
		f = append(f, strconv.Itoa(a.tag), strconv.Itoa(a.a), strconv.Itoa(a.b))
	}
	bodySeen := sp.method != methodHEAD
	if !bodySeen {
		sp.body = nil
	}
	f = append(f, b2s(sp.esc), strconv.Itoa(sp.wire), b2s(bodySeen), strconv.Itoa(len(sp.body)))
	for _, c := range sp.body {
		f = append(f, strconv.Itoa(c))
	}
	f = append(f, strconv.Itoa(len(sp.recs)))
	for _, r := range sp.recs {
		f = append(f, strconv.Itoa(r.tag), strconv.Itoa(encCode(r.code)), strconv.Itoa(r.ipOK), strconv.Itoa(r.method),
			strconv.Itoa(r.uOwner), strconv.Itoa(r.idOwner), strconv.Itoa(r.pv))
	}
	if sp.esc {
		// judged here as well: the oracle is the recover() around ServeHTTP / the server's "panic serving" log
		rn.violation(append([]string{"panic-escaped", sp.cerr2()}, f...)...)
	}
	rn.e.Case(f...)
	rn.stats["cases"]++
	rn.stats[fmt.Sprintf("mode_%d", sp.mode)]++
	rn.stats[fmt.Sprintf("hkind_%d", s.hkind)]++
	rn.stats[fmt.Sprintf("options_addSource%v_colorful%v", s.opt&1 != 0, s.opt&2 != 0)]++
	rn.stats["logger_"+[]string{"New", "With", "WithGroup", "With.WithGroup.With"}[s.derive]]++
	rn.stats[fmt.Sprintf("threshold_%d", s.thr)]++
	rn.stats[fmt.Sprintf("route_matched_%d", sp.route)]++
	rn.stats[fmt.Sprintf("inflight_le_%d", ceilPow2(inflight))]++
	rn.stats["method_"+methods[sp.method]]++
	if sp.preCancel != 0 {
		rn.stats["context_done_at_entry"]++
	}
	if sp.ctxDoneSeen.Load() {
		rn.stats["context_cancelled_by_half_closing_client_seen"]++
	}
	for _, a := range sp.script {
		switch {
		case a.tag == aFlush:
			rn.stats["actions_flush"]++
		case a.tag >= aError404 && a.tag <= aRespondJson:
			rn.stats["actions_store_helpers"]++
		case a.tag >= aCtxReplace:
			rn.stats["actions_request_context"]++
		case a.tag == aHdr && invalidCode(a.a):
			rn.stats["actions_WriteHeader_code_rejected_by_net_http"]++
		}
	}
	if k, has := panicKindOf(sp); has {
		rn.stats[fmt.Sprintf("panic_kind_%02d", k)]++
		if sp.wire == 500 && len(sp.body) == 1 && sp.body[0] == errChunk {
			rn.stats["relay_sent_500"]++
		} else {
			rn.stats["panic_after_response_started"]++
		}
	} else {
		rn.stats["no_panic"]++
	}
	// distinct = script + mode + hkind + thr + route (request number left out)
	key := strings.Join(f[1:6], " ") + " | " + strings.Join(f[7:8+3*len(model)], " ")
	rn.dist[key] = true
	if rn.stats["cases"]%1499 == 7 {
		rn.e.Sample("samples", strings.Join(f, " "), 6)
	}
}

func (sp *reqSpec) cerr2() string { return strings.ReplaceAll(sp.cerr, " ", "-") }

func ceilPow2(n int) int {
	p := 1
	for p < n {
		p *= 2
	}
	return p
}

func b2i(b bool) int {
	if b {
		return 1
	}
	return 0
}

func b2s(b bool) string {
	if b {
		return "1"
	}
	return "0"
}

func (rn *runner) newSpec(r *hk.Rng, mode int, sc []action) *reqSpec {
	rn.nextNo++
	no := rn.nextNo
	sp := &reqSpec{no: no, method: r.Intn(len(methods)), route: r.Intn(2), mode: mode, script: sc}
	if r.Chance(70) {
		sp.route = 1
	}
	if sp.route == 1 {
		sp.uri = fmt.Sprintf("/m/%d?q=a%%20b&x=%d", no, no)
		if r.Chance(30) {
			sp.uri = fmt.Sprintf("/m/%d", no)
		}
	} else {
		sp.uri = fmt.Sprintf("/zz/%d/nothing-here", no)
	}
	if mode == 0 && r.Chance(12) {
		sp.preCancel = 1 + r.Intn(2)
	}
	if mode >= 1 {
		sp.ip = "127.0.0.1"
	} else {
		a := directAddrs[no%len(directAddrs)]
		sp.addr, sp.ip = a.addr, a.ip
	}
	return sp
}

// sanitize: no body after a 204/304 header (net/http refuses it, the recorder does not).
func sanitize(sc []action) []action {
	var out []action
	nobody := false
	for _, a := range sc {
		if (a.tag == aBody || a.tag >= aError404 && a.tag <= aRespondJson) && nobody {
			continue
		}
		if a.tag == aHdr && (a.a == 204 || a.a == 304) {
			nobody = true
		}
		out = append(out, a)
		if a.tag == aPanic {
			break
		}
	}
	return out
}

func run(e *hk.Env) error {
	// 64 requests in flight need goroutines, not cores: on a busy 16-core machine the default
	// GOMAXPROCS makes the scheduler spin (3x wall, 7x sys); 6 Ps still give real parallelism.
	if os.Getenv("GOMAXPROCS") == "" && runtime.NumCPU() > 6 {
		runtime.GOMAXPROCS(6)
	}
	e.Stats["gomaxprocs"] = runtime.GOMAXPROCS(0)
	chunkDir = filepath.Join(e.Out, "chunks")
	os.MkdirAll(chunkDir, 0o755)
	defer os.RemoveAll(chunkDir)
	for id := 1; id <= 9; id++ {
		if err := os.WriteFile(filepath.Join(chunkDir, strconv.Itoa(id)), []byte(chunkContent(id)), 0o644); err != nil {
			return err
		}
	}
	rn := &runner{e: e, stats: map[string]int{}, dist: map[string]bool{}}
	e.Stats["panic_value_kinds_in_sweep"] = panicKinds - 1
	r := e.Rng.Fork()
	rn.rng = r

	thresholds := []int{0, 4, 8, 12, 16}
	// sites are created when first used. Key: handler kind, threshold, options (addSource, colorful: varied
	// at the Info threshold only), derivation of the Logger (New / With / WithGroup / chain: at every threshold)
	sites := map[[4]int]*site{}
	siteOf := func(key [4]int) *site {
		s := sites[key]
		if s == nil {
			s = newSite(key[0], key[1], key[2], key[3])
			sites[key] = s
		}
		return s
	}
	defer func() {
		for _, s := range sites {
			s.close()
		}
	}()

	// the script alphabet
	nonPanic := []action{{aNop, 0, 0}, {aHdr, 200, 0}, {aHdr, 404, 0}, {aHdr, 500, 0}, {aHdr, 599, 0},
		{aBody, 0, 1}, {aBody, 1, 2}, {aBody, 2, 3},
		{aFlush, 0, 0}, {aFlush, 1, 0},
		{aError404, 0, 4}, {aError500, 0, 5}, {aRedirect, 0, 0}, {aRespond200, 0, 7}, {aRespondJson, 0, 8},
		{aCtxReplace, 1, 0}, {aCtxCancel, 0, 0}}
	// panic values tried behind every prefix; all kinds are tried behind prefixes of at most one action
	corePanics := []int{pvString, pvTypedNil, pvErrPanics, pvWrapAbort, pvUnwrapNil, pvJsonMarshalerPanics, pvNilDeref, pvDeepStack}
	maxLen := 2
	if e.Thorough() {
		maxLen = 3
	}
	var scripts [][]action
	var gen func(prefix []action, l int)
	gen = func(prefix []action, l int) {
		scripts = append(scripts, append([]action(nil), prefix...))
		if len(prefix) <= 1 {
			for k := 1; k < panicKinds; k++ {
				scripts = append(scripts, append(append([]action(nil), prefix...), action{aPanic, k, 0}))
			}
		} else {
			for _, k := range corePanics {
				scripts = append(scripts, append(append([]action(nil), prefix...), action{aPanic, k, 0}))
			}
		}
		if l == 0 {
			return
		}
		for _, a := range nonPanic {
			gen(append(prefix[:len(prefix):len(prefix)], a), l-1)
		}
	}
	gen(nil, maxLen)
	e.Stats["exhaustive_scripts"] = len(scripts)
	e.Stats["exhaustive_max_len"] = maxLen
	e.Stats["exhaustive_alphabet"] = len(nonPanic)

	if e.Replay != "" {
		if b, err := os.ReadFile(e.Replay); err == nil {
			var p struct {
				Case string `json:"case"`
			}
			if json.Unmarshal(b, &p) == nil {
				if hkind, thr, sc, ok := parseCase(p.Case); ok {
					derive, opt := hkind/100, hkind/10%10
					hkind %= 10
					s := siteOf([4]int{hkind, thr, opt, derive})
					for i := 0; i < 40; i++ {
						var specs []*reqSpec
						for j := 0; j < 1+i%8; j++ {
							specs = append(specs, rn.newSpec(r, (i+j)%2, sc))
						}
						rn.batch(s, specs)
					}
					rn.finish()
					return nil
				}
			}
		}
	}

	inflight := []int{1, 2, 3, 4, 8, 16, 32, 64}
	optCounter := 0
	pending := map[[4]int][]*reqSpec{}
	flush := func(key [4]int, force bool) {
		for {
			q := pending[key]
			want := inflight[r.Intn(len(inflight))]
			if len(q) == 0 || (!force && len(q) < want) {
				return
			}
			if want > len(q) {
				want = len(q)
			}
			rn.batch(siteOf(key), q[:want])
			pending[key] = q[want:]
		}
	}
	add := func(hkind, thr, mode int, sc []action) {
		optCounter++
		opt, derive := 0, optCounter%4
		if thr == 4 {
			opt, derive = optCounter%4, optCounter/4%4
		}
		key := [4]int{hkind, thr, opt, derive}
		pending[key] = append(pending[key], rn.newSpec(r, mode, sanitize(sc)))
		if len(pending[key]) >= 64 {
			flush(key, false)
		}
	}
	// 1. every script, three handlers, Info threshold; both modes on one handler (rotating; thorough: on
	// all three), one mode on the other two
	for i, sc := range scripts {
		for hkind := 0; hkind < 3; hkind++ {
			if hkind == i%3 || e.Thorough() {
				add(hkind, 4, 0, sc)
				add(hkind, 4, 1, sc)
			} else {
				add(hkind, 4, (i+hkind)%2, sc)
			}
		}
	}
	// 2. the other thresholds: scripts of at most two actions (+ panic)
	for _, sc := range scripts {
		n := len(sc)
		if n > 0 && sc[n-1].tag == aPanic {
			n--
			if !e.Thorough() && !isCore(sc[n].a, corePanics) {
				continue
			}
		}
		if n > 1 && !e.Thorough() || n > 2 {
			continue
		}
		for hkind := 0; hkind < 3; hkind++ {
			for _, t := range []int{0, 8, 12, 16} {
				add(hkind, t, r.Intn(2), sc)
			}
		}
	}
	// 2b. a raw client that half-closes after sending the request: the handler waits until net/http has
	// cancelled the request's context and then returns, writes or panics; the client still reads the answer
	for _, k := range append([]int{-1}, corePanics...) {
		for _, pre := range [][]action{{}, {{aHdr, 404, 0}}, {{aBody, 0, 1}}, {{aFlush, 0, 0}}, {{aNop, 0, 0}}} {
			sc := append([]action{{aCtxWait, 0, 0}}, pre...)
			if k >= 0 {
				sc = append(sc, action{aPanic, k, 0})
			}
			for hkind := 0; hkind < 3; hkind++ {
				add(hkind, 4, 2, sc)
			}
			add(r.Intn(3), []int{0, 8, 12, 16}[r.Intn(4)], 2, sc)
		}
	}
	// 2c. WriteHeader(n) with an int net/http rejects (n < 100 or n > 999): as the first write it panics inside
	// the call before anything is sent or recorded - a handler panic before any status was written; after a
	// valid status / a body / Flush / a Store helper it is a superfluous call that net/http ignores. Code 0 only
	// where no header went out yet (afterwards it would reset Status: outside the model's scope [codes_ok]).
	{
		prefixes := [][]action{{}, {{aNop, 0, 0}}, {{aCtxReplace, 1, 0}}, {{aHdr, 404, 0}}, {{aBody, 0, 1}}, {{aFlush, 0, 0}},
			{{aFlush, 1, 0}}, {{aError404, 0, 4}}, {{aRespond200, 0, 0}}}
		suffixes := [][]action{{}, {{aHdr, 200, 0}}, {{aBody, 1, 2}}, {{aPanic, pvString, 0}}, {{aPanic, pvTypedNil, 0}}, {{aFlush, 0, 0}, {aPanic, pvError, 0}}}
		i := 0
		for _, code := range []int{1000, 42, -1, 0, 99, 100000, -500, 1 << 40} {
			for pi, pre := range prefixes {
				if code == 0 && pi > 2 {
					continue
				}
				for _, suf := range suffixes {
					sc := append(append(append([]action(nil), pre...), action{aHdr, code, 0}), suf...)
					i++
					for hkind := 0; hkind < 3; hkind++ {
						if hkind == i%3 || e.Thorough() {
							add(hkind, 4, 0, sc)
							add(hkind, 4, 1, sc)
						} else {
							add(hkind, 4, (i+hkind)%2, sc)
						}
					}
					if len(pre) == 0 || pi == 3 {
						add(r.Intn(3), []int{0, 8, 12, 16}[r.Intn(4)], r.Intn(2), sc)
					}
				}
			}
		}
	}
	// 3. the abort value itself (outside the property; model comparison only)
	for i := 0; i < 60; i++ {
		sc := append(append([]action(nil), scripts[r.Intn(len(scripts))]...), action{aPanic, pvAbort, 0})
		add(r.Intn(3), thresholds[r.Intn(5)], r.Intn(2), sc)
	}
	// 4. random longer scripts, any code 200..599, repeated WriteHeader allowed
	nRandom := 2000
	if e.Thorough() {
		nRandom = 100000
	}
	for i := 0; i < nRandom; i++ {
		l := r.Intn(9)
		var sc []action
		for j := 0; j < l; j++ {
			switch x := r.Intn(14); {
			case x < 2:
				sc = append(sc, action{aNop, 0, 0})
			case x < 5:
				if r.Chance(8) {
					// a code net/http rejects; 0 only as the very first action
					bad := []int{1000, 42, -1, 99, 7, 31337, -404, 0}
					sc = append(sc, action{aHdr, bad[r.Intn(len(bad)-1+b2i(j == 0))], 0})
					break
				}
				sc = append(sc, action{aHdr, 200 + r.Intn(400), 0})
			case x < 9:
				sc = append(sc, action{aBody, r.Intn(3), 1 + r.Intn(9)})
			case x < 11:
				sc = append(sc, action{aFlush, r.Intn(2), 0})
			case x < 13:
				if r.Chance(25) {
					sc = append(sc, action{aCtxReplace + r.Intn(2), r.Intn(2), 0})
				} else {
					sc = append(sc, action{aError404 + r.Intn(5), 0, 1 + r.Intn(9)})
				}
			default:
				sc = append(sc, action{aPanic, randomKind(r), 0})
			}
		}
		if r.Chance(40) {
			sc = append(sc, action{aPanic, randomKind(r), 0})
		}
		thr := 4
		if r.Chance(25) {
			thr = thresholds[r.Intn(5)]
		}
		add(r.Intn(3), thr, r.Intn(2), sc)
	}
	var keys [][4]int
	for key := range pending {
		keys = append(keys, key)
	}
	sort.Slice(keys, func(i, j int) bool {
		for x := 0; x < 4; x++ {
			if keys[i][x] != keys[j][x] {
				return keys[i][x] < keys[j][x]
			}
		}
		return false
	})
	for _, key := range keys {
		flush(key, true)
	}
	e.Stats["random_scripts"] = nRandom
	rn.finish()
	if len(rn.harnessErrs) > 0 {
		return fmt.Errorf("%d requests failed on the client side twice without an escaped panic on the server, e.g. %s",
			len(rn.harnessErrs), rn.harnessErrs[0])
	}
	return nil
}

func isCore(k int, core []int) bool {
	for _, c := range core {
		if c == k {
			return true
		}
	}
	return false
}

// randomKind: any panic value kind; the 1 MiB string rarely.
func randomKind(r *hk.Rng) int {
	for {
		k := 1 + r.Intn(panicKinds-1)
		if k != pvBigString || r.Chance(5) {
			return k
		}
	}
}

func (rn *runner) finish() {
	for k, v := range rn.stats {
		rn.e.Stats[k] = v
	}
	rn.e.Stats["distinct_nontrivial"] = len(rn.dist)
	rn.e.Stats["harness_violations"] = rn.viol
}

func parseCase(line string) (hkind, thr int, sc []action, ok bool) {
	f := strings.Fields(line)
	for len(f) > 0 && f[0] != "E" {
		f = f[1:]
	}
	if len(f) < 8 {
		return
	}
	hkind, _ = strconv.Atoi(f[2])
	thr, _ = strconv.Atoi(f[3])
	n, _ := strconv.Atoi(f[7])
	if len(f) < 8+3*n {
		return
	}
	for i := 0; i < n; i++ {
		t, _ := strconv.Atoi(f[8+3*i])
		a, _ := strconv.Atoi(f[9+3*i])
		b, _ := strconv.Atoi(f[10+3*i])
		if t == aHdr {
			a = decCode(a)
		}
		sc = append(sc, action{t, a, b})
	}
	return hkind, thr, sc, true
}

// ---------------------------------------------------------------- values whose methods panic

type textMarshalerPanics struct{ n int }

func (t textMarshalerPanics) MarshalText() ([]byte, error) { panic("marshal-text-inner") }

type jsonMarshalerPanics struct{ n int }

func (t jsonMarshalerPanics) MarshalJSON() ([]byte, error) { panic("marshal-json-inner") }

type formatterPanics struct{ n int }

func (t formatterPanics) Format(f fmt.State, c rune) { panic("format-inner") }

type logValuerPanics struct{ n int }

func (t logValuerPanics) LogValue() slog.Value { panic("logvalue-inner") }
