package main

import (
	"encoding/binary"
	"encoding/json"
	"errors"
	"fmt"
	"net"
	"os"
	"path/filepath"
	"sort"
	"strings"

	"github.com/whoisnian/glb/util/netutil"
	"verifharness/hk"
)

// C11: IPv4Filter answers membership exactly as the set of CIDRs added and not removed.
//
// One case line per history:
//
//	E <obs> <obs> ...
//	obs:  A:<ip hex>:<mask hex>:<res>   Add      res 0 = nil, 1 = ErrInvalidIPv4CIDR, 2 = panic / other error
//	      R:<ip hex>:<mask hex>:<res>   Remove
//	      C:<ip hex>:<res>              Contains res 0 = false, 1 = true, 2 = panic
//
// The Go side only drives the real filter and records what it returned; the extracted Coq function
// replays the line on the model and on the specification and judges every observation.
func main() { hk.Main("C11", runC11) }

type rangeT struct {
	ip   [4]byte // as given to Add: host bits may be set
	ones int
}

func (r rangeT) first() uint32 {
	return binary.BigEndian.Uint32(r.ip[:]) & maskOf(r.ones)
}
func (r rangeT) last() uint32 { return r.first() | ^maskOf(r.ones) }

func maskOf(ones int) uint32 {
	if ones == 0 {
		return 0
	}
	return ^uint32(0) << (32 - ones)
}

type history struct {
	e         *hk.Env
	r         *hk.Rng
	f         *netutil.IPv4Filter
	toks      []string
	validAdds int // successful Adds with ones > 0 = slots consumed (the switch happens at the 257th)
	nOps      int
	nProbes   int
	known     []rangeT // every range used so far (live or removed), in order of first use
	flags     map[string]bool
	long      bool // the line contains run-length groups
	scribble  bool // overwrite the caller's slices after every call: the filter must not keep them by reference
}

// after the call returned the argument slices belong to the caller again
func (h *history) scribbleOver(bs ...[]byte) {
	if !h.scribble {
		return
	}
	for _, b := range bs {
		for i := range b {
			b[i] ^= 0xa5
		}
	}
}

func newHistory(e *hk.Env, r *hk.Rng) *history {
	h := &history{e: e, r: r, f: netutil.NewIPv4Filter(), flags: map[string]bool{}}
	if r.Chance(30) {
		h.scribble = true
		h.flags["histories_scribbling_over_arguments_after_the_call"] = true
	}
	return h
}

func errCode(err error) int {
	switch {
	case err == nil:
		return 0
	case errors.Is(err, netutil.ErrInvalidIPv4CIDR): // a wrapped ErrInvalidIPv4CIDR is still that error
		return 1
	}
	return 2
}

func (h *history) callAdd(ip, mask []byte) (code int) {
	defer func() {
		if p := recover(); p != nil {
			code = 2
		}
	}()
	return errCode(h.f.Add(&net.IPNet{IP: net.IP(ip), Mask: net.IPMask(mask)}))
}

func (h *history) callRemove(ip, mask []byte) (code int) {
	defer func() {
		if p := recover(); p != nil {
			code = 2
		}
	}()
	return errCode(h.f.Remove(&net.IPNet{IP: net.IP(ip), Mask: net.IPMask(mask)}))
}

func (h *history) callContains(ip []byte) (code int) {
	defer func() {
		if p := recover(); p != nil {
			code = 2
		}
	}()
	if h.f.Contains(net.IP(ip)) {
		return 1
	}
	return 0
}

func (h *history) notePanic(where, tok string, code int) {
	if code == 2 && !h.flags["calls_that_panicked_or_failed_oddly"] {
		h.flags["calls_that_panicked_or_failed_oddly"] = true
		if h.e.Stats["panic_viol_lines"] == nil || h.e.Stats["panic_viol_lines"].(int) < 3 {
			h.e.Count("panic_viol_lines", 1)
			h.e.Case("VIOL", "panic-in-"+where, fmt.Sprintf("seed=%d", h.e.Seed), fmt.Sprintf("after_ops=%d", h.nOps),
				fmt.Sprintf("list_slots_used=%d", h.validAdds), "call="+tok+"2")
		}
	}
}

func (h *history) rawAdd(ip, mask []byte) int {
	tok := fmt.Sprintf("A:%s:%s:", hk.Hx(ip), hk.Hx(mask))
	c := h.callAdd(ip, mask)
	h.notePanic("Add", tok, c)
	h.scribbleOver(ip, mask)
	h.toks = append(h.toks, tok+fmt.Sprint(c))
	h.nOps++
	return c
}

func (h *history) rawRemove(ip, mask []byte) int {
	tok := fmt.Sprintf("R:%s:%s:", hk.Hx(ip), hk.Hx(mask))
	c := h.callRemove(ip, mask)
	h.notePanic("Remove", tok, c)
	h.scribbleOver(ip, mask)
	h.toks = append(h.toks, tok+fmt.Sprint(c))
	h.nOps++
	return c
}

func (h *history) probe(ip []byte) {
	tok := fmt.Sprintf("C:%s:", hk.Hx(ip))
	c := h.callContains(ip)
	h.notePanic("Contains", tok, c)
	h.scribbleOver(ip)
	h.toks = append(h.toks, tok+fmt.Sprint(c))
	h.nProbes++
}

func (h *history) remember(rg rangeT) {
	for _, k := range h.known {
		if k == rg {
			return
		}
	}
	h.known = append(h.known, rg)
}

func (h *history) add(rg rangeT) {
	var ip, mask []byte
	if h.r.Chance(15) && rg.ones <= 32 {
		// through the standard parser, as a user would
		_, n, err := net.ParseCIDR(fmt.Sprintf("%d.%d.%d.%d/%d", rg.ip[0], rg.ip[1], rg.ip[2], rg.ip[3], rg.ones))
		if err == nil {
			ip, mask = n.IP, n.Mask
		}
	}
	if ip == nil {
		ip = append([]byte{}, rg.ip[:]...)
		mask = net.CIDRMask(rg.ones, 32)
	}
	if h.rawAdd(ip, mask) == 0 && rg.ones > 0 {
		h.validAdds++
	}
	h.remember(rg)
	h.e.Count(fmt.Sprintf("prefix_len_%02d", rg.ones), 1)
}

func (h *history) remove(rg rangeT) {
	h.rawRemove(append([]byte{}, rg.ip[:]...), net.CIDRMask(rg.ones, 32))
	h.remember(rg)
}

func u32b(x uint32) []byte {
	b := make([]byte, 4)
	binary.BigEndian.PutUint32(b, x)
	return b
}

// first/last address of the range and their outside neighbours, in 4-byte and in 16-byte form
func (h *history) probeRange(rg rangeT) {
	for _, a := range []uint32{rg.first(), rg.last(), rg.first() - 1, rg.last() + 1} {
		b := u32b(a)
		b16 := append([]byte{}, net.IP(b).To16()...)
		h.probe(b)
		h.probe(b16)
	}
}

// addresses that are not IPv4: real IPv6, IPv4-compatible (::a.b.c.d), almost-mapped, odd lengths
func (h *history) probeNonV4(rg rangeT) {
	a := u32b(rg.first())
	switch h.r.Intn(7) {
	case 6:
		h.probe(nil) // Contains(nil)
		h.e.Count("probes_nil", 1)
	case 0:
		ip := make([]byte, 16)
		ip[0], ip[1], ip[2], ip[3] = 0x20, 0x01, 0x0d, 0xb8
		copy(ip[12:], a)
		h.probe(ip)
	case 1:
		ip := make([]byte, 16) // ::a.b.c.d
		copy(ip[12:], a)
		h.probe(ip)
	case 2:
		ip := net.IP(a).To16()
		ip = append([]byte{}, ip...)
		ip[10+h.r.Intn(2)] = 0xfe
		h.probe(ip)
	case 3:
		ip := append([]byte{}, net.IP(a).To16()...)
		ip[h.r.Intn(10)] = byte(1 + h.r.Intn(255))
		h.probe(ip)
	case 4:
		h.probe(a[:3])
	default:
		l := []int{0, 1, 5, 8, 12, 15, 17, 20}[h.r.Intn(8)]
		ip := make([]byte, l)
		for i := range ip {
			ip[i] = a[i%4]
		}
		h.probe(ip)
	}
}

func (h *history) probeSome(n int) {
	if len(h.known) == 0 {
		h.probe(u32b(uint32(h.r.U64())))
		return
	}
	for i := 0; i < n; i++ {
		var rg rangeT
		if h.r.Chance(50) {
			// biased to the recently touched
			k := len(h.known) - 1 - h.r.Intn(min(len(h.known), 8))
			rg = h.known[k]
		} else {
			rg = h.known[h.r.Intn(len(h.known))]
		}
		h.probeRange(rg)
	}
	if h.r.Chance(50) {
		h.probeNonV4(h.known[h.r.Intn(len(h.known))])
	}
	if h.r.Chance(30) {
		h.probe(u32b(uint32(h.r.U64())))
	}
}

func (h *history) invalidArg() {
	var ip, mask []byte
	kind := h.r.Intn(8)
	base := rangeT{ip: [4]byte{byte(h.r.Intn(256)), byte(h.r.Intn(256)), byte(h.r.Intn(256)), byte(h.r.Intn(256))}, ones: h.r.Intn(33)}
	if len(h.known) > 0 && h.r.Chance(70) {
		base = h.known[h.r.Intn(len(h.known))] // an argument that would hit a live range if it were accepted
	}
	switch kind {
	case 0: // IPv6 network
		ip = make([]byte, 16)
		for i := range ip {
			ip[i] = byte(h.r.Intn(256))
		}
		mask = net.CIDRMask(h.r.Intn(129), 128)
	case 1: // non-contiguous 4-byte mask
		ip = base.ip[:]
		for {
			mask = []byte{byte(h.r.Intn(256)), byte(h.r.Intn(256)), byte(h.r.Intn(256)), byte(h.r.Intn(256))}
			if h.r.Chance(50) {
				mask = [][]byte{{0xff, 0, 0xff, 0}, {0, 0xff, 0xff, 0xff}, {0xff, 0xff, 0xfe, 0x01}, {0xff, 0x7f, 0, 0}, {0xfd, 0, 0, 0}, {0, 0, 0, 1}}[h.r.Intn(6)]
			}
			if o, b := net.IPMask(mask).Size(); o == 0 && b == 0 {
				break
			}
		}
	case 2: // 16-byte form of an IPv4 address with a 4-byte mask
		ip = net.IP(base.ip[:]).To16()
		mask = net.CIDRMask(base.ones, 32)
	case 3: // 4-byte address with a 16-byte mask
		ip = base.ip[:]
		mask = net.CIDRMask(96+base.ones, 128)
	case 4: // both in 16-byte form (what IPNet of an IPv4-mapped IPv6 prefix looks like)
		ip = net.IP(base.ip[:]).To16()
		mask = net.CIDRMask(96+base.ones, 128)
	case 5: // empty mask
		ip = base.ip[:]
		mask = nil
	case 6: // wrong lengths
		ip = base.ip[:3]
		mask = net.CIDRMask(base.ones, 32)
		if h.r.Bool() {
			ip = append(append([]byte{}, base.ip[:]...), 0)
		}
	default: // 5- or 3-byte mask
		ip = base.ip[:]
		mask = [][]byte{{0xff, 0xff, 0xff, 0, 0}, {0xff, 0xff, 0}, {0xff}, {0xff, 0xff, 0xff, 0xff, 0xff, 0xff, 0xff, 0xff}}[h.r.Intn(4)]
	}
	ip = append([]byte{}, ip...)
	if h.r.Chance(60) {
		h.rawAdd(ip, mask)
	} else {
		h.rawRemove(ip, mask)
	}
	h.e.Count("invalid_args", 1)
	h.e.Count(fmt.Sprintf("invalid_kind_%d", kind), 1)
}

// a new range: fresh, nested in / around an existing one, or its neighbour
func (h *history) newRange(minOnes int) rangeT {
	ones := minOnes + h.r.Intn(33-minOnes)
	var ip [4]byte
	binary.BigEndian.PutUint32(ip[:], uint32(h.r.U64()))
	if len(h.known) > 0 {
		k := h.known[h.r.Intn(len(h.known))]
		switch h.r.Intn(10) {
		case 0, 1: // same address, other prefix length (nested)
			ip = k.ip
		case 2: // right neighbour of the same size
			binary.BigEndian.PutUint32(ip[:], k.last()+1)
			ones = k.ones
		case 3: // left neighbour of the same size
			binary.BigEndian.PutUint32(ip[:], k.first()-1)
			ones = k.ones
		case 4: // the same range under another non-canonical address
			binary.BigEndian.PutUint32(ip[:], k.first()|(uint32(h.r.U64()) & ^maskOf(k.ones)))
			ones = k.ones
		}
	}
	if ones < minOnes {
		ones = minOnes
	}
	return rangeT{ip: ip, ones: ones}
}

func (h *history) emit(kind string) {
	tag := "E"
	if h.long {
		tag = "L" // run-length encoded: judged by the driver, never sampled for the in-Coq cross-check
	}
	h.e.Case(append([]string{tag}, h.toks...)...)
	h.e.Count("histories", 1)
	h.e.Count("histories_"+kind, 1)
	h.e.Count("ops", h.nOps)
	h.e.Count("probes", h.nProbes)
	if h.validAdds > 256 {
		h.e.Count("histories_crossing_switch", 1)
	}
	for k := range h.flags {
		h.e.Count(k, 1)
	}
	b := h.nOps / 100 * 100
	h.e.Count(fmt.Sprintf("ops_%03d_%03d", b, b+99), 1)
	if len(h.toks) <= 24 && len(h.toks) >= 6 {
		h.e.Sample("samples", map[string]string{"kind": kind, "history": strings.Join(h.toks, " ")}, 4)
	}
}

// ---- history shapes ----

// short histories over a small pool: every prefix length 0..32 uniformly, duplicates, absent removals
func small(e *hk.Env, r *hk.Rng) {
	h := newHistory(e, r)
	n := 1 + r.Intn(40)
	npool := 1 + r.Intn(6)
	var pool []rangeT
	for i := 0; i < npool; i++ {
		rg := h.newRange(0)
		pool = append(pool, rg)
		h.remember(rg)
	}
	for i := 0; i < n; i++ {
		rg := pool[r.Intn(len(pool))]
		switch {
		case r.Chance(8):
			h.invalidArg()
		case r.Chance(60):
			h.add(rg)
		default:
			h.remove(rg)
		}
		if r.Chance(60) {
			h.probeSome(1 + r.Intn(2))
		}
	}
	for _, rg := range pool {
		h.probeRange(rg)
	}
	h.emit("small")
}

// 250..300 distinct ranges, removals before / at / after the 256th slot, re-adds, duplicates
func crossing(e *hk.Env, r *hk.Rng) {
	h := newHistory(e, r)
	total := 250 + r.Intn(51)
	var added []rangeT
	removed := map[rangeT]bool{}
	removeAt := map[int]bool{} // number of consumed slots at which a removal burst happens
	for _, p := range []int{1 + r.Intn(40), 100 + r.Intn(100), 250 + r.Intn(5), 255, 256, 257, 258 + r.Intn(30)} {
		if r.Chance(75) {
			removeAt[p] = true
		}
	}
	burst := func() {
		for k := 0; k < 1+r.Intn(4); k++ {
			if len(added) == 0 {
				return
			}
			var rg rangeT
			switch r.Intn(4) {
			case 0:
				rg = added[len(added)-1] // the slot just written (at 256: the last slot of the list)
			case 1:
				rg = added[r.Intn(min(len(added), 3))] // the first slots
			default:
				rg = added[r.Intn(len(added))]
			}
			switch {
			case h.validAdds < 256:
				h.flags["removed_before_switch"] = true
			case h.validAdds == 256:
				h.flags["removed_at_switch"] = true
			default:
				h.flags["removed_after_switch"] = true
			}
			h.remove(rg)
			removed[rg] = true
			h.probeRange(rg)
		}
	}
	for len(added) < total {
		if removeAt[h.validAdds] {
			delete(removeAt, h.validAdds)
			burst()
		}
		before := h.validAdds
		switch {
		case r.Chance(3):
			h.invalidArg()
		case r.Chance(3) && len(added) > 0: // duplicate: consumes a slot in list mode
			h.add(added[r.Intn(len(added))])
		case r.Chance(2): // 0.0.0.0/0 on, probes, off
			z := rangeT{ones: 0}
			h.add(z)
			h.probeSome(1)
			h.remove(z)
		case r.Chance(4) && len(removed) > 0: // re-add a removed range
			rs := sortedRanges(removed)
			rg := rs[r.Intn(len(rs))]
			h.add(rg)
			delete(removed, rg)
			h.flags["readd_after_remove"] = true
		case r.Chance(2): // removal of a range that was never added
			h.remove(h.newRange(1))
		default:
			rg := h.newRange(1)
			h.add(rg)
			added = append(added, rg)
		}
		// around the switch look closely, elsewhere now and then
		if h.validAdds >= 254 && h.validAdds <= 259 && h.validAdds != before {
			h.probeSome(6)
			for _, rg := range sortedRanges(removed) {
				if r.Chance(30) {
					h.probeRange(rg)
				}
			}
		} else if r.Chance(6) {
			h.probeSome(2)
		}
	}
	burst()
	h.probeSome(10)
	rs := sortedRanges(removed)
	for i := 0; i < len(rs) && i < 12; i++ {
		h.probeRange(rs[r.Intn(len(rs))])
	}
	h.emit("crossing")
}

func sortedRanges(m map[rangeT]bool) []rangeT {
	var rs []rangeT
	for rg := range m {
		rs = append(rs, rg)
	}
	sort.Slice(rs, func(i, j int) bool {
		a, b := rs[i], rs[j]
		if a.ones != b.ones {
			return a.ones < b.ones
		}
		return binary.BigEndian.Uint32(a.ip[:]) < binary.BigEndian.Uint32(b.ip[:])
	})
	return rs
}

// up to 600 random operations over a pool that may or may not fill the list
func long(e *hk.Env, r *hk.Rng) {
	h := newHistory(e, r)
	n := 50 + r.Intn(551)
	npool := 5 + r.Intn(300)
	var pool []rangeT
	for i := 0; i < npool; i++ {
		rg := h.newRange(0)
		pool = append(pool, rg)
		h.remember(rg)
	}
	addPct := 55 + r.Intn(40)
	for i := 0; i < n; i++ {
		rg := pool[r.Intn(len(pool))]
		switch {
		case r.Chance(3):
			h.invalidArg()
		case r.Chance(addPct):
			h.add(rg)
		default:
			if h.validAdds < 256 {
				h.flags["removed_before_switch"] = true
			} else if h.validAdds == 256 {
				h.flags["removed_at_switch"] = true
			} else {
				h.flags["removed_after_switch"] = true
			}
			h.remove(rg)
			if r.Chance(50) {
				h.probeRange(rg)
			}
		}
		if r.Chance(10) || (h.validAdds >= 255 && h.validAdds <= 258 && r.Chance(60)) {
			h.probeSome(2)
		}
	}
	h.probeSome(8)
	h.emit("long")
}

// the list filled with copies of one or two ranges, all zeroed by Remove, then the migration of zeroed slots
func dupFill(e *hk.Env, r *hk.Rng) {
	h := newHistory(e, r)
	a, b := h.newRange(1), h.newRange(1)
	n := 250 + r.Intn(10)
	for i := 0; i < n; i++ {
		if r.Chance(20) {
			h.add(b)
		} else {
			h.add(a)
		}
		if i == 254 || i == 255 || i == 256 {
			h.probeRange(a)
		}
	}
	h.remove(a)
	h.flags["removed_before_switch"] = true
	h.probeRange(a)
	h.probeRange(b)
	for i := 0; i < 5+r.Intn(10); i++ {
		rg := h.newRange(1)
		if r.Chance(20) {
			rg = a
		}
		h.add(rg)
		h.probeRange(a)
		h.probeRange(rg)
	}
	h.remove(b)
	h.probeRange(b)
	h.probeSome(4)
	h.emit("dupfill")
}

// duplicates interleaved with other ranges in list mode, then removed: "Add X, Add Y, Add X, Remove X",
// "Add X, Add X, Add Y, Remove X", duplicates as the last live entries, several duplicates
func dupPatterns(e *hk.Env, r *hk.Rng) {
	h := newHistory(e, r)
	x := h.newRange(1)
	others := []rangeT{h.newRange(1), h.newRange(1), h.newRange(1)}
	// a word over {x, o0, o1, o2} with at least two x
	n := 3 + r.Intn(8)
	word := make([]int, n) // 0 = x, 1.. = others
	for i := range word {
		word[i] = r.Intn(4)
	}
	word[r.Intn(n)] = 0
	switch r.Intn(4) {
	case 0: // duplicates are the last live entries
		word[n-1], word[n-2] = 0, 0
	case 1: // x first and last
		word[0], word[n-1] = 0, 0
	case 2: // x x o
		word[0], word[1], word[n-1] = 0, 0, 1
	default:
		word[r.Intn(n)] = 0
	}
	pre := 0
	if r.Chance(25) { // the same pattern at the end of a nearly full list / across the switch
		pre = 245 + r.Intn(12)
		for i := 0; i < pre; i++ {
			h.add(h.newRange(1))
		}
	}
	for _, w := range word {
		if w == 0 {
			h.add(x)
		} else {
			h.add(others[w-1])
		}
	}
	h.remove(x)
	h.probeRange(x)
	for _, o := range others {
		h.probeRange(o)
	}
	// second round: remove another one, re-add x, remove x again
	o := others[r.Intn(3)]
	h.remove(o)
	h.probeRange(o)
	h.probeRange(x)
	if r.Bool() {
		h.add(x)
		h.add(o)
		h.add(x)
		h.probeRange(x)
		h.remove(x)
		h.probeRange(x)
		h.probeRange(o)
	}
	if pre > 0 {
		h.probeSome(6)
	}
	h.flags["dup_pattern_histories"] = true
	h.emit("duppattern")
}

// the first 256 slots use only 1-3 distinct prefix lengths, everything after the switch only OTHER
// lengths; then the early ranges are probed
func crossingFewLens(e *hk.Env, r *hk.Rng) {
	h := newHistory(e, r)
	nl := 1 + r.Intn(3)
	early := map[int]bool{}
	var earlyLens []int
	for len(earlyLens) < nl {
		l := 8 + r.Intn(25)
		if !early[l] {
			early[l] = true
			earlyLens = append(earlyLens, l)
		}
	}
	var first []rangeT
	seen := map[rangeT]bool{}
	for h.validAdds < 256 {
		var ip [4]byte
		binary.BigEndian.PutUint32(ip[:], uint32(r.U64()))
		rg := rangeT{ip: ip, ones: earlyLens[r.Intn(nl)]}
		if len(first) > 0 && r.Chance(10) {
			k := first[r.Intn(len(first))]
			binary.BigEndian.PutUint32(rg.ip[:], k.last()+1)
			rg.ones = k.ones
		}
		if seen[rg] {
			continue
		}
		seen[rg] = true
		h.add(rg)
		first = append(first, rg)
		if r.Chance(2) {
			k := first[r.Intn(len(first))]
			h.remove(k)
			h.flags["removed_before_switch"] = true
		}
	}
	h.probeSome(3)
	nlate := 1 + r.Intn(4)
	for i := 0; i < nlate; i++ {
		var rg rangeT
		for {
			rg = h.newRange(1)
			if !early[rg.ones] {
				break
			}
		}
		h.add(rg)
		h.probeRange(rg)
		// the early ranges must still be there
		for k := 0; k < 6; k++ {
			h.probeRange(first[r.Intn(len(first))])
		}
		h.probeRange(first[0])
		h.probeRange(first[len(first)-1])
	}
	if r.Bool() {
		k := first[r.Intn(len(first))]
		h.remove(k)
		h.flags["removed_after_switch"] = true
		h.probeRange(k)
	}
	h.flags["few_prefix_lengths_histories"] = true
	h.emit("crossing_fewlens")
}

// ---- replay / corpus: re-execute a recorded line on the current code ----

func replayLine(e *hk.Env, line string) {
	f := strings.Fields(line)
	if len(f) < 2 || f[0] != "E" {
		return
	}
	h := newHistory(e, e.Rng)
	for _, t := range f[1:] {
		p := strings.Split(t, ":")
		switch {
		case p[0] == "A" && len(p) == 4:
			h.rawAdd(hk.Unhx(p[1]), hk.Unhx(p[2]))
		case p[0] == "R" && len(p) == 4:
			h.rawRemove(hk.Unhx(p[1]), hk.Unhx(p[2]))
		case p[0] == "C" && len(p) == 3:
			h.probe(hk.Unhx(p[1]))
		}
	}
	h.emit("replayed")
}

func replayFile(e *hk.Env, path string) error {
	data, err := os.ReadFile(path)
	if err != nil {
		return err
	}
	var js map[string]any
	if json.Unmarshal(data, &js) == nil {
		if c, ok := js["case"].(string); ok {
			replayLine(e, c)
			return nil
		}
	}
	for _, l := range strings.Split(string(data), "\n") {
		replayLine(e, strings.TrimSpace(l))
	}
	return nil
}

// ---- one long single-threaded churn history, judged on the Go side by the specification only ----
//
// ~10,000 (thorough 60,000) operations on one filter: thousands of distinct ranges added, most of them
// removed again in random order, every removed range probed right after its removal and again at the end.
// Replaying this in the extracted model (list-based sets, a few thousand keys) would take minutes, so this
// ONE history is judged here against a plain map of live (network, prefix length) keys - the same live-set
// definition as Lib/CidrSet.v: Contains(ip) <=> exists n, live[(ip & mask(n), n)] - and failures are VIOL lines.
type specSet struct {
	live map[[2]uint32]bool
	all  bool
}

func (s *specSet) covered(ip uint32) bool {
	if s.all {
		return true
	}
	for n := 1; n <= 32; n++ {
		if s.live[[2]uint32{ip & maskOf(n), uint32(n)}] {
			return true
		}
	}
	return false
}

func churn(e *hk.Env, r *hk.Rng) {
	nAdd, nDel := 4600, 4300
	if e.Thorough() {
		nAdd, nDel = 28000, 26500
	}
	h := newHistory(e, r)
	spec := &specSet{live: map[[2]uint32]bool{}}
	nviol := 0
	ops, probes, delPresent, distinct := 0, 0, 0, 0
	check := func(what string, rg rangeT, a uint32, form16 bool) {
		b := u32b(a)
		if form16 {
			b = append([]byte{}, net.IP(b).To16()...)
		}
		pb := append([]byte{}, b...)
		got := h.callContains(b)
		h.scribbleOver(b)
		probes++
		want := 0
		if spec.covered(a) {
			want = 1
		}
		if got != want && nviol < 5 {
			nviol++
			e.Case("VIOL", "long-history-"+what, fmt.Sprintf("seed=%d", e.Seed), fmt.Sprintf("op=%d", ops), "probe="+hk.Hx(pb),
				fmt.Sprintf("range=%d.%d.%d.%d/%d", rg.ip[0], rg.ip[1], rg.ip[2], rg.ip[3], rg.ones),
				fmt.Sprintf("got=%d", got), fmt.Sprintf("want=%d", want),
				fmt.Sprintf("adds_so_far=%d", distinct), fmt.Sprintf("removals_of_present_so_far=%d", delPresent), fmt.Sprintf("live_now=%d", len(spec.live)))
		}
	}
	doAdd := func(rg rangeT) {
		ip, mask := append([]byte{}, rg.ip[:]...), net.CIDRMask(rg.ones, 32)
		c := h.callAdd(ip, mask)
		h.scribbleOver(ip, mask)
		ops++
		if c != 0 && nviol < 5 {
			nviol++
			e.Case("VIOL", "long-history-add-failed", fmt.Sprintf("seed=%d", e.Seed), fmt.Sprintf("op=%d", ops), fmt.Sprintf("code=%d", c))
		}
		if rg.ones == 0 {
			spec.all = true
		} else {
			spec.live[[2]uint32{rg.first(), uint32(rg.ones)}] = true
		}
	}
	doRemove := func(rg rangeT) {
		ip, mask := append([]byte{}, rg.ip[:]...), net.CIDRMask(rg.ones, 32)
		c := h.callRemove(ip, mask)
		h.scribbleOver(ip, mask)
		ops++
		if c != 0 && nviol < 5 {
			nviol++
			e.Case("VIOL", "long-history-remove-failed", fmt.Sprintf("seed=%d", e.Seed), fmt.Sprintf("op=%d", ops), fmt.Sprintf("code=%d", c))
		}
		if rg.ones == 0 {
			spec.all = false
		} else {
			delete(spec.live, [2]uint32{rg.first(), uint32(rg.ones)})
		}
	}
	// distinct ranges (as keys), prefix lengths 8..32, some nested / neighbouring
	var rs []rangeT
	seen := map[[2]uint32]bool{}
	for len(rs) < nAdd {
		rg := h.newRange(8)
		h.known = h.known[:0]
		if len(rs) > 0 && r.Chance(20) {
			k := rs[r.Intn(len(rs))]
			switch r.Intn(3) {
			case 0:
				rg.ip = k.ip // nested
			case 1:
				binary.BigEndian.PutUint32(rg.ip[:], k.last()+1)
				rg.ones = k.ones
			default:
				binary.BigEndian.PutUint32(rg.ip[:], k.first()-1)
				rg.ones = k.ones
			}
		}
		key := [2]uint32{rg.first(), uint32(rg.ones)}
		if seen[key] {
			continue
		}
		seen[key] = true
		rs = append(rs, rg)
	}
	for i, rg := range rs {
		doAdd(rg)
		distinct++
		if r.Chance(3) { // a duplicate now and then
			doAdd(rs[r.Intn(i+1)])
		}
		if r.Chance(5) {
			k := rs[r.Intn(i+1)]
			check("probe", k, k.first(), r.Chance(30))
			check("probe", k, k.last()+1, false)
		}
	}
	// removals of present ranges in random order, each probed right away
	order := make([]int, len(rs))
	for i := range order {
		order[i] = i
	}
	for i := len(order) - 1; i > 0; i-- {
		j := r.Intn(i + 1)
		order[i], order[j] = order[j], order[i]
	}
	removed := order[:nDel]
	for n, i := range removed {
		rg := rs[i]
		if spec.live[[2]uint32{rg.first(), uint32(rg.ones)}] {
			delPresent++
		}
		doRemove(rg)
		check("removed-range", rg, rg.first(), false)
		check("removed-range", rg, rg.last(), r.Chance(30))
		switch {
		case r.Chance(2): // removal of a range that is not (any more) there
			doRemove(rs[removed[r.Intn(n+1)]])
		case r.Chance(2): // 0.0.0.0/0 on and off
			doAdd(rangeT{})
			check("probe", rg, rg.first(), false)
			doRemove(rangeT{})
		case r.Chance(3): // a kept range must still be there
			k := rs[order[nDel+r.Intn(len(order)-nDel)]]
			check("kept-range", k, k.first(), false)
		}
	}
	// at the end: every removed range again, every kept range
	for _, i := range removed {
		check("removed-range-at-end", rs[i], rs[i].first(), false)
		check("removed-range-at-end", rs[i], rs[i].last(), false)
	}
	for _, i := range order[nDel:] {
		check("kept-range-at-end", rs[i], rs[i].first(), r.Chance(30))
	}
	e.Stats["long_history_ops"] = ops
	e.Stats["long_history_distinct_adds"] = distinct
	e.Stats["long_history_removals_of_present_ranges"] = delPresent
	e.Stats["long_history_probes"] = probes
	e.Stats["long_history_violations"] = nviol
	e.Stats["long_history_judged_by"] = "Go-side live-set map (specification only; not replayed in the extracted model)"
}

// ---- "repeated lookup across N updates" ----
//
// Contains(a); exactly N successful non-/0 updates, one of which changes a's membership (first / in the
// middle / last), the others unrelated (Add X / Remove X pairs, removals of an absent range); Contains(a)
// again with NO other address looked up in between; then a twice in a row and a / b alternating.
// N runs over 1, 2, 255, 256, 257, 65535, 65536, 65537, 131072 (thorough: also 2^24), in list mode and in
// map mode, with 4- and 16-byte probes.  The unrelated updates are written as run-length groups
// ("*n*A:..,R:..") which the driver expands: the extracted model and specification judge every answer.

// n times the group of calls; every repetition must return nil
func (h *history) repeat(n int, group []wcall) {
	if n <= 0 || len(group) == 0 {
		return
	}
	toks := make([]string, len(group))
	for i, c := range group {
		k := "R"
		if c.add {
			k = "A"
		}
		toks[i] = fmt.Sprintf("%s:%s:%s:0", k, hk.Hx(c.rg.ip[:]), hk.Hx(net.CIDRMask(c.rg.ones, 32)))
	}
	ip, mask := make([]byte, 4), make([]byte, 4)
	for i := 0; i < n; i++ {
		for _, c := range group {
			copy(ip, c.rg.ip[:])
			copy(mask, net.CIDRMask(c.rg.ones, 32))
			var code int
			if c.add {
				code = h.callAdd(ip, mask)
				if c.rg.ones > 0 {
					h.validAdds++
				}
			} else {
				code = h.callRemove(ip, mask)
			}
			h.nOps++
			if code != 0 && !h.flags["repeat_failed"] {
				h.flags["repeat_failed"] = true
				h.e.Case("VIOL", "repeated-update-failed", fmt.Sprintf("seed=%d", h.e.Seed), fmt.Sprintf("repetition=%d", i), toks[0], fmt.Sprintf("code=%d", code))
			}
		}
	}
	if n == 1 {
		h.toks = append(h.toks, toks...)
	} else {
		h.toks = append(h.toks, fmt.Sprintf("*%d*%s", n, strings.Join(toks, ",")))
		h.long = true
	}
}

type wcall struct {
	add bool
	rg  rangeT
}

// exactly c unrelated successful updates
func (h *history) unrelated(c int, mapsMode bool, x, y rangeT) {
	if c <= 0 {
		return
	}
	if mapsMode {
		h.repeat(c/2, []wcall{{true, x}, {false, x}})
		h.repeat(c%2, []wcall{{false, y}})
		return
	}
	// list mode: an Add would use up a slot, so mostly removals of a range that is not there
	pairs := min(c/2, h.r.Intn(8))
	h.repeat(pairs, []wcall{{true, x}, {false, x}})
	h.repeat(c-2*pairs, []wcall{{false, y}})
}

func repeatedLookup(e *hk.Env, r *hk.Rng, n int, mapsMode bool, pos int, light bool) {
	h := newHistory(e, r)
	h.scribble = false
	a := rangeT{ip: [4]byte{10, 9, 8, byte(r.Intn(256))}, ones: 20 + r.Intn(13)}
	b := rangeT{ip: [4]byte{10, 77, 8, byte(r.Intn(256))}, ones: 20 + r.Intn(13)}
	x := rangeT{ip: [4]byte{10, 200, byte(r.Intn(256)), 1}, ones: 24 + r.Intn(9)}
	y := rangeT{ip: [4]byte{10, 201, byte(r.Intn(256)), 1}, ones: 24 + r.Intn(9)}
	if mapsMode { // 257 slots, then most of them removed again: map mode with a small live set
		var pre []rangeT
		for i := 0; i < 257; i++ {
			rg := rangeT{ip: [4]byte{172, byte(16 + i%16), byte(i / 16), byte(r.Intn(256))}, ones: 24 + r.Intn(9)}
			pre = append(pre, rg)
			h.add(rg)
		}
		for i := 0; i < 250; i++ {
			h.remove(pre[i])
		}
	} else {
		for i := 0; i < r.Intn(6); i++ {
			h.add(rangeT{ip: [4]byte{172, byte(16 + i), 0, byte(r.Intn(256))}, ones: 24 + r.Intn(9)})
		}
	}
	present := r.Bool()
	if present {
		h.add(a)
	}
	if r.Bool() {
		h.add(b)
	}
	pa := u32b(a.first() | uint32(r.Intn(256))&^maskOf(a.ones))
	pb := u32b(b.first())
	if r.Chance(40) {
		pa = append([]byte{}, net.IP(pa).To16()...)
	}
	look := func(p []byte) { h.probe(append([]byte{}, p...)) }
	for round := 0; round < 2 && !(light && round > 0); round++ {
		look(pa)
		if r.Bool() {
			look(pa) // twice in a row before the updates as well
		}
		before := []int{0, (n - 1) / 2, n - 1}[pos]
		h.unrelated(before, mapsMode, x, y)
		if present {
			h.remove(a)
		} else {
			h.add(a)
		}
		present = !present
		h.unrelated(n-1-before, mapsMode, x, y)
		look(pa) // the same address, nothing else looked up in between
		look(pa)
		look(pb)
		look(pa)
		look(pb)
		look(pa)
		if round == 0 && n > 1 && !light { // exactly n updates that do not change a
			h.unrelated(n, mapsMode, x, y)
			look(pa)
		}
		pos = (pos + 1) % 3
	}
	h.flags[fmt.Sprintf("repeated_lookup_across_%d_updates", n)] = true
	if mapsMode {
		h.flags["repeated_lookup_map_mode"] = true
	} else {
		h.flags["repeated_lookup_list_mode"] = true
	}
	h.emit("repeated_lookup")
}

func repeatedLookups(e *hk.Env) {
	ns := []int{1, 2, 255, 256, 257, 65535, 65536, 65537, 131072}
	for _, n := range ns {
		for _, mapsMode := range []bool{false, true} {
			reps := 1
			if n <= 257 {
				reps = 3
			}
			for k := 0; k < reps; k++ {
				r := e.Rng.Fork()
				repeatedLookup(e, r, n, mapsMode, (k+r.Intn(3))%3, false)
			}
		}
	}
	if e.Thorough() {
		repeatedLookup(e, e.Rng.Fork(), 1<<24, false, 1, true) // one round, list mode: ~17 M observations for the driver
	}
}

// ---- the list dominated by ONE prefix length at the switch ----
//
// exactly 255 / 256 / 257 list entries of the same prefix length (/32 hosts, /24 nets, /8, /1, or a random
// length), with and without duplicates, optionally one of them removed or one entry of another length among
// them; then the triggering Add (same or another length); then lookups of ALL earlier ranges.
func samePrefixFill(e *hk.Env, r *hk.Rng, variant int) {
	h := newHistory(e, r)
	ones := []int{32, 24, 8, 1, 16, 1 + r.Intn(32)}[variant%6]
	same := []int{256, 255, 257, 256, 256, 254}[(variant/6)%6] // how many entries of that length
	dups := variant%2 == 1 || ones <= 8 // short prefixes do not have 257 distinct ranges
	var rs []rangeT
	seen := map[uint32]bool{}
	fresh := func() rangeT {
		for {
			var ip [4]byte
			binary.BigEndian.PutUint32(ip[:], uint32(r.U64()))
			rg := rangeT{ip: ip, ones: ones}
			if dups && len(rs) > 0 && r.Chance(40) {
				return rs[r.Intn(len(rs))]
			}
			if seen[rg.first()] {
				if ones <= 8 {
					return rg // a duplicate: there are not enough distinct ranges of this length
				}
				continue
			}
			seen[rg.first()] = true
			return rg
		}
	}
	other := rangeT{ip: [4]byte{byte(r.Intn(256)), 3, 3, 3}, ones: 1 + (ones+3+r.Intn(20))%32}
	extra := 0
	switch (variant / 3) % 4 {
	case 1: // one entry of another length among them
		extra = 1 + r.Intn(250)
	}
	for len(rs) < same && h.validAdds < 256 {
		if extra > 0 && len(rs) == extra {
			h.add(other)
			extra = -1
		}
		rg := fresh()
		h.add(rg)
		rs = append(rs, rg)
	}
	for h.validAdds < 256 { // fill the rest of the list with other lengths
		h.add(rangeT{ip: [4]byte{172, 16, byte(h.validAdds), 1}, ones: 25 + r.Intn(7)})
	}
	if (variant/3)%4 == 2 { // one of them removed before the switch: 255 live, 256 slots
		h.remove(rs[r.Intn(len(rs))])
	}
	h.probeRange(rs[0])
	// the triggering Add
	trig := fresh()
	if variant%4 >= 2 {
		trig = rangeT{ip: [4]byte{10, 20, 30, byte(r.Intn(256))}, ones: 1 + (ones+7)%32}
	}
	h.add(trig)
	h.flags["same_prefix_length_switch_histories"] = true
	// every earlier range
	for _, rg := range rs {
		h.probe(u32b(rg.first()))
	}
	h.probeRange(trig)
	h.probeRange(other)
	// life goes on in map mode
	for i := 0; i < 6; i++ {
		rg := fresh()
		h.add(rg)
		h.probe(u32b(rg.last()))
		k := rs[r.Intn(len(rs))]
		h.remove(k)
		h.probe(u32b(k.first()))
	}
	h.emit("same_prefix_switch")
}

// ---- up - down - up: grow past the switch, shrink to (nearly) nothing, grow again with other ranges ----
//
// 2-3 cycles on one filter: more than 256 adds; removals down to 129 / 128 / 127 / a few / 0 left; further
// removals of ranges of the earlier eras; more than 256 adds of OTHER ranges (passing 256 / 257 live again);
// then lookups of everything ever removed and of what is still there.
func upDownUp(e *hk.Env, r *hk.Rng) {
	h := newHistory(e, r)
	live := []rangeT{}
	var removed []rangeT
	seen := map[rangeT]bool{}
	fresh := func() rangeT {
		for {
			rg := h.newRange(8)
			h.known = h.known[:0]
			k := rangeT{ones: rg.ones}
			binary.BigEndian.PutUint32(k.ip[:], rg.first())
			if !seen[k] {
				seen[k] = true
				return rg
			}
		}
	}
	look := func(rg rangeT) {
		a := rg.first()
		if r.Bool() {
			a = rg.last()
		}
		b := u32b(a)
		if r.Chance(25) {
			b = append([]byte{}, net.IP(b).To16()...)
		}
		h.probe(b)
	}
	cycles := 2 + r.Intn(2)
	for c := 0; c < cycles; c++ {
		// up
		target := []int{257, 258, 260 + r.Intn(60), 256}[r.Intn(4)]
		for len(live) < target {
			rg := fresh()
			h.add(rg)
			live = append(live, rg)
			if len(live) >= 255 && len(live) <= 258 {
				look(rg)
				if len(removed) > 0 {
					look(removed[r.Intn(len(removed))])
				}
			}
		}
		for i := 0; i < 8; i++ {
			look(live[r.Intn(len(live))])
		}
		for i := 0; i < 12 && len(removed) > 0; i++ {
			look(removed[r.Intn(len(removed))])
		}
		// down
		floor := []int{129, 128, 127, 100, 3, 0}[r.Intn(6)]
		for len(live) > floor {
			i := r.Intn(len(live))
			rg := live[i]
			live[i] = live[len(live)-1]
			live = live[:len(live)-1]
			h.remove(rg)
			removed = append(removed, rg)
			if len(live) >= 126 && len(live) <= 130 {
				look(rg)
				if len(live) > 0 {
					look(live[r.Intn(len(live))])
				}
			}
		}
		// further removals in the "small" era: of ranges still present and of long-gone ones
		for i := 0; i < 1+r.Intn(6) && len(live) > 0; i++ {
			j := r.Intn(len(live))
			rg := live[j]
			live[j] = live[len(live)-1]
			live = live[:len(live)-1]
			h.remove(rg)
			removed = append(removed, rg)
			look(rg)
		}
		if len(removed) > 0 && r.Bool() {
			h.remove(removed[r.Intn(len(removed))])
		}
	}
	// up once more with other ranges, across 256 / 257
	for len(live) < 258+r.Intn(10) {
		rg := fresh()
		h.add(rg)
		live = append(live, rg)
	}
	// everything ever removed, and a sample of what is there
	for _, rg := range removed {
		look(rg)
	}
	for i := 0; i < 40; i++ {
		look(live[r.Intn(len(live))])
	}
	h.flags["up_down_up_histories"] = true
	h.emit("up_down_up")
}

func runC11(e *hk.Env) error {
	if e.Replay != "" {
		return replayFile(e, e.Replay)
	}
	if e.Corpus != "" {
		files, _ := filepath.Glob(filepath.Join(e.Corpus, "*"))
		sort.Strings(files)
		for _, f := range files {
			if err := replayFile(e, f); err != nil {
				return err
			}
		}
		e.Stats["corpus_files"] = len(files)
	}
	n := 200
	if e.Thorough() {
		n = 2000
	}
	for i := 0; i < n; i++ {
		r := e.Rng.Fork()
		switch k := i % 20; {
		case k < 5:
			crossing(e, r)
		case k < 7:
			crossingFewLens(e, r)
		case k < 10:
			long(e, r)
		case k < 11:
			dupFill(e, r)
		case k < 15:
			dupPatterns(e, r)
		default:
			small(e, r)
		}
	}
	nSame, nUDU := 36, 8
	if e.Thorough() {
		nSame, nUDU = 288, 80
	}
	for v := 0; v < nSame; v++ {
		samePrefixFill(e, e.Rng.Fork(), v)
	}
	for v := 0; v < nUDU; v++ {
		upDownUp(e, e.Rng.Fork())
	}
	churn(e, e.Rng.Fork())
	repeatedLookups(e)
	e.Stats["cases"] = e.Stats["histories"]
	e.Sample("samples", "history kinds: small (1-40 ops, pool of 1-6 ranges, /0../32), crossing (250-300 distinct ranges, removal bursts before/at/after the 256th slot), crossing_fewlens (1-3 prefix lengths before the switch, other lengths after), long (50-600 random ops), dupfill (256 copies, zeroed, migrated), duppattern (Add X, Add Y, Add X, Remove X and variants)", 5)
	return nil
}
