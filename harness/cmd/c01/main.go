package main

// C01: every record the JSON handler writes is exactly one newline-terminated line that parses as a
// single JSON object which decodes to the record (time, level, source, msg, attributes in order,
// With/WithGroup nesting, inline / keyed / empty groups, LogValuers), strings intact up to U+FFFD.
//
// The harness drives the REAL handler (hand-built slog.Records through Handler.Handle, and the Logger
// methods) and writes with each case the ABSTRACT input as the Coq model sees it: the derivation chain
// and the record as trees of (key, kind, payload), where the payloads produced by the standard library
// (time.AppendFormat, encoding/json, strconv) are computed here by calling the standard library
// directly, and every byte string passed to the io.Writer. Case line format: see ocaml/c01/driver.ml.
//
// The Coq parser (extracted, `drv -parse`) is cross-validated against encoding/json on the observed
// lines, byte-mutants of them and a hand-written corpus; a disagreement is a harness error (the
// specification would be idiosyncratic), not a property violation.

import (
	"bytes"
	"context"
	"encoding/json"
	"errors"
	"fmt"
	"io"
	"log/slog"
	"math"
	"os"
	"os/exec"
	"path/filepath"
	"reflect"
	"runtime"
	"strconv"
	"strings"
	"time"
	"unicode/utf8"

	"github.com/whoisnian/glb/logger"
	"verifharness/hk"
)

func main() { hk.Main("C01", runC01) }

// ---------------------------------------------------------------- capture writer

type capW struct{ writes [][]byte }

func (c *capW) Write(p []byte) (int, error) {
	c.writes = append(c.writes, append([]byte(nil), p...))
	return len(p), nil
}

// ---------------------------------------------------------------- abstract values

type av struct {
	tag  string // S I U B D T J X R N G
	key  string
	pay  string // hex payload or decimal text or 0/1
	kids []av
}

func (a av) tokens(out *[]string) {
	*out = append(*out, a.tag, hk.Hxs(a.key))
	if a.tag == "G" {
		*out = append(*out, strconv.Itoa(len(a.kids)))
		for _, k := range a.kids {
			k.tokens(out)
		}
		return
	}
	*out = append(*out, a.pay)
}

// what appendJsonMarshal's encoder produces: (true, text without the final newline) or (false, message).
// A panic raised by a MarshalJSON / MarshalText method inside encoding/json is an encoding error whose
// text is "!PANIC: <value>" ("<nil>" for a nil pointer receiver), like log/slog and fmt.
func encodeOracle(v any) (ok bool, out []byte) {
	var bb bytes.Buffer
	enc := json.NewEncoder(&bb)
	enc.SetEscapeHTML(false)
	var err error
	func() {
		defer func() {
			if r := recover(); r != nil {
				if rv := reflect.ValueOf(v); rv.Kind() == reflect.Pointer && rv.IsNil() {
					err = errors.New("<nil>")
				} else {
					err = fmt.Errorf("!PANIC: %v", r)
				}
			}
		}()
		err = enc.Encode(v)
	}()
	if err != nil {
		if u, ok := err.(interface{ Unwrap() error }); ok && u.Unwrap() != nil {
			return false, []byte(u.Unwrap().Error())
		}
		return false, []byte(err.Error())
	}
	bs := bb.Bytes()
	return true, append([]byte(nil), bs[:len(bs)-1]...)
}

func rawAV(key string, v any) av {
	ok, b := encodeOracle(v)
	if ok {
		return av{tag: "J", key: key, pay: hk.Hx(b)}
	}
	return av{tag: "X", key: key, pay: hk.Hx(b)}
}

func errorText(err error) (s string) {
	defer func() {
		if r := recover(); r != nil {
			s = "<nil>" // only nil-pointer receivers are generated
		}
	}()
	return err.Error()
}

var kindCount = map[string]int{}

// walkAttr describes one attribute as it reaches the handler; Resolve and Group are log/slog's.
func walkAttr(a slog.Attr) av {
	v := a.Value.Resolve()
	switch v.Kind() {
	case slog.KindGroup:
		g := av{tag: "G", key: a.Key}
		for _, m := range v.Group() {
			g.kids = append(g.kids, walkAttr(m))
		}
		switch {
		case a.Key == "" && len(g.kids) == 0:
			kindCount["group_inline_empty"]++
		case a.Key == "":
			kindCount["group_inline"]++
		case len(g.kids) == 0:
			kindCount["group_keyed_empty"]++
		default:
			kindCount["group_keyed"]++
		}
		return g
	case slog.KindString:
		kindCount["string"]++
		return av{tag: "S", key: a.Key, pay: hk.Hxs(v.String())}
	case slog.KindInt64:
		kindCount["int64"]++
		return av{tag: "I", key: a.Key, pay: strconv.FormatInt(v.Int64(), 10)}
	case slog.KindUint64:
		kindCount["uint64"]++
		return av{tag: "U", key: a.Key, pay: strconv.FormatUint(v.Uint64(), 10)}
	case slog.KindFloat64:
		kindCount["float64"]++
		return rawAV(a.Key, v.Float64())
	case slog.KindBool:
		kindCount["bool"]++
		if v.Bool() {
			return av{tag: "B", key: a.Key, pay: "1"}
		}
		return av{tag: "B", key: a.Key, pay: "0"}
	case slog.KindDuration:
		kindCount["duration"]++
		return av{tag: "D", key: a.Key, pay: strconv.FormatInt(int64(v.Duration()), 10)}
	case slog.KindTime:
		kindCount["time"]++
		return av{tag: "T", key: a.Key, pay: hk.Hx(v.Time().AppendFormat(nil, time.RFC3339Nano))}
	default:
		x := v.Any()
		if _, ok := x.(json.Marshaler); ok {
			kindCount["any_marshaler"]++
			return rawAV(a.Key, x)
		}
		if err, ok := x.(error); ok {
			kindCount["any_error"]++
			return av{tag: "R", key: a.Key, pay: hk.Hxs(errorText(err))}
		}
		if as, ok := x.(logger.AnsiString); ok {
			kindCount["any_ansi"]++
			return av{tag: "N", key: a.Key, pay: hk.Hxs(as.Value)}
		}
		kindCount["any_other"]++
		return rawAV(a.Key, x)
	}
}

func walkAttrs(as []slog.Attr) []av {
	out := make([]av, 0, len(as))
	for _, a := range as {
		out = append(out, walkAttr(a))
	}
	return out
}

func depthOf(as []av) int {
	d := 0
	for _, a := range as {
		if a.tag == "G" {
			if k := 1 + depthOf(a.kids); k > d {
				d = k
			}
		}
	}
	return d
}

// ---------------------------------------------------------------- value types handed to the logger

type lv struct{ v slog.Value }

func (l lv) LogValue() slog.Value { return l.v }

type mOK struct{ s string }

func (m mOK) MarshalJSON() ([]byte, error) {
	return []byte(" { \"a\" : [ 1 , 2.50e+1 , " + rawQuote(m.s) + " ] ,\n \"b\":null } "), nil
}

// rawQuote is what a careless Marshaler does: a JSON string literal that escapes quote, backslash and control
// bytes and copies every other byte, valid UTF-8 or not. encoding/json passes a Marshaler's bytes on unchecked.
func rawQuote(s string) string {
	var b strings.Builder
	b.WriteByte('"')
	for i := 0; i < len(s); i++ {
		switch c := s[i]; {
		case c == '"' || c == '\\':
			b.WriteByte('\\')
			b.WriteByte(c)
		case c < 0x20:
			fmt.Fprintf(&b, "\\u%04x", c)
		default:
			b.WriteByte(c)
		}
	}
	b.WriteByte('"')
	return b.String()
}

type mFail struct{ msg string }

func (m mFail) MarshalJSON() ([]byte, error) { return nil, errors.New(m.msg) }

type mGarbage struct{ b string }

func (m mGarbage) MarshalJSON() ([]byte, error) { return []byte(m.b), nil }

type mPanic struct{ v any }

func (m mPanic) MarshalJSON() ([]byte, error) { panic(m.v) }

type tPanic struct{ s string }

func (t tPanic) MarshalText() ([]byte, error) { panic(t.s) }

type pPanic struct{ x int }

func (p *pPanic) MarshalJSON() ([]byte, error) { return []byte(strconv.Itoa(p.x)), nil } // nil receiver: nil dereference

type tmText struct{ s string }

func (t tmText) MarshalText() ([]byte, error) { return []byte(t.s), nil }

type errT struct{ s string }

func (e errT) Error() string { return e.s }

type nilErr struct{ x int }

func (e *nilErr) Error() string { return fmt.Sprint(e.x) }

// values implementing SEVERAL of the interfaces the handler distinguishes (json.Marshaler, error, AnsiString,
// everything else through encoding/json, which itself prefers Marshaler over TextMarshaler); what must be decoded
// follows the handler's documented order: a json.Marshaler is its JSON, else an error is its Error() text.
type errM struct {
	msg    string
	fields map[string]string
}

func (e errM) Error() string { return e.msg }
func (e errM) MarshalJSON() ([]byte, error) {
	return json.Marshal(map[string]any{"error": e.msg, "fields": e.fields})
}

type errMP struct{ code int }

func (e *errMP) Error() string { return "code " + strconv.Itoa(e.code) }
func (e *errMP) MarshalJSON() ([]byte, error) {
	return []byte(`{"code":` + strconv.Itoa(e.code) + `}`), nil
}

type errTM struct{ a, b string }

func (e errTM) Error() string                { return e.a }
func (e errTM) MarshalText() ([]byte, error) { return []byte(e.b), nil }

type errTMP struct{ a string }

func (e *errTMP) Error() string                { return e.a }
func (e *errTMP) MarshalText() ([]byte, error) { return []byte("text:" + e.a), nil }

type mTM struct{ s string }

func (m mTM) MarshalJSON() ([]byte, error) { return json.Marshal([]string{"json", m.s}) }
func (m mTM) MarshalText() ([]byte, error) { return []byte("text " + m.s), nil }

type errS struct{ a, b string }

func (e errS) Error() string  { return e.a }
func (e errS) String() string { return e.b }

type errMFail struct{ s string } // error AND a Marshaler that fails: the encoding error is what shows up

func (e errMFail) Error() string                { return "E:" + e.s }
func (e errMFail) MarshalJSON() ([]byte, error) { return nil, errors.New("M:" + e.s) }

type ansi2 logger.AnsiString // same fields, another type: an ordinary struct for encoding/json

type ansiM struct{ logger.AnsiString }

func (a ansiM) MarshalJSON() ([]byte, error) { return json.Marshal("ansi:" + a.Value) }

type ansiErr struct{ logger.AnsiString }

func (a ansiErr) Error() string { return "ansierr:" + a.Value }

type tmP struct{ s string }

func (t *tmP) MarshalText() ([]byte, error) { return []byte(t.s), nil }

func (g *gen) multi() any {
	s, t := g.str(), g.str()
	switch g.r.Intn(18) {
	case 0:
		return errM{s, map[string]string{t: s}}
	case 1:
		return errM{s, nil}
	case 2:
		return &errMP{g.r.Intn(1000)}
	case 3:
		return (*errMP)(nil) // a json.Marshaler: encoding/json writes null without calling it
	case 4:
		return errTM{s, t}
	case 5:
		return &errTMP{s}
	case 6:
		return (*errTMP)(nil) // an error whose Error dereferences nil: "<nil>"
	case 7:
		return mTM{s}
	case 8:
		return errS{s, t}
	case 9:
		return errMFail{s}
	case 10:
		return ansi2{Prefix: "\x1b[31m", Value: s}
	case 11:
		return ansiM{logger.AnsiString{Value: s}}
	case 12:
		return ansiErr{logger.AnsiString{Value: s}}
	case 13:
		return &logger.AnsiString{Prefix: "p", Value: s} // a pointer is not an AnsiString
	case 14:
		return (*logger.AnsiString)(nil)
	case 15:
		return &tmP{s}
	case 16:
		return (*tmP)(nil)
	default:
		return &errM{s, map[string]string{"k": t}} // pointer to a value-receiver type implements both as well
	}
}

type sT struct {
	A string            `json:"a"`
	B float64           `json:"b,omitempty"`
	C []int             `json:"c"`
	D map[string]string `json:"d,omitempty"`
	E *sT               `json:"e,omitempty"`
	t int
}

// ---------------------------------------------------------------- generators

var hostile = []string{
	"", "a", "k", "key", "msg", "time", "level", "a b", "\"", "\\", "\n", "\r\n\t", "\x00", "\x1f", "\x7f", "\x80",
	"é", "\u2028", "\u2029", "x\u2028y\u2029", "\xff", "\xc3", "\xe2\x80", "\xe2\x80\xa8", "\xed\xa0\x80", "\xf4\x90\x80\x80",
	"\xc0\xaf", "\xf0\x9f\x98\x80", "\xf0\x9f\x98", "</script>", "&<>", "a\"b\\c\nd", "{}", ",", "\"}", "\",\"x\":\"", "\\u0000",
	"\ufffd", "日本語", "\\\\\"", "/", "\b\f", "!BADKEY", "\U0010ffff", "\ud7ff\ue000", "a\x00b", "\"\n}\n{",
}

type gen struct{ r *hk.Rng }

func (g *gen) str() string {
	switch {
	case g.r.Chance(45):
		return hostile[g.r.Intn(len(hostile))]
	case g.r.Chance(45):
		n := g.r.Intn(10)
		b := make([]byte, n)
		for i := range b {
			switch g.r.Intn(6) {
			case 0:
				b[i] = byte(g.r.Intn(256))
			case 1:
				const sp = "\"\\\n\r\t\x00\x1f\x7f/{},:[]"
				b[i] = sp[g.r.Intn(len(sp))]
			case 2:
				b[i] = byte(0x80 + g.r.Intn(0x80))
			default:
				b[i] = byte('a' + g.r.Intn(26))
			}
		}
		return string(b)
	case g.r.Chance(50):
		return hostile[g.r.Intn(len(hostile))] + hostile[g.r.Intn(len(hostile))]
	default:
		var rs []rune
		for i := g.r.Intn(5); i >= 0; i-- {
			rs = append(rs, rune(g.r.Intn(0x3000)))
		}
		return string(rs)
	}
}

func (g *gen) key() string {
	if g.r.Chance(55) {
		return string(rune('a'+g.r.Intn(26))) + strconv.Itoa(g.r.Intn(10))
	}
	s := g.str()
	if s == "" {
		return "e"
	}
	return s
}

var int64s = []int64{0, 1, -1, 9, 10, -10, 99, 100, math.MaxInt64, math.MinInt64, math.MaxInt64 - 1, math.MinInt64 + 1, 1 << 53, -(1 << 31)}
var uint64s = []uint64{0, 1, 9, 10, math.MaxUint64, math.MaxUint64 - 1, 1 << 63, 1<<63 - 1, 10000000000000000000, 9999999999999999999}
var floats = []float64{0, math.Copysign(0, -1), 1, -1.5, 1e21, 1e20, 1e-7, 123456.789, math.MaxFloat64, math.SmallestNonzeroFloat64, math.Inf(1), math.Inf(-1), math.NaN(), 0.1, 1e100}

func (g *gen) time() time.Time {
	switch g.r.Intn(10) {
	case 0:
		return time.Time{}
	case 1:
		return time.Date(9999, 12, 31, 23, 59, 59, 999999999, time.UTC)
	case 2:
		return time.Date(10000+g.r.Intn(90000), 1, 1, 0, 0, 0, 0, time.UTC)
	case 3:
		return time.Date(0, 1, 1, 0, 0, 0, 0, time.UTC)
	case 4:
		return time.Date(-g.r.Intn(5000), 3, 4, 5, 6, 7, 8, time.UTC)
	case 5:
		return time.Unix(int64(g.r.U64()>>3), 0).UTC()
	case 6:
		return time.Date(2024, 2, 29, 12, 0, 0, g.r.Intn(1000)*1000000, time.FixedZone("x\"y", (g.r.Intn(28)-14)*3600+g.r.Intn(60)*60))
	case 7:
		return time.Date(2000, 1, 2, 3, 4, 5, 6, time.FixedZone("", -(g.r.Intn(86400)-43200)))
	default:
		return time.Unix(int64(g.r.Intn(1<<31)), int64(g.r.Intn(1000000000))).In(time.FixedZone("z", g.r.Intn(50400)))
	}
}

// leaf returns one non-group slog.Value of every kind the handler distinguishes.
func (g *gen) leaf() slog.Value {
	switch g.r.Intn(34) {
	case 30, 31, 32, 33:
		kindCount["multi_interface"]++
		return slog.AnyValue(g.multi())
	case 0, 1, 2, 3:
		return slog.StringValue(g.str())
	case 4:
		return slog.Int64Value(int64s[g.r.Intn(len(int64s))])
	case 5:
		return slog.Int64Value(int64(g.r.U64()))
	case 6:
		return slog.Uint64Value(uint64s[g.r.Intn(len(uint64s))])
	case 7:
		return slog.Uint64Value(g.r.U64())
	case 8:
		return slog.Float64Value(floats[g.r.Intn(len(floats))])
	case 9:
		return slog.Float64Value(math.Float64frombits(g.r.U64()))
	case 10:
		return slog.BoolValue(g.r.Bool())
	case 11:
		return slog.DurationValue(time.Duration(int64s[g.r.Intn(len(int64s))]))
	case 12:
		return slog.TimeValue(g.time())
	case 13:
		return slog.AnyValue(errT{g.str()})
	case 14:
		if g.r.Chance(30) {
			return slog.AnyValue((*nilErr)(nil))
		}
		return slog.AnyValue(fmt.Errorf("wrap %q: %w", g.str(), errors.New(g.str())))
	case 15:
		return slog.AnyValue([]byte(g.str()))
	case 16:
		m := map[string]any{}
		for i := g.r.Intn(4); i > 0; i-- {
			m[g.str()] = g.scalarAny()
		}
		return slog.AnyValue(m)
	case 17:
		s := sT{A: g.str(), B: floats[g.r.Intn(len(floats))], C: []int{g.r.Intn(10), -g.r.Intn(1000)}}
		if g.r.Bool() {
			s.D = map[string]string{g.str(): g.str()}
		}
		if g.r.Bool() {
			s.E = &sT{A: g.str()}
		}
		if g.r.Bool() {
			return slog.AnyValue(&s)
		}
		return slog.AnyValue(s)
	case 18:
		s := g.str()
		if !utf8.ValidString(s) {
			kindCount["marshaler_returns_invalid_utf8"]++
		}
		return slog.AnyValue(mOK{s})
	case 19:
		switch g.r.Intn(6) {
		case 0:
			return slog.AnyValue(mPanic{g.str()})
		case 1:
			return slog.AnyValue(mPanic{errors.New(g.str())})
		case 2:
			return slog.AnyValue(tPanic{g.str()})
		case 3:
			return slog.AnyValue(struct{ A any }{mPanic{42}}) // panics below the top-level value
		case 4:
			return slog.AnyValue(struct{ P *pPanic }{nil}) // encoding/json writes null for a nil pointer, no call
		default:
			return slog.AnyValue(mFail{g.str()})
		}
	case 20:
		return slog.AnyValue(mGarbage{[]string{"", "{", "{\"a\":}", "nul", "1 2", "[1,]", "\"\n\"", "{\"a\":1}}", "\"\\x\"", "01", "tru", "}"}[g.r.Intn(12)]})
	case 21:
		return slog.AnyValue(logger.AnsiString{Prefix: []string{"", "\x1b[31m"}[g.r.Intn(2)], Value: g.str()})
	case 22:
		return slog.AnyValue(nil)
	case 23:
		return slog.AnyValue(tmText{g.str()})
	case 24:
		switch g.r.Intn(5) {
		case 0:
			return slog.AnyValue(make(chan int))
		case 1:
			return slog.AnyValue(func() {})
		case 2:
			return slog.AnyValue([]float64{1, math.NaN()})
		case 3:
			return slog.AnyValue(complex(1, 2))
		default:
			return slog.AnyValue(map[bool]int{true: 1})
		}
	case 25:
		return slog.AnyValue([]any{g.scalarAny(), g.scalarAny(), []any{}, map[string]any{}})
	case 26:
		return slog.AnyValue(json.RawMessage([]string{"{\"r\": [1, 2]}", "{", "null", " 7 ", "\"\xc0\xaf\"", "{\"k\xff\":[\"v\xe2\x80\",1e-07]}", rawQuote(g.str())}[g.r.Intn(7)]))
	case 27:
		return slog.AnyValue(int32(g.r.Intn(1000)) - 500) // AnyValue turns the numeric types into Int64/Uint64/Float64
	case 28:
		return slog.AnyValue(float32(1.25))
	default:
		return slog.AnyValue(g.time()) // -> KindTime
	}
}

func (g *gen) scalarAny() any {
	switch g.r.Intn(6) {
	case 0:
		return g.str()
	case 1:
		return g.r.Intn(1000)
	case 2:
		return 1.5
	case 3:
		return nil
	case 4:
		return true
	default:
		return []string{g.str()}
	}
}

// attr generates one attribute; groups of all shapes at every position, LogValuers (possibly nested)
// resolving to leaves, groups, empty groups.
func (g *gen) attr(depth int) slog.Attr {
	p := g.r.Intn(100)
	if depth <= 0 && p >= 62 {
		p = g.r.Intn(62)
	}
	switch {
	case p < 62:
		k := g.key()
		if g.r.Chance(4) {
			k = ""
		}
		v := g.leaf()
		if g.r.Chance(12) {
			v = slog.AnyValue(lv{v})
			if g.r.Chance(30) {
				v = slog.AnyValue(lv{v})
			}
		}
		return slog.Attr{Key: k, Value: v}
	case p < 78: // keyed group
		return slog.Attr{Key: g.key(), Value: g.groupValue(depth)}
	case p < 88: // inline group
		return slog.Attr{Key: "", Value: g.groupValue(depth)}
	default: // LogValuer resolving to a group, which slog does NOT prune when empty
		k := g.key()
		if g.r.Bool() {
			k = ""
		}
		var members []slog.Attr
		if !g.r.Chance(45) {
			members = g.attrs(depth-1, 3)
		}
		// build the group without slog.GroupValue's pruning of empty members half of the time is not possible
		// (GroupValue always prunes); emptiness below comes from nested LogValuers.
		v := slog.AnyValue(lv{slog.GroupValue(members...)})
		if g.r.Chance(20) {
			v = slog.AnyValue(lv{v})
		}
		return slog.Attr{Key: k, Value: v}
	}
}

func (g *gen) groupValue(depth int) slog.Value {
	if g.r.Chance(18) {
		return slog.GroupValue()
	}
	return slog.GroupValue(g.attrs(depth-1, 4)...)
}

func (g *gen) attrs(depth, max int) []slog.Attr {
	n := g.r.Intn(max + 1)
	out := make([]slog.Attr, 0, n)
	for i := 0; i < n; i++ {
		out = append(out, g.attr(depth))
	}
	return out
}

// ---------------------------------------------------------------- one case

type chainStep struct {
	group string      // WithGroup(name) when attrs == nil && !isAttrs
	attrs []slog.Attr // handler level
	args  []any       // logger level (With(args...))
	abs   []av
	isAt  bool
}

var levels = []slog.Level{logger.LevelDebug, logger.LevelInfo, logger.LevelWarn, logger.LevelError, logger.LevelFatal}

type caseOut struct {
	level  int
	timeTx string
	file   string // "~" = no source
	line   int
	msg    string
	chain  []chainStep
	attrs  []av
	writes [][]byte
}

func (c *caseOut) emit(e *hk.Env) {
	tag := "E"
	sz := len(c.msg)
	for _, w := range c.writes {
		sz += len(w)
	}
	if sz > 6000 {
		tag = "EL" // long case: judged by the driver like any other, but not drawn into the in-Coq sample
	}
	t := []string{tag, strconv.Itoa(c.level), hk.Hxs(c.timeTx)}
	if c.file == "~" {
		t = append(t, "~", "0")
	} else {
		t = append(t, hk.Hxs(c.file), strconv.Itoa(c.line))
	}
	t = append(t, hk.Hxs(c.msg))
	n := 0
	for _, s := range c.chain {
		if s.isAt || s.group != "" {
			n++
		}
	}
	t = append(t, strconv.Itoa(n))
	for _, s := range c.chain {
		if s.isAt {
			t = append(t, "A", strconv.Itoa(len(s.abs)))
			for _, a := range s.abs {
				a.tokens(&t)
			}
		} else if s.group != "" {
			t = append(t, "W", hk.Hxs(s.group))
		}
	}
	t = append(t, strconv.Itoa(len(c.attrs)))
	for _, a := range c.attrs {
		a.tokens(&t)
	}
	t = append(t, strconv.Itoa(len(c.writes)))
	for _, w := range c.writes {
		t = append(t, hk.Hx(w))
	}
	e.Case(t...)
}

func timeFromLine(w []byte) string {
	const p = `{"time":"`
	if !bytes.HasPrefix(w, []byte(p)) {
		return "?"
	}
	rest := w[len(p):]
	i := bytes.IndexByte(rest, '"')
	if i < 0 {
		return "?"
	}
	return string(rest[:i])
}

var testTime = time.Date(2000, 1, 2, 3, 4, 5, 6, time.UTC)

// decoy derives a SIBLING from the parent after the real child was derived: what the child logs later must not
// depend on it (the model's derived handler is a function of its own chain only).
func decoyH(h logger.Handler, r *hk.Rng) {
	if r.Bool() {
		h.WithAttrs([]slog.Attr{slog.String("decoy", "DECOY-DECOY-DECOY"[:1+r.Intn(17)])})
	} else {
		h.WithGroup("decoy"[:1+r.Intn(5)])
	}
}

// handler-level: hand-built record with a fixed time through Handler.Handle
func runHandlerCase(e *hk.Env, addSource bool, lvl int, t time.Time, msg string, chain []chainStep, attrs []slog.Attr, realPC bool) *caseOut {
	w := &capW{}
	var h logger.Handler = logger.NewJsonHandler(w, logger.NewOptions(logger.LevelDebug, false, addSource))
	c := &caseOut{level: lvl, msg: msg, file: "~"}
	dr := hk.NewRng(uint64(len(msg)*131 + len(chain)*7 + lvl))
	func() {
		defer func() {
			if r := recover(); r != nil {
				e.Count("panics", 1)
			}
		}()
		for i := range chain {
			s := &chain[i]
			parent := h
			if s.isAt {
				h = h.WithAttrs(s.attrs)
				s.abs = walkAttrs(s.attrs)
			} else {
				h = h.WithGroup(s.group)
			}
			decoyH(parent, dr)
		}
		var pc uintptr
		if addSource {
			c.file, c.line = "", 0
			if realPC {
				st := sites[dr.Intn(len(sites))]
				pc = st.pc()
				f, _ := runtime.CallersFrames([]uintptr{pc}).Next()
				c.file, c.line = f.File, f.Line // the FULL file name; the cut to two path elements is the model's
				siteCount[st.name]++
			}
		}
		rec := slog.NewRecord(t, levels[lvl], msg, pc)
		rec.AddAttrs(attrs...)
		rec.Attrs(func(a slog.Attr) bool { c.attrs = append(c.attrs, walkAttr(a)); return true })
		c.timeTx = string(t.AppendFormat(nil, time.RFC3339Nano))
		h.Handle(context.Background(), rec)
	}()
	c.chain = chain
	c.writes = w.writes
	return c
}

var siteCount = map[string]int{}
var methodCount = map[string]int{}
var methodNames = []string{"Debug", "Info", "Warn", "Error", "Log", "LogAttrs", "Debugf", "Infof", "Warnf", "Errorf", "Logf", "Panic", "Panicf"}

// level a Logger method logs at (-1: the level argument)
var methodLevel = []int{0, 1, 2, 3, -1, -1, 0, 1, 2, 3, -1, 3, 3}

// logger-level: Logger.With / WithGroup, then one of Debug Info Warn Error Log LogAttrs, the formatting variants
// Debugf Infof Warnf Errorf Logf, Panic / Panicf (recovered), called from inside a function that may be declared
// under a //line directive. Time is time.Now() inside the logger, so the time text is read back from the line (and
// must be RFC3339Nano of "now"); source must be the position of the CALL, which the site reports itself.
func runLoggerCase(e *hk.Env, g *gen, addSource bool, lvl int, msg string, chain []chainStep, attrs []slog.Attr) *caseOut {
	w := &capW{}
	l := logger.New(logger.NewJsonHandler(w, logger.NewOptions(logger.LevelDebug, false, addSource)))
	c := &caseOut{level: lvl, msg: msg, file: "~"}
	before := time.Now()
	func() {
		defer func() {
			if r := recover(); r != nil {
				e.Count("panics", 1)
			}
		}()
		for i := range chain {
			s := &chain[i]
			parent := l
			if s.isAt {
				l = l.With(s.args...)
			} else {
				l = l.WithGroup(s.group)
			}
			if g.r.Bool() {
				parent.With("decoy", "DECOY-DECOY-DECOY"[:1+g.r.Intn(17)])
			} else {
				parent.WithGroup("decoy"[:1+g.r.Intn(5)])
			}
		}
		m := g.r.Intn(nMethods)
		if methodLevel[m] >= 0 {
			c.level = methodLevel[m]
		}
		isF := m >= lmDebugf && m <= lmLogf || m == lmPanicf
		// what reaches the handler: Record.Add / Record.AddAttrs are log/slog's
		tmp := slog.NewRecord(time.Time{}, 0, "", 0)
		var args []any
		switch {
		case isF:
			c.msg = fmt.Sprintf(fmtF, msg, 7)
		case m == lmLogAttrs:
			tmp.AddAttrs(attrs...)
		default:
			for _, a := range attrs {
				if g.r.Bool() && a.Key != "" {
					args = append(args, a.Key, a.Value)
				} else {
					args = append(args, a)
				}
			}
			tmp.Add(args...)
		}
		tmp.Attrs(func(a slog.Attr) bool { c.attrs = append(c.attrs, walkAttr(a)); return true })
		st := sites[g.r.Intn(len(sites))]
		siteCount[st.name]++
		methodCount[methodNames[m]]++
		file, line := st.log(l, m, levels[lvl], msg, args, attrs)
		if addSource {
			c.file, c.line = file, line+1 // the call is on the line after runtime.Caller(0)
		}
	}()
	after := time.Now()
	c.chain = chain
	c.writes = w.writes
	c.timeTx = "?"
	if len(w.writes) > 0 {
		tx := timeFromLine(w.writes[0])
		if pt, err := time.Parse(time.RFC3339Nano, tx); err == nil && !pt.Before(before.Add(-time.Second)) && !pt.After(after.Add(time.Second)) &&
			string(pt.AppendFormat(nil, time.RFC3339Nano)) == tx {
			c.timeTx = tx
		} else {
			e.Count("logger_time_not_now", 1)
		}
	}
	return c
}

// With(args...) arguments and the attributes glb's argsToAttrs must make of them
func (g *gen) withArgs(depth int) (args []any, abs []av) {
	n := 1 + g.r.Intn(3)
	for i := 0; i < n; i++ {
		a := g.attr(depth)
		switch {
		case g.r.Chance(50) || a.Key == "":
			args = append(args, a)
			abs = append(abs, walkAttr(a))
		default:
			args = append(args, a.Key, a.Value)
			abs = append(abs, walkAttr(slog.Any(a.Key, a.Value)))
		}
	}
	switch g.r.Intn(12) {
	case 0: // a value without a key
		args = append(args, 42)
		abs = append(abs, walkAttr(slog.Any("!BADKEY", 42)))
	case 1: // a lone trailing string
		s := g.str()
		args = append(args, s)
		abs = append(abs, walkAttr(slog.String("!BADKEY", s)))
	}
	return
}

func (g *gen) chain(loggerLevel bool, depth int) []chainStep {
	n := g.r.Intn(6)
	if g.r.Chance(35) {
		n = 0
	}
	var out []chainStep
	for i := 0; i < n; i++ {
		switch {
		case g.r.Chance(45):
			name := g.key()
			if loggerLevel && g.r.Chance(8) {
				name = "" // Logger.WithGroup("") returns the logger itself: no chain element
			}
			out = append(out, chainStep{group: name})
		case loggerLevel:
			if g.r.Chance(6) {
				out = append(out, chainStep{isAt: true}) // With() without arguments
				continue
			}
			args, abs := g.withArgs(depth)
			out = append(out, chainStep{isAt: true, args: args, abs: abs})
		default:
			var as []slog.Attr
			if !g.r.Chance(6) {
				as = g.attrs(depth, 3)
			}
			out = append(out, chainStep{isAt: true, attrs: as})
		}
	}
	return out
}

// ---------------------------------------------------------------- string sweeps

func sweepStrings(e *hk.Env) []string {
	var out []string
	for b := 0; b < 256; b++ {
		out = append(out, string([]byte{byte(b)}))
	}
	n1 := len(out)
	if e.Thorough() {
		for a := 0; a < 256; a++ {
			for b := 0; b < 256; b++ {
				out = append(out, string([]byte{byte(a), byte(b)}))
			}
		}
	} else {
		off := int(e.Seed % 7)
		for i := off; i < 65536; i += 7 {
			out = append(out, string([]byte{byte(i >> 8), byte(i)}))
		}
		// all pairs around the interesting lead bytes
		for _, a := range []int{0x22, 0x5c, 0x0a, 0x7f, 0xc2, 0xe2, 0xed, 0xf0, 0xf4} {
			for b := 0; b < 256; b++ {
				out = append(out, string([]byte{byte(a), byte(b)}), string([]byte{byte(b), byte(a)}))
			}
		}
	}
	e.Stats["strings_1byte"] = n1
	e.Stats["strings_2byte"] = len(out) - n1
	n2 := len(out)
	lim := rune(0x3000)
	if e.Thorough() {
		lim = 0x110000
	}
	for r := rune(0); r < lim; r++ {
		if r >= 0xd800 && r < 0xe000 {
			continue
		}
		out = append(out, string(r))
	}
	if !e.Thorough() {
		for _, r := range []rune{0xd7ff, 0xe000, 0xfffd, 0xfffe, 0xffff, 0x10000, 0x1ffff, 0x20000, 0xfffff, 0x100000, 0x10fffd, 0x10ffff, 0x1f600} {
			out = append(out, string(r))
		}
		for p := rune(1); p <= 16; p++ {
			out = append(out, string(p<<16), string(p<<16|0xffff), string(p<<16-1))
		}
	}
	e.Stats["strings_scalars"] = len(out) - n2
	n3 := len(out)
	// surrogate encodings (ED A0..BF 80..BF), overlongs, > U+10FFFF, truncations, embedded in context
	for b1 := 0xa0; b1 <= 0xbf; b1++ {
		for b2 := 0x80; b2 <= 0xbf; b2 += 9 {
			out = append(out, string([]byte{0xed, byte(b1), byte(b2)}))
		}
	}
	for _, s := range []string{"\xc0\x80", "\xc1\xbf", "\xe0\x80\x80", "\xe0\x9f\xbf", "\xf0\x80\x80\x80", "\xf0\x8f\xbf\xbf", "\xf4\x90\x80\x80", "\xf5\x80\x80\x80",
		"\xf8\x88\x80\x80\x80", "\xfe", "\xff", "\xe2\x80", "\xe2", "\xf0\x9f\x98", "\xf0\x9f", "\xf0", "\xe2\x80\xa8", "\xe2\x80\xa9", "\xe2\x80\xa7", "\xe2\x80\xaa"} {
		out = append(out, s, "a"+s, s+"b", s+"\"", "\\"+s, s+s, s+"\xa8", "\xe2\x80"+s)
	}
	e.Stats["strings_malformed"] = len(out) - n3
	return out
}

// ---------------------------------------------------------------- cross-validation of the Coq parser

// strictValid = RFC 8259 + no lone surrogate escapes (what Lib/Json.v accepts; like encoding/json it reads an invalid
// UTF-8 byte inside a string as U+FFFD, and json.Valid rejects such bytes anywhere else)
func strictValid(b []byte) bool {
	if !json.Valid(b) {
		return false
	}
	in := false
	for i := 0; i < len(b); i++ {
		c := b[i]
		if !in {
			if c == '"' {
				in = true
			}
			continue
		}
		switch c {
		case '"':
			in = false
		case '\\':
			if b[i+1] != 'u' {
				i++
				continue
			}
			v, _ := strconv.ParseUint(string(b[i+2:i+6]), 16, 32)
			i += 5
			if v >= 0xdc00 && v < 0xe000 {
				return false
			}
			if v >= 0xd800 && v < 0xdc00 {
				if i+6 >= len(b) || b[i+1] != '\\' || b[i+2] != 'u' {
					return false
				}
				v2, _ := strconv.ParseUint(string(b[i+3:i+7]), 16, 32)
				if v2 < 0xdc00 || v2 >= 0xe000 {
					return false
				}
				i += 6
			}
		}
	}
	return true
}

func goDump(dec *json.Decoder, sb *strings.Builder) error {
	tok, err := dec.Token()
	if err != nil {
		return err
	}
	switch t := tok.(type) {
	case json.Delim:
		if t == '{' {
			var parts []string
			n := 0
			for dec.More() {
				kt, err := dec.Token()
				if err != nil {
					return err
				}
				var vb strings.Builder
				if err := goDump(dec, &vb); err != nil {
					return err
				}
				parts = append(parts, hk.Hxs(kt.(string))+" "+vb.String())
				n++
			}
			if _, err := dec.Token(); err != nil {
				return err
			}
			sb.WriteString("O" + strconv.Itoa(n))
			for _, p := range parts {
				sb.WriteString(" " + p)
			}
		} else {
			var parts []string
			for dec.More() {
				var vb strings.Builder
				if err := goDump(dec, &vb); err != nil {
					return err
				}
				parts = append(parts, vb.String())
			}
			if _, err := dec.Token(); err != nil {
				return err
			}
			sb.WriteString("A" + strconv.Itoa(len(parts)))
			for _, p := range parts {
				sb.WriteString(" " + p)
			}
		}
	case string:
		sb.WriteString("S" + hk.Hxs(t))
	case json.Number:
		sb.WriteString("N" + hk.Hxs(string(t)))
	case bool:
		if t {
			sb.WriteString("T")
		} else {
			sb.WriteString("F")
		}
	case nil:
		sb.WriteString("Z")
	}
	return nil
}

var jsonCorpus = []string{
	`{}`, ` { } `, `[]`, `[ ]`, `null`, `true`, `false`, `0`, `-0`, `1.5e+3`, `1E-2`, `"x"`, ` "x" `, `{"a":1,"a":2}`, `{"a":{"b":[1,{"c":null}]}}`,
	`[1, 2 ,3]`, "[1,\n2]\t", `"\u00e9\ud83d\ude00\u2028"`, `"\/\b\f\n\r\t\"\\"`, `"\uD83D\uDE00"`, "\"\x7f\"", `{"":""}`, `[[[[[[[[[[1]]]]]]]]]]`,
	// invalid
	``, ` `, `{`, `}`, `[`, `]`, `{,}`, `{"a":1,}`, `{"a":1,,"b":2}`, `{,"a":1}`, `[1,]`, `[,1]`, `{"a"}`, `{"a":}`, `{a:1}`, `{"a":1 "b":2}`, `01`, `-`, `1.`, `.5`, `1e`, `1e+`, `+1`,
	`0x1`, `1.5.5`, `tru`, `truee`, `nul`, `NULL`, `"`, `"a`, "\"a\nb\"", "\"\t\"", `"\x"`, `"\u12"`, `"\u12g4"`, `"\ud800"`, `"\udc00"`, `"\ud800\u0041"`, `"\ud800x"`,
	"\"\xff\"", "\"\xc0\xaf\"", "\"\xed\xa0\x80\"", `{} {}`, `1 2`, `{}x`, `[1 2]`, `{"a":1}}`, `'a'`, "\ufeff{}", `{"a":"b"`, `{"a":[}`, `[{]}`, `"\u0000"`, "\"\x00\"", `-01`, `1e01`, `00`, `-0.0e-0`, `2e308`,
}

func crossValidate(e *hk.Env, lines [][]byte) error {
	drv := filepath.Join(os.Getenv("VERIF_DIR"), "ocaml", "c01", "drv")
	if os.Getenv("VERIF_DIR") == "" {
		drv = "/verif/ocaml/c01/drv"
	}
	if _, err := os.Stat(drv); err != nil {
		e.Stats["xval"] = "skipped: no drv"
		return nil
	}
	r := e.Rng.Fork()
	var texts [][]byte
	for _, s := range jsonCorpus {
		texts = append(texts, []byte(s))
	}
	nm := 0
	for _, l := range lines {
		body := bytes.TrimSuffix(l, []byte("\n"))
		texts = append(texts, body)
		for k := 0; k < 3 && len(body) > 0; k++ { // mutants
			m := append([]byte(nil), body...)
			pos := r.Intn(len(m))
			switch r.Intn(5) {
			case 0:
				const sp = ",\"\\{}[]:0u-.e\n\x00\xff "
				m[pos] = sp[r.Intn(len(sp))]
			case 1:
				m = append(m[:pos], m[pos+1:]...)
			case 2:
				ins := []string{",", "\"", "\\", "}", "{", "\\ud800", "\\udc00", "\\u00", "0", "\xe2\x80", " ", "\n", "1e", ","}[r.Intn(14)]
				m = append(m[:pos], append([]byte(ins), m[pos:]...)...)
			case 3:
				m = m[:pos]
			default:
				m[pos] ^= byte(1 << r.Intn(8))
			}
			texts = append(texts, m)
			nm++
		}
	}
	in := filepath.Join(e.Out, "xval.txt")
	var sb bytes.Buffer
	for _, t := range texts {
		if len(t) == 0 {
			sb.WriteString("-\n")
		} else {
			sb.WriteString(hk.Hx(t) + "\n")
		}
	}
	if err := os.WriteFile(in, sb.Bytes(), 0o644); err != nil {
		return err
	}
	defer os.Remove(in)
	out, err := exec.Command(drv, "-parse", in).Output()
	if err != nil {
		return fmt.Errorf("drv -parse: %v", err)
	}
	res := strings.Split(strings.TrimRight(string(out), "\n"), "\n")
	if len(res) != len(texts) {
		return fmt.Errorf("drv -parse: %d answers for %d texts", len(res), len(texts))
	}
	dis, acc := 0, 0
	for i, t := range texts {
		goOK := strictValid(t)
		coqOK := strings.HasPrefix(res[i], "1 ")
		bad := goOK != coqOK
		if !bad && goOK {
			acc++
			dec := json.NewDecoder(bytes.NewReader(t))
			dec.UseNumber()
			var d strings.Builder
			if err := goDump(dec, &d); err != nil || d.String() != res[i][2:] {
				bad = true
			}
		}
		if bad {
			dis++
			e.Sample("xval_disagreements", map[string]any{"text": string(t), "hex": hk.Hx(t), "go_strict_valid": goOK, "coq": res[i]}, 8)
		}
	}
	e.Stats["xval_texts"] = len(texts)
	e.Stats["xval_mutants"] = nm
	e.Stats["xval_accepted_by_both"] = acc
	e.Stats["xval_disagreements_n"] = dis
	if dis > 0 {
		return fmt.Errorf("the Coq JSON parser and encoding/json disagree on %d of %d texts (see xval_disagreements)", dis, len(texts))
	}
	return nil
}

// ---------------------------------------------------------------- replay / corpus

// rebuildCase turns a case line (as written by emit; the observed writes are ignored) back into Go values
// and runs it through Handler.Handle again. The abstract input is re-read from the rebuilt values, so the
// emitted case is self-consistent even where the rebuild is only approximate (source position, raw values
// are re-encoded by encoding/json, times are re-parsed).
type tokStream struct {
	t []string
	i int
}

func (ts *tokStream) next() string {
	if ts.i >= len(ts.t) {
		panic("short case line")
	}
	x := ts.t[ts.i]
	ts.i++
	return x
}
func (ts *tokStream) int() int   { n, _ := strconv.Atoi(ts.next()); return n }
func (ts *tokStream) hx() string { return string(hk.Unhx(ts.next())) }

func (ts *tokStream) attr() slog.Attr {
	tag := ts.next()
	k := ts.hx()
	switch tag {
	case "S":
		return slog.String(k, ts.hx())
	case "I":
		n, _ := strconv.ParseInt(ts.next(), 10, 64)
		return slog.Int64(k, n)
	case "U":
		n, _ := strconv.ParseUint(ts.next(), 10, 64)
		return slog.Uint64(k, n)
	case "B":
		return slog.Bool(k, ts.next() == "1")
	case "D":
		n, _ := strconv.ParseInt(ts.next(), 10, 64)
		return slog.Duration(k, time.Duration(n))
	case "T":
		t, err := time.Parse(time.RFC3339Nano, ts.hx())
		if err != nil {
			t = testTime
		}
		return slog.Time(k, t)
	case "J":
		return slog.Any(k, json.RawMessage(ts.hx()))
	case "X":
		return slog.Any(k, mFail{ts.hx()})
	case "R":
		return slog.Any(k, errT{ts.hx()})
	case "N":
		return slog.Any(k, logger.AnsiString{Value: ts.hx()})
	case "G":
		n := ts.int()
		if n == 0 {
			return slog.Any(k, lv{slog.GroupValue()}) // a LogValuer keeps the empty group from being pruned by slog
		}
		return slog.Attr{Key: k, Value: slog.GroupValue(ts.attrs(n)...)}
	}
	panic("unknown attribute tag " + tag)
}

func (ts *tokStream) attrs(n int) []slog.Attr {
	out := make([]slog.Attr, 0, n)
	for i := 0; i < n; i++ {
		out = append(out, ts.attr())
	}
	return out
}

func rebuildCase(e *hk.Env, line string) (c *caseOut, err error) {
	defer func() {
		if r := recover(); r != nil {
			err = fmt.Errorf("unreadable case line: %v", r)
		}
	}()
	f := strings.Fields(line)
	if len(f) == 0 || f[0] != "E" {
		return nil, errors.New("not a case line")
	}
	ts := &tokStream{t: f[1:]}
	lvl := ts.int()
	t, perr := time.Parse(time.RFC3339Nano, ts.hx())
	if perr != nil {
		t = testTime
	}
	file := ts.next()
	ts.next()
	msg := ts.hx()
	var chain []chainStep
	for n := ts.int(); n > 0; n-- {
		switch ts.next() {
		case "A":
			chain = append(chain, chainStep{isAt: true, attrs: ts.attrs(ts.int())})
		default:
			chain = append(chain, chainStep{group: ts.hx()})
		}
	}
	attrs := ts.attrs(ts.int())
	return runHandlerCase(e, file != "~", lvl%5, t, msg, chain, attrs, false), nil
}

// caseLinesOf reads case lines from a replay file written by the runner (JSON with a "case" field) or from a
// plain text file with one case line per line.
func caseLinesOf(path string) []string {
	b, err := os.ReadFile(path)
	if err != nil {
		return nil
	}
	var payload struct {
		Case string `json:"case"`
	}
	if json.Unmarshal(b, &payload) == nil && payload.Case != "" {
		return []string{payload.Case}
	}
	var out []string
	for _, l := range strings.Split(string(b), "\n") {
		if strings.HasPrefix(l, "E ") {
			out = append(out, l)
		}
	}
	return out
}

// ---------------------------------------------------------------- driver

// timeSequences logs SEQUENCES of records whose times share one Unix second but differ in Location (and pairs one
// nanosecond apart across a second boundary, the zero time, year 9999 / 10000), through one handler, through fresh
// handlers and through derived handlers of one process: anything a handler remembers between records (a cached date,
// a cached zone) shows up as a wrong "time" member. Every record is a case of its own; its oracle text is
// t.AppendFormat(nil, RFC3339Nano) of ITS time. The same times also travel as slog.Time attribute values.
func timeSequences(e *hk.Env) int {
	zones := []*time.Location{
		time.UTC, time.FixedZone("", 8*3600), time.FixedZone("", -(3*3600 + 1800)), time.FixedZone("", 5*3600+45*60),
		time.FixedZone("", 14*3600), time.FixedZone("", -12*3600), time.FixedZone("LMT", 53*60+28), time.UTC,
		time.FixedZone("", -(53*60 + 28)), time.FixedZone("", 1), time.UTC,
	}
	var seq []time.Time
	for _, sec := range []int64{946782245, 1700000000, 0, -1, 1709210096, 253402300799, -62135596800, 4102444799} {
		for i, z := range zones {
			seq = append(seq, time.Unix(sec, int64(i)*111111111%1000000000).In(z))
		}
		// one nanosecond apart across the second boundary, zones alternating, and back
		seq = append(seq, time.Unix(sec, 999999999).In(zones[1]), time.Unix(sec+1, 0).In(zones[2]), time.Unix(sec, 999999999).In(zones[3]),
			time.Unix(sec+1, 0).UTC(), time.Unix(sec+1, 1).In(zones[6]))
	}
	seq = append(seq, time.Time{}, time.Time{}.In(zones[1]), time.Time{}.In(zones[2]), time.Time{},
		time.Date(9999, 12, 31, 23, 59, 59, 999999999, time.UTC), time.Date(9999, 12, 31, 23, 59, 59, 999999999, time.UTC).In(zones[4]),
		time.Date(9999, 12, 31, 23, 59, 59, 5, time.UTC).In(zones[5]), time.Date(9999, 12, 31, 23, 59, 59, 0, time.UTC))

	n := 0
	one := func(h logger.Handler, w *capW, chain []chainStep, t, other time.Time, lvl int) {
		w.writes = nil
		c := &caseOut{level: lvl, msg: "seq", file: "~", chain: chain}
		func() {
			defer func() {
				if r := recover(); r != nil {
					e.Count("panics", 1)
				}
			}()
			rec := slog.NewRecord(t, levels[lvl], "seq", 0)
			rec.AddAttrs(slog.Time("t", other), slog.Any("u", t), slog.Group("g", slog.Time("v", t)))
			rec.Attrs(func(a slog.Attr) bool { c.attrs = append(c.attrs, walkAttr(a)); return true })
			c.timeTx = string(t.AppendFormat(nil, time.RFC3339Nano))
			h.Handle(context.Background(), rec)
		}()
		c.writes = w.writes
		c.emit(e)
		n++
	}
	opts := logger.NewOptions(logger.LevelDebug, false, false)
	// (a) one handler for the whole sequence, forwards and backwards
	wa := &capW{}
	var ha logger.Handler = logger.NewJsonHandler(wa, opts)
	for i, t := range seq {
		one(ha, wa, nil, t, seq[(i+1)%len(seq)], i%5)
	}
	for i := len(seq) - 1; i >= 0; i-- {
		one(ha, wa, nil, seq[i], seq[(i+3)%len(seq)], i%5)
	}
	// (b) a fresh handler per record (state shared by all handlers of the process)
	for i, t := range seq {
		wb := &capW{}
		one(logger.NewJsonHandler(wb, opts), wb, nil, t, seq[(i+2)%len(seq)], i%5)
	}
	// (c) two derived handlers of one parent, alternating
	wc := &capW{}
	var hc logger.Handler = logger.NewJsonHandler(wc, opts)
	a1 := []slog.Attr{slog.Time("w", seq[1])}
	c1 := []chainStep{{isAt: true, attrs: a1, abs: walkAttrs(a1)}}
	c2 := []chainStep{{group: "g"}}
	h1, h2 := hc.WithAttrs(a1), hc.WithGroup("g")
	for i, t := range seq {
		if i%2 == 0 {
			one(h1, wc, c1, t, seq[(i+5)%len(seq)], i%5)
		} else {
			one(h2, wc, c2, t, seq[(i+5)%len(seq)], i%5)
		}
	}
	// (d) shuffled order
	r := e.Rng.Fork()
	for i := 0; i < 3*len(seq); i++ {
		one(ha, wa, nil, seq[r.Intn(len(seq))], seq[r.Intn(len(seq))], i%5)
	}
	e.Stats["time_sequence_len"] = len(seq)
	return n
}

// allPositions logs one record in which s occupies every position a string can occupy.
func allPositions(e *hk.Env, s string, lvl int) *caseOut {
	var chain []chainStep
	if s != "" {
		chain = append(chain, chainStep{group: s})
	}
	chain = append(chain, chainStep{isAt: true, attrs: []slog.Attr{slog.String(s, s), slog.Any("we", errT{s})}})
	attrs := []slog.Attr{
		slog.String(s, s),
		{Key: s, Value: slog.GroupValue(slog.String("k", s), slog.String(s, "v"))}, // keyed group; inline when s is empty
		slog.Any("e", errT{s}),
		slog.Any("a", logger.AnsiString{Value: s}),
		slog.Any("m", mFail{s}),
		slog.Any("t", tmText{s}),
		slog.Any("p", mPanic{s}),
		slog.Any(s, lv{slog.StringValue(s)}),
	}
	return runHandlerCase(e, false, lvl, testTime, s, chain, attrs, false)
}

func runC01(e *hk.Env) error {
	nTrees := 20000
	if e.Thorough() {
		nTrees = 1000000
	}
	ncases := 0
	var xlines [][]byte
	keepLine := func(c *caseOut, every int) {
		if len(c.writes) == 1 && ncases%every == 0 {
			xlines = append(xlines, c.writes[0])
		}
	}

	// replay of one recorded case: only that case
	if e.Replay != "" {
		n := 0
		for _, l := range caseLinesOf(e.Replay) {
			c, err := rebuildCase(e, l)
			if err != nil {
				return err
			}
			c.emit(e)
			n++
			if len(c.writes) == 1 {
				e.Sample("samples", map[string]any{"replayed_line": string(c.writes[0])}, 5)
			}
		}
		e.Stats["cases"] = n
		e.Stats["replayed"] = n
		return nil
	}
	// corpus first
	if e.Corpus != "" {
		files, _ := filepath.Glob(filepath.Join(e.Corpus, "*.case"))
		nc := 0
		for _, f := range files {
			for _, l := range caseLinesOf(f) {
				if c, err := rebuildCase(e, l); err == nil {
					c.emit(e)
					keepLine(c, 1)
					ncases++
					nc++
				} else {
					e.Count("corpus_unreadable", 1)
				}
			}
		}
		e.Stats["corpus_cases"] = nc
	}

	// 0. regression: the witnesses of the stray-comma defect of the pinned commit, and friends
	{
		emptyInline := slog.Attr{Key: "", Value: slog.GroupValue()}
		emptyKeyed := slog.Attr{Key: "g", Value: slog.GroupValue()}
		lvEmpty := slog.Any("", lv{slog.GroupValue()})
		lvEmptyK := slog.Any("q", lv{slog.GroupValue()})
		one := slog.Int("k", 1)
		for _, src := range []bool{false, true} {
			for _, ch := range [][]chainStep{
				{{isAt: true, attrs: []slog.Attr{emptyInline}}},
				{{isAt: true, attrs: []slog.Attr{one, emptyInline, one}}},
				{{group: "g"}, {isAt: true, attrs: []slog.Attr{emptyInline}}},
				{{group: "g"}, {isAt: true, attrs: []slog.Attr{emptyInline}}, {group: "h"}},
				{{group: "g"}, {isAt: true, attrs: []slog.Attr{emptyKeyed, lvEmpty, lvEmptyK}}},
				{{isAt: true, attrs: []slog.Attr{lvEmpty}}, {group: "g"}, {isAt: true, attrs: []slog.Attr{lvEmpty, one}}},
				{{group: "a"}, {group: "b"}, {group: "c"}},
				{},
			} {
				for _, as := range [][]slog.Attr{nil, {one}, {lvEmpty}, {one, lvEmpty, one}, {lvEmpty, one}, {lvEmptyK}, {slog.Group("x", lvEmpty)}, {slog.Group("", lvEmpty), one}} {
					chc := append([]chainStep(nil), ch...)
					c := runHandlerCase(e, src, 1, testTime, "m", chc, as, false)
					c.emit(e)
					keepLine(c, 1)
					ncases++
				}
			}
		}
		// values implementing several interfaces, as record attrs, With attrs, group members, behind LogValuers
		{
			gm := &gen{hk.NewRng(77)}
			for k := 0; k < 72; k++ {
				v := gm.multi()
				a := slog.Any("v", v)
				as := []slog.Attr{a, slog.Group("g", slog.Any("m", v)), slog.Any("l", lv{slog.AnyValue(v)}), slog.Any("ll", lv{slog.AnyValue(lv{slog.GroupValue(slog.Any("x", v))})})}
				c := runHandlerCase(e, false, k%5, testTime, "multi", []chainStep{{isAt: true, attrs: []slog.Attr{a}}, {group: "w"}, {isAt: true, attrs: []slog.Attr{slog.Group("", a)}}}, as, false)
				c.emit(e)
				ncases++
			}
		}
		// the reproduction through the Logger: logger.With(slog.Group("")).Info("m","k",1)
		g := &gen{e.Rng.Fork()}
		c := runLoggerCase(e, g, false, 1, "m", []chainStep{{isAt: true, args: []any{slog.Group("")}, abs: walkAttrs([]slog.Attr{slog.Group("")})}}, []slog.Attr{one})
		c.emit(e)
		ncases++
		e.Stats["regression_cases"] = ncases
	}

	// 1. string sweeps: each string in every position of one record at once: message, key, string value, WithGroup
	// name, With attribute, group key, member of a group, error text, AnsiString, Marshaler-error text, TextMarshaler
	// text, and inside the output of a Marshaler that copies bytes >= 0x80 unchecked (9 attributes: slog's back slice)
	strs := sweepStrings(e)
	for i, s := range strs {
		c := allPositions(e, s, i%5)
		c.emit(e)
		keepLine(c, 23)
		ncases++
		// the same string inside what careless Marshalers return (invalid UTF-8 is handed through by encoding/json):
		// kept in a record of its own, because only records WITHOUT such a value are required to be UTF-8 throughout
		c = runHandlerCase(e, false, i%5, testTime, "m", nil, []slog.Attr{slog.Any("r", mOK{s}), slog.Any("j", json.RawMessage(rawQuote(s)))}, false)
		c.emit(e)
		ncases++
	}
	e.Stats["string_cases"] = len(strs)

	// 1b. long strings (the pooled buffer starts at 1 KiB and is dropped above 16 KiB; a scanner may have a fast path
	// for long inputs): hostile bytes at the start / middle / end of 63 B ... 70 KiB
	nlong := 0
	longHist := map[int]int{}
	for _, size := range []int{63, 64, 65, 200, 1024, 4096, 17 << 10, 70 << 10} {
		ins := []string{"\xff", "\"", "\\", "\n", "\x00", "\u2028", "\xe2\x80", "\u00e9", "\xf0\x9f\x98\x80", "\x7f", "\xed\xa0\x80"}
		if size > 4096 && !e.Thorough() {
			ins = ins[:4]
		}
		for k, h := range ins {
			for pos := 0; pos < 3; pos++ {
				b := make([]byte, 0, size)
				for len(b) < size {
					b = append(b, "abcdefghij klmno/pqrst"[len(b)%22])
				}
				at := []int{0, size / 2, size - len(h)}[pos]
				copy(b[at:], h)
				ls := string(b)
				var c *caseOut
				if size <= 4096 {
					c = allPositions(e, ls, (k+pos)%5)
				} else { // one position at a time, so that a single line stays below ~150 KiB
					switch (k + pos) % 6 {
					case 0:
						c = runHandlerCase(e, false, 1, testTime, ls, nil, []slog.Attr{slog.Int("k", 1)}, false)
					case 1:
						c = runHandlerCase(e, false, 2, testTime, "m", nil, []slog.Attr{slog.String(ls, "v")}, false)
					case 2:
						c = runHandlerCase(e, true, 3, testTime, "m", nil, []slog.Attr{slog.String("k", ls), slog.Any("e", errT{"x"})}, true)
					case 3:
						c = runHandlerCase(e, false, 4, testTime, "m", []chainStep{{group: ls}, {isAt: true, attrs: []slog.Attr{slog.Int("k", 1)}}}, nil, false)
					case 4:
						c = runHandlerCase(e, false, 0, testTime, "m", []chainStep{{isAt: true, attrs: []slog.Attr{slog.Any("e", errT{ls})}}}, []slog.Attr{slog.Any("m", mFail{ls})}, false)
					default:
						c = runLoggerCase(e, &gen{e.Rng.Fork()}, true, 1, ls, []chainStep{{group: "g"}}, []slog.Attr{slog.Group(ls, slog.String("a", ls[:100]))})
					}
				}
				c.emit(e)
				ncases++
				nlong++
				longHist[size]++
			}
		}
	}
	e.Stats["long_string_cases"] = nlong
	e.Stats["long_string_sizes"] = longHist

	// 1c. sequences of records in one Unix second with different zone offsets
	nseq := timeSequences(e)
	ncases += nseq
	e.Stats["time_sequence_cases"] = nseq

	// 1d. histories with failing destination Writes followed by plain / nested / overlapping records (history.go)
	{
		nh := 250
		if e.Thorough() {
			nh = 5000
		}
		ncases += writeFailureHistories(e, nh)
	}

	// 2. random trees x chains x levels x source, handler level and logger level
	g := &gen{e.Rng.Fork()}
	depthHist := map[int]int{}
	chainHist := map[int]int{}
	modes := map[string]int{}
	nEmptyOut := 0
	for i := 0; i < nTrees; i++ {
		depth := g.r.Intn(6)
		lvl := g.r.Intn(5)
		src := g.r.Chance(30)
		msg := g.str()
		maxAttrs := 5
		if g.r.Chance(15) {
			maxAttrs = 14 // beyond the 5 inline slots of slog.Record
		}
		attrs := g.attrs(depth, maxAttrs)
		var c *caseOut
		if g.r.Chance(60) {
			ch := g.chain(false, depth)
			c = runHandlerCase(e, src, lvl, g.time(), msg, ch, attrs, g.r.Bool())
			modes["handler"]++
		} else {
			ch := g.chain(true, depth)
			c = runLoggerCase(e, g, src, lvl, msg, ch, attrs)
			modes["logger"]++
		}
		d := depthOf(c.attrs)
		for _, s := range c.chain {
			if k := depthOf(s.abs); k > d {
				d = k
			}
		}
		depthHist[d]++
		chainHist[len(c.chain)]++
		if len(c.attrs) == 0 {
			nEmptyOut++
		}
		c.emit(e)
		keepLine(c, 7)
		ncases++
		if i < 5 {
			smp := map[string]any{"msg": msg, "chain_len": len(c.chain)}
			if len(c.writes) == 1 {
				smp["line"] = string(c.writes[0])
			}
			e.Sample("samples", smp, 5)
		}
	}
	e.Stats["tree_cases"] = nTrees
	e.Stats["tree_group_depth_hist"] = depthHist
	e.Stats["chain_len_hist"] = chainHist
	e.Stats["modes"] = modes
	e.Stats["records_without_attrs"] = nEmptyOut
	e.Stats["value_kinds_seen"] = kindCount
	e.Stats["call_sites"] = siteCount
	e.Stats["logger_methods"] = methodCount
	e.Stats["cases"] = ncases

	// 3. the parser of the specification against encoding/json
	if len(xlines) > 6000 {
		xlines = xlines[:6000]
	}
	return crossValidate(e, xlines)
}

var _ = io.Discard
