package main

// C01 over HISTORIES in which destination Writes fail. The property speaks about every record the JSON handler
// writes, whatever happened before: a Write that returned an error (disk full, closed pipe, EAGAIN), wrote short
// or panicked (recovered above the logging call) on this handler, on a derived one, on another JSON handler or on an
// unrelated Text / Nano handler of the same process must not change what later records look like. What a handler
// keeps between records (pooled buffers, preformatted prefixes, cached state) is only exercised when records are
// being formatted at OVERLAPPING times afterwards, so every scenario continues, after the failures, with
//   - plain records through the root and through derived handlers,
//   - NESTED records: a LogValuer / json.Marshaler / error method of an attribute of the outer record logs an inner
//     record (through the same, a derived, or another handler; up to two levels deep) while the outer one is being
//     formatted,
//   - CONCURRENT records: the outer record is logged by a second goroutine and parked inside a LogValuer until the
//     first goroutine has logged inner records (a forced overlap, no luck with the scheduler needed).
// Every record is an ordinary case (same line format, same verdict function): its writes are the byte strings the
// destination received DURING its own Handle call, minus those received during the calls of the records nested in
// it; the bytes of a Write that is scripted to fail are judged like any other (they are what the handler wrote).
// Nothing else is demanded: a handler that deadlocks after a panicking Write writes nothing, which is C02's
// business; such a scenario is abandoned after a watchdog timeout and only counted.

import (
	"context"
	"encoding/json"
	"errors"
	"io"
	"log/slog"
	"sync"
	"syscall"
	"time"

	"github.com/whoisnian/glb/logger"
	"verifharness/hk"
)

const (
	wkOK = iota
	wkErr
	wkShort
	wkEOF
	wkEAGAIN
	wkPanic
	nWriteKinds
)

var writeKindNames = []string{"ok", "error", "short_write", "eof", "eagain", "panic"}

// scriptW records the argument of every Write and fails the next `left` calls in the scripted way.
type scriptW struct {
	mu     sync.Mutex
	writes [][]byte
	left   int
	kind   int
	failed int
}

func (s *scriptW) Write(p []byte) (int, error) {
	s.mu.Lock()
	s.writes = append(s.writes, append([]byte(nil), p...))
	k := wkOK
	if s.left > 0 {
		s.left--
		s.failed++
		k = s.kind
	}
	s.mu.Unlock()
	switch k {
	case wkErr:
		return 0, errors.New("no space left on device")
	case wkShort:
		return len(p) / 2, io.ErrShortWrite
	case wkEOF:
		return 0, io.EOF
	case wkEAGAIN:
		return 0, syscall.EAGAIN
	case wkPanic:
		panic("scripted destination panic")
	}
	return len(p), nil
}

func (s *scriptW) failNext(n, kind int) {
	s.mu.Lock()
	s.left, s.kind = n, kind
	s.mu.Unlock()
}

func (s *scriptW) len() int {
	s.mu.Lock()
	defer s.mu.Unlock()
	return len(s.writes)
}

func (s *scriptW) slice(lo, hi int, excl [][2]int) [][]byte {
	s.mu.Lock()
	defer s.mu.Unlock()
	var out [][]byte
	for i := lo; i < hi && i < len(s.writes); i++ {
		skip := false
		for _, x := range excl {
			if i >= x[0] && i < x[1] {
				skip = true
			}
		}
		if !skip {
			out = append(out, s.writes[i])
		}
	}
	return out
}

// hooks: values whose method runs a callback while the record that carries them is being formatted (only when armed:
// the harness's own walk over the attributes, which computes the expected tree, must not log)
type hookState struct {
	mu    sync.Mutex
	armed bool
	fn    func()
	fired int
}

func (h *hookState) fire() {
	h.mu.Lock()
	a, fn := h.armed, h.fn
	if a {
		h.fired++
	}
	h.mu.Unlock()
	if a && fn != nil {
		fn()
	}
}

func (h *hookState) arm(v bool) {
	h.mu.Lock()
	h.armed = v
	h.mu.Unlock()
}

type hookLV struct {
	st *hookState
	v  slog.Value
}

func (h hookLV) LogValue() slog.Value { h.st.fire(); return h.v }

type hookM struct {
	st *hookState
	s  string
}

func (h hookM) MarshalJSON() ([]byte, error) {
	h.st.fire()
	return json.Marshal(map[string]string{"hook": h.s})
}

type hookE struct {
	st *hookState
	s  string
}

func (h hookE) Error() string { h.st.fire(); return h.s }

// one node of the derivation tree of a scenario
type hnode struct {
	h     logger.Handler
	chain []chainStep
	sink  *scriptW
}

type history struct {
	e     *hk.Env
	g     *gen
	mu    sync.Mutex
	done  []*caseOut
	wins  []hwin // write windows of the finished records, in order of completion
	nodes []*hnode
	stats map[string]int
}

type hwin struct {
	sink   *scriptW
	lo, hi int
}

func (hs *history) count(k string) {
	hs.mu.Lock()
	hs.stats[k]++
	hs.mu.Unlock()
}

func deriveNode(p *hnode, s chainStep) *hnode {
	n := &hnode{sink: p.sink, chain: append(append([]chainStep(nil), p.chain...), s)}
	if s.isAt {
		n.h = p.h.WithAttrs(s.attrs)
	} else {
		n.h = p.h.WithGroup(s.group)
	}
	return n
}

// logOne logs one record through node n and files it as a finished case. hook (may be nil) is armed for the
// duration of the call only. The record's writes are those its destination received during the call, minus the
// windows of the records that were logged to completion during the call (nested in it, or by the other goroutine
// while this one was parked).
func (hs *history) logOne(n *hnode, lvl int, t time.Time, msg string, attrs []slog.Attr, hook *hookState, viaLogger bool) {
	c := &caseOut{level: lvl, msg: msg, file: "~", chain: n.chain}
	rec := slog.NewRecord(t, levels[lvl], msg, 0)
	rec.AddAttrs(attrs...)
	rec.Attrs(func(a slog.Attr) bool { c.attrs = append(c.attrs, walkAttr(a)); return true }) // hooks are not armed here
	c.timeTx = string(t.AppendFormat(nil, time.RFC3339Nano))
	hs.mu.Lock()
	mark := len(hs.wins)
	hs.mu.Unlock()
	lo := n.sink.len()
	before := time.Now()
	func() {
		defer func() {
			if r := recover(); r != nil {
				hs.count("history_panics_recovered")
			}
		}()
		if hook != nil {
			hook.arm(true)
			defer hook.arm(false)
		}
		if viaLogger {
			logger.New(n.h).LogAttrs(context.Background(), levels[lvl], msg, attrs...)
		} else {
			n.h.Handle(context.Background(), rec)
		}
	}()
	after := time.Now()
	hi := n.sink.len()
	var ex [][2]int
	hs.mu.Lock()
	for _, w := range hs.wins[mark:] {
		if w.sink == n.sink {
			ex = append(ex, [2]int{w.lo, w.hi})
		}
	}
	hs.mu.Unlock()
	c.writes = n.sink.slice(lo, hi, ex)
	if viaLogger { // the Logger stamps the record itself: the time text is read back and must be "now"
		c.timeTx = "?"
		if len(c.writes) > 0 {
			tx := timeFromLine(c.writes[0])
			if pt, err := time.Parse(time.RFC3339Nano, tx); err == nil && !pt.Before(before.Add(-time.Second)) && !pt.After(after.Add(time.Second)) &&
				string(pt.AppendFormat(nil, time.RFC3339Nano)) == tx {
				c.timeTx = tx
			}
		}
	}
	hs.mu.Lock()
	hs.done = append(hs.done, c)
	hs.wins = append(hs.wins, hwin{n.sink, lo, hi})
	hs.mu.Unlock()
}

// hookAttr wraps a hook into an attribute at a random position of a small tree
func (hs *history) hookAttr(st *hookState) (slog.Attr, string) {
	r := hs.g.r
	var a slog.Attr
	kind := ""
	switch r.Intn(4) {
	case 0:
		kind = "logvaluer"
		a = slog.Any("hv", hookLV{st, slog.StringValue("resolved")})
	case 1:
		kind = "logvaluer_group"
		a = slog.Any("hg", hookLV{st, slog.GroupValue(slog.Int("x", 1), slog.String("y", "z"))})
	case 2:
		kind = "marshaler"
		a = slog.Any("hm", hookM{st, "m\"\xff"})
	default:
		kind = "error_method"
		a = slog.Any("he", hookE{st, "failed: \"quoted\"\n"})
	}
	switch r.Intn(3) {
	case 0:
		a = slog.Group("grp", slog.Int("before", 1), a, slog.Bool("after", true))
		kind += "_in_group"
	case 1:
		a = slog.Group("", a)
		kind += "_inline"
	}
	return a, kind
}

func (hs *history) someAttrs() []slog.Attr {
	r := hs.g.r
	if r.Chance(25) {
		return hs.g.attrs(2, 4)
	}
	as := []slog.Attr{slog.String("a", "b")}
	if r.Bool() {
		as = append(as, slog.Int("i", r.Intn(1000)))
	}
	if r.Chance(5) {
		as = append(as, slog.String("pad", string(make([]byte, r.Intn(3000))))) // NUL bytes: six output bytes each
	}
	return as
}

func (hs *history) node() *hnode { return hs.nodes[hs.g.r.Intn(len(hs.nodes))] }

// nested: the outer record carries a hook that logs `depth` levels of inner records while it is being formatted
func (hs *history) nested(n *hnode, depth int, tag string) {
	r := hs.g.r
	attrs := hs.someAttrs()
	var st *hookState
	if depth > 0 {
		st = &hookState{}
		in := hs.node()
		nInner := 1 + r.Intn(2)
		st.fn = func() {
			for k := 0; k < nInner; k++ {
				hs.nested(in, depth-1, tag+"i")
			}
		}
		ha, kind := hs.hookAttr(st)
		hs.count("history_hook_" + kind)
		at := r.Intn(len(attrs) + 1)
		attrs = append(attrs[:at:at], append([]slog.Attr{ha}, attrs[at:]...)...)
		attrs = append(attrs, slog.Bool("z", true))
	}
	hs.logOne(n, r.Intn(5), hs.g.time(), tag, attrs, st, r.Chance(30))
	if st != nil && st.fired == 0 {
		hs.count("history_hook_never_fired")
	}
}

// overlapped: a second goroutine logs the outer record and parks inside a LogValuer until this goroutine has logged
// the inner records
func (hs *history) overlapped(n *hnode) {
	r := hs.g.r
	entered, release, done := make(chan struct{}, 8), make(chan struct{}), make(chan struct{})
	st := &hookState{fn: func() {
		entered <- struct{}{}
		select {
		case <-release:
		case <-time.After(5 * time.Second):
		}
	}}
	attrs := hs.someAttrs()
	ha, _ := hs.hookAttr(st)
	at := r.Intn(len(attrs) + 1)
	attrs = append(attrs[:at:at], append([]slog.Attr{ha}, attrs[at:]...)...)
	attrs = append(attrs, slog.Bool("z", true))
	lvl, t, via := r.Intn(5), hs.g.time(), r.Chance(30)
	go func() {
		defer close(done)
		hs.logOne(n, lvl, t, "outer-parked", attrs, st, via)
	}()
	select {
	case <-entered:
		nInner := 1 + r.Intn(3)
		for k := 0; k < nInner; k++ {
			hs.nested(hs.node(), r.Intn(2), "inner-of-parked")
		}
		hs.count("history_overlaps")
	case <-done:
		hs.count("history_hook_never_fired")
	case <-time.After(5 * time.Second):
		hs.count("history_overlap_timeout")
	}
	close(release)
	select {
	case <-done:
	case <-time.After(5 * time.Second):
	}
}

func (hs *history) scenario(idx int) {
	r := hs.g.r
	opts := logger.NewOptions(logger.LevelDebug, false, false)
	sink := &scriptW{}
	root := &hnode{h: logger.NewJsonHandler(sink, opts), sink: sink}
	a1 := []slog.Attr{slog.String("w", "v"), slog.Int("n", idx)}
	a2 := []slog.Attr{slog.Group("wg", slog.Bool("t", true))}
	nA := deriveNode(root, chainStep{isAt: true, attrs: a1, abs: walkAttrs(a1)})
	nG := deriveNode(root, chainStep{group: "g"})
	nGA := deriveNode(nG, chainStep{isAt: true, attrs: a2, abs: walkAttrs(a2)})
	hs.nodes = []*hnode{root, nA, nG, nGA, root}
	if r.Bool() { // a second, unrelated JSON handler with a destination of its own
		s2 := &scriptW{}
		o := &hnode{h: logger.NewJsonHandler(s2, opts), sink: s2}
		hs.nodes = append(hs.nodes, o, deriveNode(o, chainStep{group: "o"}))
	}
	sinks := func() []*scriptW {
		m := []*scriptW{sink}
		if len(hs.nodes) > 5 {
			m = append(m, hs.nodes[5].sink)
		}
		return m
	}()
	failPhase := func() {
		kind := 1 + r.Intn(nWriteKinds-1)
		if kind == wkPanic && historyNoPanic {
			kind = wkErr
		}
		k := 1 + r.Intn(8)
		if kind == wkPanic {
			k = 1 + r.Intn(2)
		}
		hs.count("history_fail_" + writeKindNames[kind])
		switch r.Intn(4) {
		case 0: // an unrelated Text / Nano handler of the same process loses records
			bad := &scriptW{}
			bad.failNext(k, kind)
			var h logger.Handler
			if r.Bool() {
				h = logger.NewTextHandler(bad, opts)
			} else {
				h = logger.NewNanoHandler(bad, opts)
			}
			for i := 0; i < k; i++ {
				func() {
					defer func() { recover() }()
					rec := slog.NewRecord(testTime, levels[2], "lost", 0)
					rec.AddAttrs(slog.Int("i", i))
					h.Handle(context.Background(), rec)
				}()
			}
		case 1: // the failures hit whatever is logged next (plain, nested or overlapped records)
			sinks[r.Intn(len(sinks))].failNext(k, kind)
		default: // k records in a row are lost on one node
			n := hs.node()
			n.sink.failNext(k, kind)
			for i := 0; i < k; i++ {
				hs.nested(n, 0, "lost")
			}
		}
	}
	for i := r.Intn(3); i > 0; i-- {
		hs.nested(hs.node(), r.Intn(2), "before")
	}
	failPhase()
	steps := 4 + r.Intn(8)
	for i := 0; i < steps; i++ {
		switch x := r.Intn(10); {
		case x < 1:
			failPhase()
		case x < 3:
			hs.nested(hs.node(), 0, "plain")
		case x < 7:
			hs.nested(hs.node(), 1+r.Intn(2), "outer")
		default:
			hs.overlapped(hs.node())
		}
	}
	// the demonstration shape, always: one nested and one overlapped record at the very end
	hs.nested(root, 1, "outer")
	hs.overlapped(nA)
}

var historyNoPanic bool

// writeFailureHistories runs n scenarios and emits every finished record as a case.
func writeFailureHistories(e *hk.Env, n int) int {
	g := &gen{e.Rng.Fork()}
	stats := map[string]int{}
	ncases := 0
	for i := 0; i < n; i++ {
		hs := &history{e: e, g: g, stats: map[string]int{}}
		fin := make(chan struct{})
		go func() {
			defer close(fin)
			defer func() {
				if r := recover(); r != nil {
					hs.count("history_scenario_panic")
				}
			}()
			hs.scenario(i)
		}()
		hung := false
		select {
		case <-fin:
		case <-time.After(8 * time.Second):
			hung = true
			stats["history_scenarios_abandoned"]++
			g = &gen{e.Rng.Fork()} // the abandoned goroutine may still own the old generator
			historyNoPanic = true  // (most likely a handler that stays locked after a panicking Write: not C01's business)
		}
		hs.mu.Lock()
		done := append([]*caseOut(nil), hs.done...)
		for k, v := range hs.stats {
			stats[k] += v
		}
		hs.mu.Unlock()
		for _, c := range done {
			c.emit(e)
			ncases++
		}
		if i < 2 && len(done) > 0 && len(done[len(done)-1].writes) == 1 {
			e.Sample("samples", map[string]any{"history_last_line": string(done[len(done)-1].writes[0])}, 5)
		}
		if hung && stats["history_scenarios_abandoned"] >= 3 {
			break
		}
	}
	stats["history_scenarios"] = n
	stats["history_cases"] = ncases
	for k, v := range stats {
		e.Stats[k] = v
	}
	return ncases
}
