package main

import (
	"bytes"
	"crypto/sha256"
	"fmt"
	"os"
	"path/filepath"
	"strconv"
	"strings"
	"syscall"
	"time"

	"github.com/whoisnian/glb/util/osutil"
	"verifharness/hk"
)

// C18: osutil.CopyFile / osutil.MoveFile never lose file content.
//
// Every case arranges real files: a source file with seeded pseudo-random content, a destination path
// of one of ten kinds (same numbering as Lib/FsScenarios.v), next to the source (same device, under
// /verif/.build) or under /dev/shm (another device here, so os.Rename fails with EXDEV), and two
// third-party files. After the call the harness observes: error?, source path present?, source content
// original?, destination reads the original content?, third-party files intact?
//
// Kinds 11..13 provoke a real fault without hooks: destination a symlink (inside the scratch directory) to
// /dev/full (create follows it and succeeds, every write fails with ENOSPC; code that removes or renames
// over its destination only hits the symlink - /dev/full itself is never passed as a path, kind 10 of the
// model is not run, and the device node is checked before and after), a destination directory without write permission, an
// unreadable source (the last two are skipped when running as root, which ignores permission bits).
// The source content comes from content classes chosen independently of the size (random, all zeros,
// zero tails / heads around 4 KiB and 32 KiB boundaries, alternating zero blocks, all 0xFF).
//
//	E <op 0=CopyFile 1=MoveFile> <kind 0..13> <otherdev> <srcmissing> <nonempty> <ok> <srcpresent> <srcorig> <dstorig> <thirdok> <size> <variant> <contentclass>
//
// Go-side oracle (the property statement itself): "VIOL <reason> <same fields>".
func main() { hk.Main("C18", runC18) }

const (
	kMissing = iota
	kOther
	kSamePath
	kDotSpelling
	kSymlinkToSrc
	kHardlink
	kDir
	kParentMissing
	kParentFile
	kSymlinkToOther
	nKinds   // ordinary kinds end here
	kDevFull = iota - 1
	kSymlinkDevFull
	kNoWriteDir
	kSrcUnreadable
)

var kindNames = []string{"missing", "other-file", "same-path", "dot-spelling", "symlink-to-src", "hardlink", "directory",
	"parent-missing", "parent-is-file", "symlink-to-other", "dev-full", "symlink-to-dev-full", "unwritable-dir", "unreadable-source"}

// content classes
var classNames = []string{"random", "zeros", "ff",
	"zero-tail@32K-1", "zero-tail@32K", "zero-tail@32K+1", "zero-tail@4K-1", "zero-tail@4K", "zero-tail@4K+1",
	"zero-head-half", "zero-head-to-last-32K",
	"alt-zero-first-4K", "alt-data-first-4K", "alt-zero-first-32K", "alt-data-first-32K"}

// makeContent builds n bytes of the given class; rnd yields the non-zero ("data") bytes.
func makeContent(class, n int, rnd func([]byte)) []byte {
	b := make([]byte, n)
	data := func(lo, hi int) {
		if lo < 0 {
			lo = 0
		}
		if hi > n {
			hi = n
		}
		if lo >= hi {
			return
		}
		rnd(b[lo:hi])
		for i := lo; i < hi; i++ { // "data" never contains a zero byte, so zero runs are exactly where the class puts them
			if b[i] == 0 {
				b[i] = 0xA5
			}
		}
	}
	lastBlock := func(bs int) int {
		if n == 0 {
			return 0
		}
		return (n - 1) / bs * bs
	}
	switch class {
	case 0:
		rnd(b)
	case 1:
	case 2:
		for i := range b {
			b[i] = 0xFF
		}
	case 3, 4, 5:
		data(0, lastBlock(32768)+class-4)
	case 6, 7, 8:
		data(0, lastBlock(4096)+class-7)
	case 9:
		data(n/2, n)
	case 10:
		data(lastBlock(32768), n)
	case 11, 12, 13, 14:
		bs := 4096
		if class >= 13 {
			bs = 32768
		}
		for off, k := 0, 0; off < n; off, k = off+bs, k+1 {
			if (k%2 == 1) == (class%2 == 1) {
				data(off, off+bs)
			}
		}
	}
	return b
}

func isAlias(k int) bool {
	return k == kSamePath || k == kDotSpelling || k == kSymlinkToSrc || k == kHardlink
}

func devOf(path string) (uint64, bool) {
	var st syscall.Stat_t
	if err := syscall.Stat(path, &st); err != nil {
		return 0, false
	}
	return uint64(st.Dev), true
}

// devFullIntact: /dev/full is still the character device 1:7.
func devFullIntact() bool {
	var st syscall.Stat_t
	if err := syscall.Lstat("/dev/full", &st); err != nil {
		return false
	}
	return st.Mode&syscall.S_IFMT == syscall.S_IFCHR && st.Rdev == 0x107
}

func b2s(b bool) string {
	if b {
		return "1"
	}
	return "0"
}

// removeStale deletes scratch directories of crashed earlier runs (older than one hour).
func removeStale(parent string) {
	ents, err := os.ReadDir(parent)
	if err != nil {
		return
	}
	for _, en := range ents {
		if !strings.HasPrefix(en.Name(), "verif-c18-") {
			continue
		}
		if info, err := en.Info(); err == nil && time.Since(info.ModTime()) > time.Hour {
			os.RemoveAll(filepath.Join(parent, en.Name()))
		}
	}
}

func runC18(e *hk.Env) (retErr error) {
	verifDir := os.Getenv("VERIF_DIR")
	if verifDir == "" {
		verifDir = "/verif"
	}
	buildDir := filepath.Join(verifDir, ".build")
	os.MkdirAll(buildDir, 0o755)
	removeStale(buildDir)
	removeStale("/dev/shm")

	rootA, err := os.MkdirTemp(buildDir, "verif-c18-")
	if err != nil {
		return err
	}
	defer os.RemoveAll(rootA)
	rootB := ""
	otherDev := false
	if b, err := os.MkdirTemp("/dev/shm", "verif-c18-"); err == nil {
		rootB = b
		defer os.RemoveAll(rootB)
		da, ok1 := devOf(rootA)
		db, ok2 := devOf(rootB)
		otherDev = ok1 && ok2 && da != db
	}
	e.Stats["other_device_available"] = otherDev
	// probe: rename across the two roots really fails with EXDEV
	if otherDev {
		p := filepath.Join(rootA, "probe")
		os.WriteFile(p, []byte("x"), 0o644)
		err := os.Rename(p, filepath.Join(rootB, "probe"))
		e.Stats["rename_across_devices_error"] = fmt.Sprint(err)
		if err == nil {
			otherDev = false
			os.Remove(filepath.Join(rootB, "probe"))
		}
		os.Remove(p)
	}

	// HOME points into the sandbox for the whole run: code that expands a leading '~' is redirected to a harmless,
	// observable place; the original working directory is restored after every case that changes it.
	homeDir := filepath.Join(rootA, "home")
	if err := os.MkdirAll(homeDir, 0o755); err != nil {
		return err
	}
	if err := os.Setenv("HOME", homeDir); err != nil {
		return err
	}
	origWd, err := os.Getwd()
	if err != nil {
		origWd = "/"
	}
	defer os.Chdir(origWd)

	sizes := []int{0, 1, 10, 4096, 32768, 32769, 65536, 1 << 20}
	nRandomSizes := 4
	if e.Thorough() {
		sizes = []int{0, 1, 2, 10, 4095, 4096, 4097, 32767, 32768, 32769, 65535, 65536, 65537, 1 << 20, 1<<20 + 1, 4 << 20}
		nRandomSizes = 24
	}
	// may /dev/full be used? it must be the character device 1:7 on a file system other than the scratch
	// roots' (MoveFile would otherwise rename over it)
	devFullOK := false
	{
		var st syscall.Stat_t
		da, ok1 := devOf(rootA)
		dd, ok2 := devOf("/dev")
		if err := syscall.Stat("/dev/full", &st); err == nil && st.Mode&syscall.S_IFMT == syscall.S_IFCHR && st.Rdev == 0x107 && ok1 && ok2 && da != dd {
			devFullOK = true
			if rootB != "" {
				if db, ok := devOf(rootB); !ok || db == dd {
					devFullOK = false
				}
			}
		}
	}
	e.Stats["dev_full_available"] = devFullOK
	isRoot := os.Geteuid() == 0
	if isRoot {
		e.Stats["permission_scenarios"] = "skipped: running as root, permission bits are not enforced"
	} else {
		e.Stats["permission_scenarios"] = "run"
	}
	r := e.Rng.Fork()
	for i := 0; i < nRandomSizes; i++ {
		sizes = append(sizes, 2+r.Intn(200000))
	}
	e.Stats["sizes"] = sizes

	caseNo := 0
	viol := 0
	byKind := map[string]int{}
	byOutcome := map[string]int{}
	fill := func(b []byte) {
		n := len(b)
		for i := 0; i < n; i += 8 {
			v := r.U64()
			for j := 0; j < 8 && i+j < n; j++ {
				b[i+j] = byte(v >> (8 * j))
			}
		}
	}
	content := func(n int) []byte {
		b := make([]byte, n)
		fill(b)
		return b
	}
	byClass := map[string]int{}
	bySpelling := map[string]int{}
	byPrep := map[string]int{}

	// Optional dimensions of a case, set by the caller before one() and reset afterwards:
	// srcSpell / dstSpell: how the path is written (the file it names is the same; lexical cleaning of the text
	//   would name another file): 0 plain, 1 <work>/<symlink to dir/sub>/../name, 2 doubled slashes (+ "/." on a
	//   directory), 3 a file literally named "~" passed as "~" (cwd = its directory), 4 the same as "./~",
	//   5 "~/name" with a directory literally named "~" in the cwd.
	// prep: state of the existing destination file (kinds other-file / symlink-to-other) relative to the source:
	//   1..6 = (size, mtime, content) same or different, 7 = the destination is the product of an earlier
	//   CopyFile(X, dest) by the code under test and the source has X's size and modification time.
	// nameRel: the two NAMES are related, as in "write NAME.tmp, then move it to NAME" or "keep NAME.bak": k > 0: the
	//   source is <dest><relSuffixes[k]> in the destination's directory, k < 0: the destination is <source><suffix>.
	srcSpell, dstSpell, prep, nameRel := 0, 0, 0, 0
	relSuffixes := []string{"", ".tmp", "~", ".bak", ".part", ".new", ".old", ".swp"}
	byNameRel := map[string]int{}
	spellNames := []string{"plain", "symlink/..", "double-slash", "tilde-file", "dot-tilde-file", "tilde-dir"}
	prepNames := []string{"-", "size!=,mtime!=", "size!=,mtime==", "size==,mtime!=,content!=", "size==,mtime==,content!=",
		"size==,mtime!=,content==", "size==,mtime==,content==", "two-step: X->D, then Y->D with X's size and mtime"}
	// spelled returns the text to pass for the file dir/name and the directory to chdir to ("" = none)
	spelled := func(spell int, work, dir, sub, name string, isDir bool) (arg, cwd string, ok bool) {
		switch spell {
		case 1:
			if os.MkdirAll(filepath.Join(dir, sub), 0o755) != nil || os.MkdirAll(work, 0o755) != nil {
				return "", "", false
			}
			lnk := filepath.Join(work, "lnk-"+sub)
			if os.Symlink(filepath.Join(dir, sub), lnk) != nil {
				return "", "", false
			}
			return lnk + "/../" + name, "", true
		case 2:
			a := dir + "//" + name
			if isDir {
				a += "/."
			}
			return a, "", true
		case 3:
			return "~", dir, true
		case 4:
			return "./~", dir, true
		case 5:
			return "~/" + name, filepath.Dir(dir), true
		}
		return filepath.Join(dir, name), "", true
	}

	one := func(op, kind int, other, srcMissing bool, size, variant, class int) {
		caseNo++
		base := filepath.Join(rootA, fmt.Sprintf("c%d", caseNo))
		dstBase := base
		if other {
			dstBase = filepath.Join(rootB, fmt.Sprintf("c%d", caseNo))
		}
		dstDir := filepath.Join(dstBase, "d")
		defer os.RemoveAll(base)
		defer os.RemoveAll(dstBase)
		if err := os.MkdirAll(filepath.Join(base, "s"), 0o755); err != nil {
			retErr = err
			return
		}
		if err := os.MkdirAll(dstDir, 0o755); err != nil {
			retErr = err
			return
		}
		srcDir := filepath.Join(base, "s")
		srcName := "src file.dat"
		if srcSpell == 3 || srcSpell == 4 {
			srcName = "~"
		}
		srcFileDir := srcDir
		if srcSpell == 5 {
			srcFileDir = filepath.Join(srcDir, "~")
			os.MkdirAll(srcFileDir, 0o755)
		}
		src := filepath.Join(srcFileDir, srcName)
		dstFileDir := dstDir
		if dstSpell == 5 {
			dstFileDir = filepath.Join(dstDir, "~")
			os.MkdirAll(dstFileDir, 0o755)
		}
		nm := func(n string) string {
			if dstSpell == 3 || dstSpell == 4 {
				return "~"
			}
			if nameRel < 0 {
				return n + relSuffixes[-nameRel]
			}
			return n
		}
		orig := makeContent(class, size, fill)
		byClass[classNames[class]]++
		origSum := sha256.Sum256(orig)
		if !srcMissing {
			if err := os.WriteFile(src, orig, 0o644); err != nil {
				retErr = err
				return
			}
		}
		otherContent := append([]byte("OTHER-FILE-"), content(size/2+3)...)
		third1 := filepath.Join(srcDir, "third.dat")
		third2 := filepath.Join(dstDir, "third.dat")
		thirdContent := []byte("third party " + strconv.Itoa(caseNo))
		os.WriteFile(third1, thirdContent, 0o644)
		os.WriteFile(third2, thirdContent, 0o644)

		var dst string
		existing := "" // the regular file an existing destination leads to (prep applies to it)
		setupOK := true
		switch kind {
		case kMissing:
			dst = filepath.Join(dstFileDir, nm("dst.dat"))
		case kOther:
			dst = filepath.Join(dstFileDir, nm("dst.dat"))
			setupOK = os.WriteFile(dst, otherContent, 0o644) == nil
			existing = dst
		case kSamePath:
			dst = src
		case kDotSpelling:
			switch variant % 3 {
			case 0:
				dst = srcDir + "/./src file.dat"
			case 1:
				dst = srcDir + "//src file.dat"
			default:
				dst = base + "/d/../s/src file.dat"
			}
		case kSymlinkToSrc:
			dst = filepath.Join(dstDir, "dst.lnk")
			setupOK = os.Symlink(src, dst) == nil
		case kHardlink:
			dst = filepath.Join(dstDir, "hard.dat")
			setupOK = os.Link(src, dst) == nil
		case kDir:
			dst = filepath.Join(dstFileDir, nm("dstdir"))
			setupOK = os.Mkdir(dst, 0o755) == nil
		case kParentMissing:
			dst = filepath.Join(dstDir, "nodir", "dst.dat")
		case kParentFile:
			setupOK = os.WriteFile(filepath.Join(dstDir, "afile"), []byte("plain"), 0o644) == nil
			dst = filepath.Join(dstDir, "afile", "dst.dat")
		case kSymlinkToOther:
			target := filepath.Join(dstDir, "other.dat")
			dst = filepath.Join(dstFileDir, nm("dst.lnk"))
			setupOK = os.WriteFile(target, otherContent, 0o644) == nil && os.Symlink(target, dst) == nil
			existing = target
		case kDevFull:
			// never used as a path: buggy code under test that removes or renames over its destination
			// would destroy the device node. The model kind stays; the harness only uses the symlink spelling.
			retErr = fmt.Errorf("kind dev-full must not be run")
			return
		case kSymlinkDevFull:
			dst = filepath.Join(dstFileDir, nm("full.lnk"))
			setupOK = os.Symlink("/dev/full", dst) == nil
		case kNoWriteDir:
			ro := filepath.Join(dstDir, "ro")
			dst = filepath.Join(ro, "dst.dat")
			setupOK = os.Mkdir(ro, 0o555) == nil
			defer os.Chmod(ro, 0o755)
		case kSrcUnreadable:
			dst = filepath.Join(dstDir, "dst.dat")
			setupOK = os.Chmod(src, 0) == nil
		}
		if !setupOK {
			e.Count("setup_failed", 1)
			return
		}

		// related names: the source moves into the destination's directory (same device only)
		if nameRel != 0 && !srcMissing {
			if other {
				retErr = fmt.Errorf("related names need one device")
				return
			}
			var newSrc string
			if nameRel > 0 {
				newSrc = dst + relSuffixes[nameRel]
			} else {
				newSrc = strings.TrimSuffix(dst, relSuffixes[-nameRel])
			}
			if newSrc == dst || os.Rename(src, newSrc) != nil {
				e.Count("setup_failed", 1)
				return
			}
			src = newSrc
			if nameRel > 0 {
				byNameRel["src = dst+"+relSuffixes[nameRel]]++
			} else {
				byNameRel["dst = src+"+relSuffixes[-nameRel]]++
			}
		}

		// state of the existing destination relative to the source
		if prep != 0 && existing != "" && !srcMissing {
			t0 := time.Date(2021, 3, 4, 5, 6, 7, 123456789, time.UTC)
			sameSize := prep >= 3
			sameMtime := prep == 2 || prep == 4 || prep == 6
			sameContent := prep >= 5
			switch {
			case prep == 7:
				// X: same size as the source, other bytes; D := CopyFile(X, dest) by the code under test
				x := filepath.Join(srcDir, "x.dat")
				xb := append([]byte(nil), orig...)
				for i := range xb {
					xb[i] ^= 0x5A
				}
				if os.WriteFile(x, xb, 0o644) != nil || os.Chtimes(x, t0, t0) != nil {
					e.Count("setup_failed", 1)
					return
				}
				stepErr := func() (err error) {
					defer func() {
						if p := recover(); p != nil {
							err = fmt.Errorf("panic: %v", p)
						}
					}()
					_, err = osutil.CopyFile(x, dst)
					return
				}()
				if stepErr != nil {
					e.Count("two_step_first_copy_failed", 1)
					return
				}
				sameMtime = true
			case sameContent:
				setupOK = os.WriteFile(existing, orig, 0o644) == nil
			case sameSize:
				ob := append([]byte(nil), orig...)
				for i := range ob {
					ob[i] ^= 0xC3
				}
				setupOK = os.WriteFile(existing, ob, 0o644) == nil
			}
			if !srcMissing {
				setupOK = setupOK && os.Chtimes(src, t0, t0) == nil
			}
			if prep != 7 {
				td := t0
				if !sameMtime {
					td = t0.Add(-time.Hour)
				}
				setupOK = setupOK && os.Chtimes(existing, td, td) == nil
			}
			if !setupOK {
				e.Count("setup_failed", 1)
				return
			}
			byPrep[prepNames[prep]]++
		}

		// how the two paths are written
		srcCanon, dstCanon := src, dst
		cwd := ""
		if srcSpell != 0 {
			a, c, ok := spelled(srcSpell, filepath.Join(base, "w"), srcFileDir, "sub-s", filepath.Base(src), false)
			if !ok {
				e.Count("setup_failed", 1)
				return
			}
			src, cwd = a, c
		}
		if dstSpell != 0 {
			a, c, ok := spelled(dstSpell, filepath.Join(base, "w"), dstFileDir, "sub-d", filepath.Base(dst), kind == kDir)
			if !ok || (c != "" && cwd != "" && c != cwd) {
				e.Count("setup_failed", 1)
				return
			}
			dst = a
			if c != "" {
				cwd = c
			}
		}
		if cwd != "" {
			if os.Chdir(cwd) != nil {
				e.Count("setup_failed", 1)
				return
			}
			defer os.Chdir(origWd)
		}
		if srcSpell != 0 || dstSpell != 0 {
			bySpelling["src:"+spellNames[srcSpell]+" dst:"+spellNames[dstSpell]]++
			// the spelling must name the very same file for the kernel
			same := func(a, b string) bool {
				ia, ea := os.Lstat(a)
				ib, eb := os.Lstat(b)
				if ea != nil || eb != nil {
					return (ea != nil) == (eb != nil)
				}
				return os.SameFile(ia, ib)
			}
			if !same(src, srcCanon) || !same(dst, dstCanon) {
				retErr = fmt.Errorf("spelling does not name the intended file: %q vs %q / %q vs %q", src, srcCanon, dst, dstCanon)
				return
			}
		}

		// both paths themselves (lexically, relative ones against the cwd) must lie inside the scratch roots; only a
		// symlink may lead out
		for _, pth := range []string{src, dst} {
			cl := pth
			if !filepath.IsAbs(cl) {
				cl = filepath.Join(cwd, cl)
			}
			cl = filepath.Clean(cl)
			if !(strings.HasPrefix(cl, rootA+"/") || (rootB != "" && strings.HasPrefix(cl, rootB+"/"))) {
				retErr = fmt.Errorf("refusing path outside the scratch roots: %s", pth)
				return
			}
		}
		if kind == kSymlinkDevFull && !devFullIntact() {
			retErr = fmt.Errorf("/dev/full is not the character device 1:7 before the scenario")
			return
		}

		// the call, panics recorded
		var callErr error
		panicked := ""
		func() {
			defer func() {
				if p := recover(); p != nil {
					panicked = fmt.Sprint(p)
				}
			}()
			if op == 0 {
				_, callErr = osutil.CopyFile(src, dst)
			} else {
				callErr = osutil.MoveFile(src, dst)
			}
		}()

		if kind == kSymlinkDevFull && !devFullIntact() {
			retErr = fmt.Errorf("/dev/full is no longer the character device 1:7 after %s(src, symlink to /dev/full)", []string{"CopyFile", "MoveFile"}[op])
			return
		}
		ok := callErr == nil && panicked == ""
		if kind == kSrcUnreadable {
			os.Chmod(src, 0o644) // harmless if MoveFile renamed it away
			os.Chmod(dst, 0o644)
		}
		_, lerr := os.Lstat(src)
		srcPresent := lerr == nil
		sameAsOrig := func(p string) bool {
			if srcMissing {
				return false
			}
			// only regular files are read (/dev/full reads as endless zeros)
			if st, err := os.Stat(p); err != nil || !st.Mode().IsRegular() {
				return false
			}
			b, err := os.ReadFile(p)
			return err == nil && sha256.Sum256(b) == origSum && len(b) == len(orig)
		}
		srcOrig := sameAsOrig(src)
		dstOrig := sameAsOrig(dst)
		t1, err1 := os.ReadFile(third1)
		t2, err2 := os.ReadFile(third2)
		thirdOK := err1 == nil && err2 == nil && bytes.Equal(t1, thirdContent) && bytes.Equal(t2, thirdContent)

		fields := []string{strconv.Itoa(op), strconv.Itoa(kind), b2s(other), b2s(srcMissing), b2s(size > 0),
			b2s(ok), b2s(srcPresent), b2s(srcOrig), b2s(dstOrig), b2s(thirdOK), strconv.Itoa(size), strconv.Itoa(variant), strconv.Itoa(class),
			strconv.Itoa(srcSpell), strconv.Itoa(dstSpell), strconv.Itoa(prep), strconv.Itoa(nameRel)}
		e.Case(append([]string{"E"}, fields...)...)
		byKind[[]string{"CopyFile", "MoveFile"}[op]+"/"+kindNames[kind]+map[bool]string{false: "", true: "/other-device"}[other]+map[bool]string{false: "", true: "/missing-source"}[srcMissing]]++
		byOutcome[fmt.Sprintf("ok=%v src_present=%v src_orig=%v dst_orig=%v", ok, srcPresent, srcOrig, dstOrig)]++

		// oracle: the property statement
		reason := ""
		switch {
		case panicked != "":
			reason = "panic"
		case !thirdOK:
			reason = "third-party-file-changed"
		case srcMissing:
		case ok && !dstOrig:
			reason = "nil-but-destination-differs-from-original-source"
		case ok && op == 0 && !(srcPresent && srcOrig):
			reason = "nil-but-source-changed"
		case ok && op == 1 && srcPresent && !(isAlias(kind) && srcOrig):
			reason = "nil-but-source-still-present-or-damaged"
		case !ok && !(srcPresent && srcOrig):
			reason = "error-and-source-lost-or-changed"
		}
		if reason != "" {
			viol++
			e.Case(append([]string{"VIOL", reason}, fields...)...)
		}
		if caseNo%37 == 5 {
			msg := "nil"
			if callErr != nil {
				msg = strings.ReplaceAll(callErr.Error(), base, "<A>")
				msg = strings.ReplaceAll(msg, dstBase, "<B>")
			}
			e.Sample("samples", map[string]any{"op": []string{"CopyFile", "MoveFile"}[op], "dest": kindNames[kind], "other_device": other,
				"size": size, "content": classNames[class], "src_spelling": spellNames[srcSpell], "dst_spelling": spellNames[dstSpell], "dest_state": prepNames[prep], "error": msg, "src_present": srcPresent, "src_orig": srcOrig, "dst_orig": dstOrig}, 8)
		}
	}

	variant := 0
	dataMoving := map[int]bool{kMissing: true, kOther: true, kSymlinkToOther: true}
	for _, size := range sizes {
		for class := range classNames {
			if size == 0 && class > 0 {
				continue
			}
			for op := 0; op < 2; op++ {
				for kind := 0; kind < nKinds; kind++ {
					// every class where bytes are transferred; the other kinds with random and all-zero content
					if class > 1 && !dataMoving[kind] {
						continue
					}
					// big files: the boundary classes only on the plain "missing destination" kind (quick tier)
					if class > 2 && size >= 1<<20 && kind != kMissing && !e.Thorough() {
						continue
					}
					variant++
					one(op, kind, false, false, size, variant, class)
					if otherDev && kind != kSamePath && kind != kDotSpelling && kind != kHardlink {
						one(op, kind, true, false, size, variant, class)
					}
				}
				if class <= 1 {
					// missing source
					for _, kind := range []int{kMissing, kOther} {
						one(op, kind, false, true, size, variant, class)
						if otherDev {
							one(op, kind, true, true, size, variant, class)
						}
					}
				}
				// real faults (non-empty content: an empty copy performs no write)
				if size > 0 && (class <= 2 || size <= 65536) {
					if devFullOK {
						one(op, kSymlinkDevFull, false, false, size, variant, class)
						if otherDev {
							one(op, kSymlinkDevFull, true, false, size, variant, class)
						}
					}
					if !isRoot && class <= 1 {
						for _, kind := range []int{kNoWriteDir, kSrcUnreadable} {
							one(op, kind, false, false, size, variant, class)
							if otherDev {
								one(op, kind, true, false, size, variant, class)
							}
						}
					}
				}
				if retErr != nil {
					return retErr
				}
			}
		}
	}
	// ---- path spellings whose lexical cleaning names another file (for the source and for the destination)
	devs := []bool{false}
	if otherDev {
		devs = append(devs, true)
	}
	spellSizes := []int{1, 4096}
	if e.Thorough() {
		spellSizes = []int{0, 1, 4096, 70000}
	}
	for _, size := range spellSizes {
		for op := 0; op < 2; op++ {
			for _, other := range devs {
				for sp := 1; sp <= 5; sp++ {
					for _, kind := range []int{kMissing, kOther, kSymlinkToOther, kDir} {
						variant++
						dstSpell = sp
						one(op, kind, other, false, size, variant, 0)
						dstSpell = 0
					}
					for _, kind := range []int{kMissing, kOther} {
						variant++
						srcSpell = sp
						one(op, kind, other, false, size, variant, 0)
						srcSpell = 0
					}
					// both spelled (only combinations that need at most one working directory)
					if sp <= 2 {
						variant++
						srcSpell, dstSpell = sp, 3-sp
						one(op, kMissing, other, false, size, variant, 0)
						srcSpell, dstSpell = 0, 0
					}
				}
				if retErr != nil {
					return retErr
				}
			}
		}
	}
	// ---- related names of source and destination (temporary / backup suffixes), both directions
	for _, size := range []int{1, 4096} {
		for op := 0; op < 2; op++ {
			for rel := 1; rel < len(relSuffixes); rel++ {
				for _, dir := range []int{1, -1} {
					for _, kind := range []int{kMissing, kOther, kDir, kSymlinkToOther, kSymlinkDevFull} {
						if kind == kSymlinkDevFull && !devFullOK {
							continue
						}
						variant++
						nameRel = dir * rel
						one(op, kind, false, false, size, variant, 0)
						nameRel = 0
					}
				}
			}
			if retErr != nil {
				return retErr
			}
		}
	}
	e.Stats["by_name_relation"] = byNameRel
	// ---- existing destinations in every relation of size / modification time / content to the source, and
	// two-step sequences onto one destination
	prepSizes := []int{0, 1, 10, 4096, 65536}
	if e.Thorough() {
		prepSizes = append(prepSizes, 4095, 100000, 1<<20)
	}
	for _, size := range prepSizes {
		for op := 0; op < 2; op++ {
			for _, other := range devs {
				for _, kind := range []int{kOther, kSymlinkToOther} {
					for pm := 1; pm <= 7; pm++ {
						if size == 0 && (pm == 3 || pm == 4 || pm == 7) {
							continue // no two different contents of length 0
						}
						for _, class := range []int{0, 1} {
							if size == 0 && class > 0 {
								continue
							}
							variant++
							prep = pm
							one(op, kind, other, false, size, variant, class)
							prep = 0
						}
					}
				}
				if retErr != nil {
					return retErr
				}
			}
		}
	}
	// ---- directory-like destination SPELLINGS: the destination text ends in a path separator or in "/." and names the
	// source's own parent directory, another existing directory (optionally already holding a file of the source's base
	// name), or a missing directory - written directly or through a symbolic link to the directory; the source is a
	// regular file or a symbolic link (in its directory) to a data file elsewhere. For the code at HEAD all of them fail
	// (the model's "destination is a directory" / "parent missing" failure). The property does not forbid reading "dir/"
	// like cp(1) (copy into the directory under the source's base name), so "the destination" is the path as given if it
	// resolves to a regular file, else <dir>/<base name of the source path>; when <dir> is the directory of the source
	// path that IS the source (an alias). "D" lines (Check/C18.v: spec_dirlike, dirlike_matches):
	//
	//	D <op> <modelkind 6|7> <otherdev> 0 <nonempty> <ok> <srcpresent> <srcorig> <dstgiven> <thirdok> <dstinside> <selfparent> <srcsym> <size> <variant> <class> <spelling> <dirrel> <preexisting>
	dirSpellNames := []string{"dir/", "dir//", "dir/.", "symlink-to-dir/", "symlink-to-dir/.", "symlink-to-dir//"}
	dirRelNames := []string{"source's-own-parent", "another-directory", "missing-directory"}
	byDirlike := map[string]int{}
	dirlike := func(op, rel, spell int, srcSym, other, preexist bool, size, variant, class int) {
		caseNo++
		base := filepath.Join(rootA, fmt.Sprintf("c%d", caseNo))
		dstBase := base
		if other {
			dstBase = filepath.Join(rootB, fmt.Sprintf("c%d", caseNo))
		}
		defer os.RemoveAll(base)
		defer os.RemoveAll(dstBase)
		srcDir, dstDir, work := filepath.Join(base, "s"), filepath.Join(dstBase, "d"), filepath.Join(base, "w")
		dataDir := filepath.Join(dstBase, "data") // on the other device when there is one
		if os.MkdirAll(srcDir, 0o755) != nil || os.MkdirAll(dstDir, 0o755) != nil || os.MkdirAll(work, 0o755) != nil || os.MkdirAll(dataDir, 0o755) != nil {
			e.Count("setup_failed", 1)
			return
		}
		orig := makeContent(class, size, fill)
		origSum := sha256.Sum256(orig)
		src := filepath.Join(srcDir, "src file.dat")
		if srcSym {
			data := filepath.Join(dataDir, "payload.bin")
			if os.WriteFile(data, orig, 0o644) != nil || os.Symlink(data, src) != nil {
				e.Count("setup_failed", 1)
				return
			}
		} else if os.WriteFile(src, orig, 0o644) != nil {
			e.Count("setup_failed", 1)
			return
		}
		third1, third2 := filepath.Join(srcDir, "third.dat"), filepath.Join(dstDir, "third.dat")
		thirdContent := []byte("third party " + strconv.Itoa(caseNo))
		os.WriteFile(third1, thirdContent, 0o644)
		os.WriteFile(third2, thirdContent, 0o644)
		var dir string
		switch rel {
		case 0:
			dir = srcDir
		case 1:
			dir = dstDir
			if preexist && os.WriteFile(filepath.Join(dir, filepath.Base(src)), append([]byte("OTHER-FILE-"), content(size/2+3)...), 0o644) != nil {
				e.Count("setup_failed", 1)
				return
			}
		default:
			dir = filepath.Join(dstDir, "nodir")
		}
		dst := dir
		if spell >= 3 {
			dst = filepath.Join(work, "lnk-dir")
			if os.Symlink(dir, dst) != nil {
				e.Count("setup_failed", 1)
				return
			}
		}
		dst += []string{"/", "//", "/.", "/", "/.", "//"}[spell]
		if cl := filepath.Clean(dst); !(strings.HasPrefix(cl, rootA+"/") || (rootB != "" && strings.HasPrefix(cl, rootB+"/"))) {
			retErr = fmt.Errorf("refusing path outside the scratch roots: %s", dst)
			return
		}
		var callErr error
		panicked := ""
		func() {
			defer func() {
				if p := recover(); p != nil {
					panicked = fmt.Sprint(p)
				}
			}()
			if op == 0 {
				_, callErr = osutil.CopyFile(src, dst)
			} else {
				callErr = osutil.MoveFile(src, dst)
			}
		}()
		ok := callErr == nil && panicked == ""
		_, lerr := os.Lstat(src)
		srcPresent := lerr == nil
		sameAsOrig := func(p string) bool {
			if st, err := os.Stat(p); err != nil || !st.Mode().IsRegular() {
				return false
			}
			b, err := os.ReadFile(p)
			return err == nil && len(b) == len(orig) && sha256.Sum256(b) == origSum
		}
		srcOrig := sameAsOrig(src)
		dstGiven := sameAsOrig(dst)
		dstInside := sameAsOrig(filepath.Join(dir, filepath.Base(src)))
		t1, err1 := os.ReadFile(third1)
		t2, err2 := os.ReadFile(third2)
		thirdOK := err1 == nil && err2 == nil && bytes.Equal(t1, thirdContent) && bytes.Equal(t2, thirdContent)
		mkind := kDir
		if rel == 2 {
			mkind = kParentMissing
		}
		fields := []string{strconv.Itoa(op), strconv.Itoa(mkind), b2s(other), "0", b2s(size > 0), b2s(ok), b2s(srcPresent), b2s(srcOrig),
			b2s(dstGiven), b2s(thirdOK), b2s(dstInside), b2s(rel == 0), b2s(srcSym), strconv.Itoa(size), strconv.Itoa(variant), strconv.Itoa(class),
			strconv.Itoa(spell), strconv.Itoa(rel), b2s(preexist)}
		e.Case(append([]string{"D"}, fields...)...)
		byDirlike[[]string{"CopyFile", "MoveFile"}[op]+"/"+dirRelNames[rel]+"/"+dirSpellNames[spell]+map[bool]string{false: "", true: "/symlink-source"}[srcSym]+map[bool]string{false: "", true: "/other-device"}[other]]++
		byOutcome[fmt.Sprintf("ok=%v src_present=%v src_orig=%v dst_orig=%v", ok, srcPresent, srcOrig, dstGiven || dstInside)]++
		// oracle: the property statement, "the destination" = the path given or <dir>/<base of the source path>
		dstOrig := dstGiven || dstInside
		reason := ""
		switch {
		case panicked != "":
			reason = "panic"
		case !thirdOK:
			reason = "third-party-file-changed"
		case ok && !dstOrig:
			reason = "nil-but-destination-differs-from-original-source"
		case srcSym && op == 1: // a symbolic link as MoveFile's source may be moved as a link: nothing more on success
			if !ok && !(srcPresent && srcOrig) {
				reason = "error-and-source-lost-or-changed"
			}
		case ok && op == 0 && !(srcPresent && srcOrig):
			reason = "nil-but-source-changed"
		case ok && op == 1 && srcPresent && !(rel == 0 && srcOrig):
			reason = "nil-but-source-still-present-or-damaged"
		case !ok && !(srcPresent && srcOrig):
			reason = "error-and-source-lost-or-changed"
		}
		if reason != "" {
			viol++
			e.Case(append([]string{"VIOL", reason + "/directory-like-destination:" + dirRelNames[rel] + ":" + dirSpellNames[spell]}, fields...)...)
		}
		if caseNo%41 == 7 {
			msg := "nil"
			if callErr != nil {
				msg = strings.ReplaceAll(strings.ReplaceAll(callErr.Error(), dstBase, "<B>"), base, "<A>")
			}
			e.Sample("samples", map[string]any{"op": []string{"CopyFile", "MoveFile"}[op], "dest": "directory-like spelling " + dirSpellNames[spell] + " of " + dirRelNames[rel],
				"source_is_symlink": srcSym, "other_device": other, "size": size, "error": msg, "src_present": srcPresent, "src_orig": srcOrig, "dst_orig": dstOrig}, 8)
		}
	}
	dirSizes := []int{0, 1, 4096, 70000}
	if e.Thorough() {
		dirSizes = []int{0, 1, 10, 4096, 32769, 70000, 1 << 20}
	}
	for _, size := range dirSizes {
		for op := 0; op < 2; op++ {
			for rel := 0; rel < 3; rel++ {
				for spell := range dirSpellNames {
					for _, srcSym := range []bool{false, true} {
						for _, other := range devs {
							if other && rel == 0 && !srcSym {
								continue // the source's own parent is on the source's device; with a symlink source the data file is on the other one
							}
							variant++
							class := 0
							if size > 0 && variant%5 == 0 {
								class = 1
							}
							dirlike(op, rel, spell, srcSym, other, rel == 1 && variant%2 == 0, size, variant, class)
						}
					}
				}
				if retErr != nil {
					return retErr
				}
			}
		}
	}
	e.Stats["by_directory_like_destination"] = byDirlike
	// ---- sources whose Stat().Size() is not what reading yields: a stable /proc file (read only; CopyFile only; never a
	// destination, never MoveFile) and a FIFO in the sandbox fed by a writer goroutine. Outside the file-system model:
	// "S" lines, judged by the specification on the observed outcome (and by the Go-side oracle) only.
	bySpecial := map[string]int{}
	special := func(srcKind, op, kind int, other bool, size int) {
		caseNo++
		base := filepath.Join(rootA, fmt.Sprintf("c%d", caseNo))
		dstBase := base
		if other {
			dstBase = filepath.Join(rootB, fmt.Sprintf("c%d", caseNo))
		}
		defer os.RemoveAll(base)
		defer os.RemoveAll(dstBase)
		srcDir, dstDir := filepath.Join(base, "s"), filepath.Join(dstBase, "d")
		if os.MkdirAll(srcDir, 0o755) != nil || os.MkdirAll(dstDir, 0o755) != nil {
			e.Count("setup_failed", 1)
			return
		}
		third := filepath.Join(dstDir, "third.dat")
		thirdContent := []byte("third party " + strconv.Itoa(caseNo))
		os.WriteFile(third, thirdContent, 0o644)
		dst := filepath.Join(dstDir, "dst.dat")
		if kind == kOther && os.WriteFile(dst, append([]byte("OTHER-FILE-"), content(size/2+3)...), 0o644) != nil {
			e.Count("setup_failed", 1)
			return
		}
		var src string
		var orig []byte
		done := make(chan struct{})
		writerDone := make(chan struct{})
		switch srcKind {
		case 1: // /proc file: the bytes it holds are what reading it yields (its stat size is 0)
			if op != 0 {
				retErr = fmt.Errorf("a /proc source is only used with CopyFile")
				return
			}
			for _, cand := range []string{"/proc/version", "/proc/sys/kernel/ostype"} {
				a, err1 := os.ReadFile(cand)
				b, err2 := os.ReadFile(cand)
				if err1 == nil && err2 == nil && len(a) > 0 && bytes.Equal(a, b) {
					if size%2 == 0 || src == "" {
						src, orig = cand, a
					}
				}
			}
			if src == "" {
				e.Count("proc_source_unavailable", 1)
				return
			}
			close(writerDone)
		case 2: // FIFO: the bytes the source holds are the bytes the writer feeds before closing
			src = filepath.Join(srcDir, "pipe")
			if syscall.Mkfifo(src, 0o644) != nil {
				e.Count("setup_failed", 1)
				return
			}
			orig = content(size)
			go func() {
				defer close(writerDone)
				deadline := time.Now().Add(5 * time.Second)
				fd := -1
				for fd < 0 {
					var err error
					fd, err = syscall.Open(src, syscall.O_WRONLY|syscall.O_NONBLOCK|syscall.O_CLOEXEC, 0)
					if err != nil {
						fd = -1
						select {
						case <-done:
							return
						default:
						}
						if time.Now().After(deadline) {
							return
						}
						time.Sleep(200 * time.Microsecond)
					}
				}
				syscall.SetNonblock(fd, false)
				f := os.NewFile(uintptr(fd), src)
				f.Write(orig) // EPIPE when the reader went away early
				f.Close()
			}()
		}
		// guard: the destination inside the scratch roots; the source inside them or one of the two /proc files (CopyFile)
		inRoots := func(p string) bool {
			p = filepath.Clean(p)
			return strings.HasPrefix(p, rootA+"/") || (rootB != "" && strings.HasPrefix(p, rootB+"/"))
		}
		if !inRoots(dst) || !(inRoots(src) || (srcKind == 1 && op == 0 && (src == "/proc/version" || src == "/proc/sys/kernel/ostype"))) {
			retErr = fmt.Errorf("refusing paths %q -> %q", src, dst)
			close(done)
			return
		}
		type result struct {
			err      error
			panicked string
		}
		resCh := make(chan result, 1)
		go func() {
			var r result
			defer func() {
				if p := recover(); p != nil {
					r.panicked = fmt.Sprint(p)
				}
				resCh <- r
			}()
			if op == 0 {
				_, r.err = osutil.CopyFile(src, dst)
			} else {
				r.err = osutil.MoveFile(src, dst)
			}
		}()
		var res result
		hung := false
		select {
		case res = <-resCh:
		case <-time.After(20 * time.Second):
			hung = true
		}
		close(done)
		if hung && srcKind == 2 {
			// release a call blocked on the FIFO: take the other end(s) ourselves
			if fd, err := syscall.Open(src, syscall.O_RDWR|syscall.O_NONBLOCK, 0); err == nil {
				time.Sleep(50 * time.Millisecond)
				syscall.Close(fd)
			}
			select {
			case res = <-resCh:
			case <-time.After(5 * time.Second):
			}
		}
		select {
		case <-writerDone:
		case <-time.After(6 * time.Second):
		}
		ok := !hung && res.err == nil && res.panicked == ""
		_, lerr := os.Lstat(src)
		srcPresent := lerr == nil
		srcOrig := false
		if srcKind == 1 {
			b, err := os.ReadFile(src)
			srcOrig = err == nil && bytes.Equal(b, orig)
		}
		dstOrig := false
		if st, err := os.Stat(dst); err == nil && st.Mode().IsRegular() {
			b, err := os.ReadFile(dst)
			dstOrig = err == nil && bytes.Equal(b, orig)
		}
		t, terr := os.ReadFile(third)
		thirdOK := terr == nil && bytes.Equal(t, thirdContent)
		fields := []string{strconv.Itoa(srcKind), strconv.Itoa(op), strconv.Itoa(kind), b2s(other), b2s(len(orig) > 0), b2s(ok), b2s(srcPresent),
			b2s(srcOrig), b2s(dstOrig), b2s(thirdOK), strconv.Itoa(len(orig))}
		e.Case(append([]string{"S"}, fields...)...)
		bySpecial[[]string{"", "proc-file", "fifo"}[srcKind]+"/"+[]string{"CopyFile", "MoveFile"}[op]+"/"+kindNames[kind]+map[bool]string{false: "", true: "/other-device"}[other]]++
		reason := ""
		switch {
		case hung:
			reason = "call-does-not-return"
		case res.panicked != "":
			reason = "panic"
		case !thirdOK:
			reason = "third-party-file-changed"
		case ok && !dstOrig:
			reason = "nil-but-destination-differs-from-what-the-source-held"
		case srcKind == 1 && !(srcPresent && srcOrig):
			reason = "source-changed"
		}
		if reason != "" {
			viol++
			e.Case(append([]string{"VIOL", reason, "special-source"}, fields...)...)
		}
	}
	for _, size := range []int{1, 10, 4096, 70000, 300000} {
		for _, kind := range []int{kMissing, kOther} {
			for _, other := range devs {
				special(1, 0, kind, other, size)
				special(2, 0, kind, other, size)
				if other {
					special(2, 1, kind, true, size) // MoveFile of a FIFO only across devices (on one device the node itself is renamed)
				}
				if retErr != nil {
					return retErr
				}
			}
		}
	}
	e.Stats["by_special_source"] = bySpecial
	e.Stats["by_spelling"] = bySpelling
	e.Stats["by_destination_state"] = byPrep
	if devFullOK && !devFullIntact() {
		return fmt.Errorf("/dev/full is no longer the character device 1:7 after the sweep")
	}
	e.Stats["by_content_class"] = byClass
	e.Stats["cases"] = caseNo
	e.Stats["by_scenario"] = byKind
	e.Stats["by_outcome"] = byOutcome
	e.Stats["go_oracle_violations"] = viol
	return retErr
}
