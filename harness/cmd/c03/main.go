package main

import (
	"bytes"
	"context"
	"errors"
	"fmt"
	"io"
	"log/slog"
	"os"
	"regexp"
	"runtime"
	"runtime/debug"
	"sort"
	"strconv"
	"strings"
	"sync"
	"sync/atomic"
	"time"

	"github.com/whoisnian/glb/logger"
	"verifharness/hk"
	"verifharness/lg"
)

// C03: derived loggers are isolated.
//
// Cases
//
//	E <kind> <op>...      one history on a tree of loggers (plan order; node 0 = root, k-th derivation = node k)
//	    A:<parent>:<id>:<s1,s2,..>   WithAttrs, one attribute per size (bytes appended, approximately)
//	    G:<parent>:<id>:<s>          WithGroup
//	    L:<node>:<eq>:<ownid>:<ownsize>:<attr ids|->:<group ids|->
//	                                 a Log: eq = line byte-identical to the isolated replay of the node's chain
//	                                 on a fresh root in the implementation; ids = markers found in the line
//	W <kind> <eq> <ngroups> <nattrs> <na> <nb>
//	                      With(a).Log(b) against Log(a ++ b) below a prefix chain, byte for byte
//	VIOL tree|callsite …  the harness' own verdict (with the tree and the two lines)
func main() { hk.MainRace("C03", run) }

type dop struct {
	parent int
	group  bool
	id     int   // = node created
	pads   []int // value padding per attribute / name padding of the group
	shapes []int // per attribute: 0 string, 1 inside a keyed group, 2 behind a LogValuer, 3 keyed group without members, 4 LogValuer -> empty group, 5 inside an inline group
	gor    int   // goroutine
}
type lop struct {
	node, id, ownpad, gor int
	noOwn                 bool // the record carries no attributes of its own
}
type op struct {
	d *dop
	l *lop
}
type plan struct {
	kind  lg.Kind
	ops   []op
	par   []int // parent of node
	depth []int
	kids  []int
	ngor  int
	what  string
	r     *hk.Rng
	// how the tree is built and used: through Handler.WithAttrs/WithGroup/Handle with hand-built records (fixed time),
	// or through logger.New(h).With/WithGroup and the Logger's methods, one *Logger per node (time blanked)
	api       bool
	colorful  bool
	addSource bool
	// the isolated replays are computed BEFORE the history runs, on an emptied buffer pool (two GCs): for histories that
	// are meant to leave buffers of a critical capacity in the process-global pool
	presolo bool
	// the shared destination FAILS some of its Write calls (it keeps what it was handed and returns an error): what a
	// logger writes may not depend on a Write of its parent, a sibling or a descendant having failed before
	failWrites bool
}

var errScriptedWrite = errors.New("scripted write failure")

// failingDest hands every chunk to the capture and fails every k-th call (the first one when first is set).
type failingDest struct {
	c     *lg.Capture
	k     int
	first bool
	n     atomic.Int64
}

func (f *failingDest) Write(b []byte) (int, error) {
	i := int(f.n.Add(1)) - 1
	f.c.Write(b)
	if (i == 0 && f.first) || (i > 0 && i%f.k == 0) {
		return 0, errScriptedWrite
	}
	return len(b), nil
}

func newPlan(k lg.Kind, what string, r *hk.Rng) *plan {
	return &plan{kind: k, par: []int{-1}, depth: []int{0}, kids: []int{0}, ngor: 1, what: what, r: r,
		api: r.Chance(45), colorful: r.Chance(25), addSource: r.Chance(40), failWrites: r.Chance(12)}
}

func (p *plan) derive(parent int, group bool, pads []int, gor int) int {
	shapes := make([]int, len(pads))
	for i := range shapes {
		if !group && p.r.Chance(45) {
			shapes[i] = 1 + p.r.Intn(5)
		}
	}
	return p.deriveShaped(parent, group, pads, shapes, gor)
}

func (p *plan) deriveShaped(parent int, group bool, pads, shapes []int, gor int) int {
	id := len(p.par)
	p.par = append(p.par, parent)
	p.depth = append(p.depth, p.depth[parent]+1)
	p.kids = append(p.kids, 0)
	p.kids[parent]++
	p.ops = append(p.ops, op{d: &dop{parent, group, id, pads, shapes, gor}})
	return id
}

func (p *plan) log(node, ownpad, gor int) {
	n := 0
	for _, o := range p.ops {
		if o.l != nil {
			n++
		}
	}
	p.ops = append(p.ops, op{l: &lop{node: node, id: 1000 + n, ownpad: ownpad, gor: gor, noOwn: p.r.Chance(20)}})
}

func (p *plan) logOwn(node, ownpad, gor int) {
	p.log(node, ownpad, gor)
	p.ops[len(p.ops)-1].l.noOwn = false
}

func attrVal(id, pad int) string { return "M" + strconv.Itoa(id) + strings.Repeat("x", pad) + "Z" }
func groupName(id, pad int) string {
	return "G" + strconv.Itoa(id) + strings.Repeat("g", pad)
}

func marked(shape int) bool { return shape != 3 && shape != 4 }

func (d *dop) attrList() []slog.Attr {
	as := make([]slog.Attr, len(d.pads))
	for i, pd := range d.pads {
		v := attrVal(d.id, pd)
		switch d.shapes[i] {
		case 1:
			as[i] = slog.Attr{Key: "grp", Value: slog.GroupValue(slog.String("k", v))}
		case 2:
			as[i] = slog.Any("k", lv{slog.StringValue(v)})
		case 3:
			as[i] = slog.Attr{Key: "eg", Value: slog.GroupValue()}
		case 4:
			as[i] = slog.Any("el", lv{slog.GroupValue()})
		case 5:
			as[i] = slog.Attr{Key: "", Value: slog.GroupValue(slog.String("k", v))}
		default:
			as[i] = slog.String("k", v)
		}
	}
	return as
}

type node struct {
	h logger.Handler
	l *logger.Logger
}

func (p *plan) root(w io.Writer) node {
	h := lg.NewHandlerOpts(p.kind, w, logger.LevelInfo, p.colorful, p.addSource)
	if p.api {
		return node{l: logger.New(h)}
	}
	return node{h: h}
}

func (p *plan) deriveNode(n node, d *dop) node {
	switch {
	case p.api && d.group:
		return node{l: n.l.WithGroup(groupName(d.id, d.pads[0]))}
	case p.api:
		return node{l: n.l.With(toAny(d.attrList())...)}
	case d.group:
		return node{h: n.h.WithGroup(groupName(d.id, d.pads[0]))}
	default:
		return node{h: n.h.WithAttrs(d.attrList())}
	}
}

func (l *lop) own() []slog.Attr {
	if l.noOwn {
		return nil
	}
	return []slog.Attr{slog.String("r", attrVal(l.id, l.ownpad))}
}

// logNode: the one place a tree node logs from (so that with addSource the isolated replay reports the same source line)
func (p *plan) logNode(n node, l *lop) (err error) {
	defer func() {
		if r := recover(); r != nil {
			err = fmt.Errorf("panic: %v", r)
		}
	}()
	if !p.api {
		var pc uintptr
		if p.addSource {
			pc = lg.PCs[l.id%len(lg.PCs)]
		}
		return n.h.Handle(context.Background(), lg.NewRecordAt(lg.TimeAt(l.id*7+l.node), logger.LevelInfo, lg.Msg(l.id), pc, l.own()...))
	}
	switch {
	case l.noOwn && l.id%2 == 0:
		n.l.Infof("%s", lg.Msg(l.id))
	case l.id%2 == 0:
		n.l.Info(lg.Msg(l.id), toAny(l.own())...)
	default:
		n.l.LogAttrs(context.Background(), logger.LevelInfo, lg.Msg(l.id), l.own()...)
	}
	return nil
}

// solo: the isolated replay - a fresh root, just this node's chain, the same record
func (p *plan) solo(nodeID int, dops map[int]*dop, l *lop) []byte {
	var c lg.Capture
	var chain []*dop
	for n := nodeID; n > 0; n = p.par[n] {
		chain = append(chain, dops[n])
	}
	n := p.root(&c)
	if n.h != nil {
		lg.Cold(n.h) // the reference: a fresh root whose caches (its own and package-level ones) are cold
		c.Take()
	}
	func() {
		defer func() { recover() }()
		for i := len(chain) - 1; i >= 0; i-- {
			n = p.deriveNode(n, chain[i])
		}
		p.logNode(n, l)
	}()
	if len(c.Chunks) != 1 {
		return nil
	}
	return p.norm(c.Chunks[0])
}

func (p *plan) norm(line []byte) []byte {
	if p.api {
		return lg.NormTime(p.kind, line)
	}
	return line
}

var (
	reAttr      = regexp.MustCompile(`M(\d+)x*Z`)
	reJSONGroup = regexp.MustCompile(`"G(\d+)g*":\{`)
	reTextOwn   = regexp.MustCompile(` ((?:G\d+g*\.)*)r=M`)
	reG         = regexp.MustCompile(`G(\d+)g*`)
)

func ids(ms [][][]byte) string {
	if len(ms) == 0 {
		return "-"
	}
	s := make([]string, len(ms))
	for i, m := range ms {
		s[i] = string(m[1])
	}
	return strings.Join(s, ",")
}

func observe(k lg.Kind, line []byte) (attrs, groups string) {
	attrs = ids(reAttr.FindAllSubmatch(line, -1))
	groups = "-"
	switch k {
	case lg.JSON:
		groups = ids(reJSONGroup.FindAllSubmatch(line, -1))
	case lg.Text:
		if m := reTextOwn.FindSubmatch(line); m != nil {
			groups = ids(reG.FindAllSubmatch(m[1], -1))
		}
	}
	return
}

func apprSize(k lg.Kind, group bool, n int) int {
	switch {
	case group && k == lg.JSON:
		return n + 5
	case group:
		return 1
	case k == lg.JSON:
		return n + 7
	case k == lg.Text:
		return n + 3
	default:
		return n + 1
	}
}

type result struct{ logs, bad int }

// execute runs the plan on the real handlers (ngor goroutines, every goroutine takes its operations in plan order and
// waits for the nodes it needs), compares every line with the isolated replay and writes the E line.
func execute(e *hk.Env, p *plan) result {
	var cap lg.Capture
	nn := len(p.par)
	nodes := make([]node, nn)
	ready := make([]chan struct{}, nn)
	for i := range ready {
		ready[i] = make(chan struct{})
	}
	var dest io.Writer = &cap
	if p.failWrites {
		dest = &failingDest{c: &cap, k: 2 + len(p.ops)%3, first: len(p.ops)%2 == 0}
		e.Count("histories_with_failing_writes", 1)
	}
	nodes[0] = p.root(dest)
	close(ready[0])
	dops := map[int]*dop{}
	for _, o := range p.ops {
		if o.d != nil {
			dops[o.d.id] = o.d
		}
	}
	pre := map[int][]byte{}
	if p.presolo {
		runtime.GC()
		runtime.GC() // sync.Pool is emptied by the second collection (victim cache)
		for _, o := range p.ops {
			if o.l != nil {
				pre[o.l.id] = p.solo(o.l.node, dops, o.l)
				if pre[o.l.id] == nil {
					pre[o.l.id] = []byte{}
				}
			}
		}
	}
	var wg sync.WaitGroup
	start := make(chan struct{})
	var errMu sync.Mutex
	var errs []string
	for g := 0; g < p.ngor; g++ {
		wg.Add(1)
		go func(g int) {
			defer wg.Done()
			<-start
			for _, o := range p.ops {
				switch {
				case o.d != nil && o.d.gor == g:
					<-ready[o.d.parent]
					func() {
						defer func() {
							if r := recover(); r != nil {
								errMu.Lock()
								errs = append(errs, fmt.Sprint("panic in derive: ", r))
								errMu.Unlock()
								nodes[o.d.id] = nodes[o.d.parent]
							}
							close(ready[o.d.id])
						}()
						nodes[o.d.id] = p.deriveNode(nodes[o.d.parent], o.d)
					}()
				case o.l != nil && o.l.gor == g:
					<-ready[o.l.node]
					if err := p.logNode(nodes[o.l.node], o.l); err != nil && !(p.failWrites && !strings.HasPrefix(err.Error(), "panic:")) {
						errMu.Lock()
						errs = append(errs, err.Error())
						errMu.Unlock()
					}
				}
			}
		}(g)
	}
	close(start)
	wg.Wait()
	got := map[int][][]byte{}
	for _, c := range cap.Take() {
		id := lg.RecordID(c)
		got[id] = append(got[id], c)
	}
	fields := []string{"E", strconv.Itoa(int(p.kind))}
	res := result{}
	for _, o := range p.ops {
		if o.d != nil {
			d := o.d
			if d.group {
				fields = append(fields, fmt.Sprintf("G:%d:%d:%d", d.parent, d.id, apprSize(p.kind, true, len(groupName(d.id, d.pads[0])))))
			} else {
				var ss []string
				for i, pd := range d.pads {
					if marked(d.shapes[i]) { // attributes that render nothing append nothing
						ss = append(ss, strconv.Itoa(apprSize(p.kind, false, len(attrVal(d.id, pd)))))
					}
				}
				sz := "-"
				if len(ss) > 0 {
					sz = strings.Join(ss, ",")
				}
				fields = append(fields, fmt.Sprintf("A:%d:%d:%s", d.parent, d.id, sz))
			}
			continue
		}
		l := o.l
		res.logs++
		var want []byte
		if p.presolo {
			if want = pre[l.id]; len(want) == 0 {
				want = nil
			}
		} else {
			want = p.solo(l.node, dops, l)
		}
		lines := got[l.id]
		var line []byte
		if len(lines) > 0 {
			line = lines[0]
		}
		eq := want != nil && len(lines) == 1 && bytes.Equal(p.norm(line), want)
		as, gs := observe(p.kind, line)
		// the attribute markers the line must carry: those of the node's own chain, in order, then the record's own
		var wantIDs []string
		{
			var chain []*dop
			for n := l.node; n > 0; n = p.par[n] {
				chain = append(chain, dops[n])
			}
			for i := len(chain) - 1; i >= 0; i-- {
				if !chain[i].group {
					for _, sh := range chain[i].shapes {
						if marked(sh) {
							wantIDs = append(wantIDs, strconv.Itoa(chain[i].id))
						}
					}
				}
			}
			if !l.noOwn {
				wantIDs = append(wantIDs, strconv.Itoa(l.id))
			}
		}
		wantAs := "-"
		if len(wantIDs) > 0 {
			wantAs = strings.Join(wantIDs, ",")
		}
		if eq && as != wantAs {
			res.bad++
			if res.bad <= 2 {
				e.Case("VIOL", "tree", "kind="+p.kind.String(), "what="+p.what, fmt.Sprintf("node=%d", l.node), "attributes-of-the-chain-missing-or-foreign",
					"seen="+as, "want="+wantAs, "line="+hk.Hx(clipb(line)), "plan="+p.describe())
			}
		}
		b := 0
		if eq {
			b = 1
		}
		ownsz := apprSize(p.kind, false, len(attrVal(l.id, l.ownpad)))
		if l.noOwn {
			ownsz = 0
		}
		fields = append(fields, fmt.Sprintf("L:%d:%d:%d:%d:%s:%s", l.node, b, l.id, ownsz, as, gs))
		if !eq {
			res.bad++
			if res.bad <= 2 {
				e.Case("VIOL", "tree", "kind="+p.kind.String(), "what="+p.what, fmt.Sprintf("node=%d", l.node), fmt.Sprintf("writes=%d", len(lines)),
					"got="+hk.Hx(clipb(p.norm(line))), "want="+hk.Hx(clipb(want)), "plan="+p.describe())
			}
		}
	}
	if len(errs) > 0 {
		e.Case("VIOL", "tree", "kind="+p.kind.String(), "error="+hk.Hxs(errs[0]), "plan="+p.describe())
	}
	if len(got[-1]) > 0 {
		e.Case("VIOL", "tree", "kind="+p.kind.String(), "unattributable-line="+hk.Hx(clipb(got[-1][0])), "plan="+p.describe())
		res.bad++
	}
	e.Case(fields...)
	return res
}

func clipb(b []byte) []byte {
	if len(b) > 400 {
		return append(append([]byte(nil), b[:300]...), []byte(fmt.Sprintf("...(%d bytes)", len(b)))...)
	}
	return b
}

func (p *plan) describe() string {
	var sb strings.Builder
	fmt.Fprintf(&sb, "[api=%v,colour=%v,source=%v,failing-writes=%v]", p.api, p.colorful, p.addSource, p.failWrites)
	for i, o := range p.ops {
		if i > 0 {
			sb.WriteByte(';')
		}
		if o.d != nil {
			if o.d.group {
				fmt.Fprintf(&sb, "n%d=n%d.WithGroup(%dB)@g%d", o.d.id, o.d.parent, len(groupName(o.d.id, o.d.pads[0])), o.d.gor)
			} else {
				var ls []string
				for _, pd := range o.d.pads {
					ls = append(ls, strconv.Itoa(len(attrVal(o.d.id, pd))))
				}
				fmt.Fprintf(&sb, "n%d=n%d.With(k=%sB,shapes=%v)@g%d", o.d.id, o.d.parent, strings.Join(ls, "+"), strings.ReplaceAll(fmt.Sprint(o.d.shapes), " ", ""), o.d.gor)
			}
		} else {
			fmt.Fprintf(&sb, "n%d.Log(#%d,own=%v)@g%d", o.l.node, o.l.id, !o.l.noOwn, o.l.gor)
		}
	}
	return sb.String()
}

// capAfter: the capacity Go's append leaves a pooled buffer (initial capacity 1024) with, after a line that consists of
// `before` bytes appended in small pieces, one piece of n bytes, and `after` bytes in small pieces (measured, not computed)
func capAfter(before, n, after int) int {
	buf := make([]byte, 0, 1024)
	for i := 0; i < before; i++ {
		buf = append(buf, 'h')
	}
	buf = append(buf, make([]byte, n)...)
	for i := 0; i < after; i++ {
		buf = append(buf, 't')
	}
	return cap(buf)
}

const poolLimit = 16 << 10

// criticalPads: value paddings for which the line (or the rendered With attributes) lands on the boundaries that matter for
// the pooled buffers: a dense grid from 8 KiB to 17 KiB, the line lengths 16383/16384/16385, and the first / last paddings
// for which the buffer's capacity is exactly 16384 (the pool limit, a malloc size class) plus their neighbours.
func criticalPads(before, after int, thorough bool) []int {
	set := map[int]bool{}
	step := 256
	if thorough {
		step = 64
	}
	for p := 8 << 10; p <= 17<<10+256; p += step {
		set[p] = true
	}
	fixed := before + after + 3 // "M<id>" .. "Z" around the padding: roughly; neighbours are added below
	for _, l := range []int{poolLimit - 1, poolLimit, poolLimit + 1} {
		for d := -6; d <= 6; d++ {
			set[l-fixed+d] = true
		}
	}
	lo, hi := -1, -1
	for p := 12 << 10; p <= 17<<10; p++ {
		if capAfter(before, p+6, after) == poolLimit {
			if lo < 0 {
				lo = p
			}
			hi = p
		}
	}
	if lo >= 0 {
		for d := -3; d <= 3; d++ {
			set[lo+d] = true
			set[hi+d] = true
		}
		set[(lo+hi)/2] = true
	}
	var r []int
	for p := range set {
		if p > 0 {
			r = append(r, p)
		}
	}
	sort.Ints(r)
	return r
}

// poisonFamily: (a) some logger writes a line whose pooled buffer ends with a critical capacity, (b) loggers are derived with
// With("k","v") / WithGroup - and with attribute lists whose own rendered size is critical -, (c) other loggers write other
// lines, (d) the children's lines are compared with isolated replays made beforehand on an emptied pool.
// One goroutine; half of the histories with GOMAXPROCS(1) and the collector off, so that sync.Pool hands the same buffer back.
func poisonFamily(e *hk.Env, r *hk.Rng) (trees, logs, bad int) {
	defer debug.SetGCPercent(debug.SetGCPercent(100))
	defer runtime.GOMAXPROCS(runtime.GOMAXPROCS(0))
	for _, k := range lg.Kinds {
		// where the padding sits in a line of this handler
		probe, _ := lg.Solo(k, logger.LevelInfo, nil, lg.NewRecord(logger.LevelInfo, lg.Msg(1000), slog.String("r", attrVal(1000, 0))))
		before := bytes.Index(probe, []byte("M1000"))
		if before < 0 {
			before = 60
		}
		after := len(probe) - before - len(attrVal(1000, 0))
		for i, pd := range criticalPads(before, after, e.Thorough()) {
			for variant := 0; variant < 2; variant++ {
				if raceEnabled && !e.Thorough() && variant != i%2 {
					continue // the race-built quick run alternates; the non-race run of the check does both
				}
				if variant == 1 {
					runtime.GOMAXPROCS(1)
					debug.SetGCPercent(-1)
				} else {
					runtime.GOMAXPROCS(8)
					debug.SetGCPercent(100)
				}
				p := newPlan(k, fmt.Sprintf("pool-poison pad=%d variant=%d", pd, variant), r)
				p.presolo = true
				if (i+variant)%2 == 0 {
					p.api = false // hand-built records: exact line lengths
				}
				// (b0) a logger derived before anything was written
				early := p.deriveShaped(0, false, []int{1}, []int{0}, 0)
				// (a) some logger writes the critical line
				if i%3 == 0 {
					p.logOwn(early, pd, 0)
				} else {
					p.logOwn(0, pd, 0)
				}
				// (b) derive small children now
				c1 := p.deriveShaped(0, false, []int{0}, []int{0}, 0)
				g1 := p.deriveShaped(c1, true, []int{0}, []int{0}, 0)
				c2 := p.deriveShaped(g1, false, []int{2, 1}, []int{0, 0}, 0)
				// (b') a With whose own attributes are of the critical size
				big := p.deriveShaped(early, false, []int{pd - before}, []int{0}, 0)
				if pd-before <= 0 {
					big = p.deriveShaped(early, false, []int{pd}, []int{0}, 0)
				}
				c3 := p.deriveShaped(big, false, []int{3}, []int{0}, 0)
				// (c) other loggers write other lines
				p.logOwn(0, 5, 0)
				p.logOwn(early, 40, 0)
				p.logOwn(0, 900, 0)
				p.logOwn(early, 2, 0)
				// (d) the children
				for _, n := range []int{c1, g1, c2, big, c3, c1, early, 0} {
					p.logOwn(n, 1+n, 0)
				}
				res := execute(e, p)
				trees++
				logs += res.logs
				bad += res.bad
			}
		}
	}
	return
}

// sizes swept across Go's append growth steps
func sweepPads(thorough bool) []int {
	var r []int
	for i := 0; i <= 130; i++ {
		r = append(r, i)
	}
	for _, c := range []int{256, 512, 1024, 2048, 4096} {
		w := 10
		if thorough {
			w = 40
		}
		for i := c - w - 12; i <= c+4; i++ {
			r = append(r, i)
		}
	}
	return r
}

func randPad(r *hk.Rng) int {
	switch r.Intn(10) {
	case 0:
		return []int{250, 500, 1010, 2040}[r.Intn(4)] + r.Intn(20)
	case 1, 2:
		return 30 + r.Intn(60)
	default:
		return r.Intn(30)
	}
}

func run(e *hk.Env) error {
	r := e.Rng.Fork()
	totalLogs, totalBad, trees := 0, 0, 0
	shapeHist := map[string]int{}

	// 0. buffers of critical capacity left in the process-global pool (also run alone, in a build WITHOUT the race detector,
	// by the check: under -race sync.Pool drops items at random)
	{
		t, l, b := poisonFamily(e, r)
		trees += t
		totalLogs += l
		totalBad += b
		shapeHist["pool-poison"] = t
		e.Stats["race_detector_build"] = raceEnabled
		if os.Getenv("C03_ONLY") == "poison" {
			e.Stats["trees"] = trees
			e.Stats["cases"] = trees
			e.Stats["lines_compared_with_isolated_replay"] = totalLogs
			e.Stats["lines_differing"] = totalBad
			return nil
		}
	}

	// 1. the sibling sweep: two children of one parent whose preformatted has spare capacity
	pads := sweepPads(e.Thorough())
	for _, k := range lg.Kinds {
		for _, pd := range pads {
			for shape := 0; shape < 4; shape++ {
				if shape >= 2 && pd%2 == 1 && !e.Thorough() {
					continue
				}
				for pair := 0; pair < 4; pair++ {
					p := newPlan(k, fmt.Sprintf("siblings shape=%d pair=%d pad=%d", shape, pair, pd), r)
					base := 0
					switch shape {
					case 1:
						base = p.derive(0, false, []int{3}, 0)
					case 2:
						base = p.derive(0, true, []int{1}, 0)
					case 3:
						base = p.derive(0, false, []int{3}, 0)
						base = p.deriveShaped(base, false, []int{0}, []int{3 + pd%2}, 0)
					}
					parent := p.derive(base, false, []int{pd}, 0)
					c1 := p.derive(parent, pair&1 == 1, []int{0}, 0)
					if pair == 0 && pd%3 == 0 {
						p.log(c1, 0, 0) // sometimes c1 logs before its sibling exists
					}
					c2 := p.derive(parent, pair&2 == 2, []int{1}, 0)
					p.log(c1, 0, 0)
					p.log(c2, 2, 0)
					p.log(parent, 1, 0)
					if pd%5 == 0 {
						gc := p.derive(c1, false, []int{2}, 0)
						p.log(gc, 0, 0)
						p.log(c1, 0, 0)
					}
					res := execute(e, p)
					totalLogs += res.logs
					totalBad += res.bad
					trees++
					shapeHist["siblings"]++
				}
			}
		}
	}

	// 2. concurrent derivation from one shared parent (released together)
	nburst := 30
	if e.Thorough() {
		nburst = 400
	}
	for _, k := range lg.Kinds {
		for i := 0; i < nburst; i++ {
			p := newPlan(k, "burst", r)
			q := p.derive(0, r.Chance(30), []int{r.Intn(8)}, 0)
			parent := p.derive(q, false, []int{randPad(r), r.Intn(6)}, 0)
			n := 2 + r.Intn(7)
			p.ngor = n + 1
			for g := 1; g <= n; g++ {
				c := p.derive(parent, r.Chance(35), []int{r.Intn(12)}, g)
				p.log(c, r.Intn(5), g)
				if r.Chance(50) {
					p.log(parent, 0, g)
				}
			}
			for c := 0; c < n; c++ {
				p.log(parent+1+c, 1, 0)
			}
			res := execute(e, p)
			totalLogs += res.logs
			totalBad += res.bad
			trees++
			shapeHist["burst"]++
		}
	}

	// 3. random trees, derive and log interleaved in random order, from several goroutines
	ntrees := 250
	if e.Thorough() {
		ntrees = 6000
	}
	depthHist := map[int]int{}
	fanHist := map[int]int{}
	for _, k := range lg.Kinds {
		for i := 0; i < ntrees; i++ {
			p := newPlan(k, "random", r)
			p.ngor = []int{1, 2, 4, 8}[r.Intn(4)]
			nops := 6 + r.Intn(34)
			for j := 0; j < nops; j++ {
				if r.Chance(55) || len(p.par) == 1 {
					// pick a parent: prefer non-root nodes that already have children (siblings!)
					var cand []int
					for n := range p.par {
						if p.depth[n] < 5 && p.kids[n] < 4 {
							cand = append(cand, n)
							if n > 0 {
								cand = append(cand, n)
								if p.kids[n] > 0 {
									cand = append(cand, n, n)
								}
							}
						}
					}
					if len(cand) == 0 {
						continue
					}
					parent := cand[r.Intn(len(cand))]
					if r.Chance(30) {
						p.derive(parent, true, []int{r.Intn(10)}, r.Intn(p.ngor))
					} else {
						na := 1 + r.Intn(3)
						pd := make([]int, na)
						for x := range pd {
							pd[x] = randPad(r)
						}
						p.derive(parent, false, pd, r.Intn(p.ngor))
					}
				} else {
					p.log(r.Intn(len(p.par)), r.Intn(6), r.Intn(p.ngor))
				}
			}
			// finally every node logs once more, after the whole sequence
			for n := range p.par {
				p.log(n, 0, r.Intn(p.ngor))
			}
			md, mf := 0, 0
			for n := range p.par {
				md = max(md, p.depth[n])
				mf = max(mf, p.kids[n])
			}
			depthHist[md]++
			fanHist[mf]++
			res := execute(e, p)
			totalLogs += res.logs
			totalBad += res.bad
			trees++
			shapeHist["random"]++
			if i < 2 {
				e.Sample("samples", map[string]any{"kind": k.String(), "plan": p.describe()}, 5)
			}
		}
	}

	// 4. With == call site
	ncs, csBad := callsite(e, r)

	e.Stats["trees"] = trees
	e.Stats["cases"] = trees + ncs
	e.Stats["lines_compared_with_isolated_replay"] = totalLogs
	e.Stats["lines_differing"] = totalBad
	e.Stats["tree_shapes"] = shapeHist
	e.Stats["random_tree_max_depth_hist"] = depthHist
	e.Stats["random_tree_max_fanout_hist"] = fanHist
	e.Stats["sweep_pads"] = len(pads)
	e.Stats["callsite_comparisons"] = ncs
	e.Stats["callsite_differing"] = csBad
	return nil
}

// ---------------------------------------------------------------------------------------------- With == call site

type plainSink struct{ lg.Capture }

func (s *plainSink) chunks() [][]byte { return s.Chunks }

type fdSink struct{ lg.FdCapture }

func (s *fdSink) chunks() [][]byte { return s.Chunks }

type lv struct{ v slog.Value }

func (l lv) LogValue() slog.Value { return l.v }

var fixedT = time.Date(2021, 12, 31, 23, 59, 58, 1234, time.UTC)

func genAttr(r *hk.Rng, depth int, n *int) slog.Attr {
	*n++
	key := []string{"k", "user", "id", "a b", "q\"uote", "e=q", "ключ", "x.y"}[r.Intn(8)] + strconv.Itoa(*n)
	c := r.Intn(18)
	if depth <= 0 && c >= 10 && c < 14 {
		c = r.Intn(10)
	}
	switch c {
	case 0:
		return slog.String(key, "v"+strconv.Itoa(r.Intn(1000)))
	case 1:
		return slog.Int(key, r.Intn(100000)-500)
	case 2:
		return slog.Bool(key, r.Bool())
	case 3:
		return slog.Float64(key, float64(r.Intn(1000))/8)
	case 4:
		return slog.Duration(key, time.Duration(r.Intn(1000000))*time.Microsecond)
	case 5:
		return slog.Time(key, fixedT)
	case 6:
		return slog.Any(key, errors.New("boom "+strconv.Itoa(r.Intn(10))))
	case 7:
		return slog.String(key, "with space \" and = \n"+strings.Repeat("s", r.Intn(40)))
	case 8:
		return slog.Any(key, lv{slog.StringValue("lazy" + strconv.Itoa(r.Intn(100)))})
	case 9:
		if r.Chance(40) {
			return slog.Any(key, logger.AnsiString{Prefix: "\x1b[3" + strconv.Itoa(1+r.Intn(6)) + "m", Value: "c" + strconv.Itoa(r.Intn(100))})
		}
		return slog.Uint64(key, uint64(r.Intn(1000)))
	case 10, 11: // keyed non-empty group
		return slog.Attr{Key: key, Value: slog.GroupValue(genAttrs(r, 1+r.Intn(3), depth-1, n)...)}
	case 12: // inline group
		return slog.Attr{Key: "", Value: slog.GroupValue(genAttrs(r, 1+r.Intn(3), depth-1, n)...)}
	case 13: // LogValuer that resolves to a group
		return slog.Any(key, lv{slog.GroupValue(genAttrs(r, 1+r.Intn(2), depth-1, n)...)})
	case 14: // keyed group without members
		return slog.Attr{Key: key, Value: slog.GroupValue()}
	case 15: // group that is empty only after LogValuer resolution
		return slog.Any(key, lv{slog.GroupValue()})
	case 16: // keyed group whose only member is an empty group / an empty lazy group
		if r.Bool() {
			return slog.Attr{Key: key, Value: slog.GroupValue(slog.Attr{Key: "in", Value: slog.GroupValue()})}
		}
		return slog.Attr{Key: key, Value: slog.GroupValue(slog.Any("in", lv{slog.GroupValue()}))}
	default: // inline group without members
		return slog.Attr{Key: "", Value: slog.GroupValue()}
	}
}

func genAttrs(r *hk.Rng, k, depth int, n *int) []slog.Attr {
	as := make([]slog.Attr, k)
	for i := range as {
		as[i] = genAttr(r, depth, n)
	}
	return as
}

func toAny(as []slog.Attr) []any {
	r := make([]any, len(as))
	for i, a := range as {
		r[i] = a
	}
	return r
}

func describeAttrs(as []slog.Attr) string {
	var sb strings.Builder
	for i, a := range as {
		if i > 0 {
			sb.WriteByte(',')
		}
		v := a.Value
		if lvv, ok := v.Any().(lv); ok && v.Kind() == slog.KindLogValuer {
			v = lvv.v
			sb.WriteString("lazy:")
		}
		if v.Kind() == slog.KindGroup {
			fmt.Fprintf(&sb, "%q{%s}", a.Key, describeAttrs(v.Group()))
		} else {
			fmt.Fprintf(&sb, "%q=%s", a.Key, v.Kind())
		}
	}
	return sb.String()
}

func callsite(e *hk.Env, r *hk.Rng) (int, int) {
	type prefix struct {
		name  string
		chain []lg.Step
		ng    int
		na    int
	}
	with := func(as ...slog.Attr) lg.Step { return lg.Step{Attrs: func() []slog.Attr { return as }} }
	prefixes := []prefix{
		{"root", nil, 0, 0},
		{"WithGroup(g)", []lg.Step{{Group: "g"}}, 1, 0},
		{"WithGroup(g).WithGroup(h)", []lg.Step{{Group: "g"}, {Group: "h"}}, 2, 0},
		{"With(p).WithGroup(g)", []lg.Step{with(slog.String("p", "1")), {Group: "g"}}, 1, 1},
		{"WithGroup(g).With(p)", []lg.Step{{Group: "g"}, with(slog.Int("p", 1))}, 1, 1},
		{"With(grp{..},p)", []lg.Step{with(slog.Group("pre", slog.Int("i", 1)), slog.Int("p", 2))}, 0, 2},
	}
	grp := func(key string, as ...slog.Attr) slog.Attr { return slog.Attr{Key: key, Value: slog.GroupValue(as...)} }
	// a NAMED non-empty group followed by plain attributes in the SAME With call
	fixedA := [][]slog.Attr{
		{grp("req", slog.Int("id", 1)), slog.String("user", "bob")},
		{grp("req", slog.Int("id", 1), slog.String("m", "GET")), slog.String("user", "bob"), slog.Int("n", 3)},
		{grp("a", grp("b", slog.Int("c", 1)), slog.Int("d", 2)), slog.Int("e", 3)},
		{slog.String("first", "x"), grp("req", slog.Int("id", 1)), slog.String("user", "bob")},
		{grp("req", slog.Int("id", 1)), grp("res", slog.Int("code", 200)), slog.String("user", "bob")},
		{slog.Any("lazy", lv{slog.GroupValue(slog.Int("id", 1))}), slog.String("user", "bob")},
		{grp("", slog.Int("inl", 1)), slog.String("user", "bob")},
		{grp("req", grp("", slog.Int("inl", 1))), slog.String("user", "bob")},
		{slog.String("only", "one")},
		// keyed groups without members (omitted everywhere, like log/slog), alone, first, in the middle, last
		{grp("empty")},
		{grp("empty"), slog.Int("n", 1)},
		{slog.Int("n", 1), grp("empty"), slog.String("user", "bob")},
		{slog.Int("n", 1), grp("empty")},
		{slog.Any("lazyempty", lv{slog.GroupValue()}), slog.String("user", "bob")},
		{grp("outer", grp("inner")), slog.Int("n", 1)},
		{grp("outer", slog.Any("lazyinner", lv{slog.GroupValue()})), slog.Int("n", 1)},
		{grp("outer", grp("inner"), slog.Int("kept", 1)), slog.Int("n", 1)},
		{grp("")},
	}
	fixedB := [][]slog.Attr{
		nil,
		{slog.String("z", "1")},
		{grp("call", slog.Int("k", 1)), slog.String("tail", "t")},
		{grp("emptycall"), slog.String("tail", "t")},
	}
	n, bad, nid := 0, 0, 0
	hist := map[string]int{}
	// the destination is a plain io.Writer or one with an Fd() method (a file that is not a terminal); colour on or off
	type sink interface {
		io.Writer
		chunks() [][]byte
	}
	mkSink := func(fd bool) sink {
		if fd {
			return &fdSink{}
		}
		return &plainSink{}
	}
	solo := func(k lg.Kind, colour, fd bool, chain []lg.Step, rec slog.Record) ([]byte, bool) {
		w := mkSink(fd)
		h := lg.Apply(lg.NewHandlerOpts(k, w, logger.LevelInfo, colour, false), chain)
		if err := lg.Handle(h, rec); err != nil || len(w.chunks()) != 1 {
			return bytes.Join(w.chunks(), nil), false
		}
		return w.chunks()[0], true
	}
	one := func(k lg.Kind, px prefix, a, b []slog.Attr, src string) {
		n++
		hist[src]++
		msg := lg.Msg(n)
		colour, fd := n%4 >= 2, n%2 == 1
		if strings.HasPrefix(src, "ansi") {
			colour, fd = n%4 < 2, n%2 == 1
		}
		ab := append(append([]slog.Attr(nil), a...), b...)
		// handler level, fixed time: byte for byte
		w1, ok1 := solo(k, colour, fd, append(append([]lg.Step(nil), px.chain...), with(a...)), lg.NewRecord(logger.LevelInfo, msg, b...))
		w2, ok2 := solo(k, colour, fd, px.chain, lg.NewRecord(logger.LevelInfo, msg, ab...))
		eq := ok1 && ok2 && bytes.Equal(w1, w2)
		// Logger level: root.With(a…).Info(m, b…) against root.Info(m, a…, b…); time blanked
		s1, s2 := mkSink(fd), mkSink(fd)
		l1 := logger.New(lg.Apply(lg.NewHandlerOpts(k, s1, logger.LevelInfo, colour, false), px.chain))
		l2 := logger.New(lg.Apply(lg.NewHandlerOpts(k, s2, logger.LevelInfo, colour, false), px.chain))
		func() {
			defer func() { recover() }()
			if n%2 == 0 {
				l1.With(toAny(a)...).Info(msg, toAny(b)...)
				l2.Info(msg, toAny(ab)...)
			} else {
				l1.With(toAny(a)...).LogAttrs(context.Background(), logger.LevelWarn, msg, b...)
				l2.LogAttrs(context.Background(), logger.LevelWarn, msg, ab...)
			}
		}()
		c1, c2 := s1.chunks(), s2.chunks()
		eqL := len(c1) == 1 && len(c2) == 1 && bytes.Equal(lg.NormTime(k, c1[0]), lg.NormTime(k, c2[0]))
		f := 0
		if eq && eqL {
			f = 1
		}
		e.Case("W", strconv.Itoa(int(k)), strconv.Itoa(f), strconv.Itoa(px.ng), strconv.Itoa(px.na), strconv.Itoa(len(a)), strconv.Itoa(len(b)))
		if f == 0 {
			bad++
			if bad <= 6 {
				x1, x2 := w1, w2
				if eq {
					x1, x2 = bytes.Join(c1, nil), bytes.Join(c2, nil)
				}
				e.Case("VIOL", "callsite", "kind="+k.String(), fmt.Sprintf("colour=%v", colour), fmt.Sprintf("writer-has-Fd=%v", fd), "prefix="+strings.ReplaceAll(px.name, " ", ""), "with=["+strings.ReplaceAll(describeAttrs(a), " ", "_")+"]",
					"call=["+strings.ReplaceAll(describeAttrs(b), " ", "_")+"]", "with_line="+hk.Hx(clipb(x1)), "callsite_line="+hk.Hx(clipb(x2)))
			}
		}
		if n <= 3 {
			e.Sample("samples", map[string]any{"kind": k.String(), "prefix": px.name, "with": describeAttrs(a), "call": describeAttrs(b), "line": string(w1)}, 5)
		}
	}
	for _, k := range lg.Kinds {
		for _, px := range prefixes {
			for _, a := range fixedA {
				for _, b := range fixedB {
					one(k, px, a, b, "fixed (named group then plain attrs; groups without members)")
				}
			}
		}
	}
	// coloured values: AnsiString in With and at the call site, colour on/off, destination with and without Fd()
	ansiA := [][]slog.Attr{
		{slog.Any("tag", logger.AnsiString{Prefix: "\x1b[34m", Value: "REQ"}), slog.String("user", "bob")},
		{grp("req", slog.Any("tag", logger.AnsiString{Prefix: "\x1b[31m", Value: "E"})), slog.Int("n", 1)},
	}
	for _, k := range lg.Kinds {
		for _, px := range prefixes {
			for _, a := range ansiA {
				for rep := 0; rep < 4; rep++ {
					one(k, px, a, fixedB[rep%len(fixedB)], "ansi values x colour x Fd-writer")
				}
			}
		}
	}
	nrand := 1500
	if e.Thorough() {
		nrand = 40000
	}
	for _, k := range lg.Kinds {
		for i := 0; i < nrand; i++ {
			px := prefixes[r.Intn(len(prefixes))]
			a := genAttrs(r, 1+r.Intn(4), 2, &nid)
			if r.Chance(40) {
				// force: keyed non-empty group, then plain attributes
				a = append([]slog.Attr{{Key: "req" + strconv.Itoa(i), Value: slog.GroupValue(genAttrs(r, 1+r.Intn(2), 1, &nid)...)}}, genAttrs(r, 1+r.Intn(2), 0, &nid)...)
			}
			b := genAttrs(r, r.Intn(4), 2, &nid)
			one(k, px, a, b, "random")
		}
	}
	e.Stats["callsite_sources"] = hist
	return n, bad
}
