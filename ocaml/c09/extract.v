From Coq Require Import Extraction ExtrOcamlBasic.
From Glb Require Import Check.C09.
Extraction "model.ml" check_case verdict_ok verdict_spec_ok verdict_clean.
