(* C09 driver.
   E <intsize> <callno> <unchanged> <vec> <cfgfile> <b64set> <ok> <rest> <help> <n>
     { <kind> <group> <goname> <tag> <hname> <hdef> <bound> <usage> <init> <envhand> <envobs> <env> <jfile> <jb64> <final> <oracle> }*n
   hex fields; "-" empty string, "~" none, "." empty list; lists comma separated; oracle = text:canon pairs, canon "!" = error *)
let toks_of s = if s = "." then [] else List.map bytes_of_hex (String.split_on_char ',' s)
let opt_of s = if s = "~" then None else Some (bytes_of_hex s)
let kind_of = function
  | "bool" -> KBool | "int" -> KInt | "int64" -> KInt64 | "uint" -> KUint | "uint64" -> KUint64
  | "string" -> KString | "float64" -> KFloat | "duration" -> KDuration | "bytes" -> KBytes
  | k -> failwith ("kind " ^ k)
let oracle_of_field s =
  if s = "." then [] else
  List.map (fun p -> match String.split_on_char ':' p with
    | [t; c] -> (bytes_of_hex t, (if c = "!" then None else Some (bytes_of_hex c)))
    | _ -> failwith "oracle pair") (String.split_on_char ',' s)
let rec take_fields n l acc =
  if n = 0 then List.rev acc else
  match l with
  | kind :: group :: goname :: tag :: hname :: hdef :: bound :: usage :: init :: envhand :: envobs :: env :: jfile :: jb64 :: final :: oracle :: r ->
      let fo = { fo_kind = kind_of kind; fo_group = bytes_of_hex group; fo_goname = bytes_of_hex goname; fo_tag = bytes_of_hex tag;
                 fo_hname = bytes_of_hex hname; fo_hdef = bytes_of_hex hdef; fo_bound = (bound = "1"); fo_usage = bytes_of_hex usage;
                 fo_init = bytes_of_hex init;
                 fo_envhand = bytes_of_hex envhand; fo_envobs = bytes_of_hex envobs; fo_env = opt_of env;
                 fo_jfile = opt_of jfile; fo_jb64 = opt_of jb64; fo_final = opt_of final; fo_oracle = oracle_of_field oracle } in
      take_fields (n - 1) r (fo :: acc)
  | _ -> failwith "field block"
let names l = String.concat "," (List.map hex_of_bytes l)
let () =
  let cases = ref 0 and specfail = ref 0 and mismatch = ref 0 and fields = ref 0 and skipped = ref 0 and failed = ref 0 and drift = ref 0 and later_acc = ref 0 and chg_err = ref 0 in
  iter_lines Sys.argv.(1) (fun line ->
    match split_ws line with
    | "E" :: isz :: callno :: unchanged :: vec :: cfgfile :: b64set :: ok :: rest :: help :: n :: blocks ->
        incr cases;
        let fos = take_fields (int_of_string n) blocks [] in
        fields := !fields + List.length fos;
        let v = check_case (n_of_int (int_of_string isz)) fos (toks_of vec) (opt_of cfgfile) (b64set = "1") (ok = "1") (toks_of rest)
                  (if help = "~" then None else Some (help = "1"))
                  (n_of_int (int_of_string callno)) (unchanged = "1") in
        skipped := !skipped + int_of_n v.v_skipped;
        if ok <> "1" then incr failed;
        if not (verdict_spec_ok v) then begin
          incr specfail;
          Printf.printf "SPECFAIL %s wrong-winner=%s wrong-env-name=%s wrong-tag-split=%s\n" line (names v.v_spec_fail) (names v.v_env_fail) (names v.v_tag_fail) end
        else if not (verdict_ok v) then begin
          incr mismatch;
          Printf.printf "MISMATCH %s model-differs=%s outcome=%b rest=%b parsers=%b\n" line (names v.v_model_fail) v.v_outcome v.v_rest v.v_parsers end
        else if v.v_later_accepted || v.v_changed_on_error then begin
          incr drift;
          if v.v_later_accepted then incr later_acc;
          if v.v_changed_on_error then incr chg_err;
          Printf.printf "DRIFT %s\n" line end  (* exactly the case line: the runner matches it against the vm_compute sample *)
    | _ -> ());
  Printf.printf "STATS cases=%d specfail=%d mismatch=%d drift=%d fields=%d skipped=%d failed_parses=%d later_parse_accepted=%d fields_changed_on_error=%d\n" !cases !specfail !mismatch !drift !fields !skipped !failed !later_acc !chg_err
