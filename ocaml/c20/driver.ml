(* C20 driver: drv cases.txt <actions>
   <actions> = the launcher's action list extracted from the source, comma separated
               (ANotify,AStart,AWritePid,ASpawnWait,ASelect; anything else counts as AUnknown)
   case lines: E <delay_ms> <pause_ms> <n> <i> <class> <pid_matches> <marker_at_return> <alive> <reparented> <launcher_gone> <done_at_return> <right_handler> <done_nil> <survived> <daemon variant> [detail…]
               class in ok|run|stderr|stdout|other; flags 0/1 *)
let action_of = function
  | "ANotify" -> ANotify | "AStart" -> AStart | "AWritePid" -> AWritePid
  | "ASpawnWait" -> ASpawnWait | "ASelect" -> ASelect | _ -> AUnknown []
let class_of = function
  | "ok" -> OOk | "run" -> OErrRun | "stderr" -> OErrStderr | "stdout" -> OErrStdout | _ -> OOther
let flag s = s = "1"

let () =
  if Array.length Sys.argv < 3 then begin
    prerr_endline "usage: drv cases.txt <actions>"; exit 2 end;
  (* UNREADABLE: the extractor could not read the launcher's shape: there is no action list to run the model on,
     only the specification is judged *)
  let unreadable = Sys.argv.(2) = "UNREADABLE" in
  let acts = if unreadable then [] else List.map action_of (List.filter (fun x -> x <> "") (String.split_on_char ',' Sys.argv.(2))) in
  let cases = ref 0 and specfail = ref 0 and mismatch = ref 0 in
  iter_lines Sys.argv.(1) (fun line ->
    match split_ws line with
    | "E" :: d :: p :: _n :: _i :: cls :: pm :: mk :: al :: rp :: lg :: dr :: rh :: dn :: sv :: _variant :: _ ->
        incr cases;
        let o = { o_class = class_of cls; o_pid_matches = flag pm; o_marker_at_return = flag mk;
                  o_alive = flag al; o_reparented = flag rp; o_launcher_gone = flag lg;
                  o_done_at_return = flag dr; o_done_nil = flag dn; o_right_handler = flag rh; o_survived = flag sv } in
        let v0 = check_case acts (n_of_int (int_of_string d)) (n_of_int (int_of_string p)) o in
        let v = if unreadable then { v0 with v_model = true } else v0 in
        if not v.v_spec then begin
          incr specfail; Printf.printf "SPECFAIL %s\n" line end
        else if not v.v_model then begin
          incr mismatch; Printf.printf "MISMATCH %s\n" line end;
        (* a failed launch the model does not predict either is reported as both *)
        if (not v.v_spec) && (not v.v_model) then begin
          incr mismatch; Printf.printf "MISMATCH %s\n" line end
    | _ -> ());
  Printf.printf "STATS cases=%d specfail=%d mismatch=%d drift=0 actions=%s\n" !cases !specfail !mismatch Sys.argv.(2)
