From Coq Require Import Extraction ExtrOcamlBasic.
From Glb Require Import Check.C10.
Extraction "model.ml" check_case verdict_ok verdict_clean c10_tables.
