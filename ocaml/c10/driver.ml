(* C10 driver.
   T <hexname>:<kind>:<hexdefault>,...                         the flag table of the harness struct (must equal c10_flags)
   E <vec> <class> <detail> <args> <help 0|1> <fields>         one Parse; vec/args/fields = comma separated hex tokens, "." = empty list *)
let toks_of s = if s = "." then [] else List.map bytes_of_hex (String.split_on_char ',' s)
let kind_name = function
  | KBool -> "bool" | KInt -> "int" | KInt64 -> "int64" | KUint -> "uint" | KUint64 -> "uint64"
  | KString -> "string" | KFloat -> "float64" | KDuration -> "duration" | KBytes -> "bytes"
let table_text () =
  String.concat "," (List.map (fun ((n, k), d) -> hex_of_bytes n ^ ":" ^ kind_name k ^ ":" ^ hex_of_bytes d) c10_flags)
let () =
  let cases = ref 0 and specfail = ref 0 and mismatch = ref 0 and drift = ref 0 and lenient = ref 0 and table_seen = ref false in
  iter_lines Sys.argv.(1) (fun line ->
    match split_ws line with
    | ["T"; t] ->
        table_seen := true;
        if t <> table_text () then begin
          incr mismatch; Printf.printf "MISMATCH %s expected-table=%s\n" line (table_text ()) end
    | ["E"; vec; cls; detail; args; help; fields] ->
        incr cases;
        let v = check_case c10_flags (toks_of vec) (n_of_int (int_of_string cls)) (bytes_of_hex detail)
                  (toks_of args) (help = "1") (toks_of fields) in
        if v.v_lenient then incr lenient;
        if not (verdict_ok v) then begin
          incr specfail;
          Printf.printf "SPECFAIL %s class=%b args=%b help=%b fields=%b\n" line v.v_class v.v_args v.v_help v.v_fields end
        else if not v.v_detail then begin
          incr drift; Printf.printf "DRIFT %s\n" line end
    | _ -> ());
  if not !table_seen then begin incr mismatch; Printf.printf "MISMATCH no-table-line\n" end;
  Printf.printf "STATS cases=%d specfail=%d mismatch=%d drift=%d lenient=%d\n" !cases !specfail !mismatch !drift !lenient
