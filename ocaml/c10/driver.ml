(* C10 driver.
   T <idx> <hexname>:<kind>:<hexdefault>,...                          flag table number idx of the harness (must equal nth idx c10_tables)
   E <idx> <intsize> <mode P0|P1|F|FT> <unchanged 0|1> <vec> <class> <detail> <args> <help 0|1> <fields> one Parse; vec/args/fields = comma separated hex tokens, "." = empty list *)
let toks_of s = if s = "." then [] else List.map bytes_of_hex (String.split_on_char ',' s)
let kind_name = function
  | KBool -> "bool" | KInt -> "int" | KInt64 -> "int64" | KUint -> "uint" | KUint64 -> "uint64"
  | KString -> "string" | KFloat -> "float64" | KDuration -> "duration" | KBytes -> "bytes"
let table_text flags =
  String.concat "," (List.map (fun ((n, k), d) -> hex_of_bytes n ^ ":" ^ kind_name k ^ ":" ^ hex_of_bytes d) flags)
let tables = Array.of_list c10_tables
let () =
  let cases = ref 0 and specfail = ref 0 and mismatch = ref 0 and drift = ref 0 and lenient = ref 0 and chg_err = ref 0 and later_acc = ref 0 in
  let seen = Array.make (Array.length tables) false in
  iter_lines Sys.argv.(1) (fun line ->
    match split_ws line with
    | ["T"; idx; t] ->
        let i = int_of_string idx in
        if i < 0 || i >= Array.length tables || t <> table_text tables.(i) then begin
          incr mismatch; Printf.printf "MISMATCH %s expected-table=%s\n" line (if i >= 0 && i < Array.length tables then table_text tables.(i) else "none") end
        else seen.(i) <- true
    | ["E"; idx; isz; mode; unchanged; vec; cls; detail; args; help; fields] ->
        incr cases;
        let i = int_of_string idx in
        if i < 0 || i >= Array.length tables || not seen.(i) then begin
          incr mismatch; Printf.printf "MISMATCH %s no-table\n" line end
        else begin
        let v = check_case (n_of_int (int_of_string isz)) tables.(i) (n_of_int (if mode = "P1" then 1 else 0)) (unchanged = "1") (toks_of vec) (n_of_int (int_of_string cls)) (bytes_of_hex detail)
                  (toks_of args) (help = "1") (toks_of fields) in
        if v.v_lenient then incr lenient;
        if mode = "P1" && cls <> "0" && unchanged <> "1" then incr chg_err;
        if mode = "P1" && cls = "0" then incr later_acc;
        if not (verdict_ok v) then begin
          incr specfail;
          Printf.printf "SPECFAIL %s class=%b args=%b help=%b fields=%b\n" line v.v_class v.v_args v.v_help v.v_fields end
        else if not v.v_detail then begin
          incr drift; Printf.printf "DRIFT %s\n" line end
        end
    | _ -> ());
  Printf.printf "STATS cases=%d specfail=%d mismatch=%d drift=%d lenient=%d later_parse_accepted=%d fields_changed_on_error=%d\n" !cases !specfail !mismatch !drift !lenient !later_acc !chg_err
