(* C19 driver.  Case line (decimal integers):
   E <wkind> <ckind> <nops> { <isString 0|1> <n> <reported k> <err 0|1> <Size() after> }*nops <nrecv> { <value> }*nrecv <closed 0|1> <npieces> { <count reported by one call to the wrapped writer> }*npieces *)
let () =
  let cases = ref 0 and specfail = ref 0 and mismatch = ref 0 and drift = ref 0 and delivered = ref 0 in
  iter_lines Sys.argv.(1) (fun line ->
    match split_ws line with
    | "E" :: _wk :: ck :: nops :: rest ->
        incr cases;
        let nops = int_of_string nops in
        let rec ops i l acc sizes =
          if i = 0 then (List.rev acc, List.rev sizes, l) else
          match l with
          | s :: n :: k :: e :: sz :: r ->
              ops (i - 1) r (mk_op (s = "1") (n_of_int (int_of_string n)) (n_of_int (int_of_string k)) (e = "1") :: acc)
                (n_of_int (int_of_string sz) :: sizes)
          | _ -> failwith ("bad case line: " ^ line) in
        let (sc, sizes, rest) = ops nops rest [] [] in
        (match rest with
         | nr :: r ->
             let nr = int_of_string nr in
             let rec take i l acc = if i = 0 then (List.rev acc, l) else
               match l with x :: r -> take (i - 1) r (n_of_int (int_of_string x) :: acc) | [] -> failwith ("bad case line: " ^ line) in
             let (rc, r) = take nr r [] in
             let (closed, pieces) = (match r with
               | c :: np :: ps when List.length ps = int_of_string np -> (c = "1", List.map (fun x -> n_of_int (int_of_string x)) ps)
               | _ -> failwith ("bad case line: " ^ line)) in
             if nr > 1 then delivered := !delivered + nr - 1;
             let v = check_case (n_of_int (int_of_string ck)) sc pieces sizes rc closed in
             if not (spec_ok v) then begin
               incr specfail;
               Printf.printf "SPECFAIL %s size=%b monotone=%b prefix=%b final=%b closed=%b\n" line
                 v.spec_size v.spec_mono v.spec_prefix v.spec_final v.spec_closed end
             else if not v.model_run then begin
               (* the specification holds but the history is not a run of the rendezvous model (e.g. a buffering
                  implementation hands an older total to a consumer that was not waiting): not an alarm *)
               incr drift; Printf.printf "DRIFT %s\n" line end
         | [] -> failwith ("bad case line: " ^ line))
    | _ -> ());
  Printf.printf "STATS cases=%d specfail=%d mismatch=%d drift=%d values_delivered_by_writes=%d\n" !cases !specfail !mismatch !drift !delivered
