From Coq Require Import Extraction ExtrOcamlBasic.
From Glb Require Import Check.C19.
Extraction "model.ml" check_case spec_ok verdict_ok mk_op.
