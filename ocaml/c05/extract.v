From Coq Require Import Extraction ExtrOcamlBasic.
From Glb Require Import Check.C05.
Extraction "model.ml" check_history history_ok.
