(* C05 driver. One history per line:
   E <prefix> <S|C> <nn> {<name>}*nn <nev> {event}*nev
   events:  R <pattern> <method> (accepted) | Q <pattern> <method> (rejected, recovered) | B <k> <path> <method> <who> <status> <id> <any> {<value>}*nn
          | W <k> <code> | F <k> | X <k> <who> <status> <id> <any> {<value>}*nn
          | Y <k> ret|rec|esc <who> <status> <id> <any> {<value>}*nn
   Output: SPECFAIL/MISMATCH <line> and an INFO line with the index of the first event at which the specification fails. *)
let () =
  let cases = ref 0 and reqs = ref 0 and specfail = ref 0 and mismatch = ref 0 and events = ref 0 and resdiff = ref 0 and stricter = ref 0 and idlayout = ref 0 and inhandler = ref 0 in
  iter_lines Sys.argv.(1) (fun line ->
    match split_ws line with
    | "E" :: rest ->
        let a = Array.of_list rest in
        let pos = ref 0 in
        let next () = let v = a.(!pos) in incr pos; v in
        let prefix = bytes_of_hex (next ()) in
        let sequential = (next () = "S") in
        let nn = int_of_string (next ()) in
        let names = List.init nn (fun _ -> bytes_of_hex (next ())) in
        let nev = int_of_string (next ()) in
        let who_of w =
          if w = "nr" then WNoRoute
          else if String.length w > 1 && w.[0] = 'r' && w.[1] >= '0' && w.[1] <= '9' then
            WRoute (nat_of_int (int_of_string (String.sub w 1 (String.length w - 1))))
          else WBad in
        let read_obs () =
          let w = next () in let st = int_of_string (next ()) in let id = next () in let any = next () in
          let vals = List.init nn (fun _ -> bytes_of_hex (next ())) in
          { co_who = who_of w; co_status = n_of_int st; co_id = bytes_of_hex id; co_any = bytes_of_hex any; co_vals = vals } in
        let evs = List.init nev (fun _ ->
          match next () with
          | "R" -> let p = next () in let m = next () in EvRegister (bytes_of_hex p, bytes_of_hex m, true)
          | "Q" -> let p = next () in let m = next () in EvRegister (bytes_of_hex p, bytes_of_hex m, false)
          | "B" ->
              let k = int_of_string (next ()) in let p = next () in let m = next () in
              let o = read_obs () in
              incr reqs;
              EvBegin (nat_of_int k, bytes_of_hex p, bytes_of_hex m, o)
          | "F" -> let k = int_of_string (next ()) in EvFlush (nat_of_int k)
          | "W" -> let k = int_of_string (next ()) in let c = int_of_string (next ()) in EvWrite (nat_of_int k, n_of_int c)
          | "X" -> let k = int_of_string (next ()) in let o = read_obs () in EvExit (nat_of_int k, o)
          | "Y" ->
              let k = int_of_string (next ()) in
              let how = (match next () with "ret" -> Returned | "rec" -> Recovered | _ -> Escaped) in
              let o = read_obs () in EvAfter (nat_of_int k, how, o)
          | t -> failwith ("unknown event " ^ t)) in
        incr cases; events := !events + nev;
        (match check_history prefix sequential names evs with
         | ((VOk, _), (((d, st), idl), off)) -> (if d then incr resdiff); (if st then incr stricter); (if idl then incr idlayout); (if off then incr inhandler)
         | ((VSpecFail, i), _) ->
             incr specfail; Printf.printf "SPECFAIL %s\n" line;
             Printf.printf "INFO specification fails at event index=%d (0-based; = number of events: the ticket bound over the whole history)\n" (int_of_nat i)
         | ((VMismatch, _), _) ->
             incr mismatch; Printf.printf "MISMATCH %s\n" line)
    | _ -> ());
  (* residue_differs: histories in which dispatch followed the clean specification (a rejected Handle left nothing behind)
     where HEAD's leftover trie nodes would have shown: accepted, reported as drift *)
  Printf.printf "STATS cases=%d specfail=%d mismatch=%d drift=%d requests=%d events=%d residue_differs=%d rejects_more=%d id_layout_differs=%d judged_without_model_after_in_handler_registration=%d\n"
    !cases !specfail !mismatch (!resdiff + !stricter + !idlayout) !reqs !events !resdiff !stricter !idlayout !inhandler
