From Coq Require Import Extraction ExtrOcamlBasic.
From Glb Require Import Check.C11.
Extraction "model.ml" check_history verdict_ok acc0 step_acc verdict_of_acc.
