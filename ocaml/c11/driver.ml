(* C11 driver.  One history per line:
     E <obs> <obs> ...          (sampled for the in-Coq cross-check)
     L <obs> <obs> ...          (long, may contain run-length groups; never sampled)
   obs:  A:<ip hex>:<mask hex>:<res>   Add    (res 0 = nil, 1 = ErrInvalidIPv4CIDR, 2 = panic/other)
         R:<ip hex>:<mask hex>:<res>   Remove
         C:<ip hex>:<res>              Contains (res 0 = false, 1 = true, 2 = panic)
         *<n>*<obs>,<obs>,...          the group of observations n times in a row (every repetition
                                       returned the same results; the harness checks that)
   The extracted step function (Check/C11.v: acc0 / step_acc / verdict_of_acc, = check_history) replays
   the line on the model and on the specification.
   On a failure an E history is cut down to the updates before the first failing observation plus
   that observation ("SPECFAIL <minimised line>"); the original line is also named ("DRIFT <line>",
   not counted) so that the runner's in-Coq cross-check of sampled lines knows it failed. *)
let parse_obs tok =
  match String.split_on_char ':' tok with
  | ["A"; ip; m; r] -> OAdd ({ c_ip = bytes_of_hex ip; c_mask = bytes_of_hex m }, n_of_int (int_of_string r))
  | ["R"; ip; m; r] -> ORemove ({ c_ip = bytes_of_hex ip; c_mask = bytes_of_hex m }, n_of_int (int_of_string r))
  | ["C"; ip; r] -> OContains (bytes_of_hex ip, n_of_int (int_of_string r))
  | _ -> failwith ("bad observation " ^ tok)

(* fold the extracted step over the (run-length encoded) tokens *)
let run_tokens toks =
  List.fold_left (fun a tok ->
    if String.length tok > 0 && tok.[0] = '*' then
      match String.split_on_char '*' tok with
      | [""; n; body] ->
          let group = List.map parse_obs (String.split_on_char ',' body) in
          let a = ref a in
          for _ = 1 to int_of_string n do a := List.fold_left step_acc !a group done;
          !a
      | _ -> failwith ("bad group " ^ tok)
    else step_acc a (parse_obs tok)) acc0 toks

let minimise toks i =
  let rec go k = function
    | [] -> []
    | t :: r -> if k = i then [t] else if t.[0] <> 'C' then t :: go (k + 1) r else go (k + 1) r in
  "E " ^ String.concat " " (go 0 toks)

let () =
  let cases = ref 0 and specfail = ref 0 and mismatch = ref 0 and probes = ref 0 and obs = ref 0
  and invalid = ref 0 and migrated = ref 0 and long = ref 0 in
  iter_lines Sys.argv.(1) (fun line ->
    match split_ws line with
    | (("E" | "L") as tag) :: toks ->
        incr cases;
        if tag = "L" then incr long;
        let v = verdict_of_acc (run_tokens toks) in
        probes := !probes + int_of_n v.n_probes;
        obs := !obs + int_of_n v.n_obs;
        invalid := !invalid + int_of_n v.n_invalid;
        if v.final_maps then incr migrated;
        let report kind i =
          if tag = "E" then Printf.printf "%s %s\nDRIFT %s\n" kind (minimise toks i) line
          else Printf.printf "%s %s first_failing_observation=%d\n" kind line i in
        (match v.spec_fail, v.model_fail with
         | Some i, _ -> incr specfail; report "SPECFAIL" (int_of_n i)
         | None, Some i -> incr mismatch; report "MISMATCH" (int_of_n i)
         | None, None -> ())
    | _ -> ());
  Printf.printf "STATS cases=%d specfail=%d mismatch=%d drift=0 observations=%d probes=%d invalid_args=%d histories_in_map_mode=%d run_length_encoded_histories=%d\n"
    !cases !specfail !mismatch !obs !probes !invalid !migrated !long
