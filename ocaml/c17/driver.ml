(* C17 driver: reads "E|L <hex base> <hex urlpath> <hex ResolveUrlPath(base, urlpath)>" lines (L = long path) *)
let () =
  let cases = ref 0 and specfail = ref 0 and drift = ref 0 in
  iter_lines Sys.argv.(1) (fun line ->
    match split_ws line with
    | [("E" | "L"); b; p; o] ->
        incr cases;
        let v = check_case (bytes_of_hex b) (bytes_of_hex p) (bytes_of_hex o) in
        if not (v.spec_contained && v.spec_dot_free) then begin
          incr specfail;
          Printf.printf "SPECFAIL %s contained=%b dot_free_is_join=%b\n" line v.spec_contained v.spec_dot_free end
        else if not v.model_eq then begin
          incr drift; Printf.printf "DRIFT %s\n" line end
    | _ -> ());
  Printf.printf "STATS cases=%d specfail=%d mismatch=0 drift=%d\n" !cases !specfail !drift
