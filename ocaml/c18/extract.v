From Coq Require Import Extraction ExtrOcamlBasic.
From Glb Require Import Check.C18.
Extraction "model.ml" check_case verdict_ok verdict_ok_for matches model_fields model_fields_for spec_special spec_dirlike dirlike_matches dirlike_ok_for.
