(* C18 driver: reads
   "E <op> <kind> <otherdev> <srcmissing> <nonempty> <ok> <srcpresent> <srcorig> <dstorig> <thirdok> <size> <variant> ..."
   Four model variants: copy strategy (write through the destination path / temporary file + rename over the
   destination name) x alias policy (refuse / succeed without touching anything when the destination is the
   source). A run must agree with ONE variant throughout: if some variant matches every case that satisfies the
   specification, the first such variant (0 through+refuse, 1 replace+refuse, 2 through+noop, 3 replace+noop) is
   the run's; otherwise the variant with the fewest disagreements, and the cases it does not match are MISMATCH.
   The variant is printed in STATS and written to <dir of cases>/strategy.txt for the in-Coq cross-check.
   Result lines repeat the case line verbatim (details go to INFO lines). *)
let () =
  let lines = ref [] in
  iter_lines Sys.argv.(1) (fun line ->
    match split_ws line with
    | "E" :: op :: kind :: od :: sm :: ne :: ok :: sp :: so :: d :: th :: _ ->
        let n s = n_of_int (int_of_string s) in
        let v = check_case (n op) (n kind) (n od) (n sm) (n ne) (n ok) (n sp) (n so) (n d) (n th) in
        lines := (line, v, (n op, n kind, n od, n sm, n ne)) :: !lines
    | _ -> ());
  let all = List.rev !lines in
  (* "S <srckind> <op> <kind> <otherdev> <nonempty> <ok> <srcpresent> <srcorig> <dstorig> <thirdok> ..." : sources outside the
     file-system model (/proc file, FIFO): specification on the observed outcome only *)
  let special = ref 0 and special_fail = ref 0 in
  iter_lines Sys.argv.(1) (fun line ->
    match split_ws line with
    | "S" :: sk :: op :: kind :: _od :: _ne :: ok :: sp :: so :: d :: th :: _ ->
        let n s = n_of_int (int_of_string s) in
        incr special;
        if not (spec_special (n sk) (n op) (n kind) (n ok) (n sp) (n so) (n d) (n th)) then begin
          incr special_fail; Printf.printf "SPECFAIL %s\n" line end
    | _ -> ());
  let misses = Array.make 4 0 in
  List.iter (fun (_, v, _) ->
    if v.spec then
      for k = 0 to 3 do if not (matches (n_of_int k) v) then misses.(k) <- misses.(k) + 1 done) all;
  let variant = ref 0 in
  for k = 3 downto 0 do if misses.(k) <= misses.(!variant) then variant := k done;
  let variant = !variant in
  let consistent = List.filter (fun k -> misses.(k) = 0) [0; 1; 2; 3] in
  let cases = ref 0 and specfail = ref 0 and mismatch = ref 0 in
  let name k = [| "through+refuse"; "replace+refuse"; "through+noop"; "replace+noop" |].(k) in
  List.iter (fun (line, v, (op, kind, od, sm, ne)) ->
    incr cases;
    if not v.spec then begin
      incr specfail; Printf.printf "SPECFAIL %s\n" line end
    else if not (verdict_ok_for (n_of_int variant) v) then begin
      incr mismatch;
      Printf.printf "MISMATCH %s\n" line;
      let show s = String.concat "" (List.map (fun b -> if b then "1" else "0") (model_fields_for (n_of_int s) op kind od sm ne)) in
      Printf.printf "INFO model(ok,srcpresent,srcorig,dstorig,third) %s run-follows=%s for: %s\n"
        (String.concat " " (List.map (fun k -> name k ^ "=" ^ show k) [0; 1; 2; 3])) (name variant) line end) all;
  (* "D <op> <modelkind 6|7> <otherdev> <srcmissing=0> <nonempty> <ok> <srcpresent> <srcorig> <dstgiven> <thirdok> <dstinside>
     <selfparent> <srcsym> ..." : directory-like destination spellings ("dir/", "dir//", "dir/.", through a symlinked directory,
     missing directory). Specification with "the destination" = the path given or <dir>/<base of source>; model = the
     "destination is a directory" failure of the run's variant, a success satisfying the specification is accepted too. *)
  let dirlike = ref 0 and dirlike_fail = ref 0 in
  iter_lines Sys.argv.(1) (fun line ->
    match split_ws line with
    | "D" :: op :: mk :: od :: sm :: ne :: ok :: sp :: so :: dg :: th :: di :: self :: ssym :: _ ->
        let n s = n_of_int (int_of_string s) in
        incr dirlike;
        if n sm <> n_of_int 0 || not (spec_dirlike (n op) (n mk) (n self) (n ssym) (n ok) (n sp) (n so) (n dg) (n di) (n th)) then begin
          incr dirlike_fail; Printf.printf "SPECFAIL %s\n" line end
        else if not (dirlike_matches (n_of_int variant) (n op) (n mk) (n od) (n ne) (n ok) (n sp) (n so) (n dg) (n th)) then begin
          incr mismatch; Printf.printf "MISMATCH %s\n" line end
    | _ -> ());
  (try
     let oc = open_out (Filename.concat (Filename.dirname Sys.argv.(1)) "strategy.txt") in
     output_string oc (string_of_int variant); close_out oc
   with _ -> ());
  Printf.printf "STATS cases=%d specfail=%d mismatch=%d drift=0 special_source_cases=%d dirlike_spelling_cases=%d strategy=%s alias_policy=%s variants_consistent_with_every_case=%s\n"
    (!cases + !special + !dirlike) (!specfail + !special_fail + !dirlike_fail) !mismatch !special !dirlike
    (if variant land 1 = 1 then "replace" else "through") (if variant >= 2 then "noop" else "refuse")
    (if consistent = [] then "none" else String.concat "," (List.map name consistent))
