(* C18 driver: reads
   "E <op> <kind> <otherdev> <srcmissing> <nonempty> <ok> <srcpresent> <srcorig> <dstorig> <thirdok> <size> <variant> ..."
   Two copy strategies are modelled (write through the destination path / temporary file + rename over the
   destination name). A run must agree with ONE of them throughout: the first case on which the two models
   differ and the implementation agrees with exactly one decides; every case is then judged against that one.
   The decision is printed as STATS strategy=... and written to <dir of cases>/strategy.txt for the in-Coq
   cross-check. Result lines repeat the case line verbatim (details go to INFO lines). *)
let () =
  let lines = ref [] in
  iter_lines Sys.argv.(1) (fun line ->
    match split_ws line with
    | "E" :: op :: kind :: od :: sm :: ne :: ok :: sp :: so :: d :: th :: _ ->
        let n s = n_of_int (int_of_string s) in
        let v = check_case (n op) (n kind) (n od) (n sm) (n ne) (n ok) (n sp) (n so) (n d) (n th) in
        lines := (line, v, (n op, n kind, n od, n sm, n ne)) :: !lines
    | _ -> ());
  let all = List.rev !lines in
  let strategy =
    match List.find_opt (fun (_, v, _) -> v.spec && v.model_eq <> v.model_eq_replace) all with
    | Some (_, v, _) -> if v.model_eq_replace then 1 else 0
    | None -> 0 in
  let decided = List.exists (fun (_, v, _) -> v.spec && v.model_eq <> v.model_eq_replace) all in
  let cases = ref 0 and specfail = ref 0 and mismatch = ref 0 in
  List.iter (fun (line, v, (op, kind, od, sm, ne)) ->
    incr cases;
    if not v.spec then begin
      incr specfail; Printf.printf "SPECFAIL %s\n" line end
    else if not (verdict_ok_for (n_of_int strategy) v) then begin
      incr mismatch;
      Printf.printf "MISMATCH %s\n" line;
      let show s = String.concat "" (List.map (fun b -> if b then "1" else "0") (model_fields_for (n_of_int s) op kind od sm ne)) in
      Printf.printf "INFO model(ok,srcpresent,srcorig,dstorig,third) through=%s replace=%s run-follows=%s for: %s\n"
        (show 0) (show 1) (if strategy = 1 then "replace" else "through") line end) all;
  (try
     let oc = open_out (Filename.concat (Filename.dirname Sys.argv.(1)) "strategy.txt") in
     output_string oc (string_of_int strategy); close_out oc
   with _ -> ());
  Printf.printf "STATS cases=%d specfail=%d mismatch=%d drift=0 strategy=%s strategy_decided_by_a_case=%b\n"
    !cases !specfail !mismatch (if strategy = 1 then "replace" else "through") decided
