(* C18 driver: reads
   "E <op> <kind> <otherdev> <srcmissing> <nonempty> <ok> <srcpresent> <srcorig> <dstorig> <thirdok> <size> <variant>" *)
let () =
  let cases = ref 0 and specfail = ref 0 and mismatch = ref 0 in
  iter_lines Sys.argv.(1) (fun line ->
    match split_ws line with
    | "E" :: op :: kind :: od :: sm :: ne :: ok :: sp :: so :: d :: th :: _ ->
        incr cases;
        let n s = n_of_int (int_of_string s) in
        let v = check_case (n op) (n kind) (n od) (n sm) (n ne) (n ok) (n sp) (n so) (n d) (n th) in
        if not v.spec then begin
          incr specfail; Printf.printf "SPECFAIL %s\n" line end
        else if not v.model_eq then begin
          incr mismatch;
          let m = model_fields (n op) (n kind) (n od) (n sm) (n ne) in
          Printf.printf "MISMATCH %s model(ok,srcpresent,srcorig,dstorig,third)=%s\n" line
            (String.concat "" (List.map (fun b -> if b then "1" else "0") m)) end
    | _ -> ());
  Printf.printf "STATS cases=%d specfail=%d mismatch=%d drift=0\n" !cases !specfail !mismatch
