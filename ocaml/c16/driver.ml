(* C16 driver: reads "E <hex s> <hex ShellEscape(s)> <hex ShellEscapeExceptTilde(s)>" lines *)
let () =
  let cases = ref 0 and specfail = ref 0 and drift = ref 0 in
  iter_lines Sys.argv.(1) (fun line ->
    match split_ws line with
    | ["E"; s; o; t] ->
        incr cases;
        let v = check_case (bytes_of_hex s) (bytes_of_hex o) (bytes_of_hex t) in
        if not (v.spec_escape && v.spec_tilde) then begin
          incr specfail; Printf.printf "SPECFAIL %s escape=%b tilde=%b\n" line v.spec_escape v.spec_tilde end
        else if not (v.model_escape && v.model_tilde) then begin
          incr drift; Printf.printf "DRIFT %s\n" line end
    | _ -> ());
  Printf.printf "STATS cases=%d specfail=%d drift=%d\n" !cases !specfail !drift
