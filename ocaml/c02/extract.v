From Coq Require Import Extraction ExtrOcamlBasic.
From Glb Require Import Check.C02.
Extraction "model.ml" check_case verdict_ok check_threshold.
