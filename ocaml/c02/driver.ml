(* C02 driver.
   E <kind> <nthreads> <overlaps> <formatted-disabled> P:<id>:<thread>:<enabled>:<depth>... W:<id>:<eq>... *)
let z_of_int i = if i = 0 then Z0 else if i > 0 then Zpos (pos_of_int i) else Zneg (pos_of_int (-i))
let () =
  let thr = ref 0 in
  let cases = ref 0 and specfail = ref 0 and mismatch = ref 0 and writes = ref 0 and recs = ref 0 in
  iter_lines Sys.argv.(1) (fun line ->
    match split_ws line with
    | "E" :: _kind :: nthr :: ov :: fd :: rest ->
        incr cases;
        (try
          let ps = ref [] and ws = ref [] in
          List.iter (fun tok ->
            match String.split_on_char ':' tok with
            | ["P"; id; th; en; depth] ->
                ps := { p_id = n_of_int (int_of_string id); p_thread = nat_of_int (int_of_string th);
                        p_enabled = (en = "1"); p_depth = nat_of_int (int_of_string depth) } :: !ps
            | ["W"; id; eq] -> ws := { w_id = n_of_int (int_of_string id); w_eq = (eq = "1") } :: !ws
            | _ -> failwith "tok") rest;
          let ps = List.rev !ps and ws = List.rev !ws in
          recs := !recs + List.length ps;
          let v = check_case (nat_of_int (int_of_string nthr)) ps ws (nat_of_int (int_of_string ov)) (nat_of_int (int_of_string fd)) in
          writes := !writes + int_of_nat v.nwrites;
          if not v.spec_ok then begin incr specfail; Printf.printf "SPECFAIL %s\n" line end
          else if not v.model_ok then begin incr mismatch; Printf.printf "MISMATCH %s\n" line end
        with Failure _ -> incr mismatch; Printf.printf "MISMATCH %s\n" line)
    | ["T"; _kind; th; lv; _entry; _shape; w; eq] ->
        (* T <kind> <threshold> <level> <entry point> <logger shape> <writes> <eq> *)
        incr cases; incr thr;
        let (sp, md) = check_threshold (z_of_int (int_of_string th)) (z_of_int (int_of_string lv)) (nat_of_int (int_of_string w)) (eq = "1") in
        if not sp then begin incr specfail; Printf.printf "SPECFAIL %s\n" line end
        else if not md then begin incr mismatch; Printf.printf "MISMATCH %s\n" line end
    | _ -> ());
  Printf.printf "STATS cases=%d specfail=%d mismatch=%d drift=0 records=%d writes=%d threshold_cases=%d\n" !cases !specfail !mismatch !recs !writes !thr
