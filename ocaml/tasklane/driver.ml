(* TaskLane driver (C06, C07, C08, C14): reads history lines
     HS|H <laneSize> <queueSize> <ev>...   monitors + acceptor
     M    <laneSize> <queueSize> <ev>...   monitors only
   (format: docs/TASKLANE.md) and judges them with the extracted Check.TaskLane.
   argv: cases.txt [fuel] [--compare-unreduced]  *)

exception Bad of string

let int_field s = match int_of_string_opt s with Some i when i >= 0 -> i | _ -> raise (Bad s)

let parse_event (tok : string) : event =
  match String.split_on_char ':' tok with
  | ["B"; p; i; t] -> EB (nat_of_int (int_field p), nat_of_int (int_field i), nat_of_int (int_field t))
  | "R" :: p :: r :: _ ->
      (* rej: PushTask refused the value with an error of its own (a nil Task): a failed push like a timeout *)
      let res = match r with "ok" -> Some ROk | "ctx" -> Some RCtxErr | "to" | "rej" -> Some RTimeout | _ -> None in
      ER (nat_of_int (int_field p), res)
  | ["S"; t] -> ES (nat_of_int (int_field t))
  | ["F"; t; "ret"] -> EF (nat_of_int (int_field t), None)
  | ["F"; t; "pnil"] -> EF (nat_of_int (int_field t), Some O)   (* panic(nil) where recover() returns nil: value id 0 *)
  | ["F"; t; pv] when String.length pv > 1 && pv.[0] = 'p' ->
      EF (nat_of_int (int_field t), Some (nat_of_int (int_field (String.sub pv 1 (String.length pv - 1)))))
  | ["Xb"] -> EXb
  | ["Xe"] -> EXe
  | ["Qb"; o] -> EQb (nat_of_int (int_field o))
  | ["Qe"; o; pd; v] ->
      let lv = match v with "-" -> LNone | "x" -> LForeign | _ -> LVal (nat_of_int (int_field v)) in
      EQe (nat_of_int (int_field o), nat_of_int (int_field pd), lv)
  | ["W"] -> EW
  | ["Z"; n] -> EZ (nat_of_int (int_field n))
  | _ -> raise (Bad tok)

(* --lax-pending-after-wait (C06, C07, C08): after Wait() only PendingTask <= accepted - started is required *)
let lax = ref false

let failing (m : monitors) : string =
  String.concat "," (List.filter_map (fun (b, name) -> if b then None else Some name)
    [ (m.mo_once, "exactly-once"); (m.mo_started_pushed, "started-only-if-pushed");
      (m.mo_failed_not_started, "failed-push-never-started"); (m.mo_results, "push-results-wellformed");
      (m.mo_fin, "start-finish-bracket"); (m.mo_bound, "concurrency<=laneSize");
      (m.mo_pending, "0<=pending<=laneSize*(queueSize+1)"); (m.mo_lastpanic, "lastpanic-is-a-raised-panic");
      (m.mo_after_wait, "nothing-running-at-or-started-after-Wait"); (m.mo_leak, "no-goroutine-left(Z=0)");
      (m.mo_after_cancel, "push-after-cancel-gets-ctx-error");
      ((if !lax then true else m.mo_pending_after_wait), "pending-after-Wait=accepted-minus-started");
      (m.mo_pending_after_wait_le, "pending-after-Wait<=accepted-minus-started");
      (m.mo_push_returns, "every-PushTask-call-returns");
      (m.mo_obs_ids, "status-call-ids-wellformed") ])

let () =
  let fuel = match (if Array.length Sys.argv > 2 then int_of_string_opt Sys.argv.(2) else None) with Some f -> f | None -> 20000 in
  lax := Array.exists (fun a -> a = "--lax-pending-after-wait") Sys.argv;
  let monitors_ok m = if !lax then monitors_ok_lax m else monitors_ok m in
  let compare = Array.exists (fun a -> a = "--compare-unreduced") Sys.argv in
  let fuel_n = nat_of_int fuel in
  let cases = ref 0 and specfail = ref 0 and mismatch = ref 0 and accepted = ref 0 and fuel_out = ref 0
  and monitor_only = ref 0 and max_belief = ref 0 and events = ref 0 and malformed = ref 0 and redux_diff = ref 0 and both_rej = ref 0 and compared = ref 0 and cmp_undecided = ref 0 and thorough = ref false
  and sum_belief = ref 0 in
  iter_lines Sys.argv.(1) (fun line ->
    match split_ws line with
    | tag :: n :: q :: evs when tag = "H" || tag = "HS" || tag = "M" ->
        incr cases;
        (try
          let n = int_field n and q = int_field q in
          let evl = List.map parse_event evs in
          events := !events + List.length evl;
          let nn = nat_of_int n and qn = nat_of_int q in
          let m = run_monitors nn qn evl in
          if (compare || (!thorough && tag = "HS" && !compared < 400)) && tag <> "M" && monitors_ok m then begin
            incr compared;
            let big = nat_of_int 60000 in
            let a = accept_history nn qn big true !lax evl and b = accept_history_plain nn qn big !lax evl in
            let cls = function Accepted _ -> 0 | Rejected _ -> 1 | FuelOut _ -> 2 in
            let idx = function Rejected (i, _) -> int_of_nat i | _ -> -1 in
            if cls a = 1 && cls b = 1 then incr both_rej;
            if cls a = 2 || cls b = 2 then incr cmp_undecided
            else if cls a <> cls b || idx a <> idx b then begin
              incr redux_diff;
              Printf.printf "MISMATCH %s ## reduced-and-plain-acceptor-disagree reduced=%d/%d plain=%d/%d\nDRIFT %s\n" line (cls a) (idx a) (cls b) (idx b) line end
          end;
          if not (monitors_ok m) then begin
            incr specfail;
            Printf.printf "SPECFAIL %s ## monitors=%s\nDRIFT %s\n" line (failing m) line end
          else if tag = "M" then incr monitor_only
          else begin
            let t0 = Sys.time () in
            let res = accept_history nn qn fuel_n true !lax evl in
            if Sys.getenv_opt "TL_TIMES" <> None then
              Printf.printf "TIME %.1f %s %d %d %d %s\n" ((Sys.time () -. t0) *. 1000.) tag n q (List.length evl)
                (match res with Accepted mb -> "acc:" ^ string_of_int (int_of_nat mb) | Rejected _ -> "rej" | FuelOut i -> "fuel@" ^ string_of_int (int_of_nat i));
            (match res with
             | Accepted mb -> incr accepted; let mb = int_of_nat mb in sum_belief := !sum_belief + mb; if mb > !max_belief then max_belief := mb
             | Rejected (idx, mb) ->
                 incr mismatch;
                 let i = int_of_nat idx in
                 let shown = if !lax then (let w = ref false in List.filter (fun t -> if t = "W" then (w := true; true) else not (!w && String.length t > 1 && t.[0] = 'Q')) evs) else evs in
                 Printf.printf "MISMATCH %s ## model-rejects-at-event=%d(%s) belief=%d\nDRIFT %s\n" line i (try List.nth shown i with _ -> "?") (int_of_nat mb) line
             | FuelOut idx -> incr fuel_out;
                 Printf.printf "FUEL %d %s\n" (int_of_nat idx) line);
          end
        with Bad tok ->
          (* a token outside the format (e.g. a negative PendingTask): the implementation's output is not a legal observation *)
          incr specfail; incr malformed;
          Printf.printf "SPECFAIL %s ## malformed-or-negative-field=%s\nDRIFT %s\n" line tok line)
    | ["TIER"; "thorough"] -> thorough := true
    | _ -> ());
  let decided_or_not = !cases - !monitor_only - !specfail in
  if !fuel_out * 20 > decided_or_not && !fuel_out > 2 then
    Printf.printf "MISMATCH tie-degraded: the acceptor ran out of fuel on %d of %d histories (> 5%%): the model no longer decides the observed histories\n" !fuel_out decided_or_not;
  if !accepted = 0 && !fuel_out > 0 then
    Printf.printf "MISMATCH (no history could be decided by the acceptor: %d ran out of fuel)\n" !fuel_out;
  Printf.printf "STATS cases=%d specfail=%d mismatch=%d drift=0 accepted=%d fuel_exhausted=%d monitor_only=%d max_belief=%d avg_belief=%d events=%d malformed=%d%s\n"
    !cases !specfail !mismatch !accepted !fuel_out !monitor_only !max_belief (if !accepted > 0 then !sum_belief / !accepted else 0) !events !malformed
    (if !compared > 0 then Printf.sprintf " compared_with_plain_acceptor=%d reduction_disagreements=%d both_rejected=%d compare_undecided=%d" !compared !redux_diff !both_rej !cmp_undecided else "")
