From Coq Require Import Extraction ExtrOcamlBasic NArith.
From Glb Require Import Check.TaskLane.
(* N.succ only brings the datatypes [positive] and [N] into model.ml: the shared prelude mentions their constructors *)
Extraction "model.ml" check_history check_history_lax run_monitors monitors_ok monitors_ok_lax verdict_ok_lax accept_history accept_history_plain verdict_ok default_fuel N.succ.
