(* C13 driver.
   argv 1: cases.txt   "E|L <src> <lvl> <time> <msg> <chain> <attrs> <nwrites> <write>..." (src = ~ or <hex f.File>,<hex line>)  and
                       "Q <literal> <strconv.Unquote(literal) | ~>"
   argv 2: oracle tables dumped by the harness from the Go toolchain
           ("T space|uprint|sprint lo:hi lo:hi ..." for runes >= 0x80) *)
let table_size = 0x110000
let load_tables path =
  let sp = Bytes.make table_size '\000' and up = Bytes.make table_size '\000' and st = Bytes.make table_size '\000' in
  let seen = ref 0 in
  iter_lines path (fun line ->
    match split_ws line with
    | "T" :: name :: ranges ->
        let tbl = (match name with "space" -> sp | "uprint" -> up | "sprint" -> st | _ -> failwith "table name") in
        incr seen;
        List.iter (fun r ->
          match String.split_on_char ':' r with
          | [lo; hi] -> for i = int_of_string lo to int_of_string hi do Bytes.set tbl i '\001' done
          | _ -> failwith "range") ranges
    | _ -> ());
  if !seen <> 3 then failwith "tables: expected 3 T lines";
  let f tbl = fun (n : n) -> let i = int_of_n n in i < table_size && Bytes.get tbl i = '\001' in
  (f sp, f up, f st)

(* attrs := '[' item* ']' ; item := ('s'|'v') hex ',' hex ';' | 'g' hex attrs *)
let is_hex c = (c >= '0' && c <= '9') || (c >= 'a' && c <= 'f') || c = '-'
let parse_hex (s : string) (i : int ref) : n list =
  let j = ref !i in
  while !j < String.length s && is_hex s.[!j] do incr j done;
  let h = String.sub s !i (!j - !i) in
  i := !j; bytes_of_hex h
let expect s i c = if !i < String.length s && s.[!i] = c then incr i else failwith (Printf.sprintf "expected %c at %d in %s" c !i s)
let rec parse_attrs (s : string) (i : int ref) =
  expect s i '[';
  let items = ref [] in
  while !i < String.length s && s.[!i] <> ']' do
    let k = s.[!i] in incr i;
    let key = parse_hex s i in
    (match k with
     | 's' -> expect s i ','; let t = parse_hex s i in expect s i ';'; items := (key, VStr t) :: !items
     | 'v' -> expect s i ','; let t = parse_hex s i in expect s i ';'; items := (key, VVerbatim t) :: !items
     | 'g' -> let ms = parse_attrs s i in items := (key, VGroup ms) :: !items
     | _ -> failwith "item kind")
  done;
  expect s i ']';
  List.rev !items
let parse_chain (s : string) =
  if s = "~" then [] else begin
    let i = ref 0 and res = ref [] in
    while !i < String.length s do
      let k = s.[!i] in incr i;
      (match k with
       | 'A' -> res := DAttrs (parse_attrs s i) :: !res
       | 'G' -> let n = parse_hex s i in expect s i ';'; res := DGroup n :: !res
       | _ -> failwith "chain kind")
    done;
    List.rev !res end
let level_of = function "0" -> LDebug | "1" -> LInfo | "2" -> LWarn | "3" -> LError | "4" -> LFatal | _ -> failwith "level"

let () =
  let (is_space, u_print, s_print) = load_tables Sys.argv.(2) in
  let cases = ref 0 and specfail = ref 0 and mismatch = ref 0 and drift = ref 0 and qs = ref 0 and qbad = ref 0 and wfbad = ref 0 in
  iter_lines Sys.argv.(1) (fun line ->
    match split_ws line with
    | ("E" | "L") :: src :: lvl :: tm :: msg :: chain :: attrs :: nw :: writes ->
        incr cases;
        (* exactly nw write fields; anything after them (diagnostics of an earlier verdict line) is ignored *)
        let rec take n l = if n = 0 then [] else (match l with [] -> failwith "write count" | x :: r -> x :: take (n - 1) r) in
        let writes = take (int_of_string nw) writes in
        let r = { time_txt = bytes_of_hex tm; lvl = level_of lvl;
                  src = (if src = "~" then None else
                           (match String.split_on_char ',' src with
                            | [f; l] -> Some (bytes_of_hex f, bytes_of_hex l)
                            | _ -> failwith "src field"));
                  msg = bytes_of_hex msg; attrs = (let i = ref 0 in parse_attrs attrs i) } in
        let v = check_case is_space u_print s_print (parse_chain chain) r (List.map bytes_of_hex writes) in
        if not (spec_ok v) then begin
          incr specfail;
          Printf.printf "SPECFAIL %s one_write=%b one_line=%b tokens=%b\n" line v.one_write v.one_line v.tokens_ok end
        else if not v.wf_input then begin
          incr mismatch; incr wfbad;
          Printf.printf "MISMATCH %s (the observed case does not satisfy the theorem's hypotheses on oracle texts)\n" line end
        else if not v.model_eq then begin
          incr drift; Printf.printf "DRIFT %s\n" line end
    | ["Q"; lit; want] ->
        incr qs;
        let got = (match unquote_whole (bytes_of_hex lit) with None -> "~" | Some b -> hex_of_bytes b) in
        if got <> want then begin
          incr mismatch; incr qbad;
          Printf.printf "MISMATCH %s (tokenizer unquotes to %s, strconv.Unquote says otherwise)\n" line got end
    | _ -> ());
  Printf.printf "STATS cases=%d specfail=%d mismatch=%d drift=%d unquote_crosschecks=%d unquote_disagreements=%d wf_failures=%d\n"
    !cases !specfail !mismatch !drift !qs !qbad !wfbad
