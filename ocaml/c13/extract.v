From Coq Require Import Extraction ExtrOcamlBasic.
From Glb Require Import Check.C13.
Extraction "model.ml" check_case spec_ok verdict_ok unquote_whole tokens_of.
