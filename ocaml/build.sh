#!/bin/sh
# usage: ocaml/build.sh <id> : extract the Coq check function of ocaml/<id>/extract.v and build ocaml/<id>/drv
set -e
cd "$(dirname "$0")/$1"
rm -rf build && mkdir -p build
cp extract.v build/ && (cd build && coqc -Q ../../../coq Glb extract.v >/dev/null)
PRE="../common/prelude.ml"
if [ -f use_nat ]; then PRE="$PRE ../common/prelude_nat.ml"; fi
( echo "open Model"; cat $PRE driver.ml ) > build/main.ml
cd build && ocamlfind ocamlopt -O3 -w -a -package str model.mli model.ml main.ml -o ../drv.tmp.$$ 2>&1 | grep -v "^$" | grep -v "options -O3 is only relevant" || true
test -x ../drv.tmp.$$ && mv -f ../drv.tmp.$$ ../drv
test -x ../drv
