(* C01 driver.
   drv <cases.txt>        : judge every "E ..." line (format below) with the extracted check function
   drv -parse <file>      : one hex-encoded text per line; prints "1 <dump of the parsed value>" or "0"
                            (used by the harness to cross-validate the Coq parser against encoding/json)

   case line (space separated tokens, byte strings hex encoded, "-" = empty):
     E <level 0..4> <time> <file | ~> <line> <msg> <nchain> chain* <nattrs> attr* <nwrites> write*
     chain := A <n> attr*n | W <name>
     attr  := S k text | I k dec | U k dec | B k 0/1 | D k dec | T k text | J k rawjson | X k errtext
            | R k errortext | N k ansivalue | G k <n> attr*n                                         *)
let dec_bytes (s : string) : n list = List.init (String.length s) (fun i -> n_of_int (Char.code s.[i]))
let z_of_dec s = of_dec_z (dec_bytes s)
let n_of_dec s = of_dec (dec_bytes s)

exception Bad of string

let parse_case (toks : string list) =
  let st = ref toks in
  let next () = match !st with x :: r -> st := r; x | [] -> raise (Bad "eof") in
  let int () = int_of_string (next ()) in
  let hx () = bytes_of_hex (next ()) in
  let rec attr () =
    let tag = next () in
    let k = hx () in
    let v = match tag with
      | "S" -> VStr (hx ())
      | "I" -> VInt (z_of_dec (next ()))
      | "U" -> VUint (n_of_dec (next ()))
      | "B" -> VBool (next () = "1")
      | "D" -> VDur (z_of_dec (next ()))
      | "T" -> VTime (hx ())
      | "J" -> VRaw (ROk (hx ()))
      | "X" -> VRaw (RErr (hx ()))
      | "R" -> VErrStr (hx ())
      | "N" -> VAnsi (hx ())
      | "G" -> let n = int () in VGroup (attrs n)
      | t -> raise (Bad ("tag " ^ t)) in
    (k, v)
  and attrs n = if n = 0 then [] else let a = attr () in a :: attrs (n - 1) in
  let lvl = match next () with "0" -> LDebug | "1" -> LInfo | "2" -> LWarn | "3" -> LError | "4" -> LFatal | t -> raise (Bad ("level " ^ t)) in
  let time = hx () in
  let file = next () in
  let line = next () in
  let src = if file = "~" then None else Some (bytes_of_hex file, z_of_dec line) in
  let msg = hx () in
  let nchain = int () in
  let rec chain n = if n = 0 then [] else
      let d = (match next () with
        | "A" -> let k = int () in DAttrs (attrs k)
        | "W" -> DGroup (hx ())
        | t -> raise (Bad ("chain " ^ t))) in
      d :: chain (n - 1) in
  let ch = chain nchain in
  let na = int () in
  let al = attrs na in
  let nw = int () in
  let rec writes n = if n = 0 then [] else let w = hx () in w :: writes (n - 1) in
  let ws = writes nw in
  if !st <> [] then raise (Bad "trailing tokens");
  (ch, { time_txt = time; lvl = lvl; src = src; msg = msg; attrs = al }, ws)

let rec dump (b : Buffer.t) (j : jval) : unit =
  match j with
  | JStr s -> Buffer.add_string b ("S" ^ hex_of_bytes s)
  | JNum s -> Buffer.add_string b ("N" ^ hex_of_bytes s)
  | JTrue -> Buffer.add_string b "T"
  | JFalse -> Buffer.add_string b "F"
  | JNull -> Buffer.add_string b "Z"
  | JArr l -> Buffer.add_string b (Printf.sprintf "A%d" (List.length l)); List.iter (fun x -> Buffer.add_char b ' '; dump b x) l
  | JObj l -> Buffer.add_string b (Printf.sprintf "O%d" (List.length l));
      List.iter (fun (k, x) -> Buffer.add_char b ' '; Buffer.add_string b (hex_of_bytes k); Buffer.add_char b ' '; dump b x) l

(* long lines (up to a few 100 KiB) make the extracted structural recursions deep: re-run under a big stack *)
let () =
  if Sys.getenv_opt "C01_DRV_BIGSTACK" = None then begin
    let args = String.concat " " (List.map Filename.quote (List.tl (Array.to_list Sys.argv))) in
    let cmd = Printf.sprintf "ulimit -s unlimited 2>/dev/null || ulimit -s 4000000 2>/dev/null; C01_DRV_BIGSTACK=1 exec %s %s"
        (Filename.quote Sys.executable_name) args in
    exit (Sys.command cmd)
  end

let () =
  if Array.length Sys.argv >= 3 && Sys.argv.(1) = "-parse" then begin
    iter_lines Sys.argv.(2) (fun line ->
      let line = String.trim line in
      if line <> "" then
        match parse_any (bytes_of_hex line) with
        | Some j -> let b = Buffer.create 256 in dump b j; Printf.printf "1 %s\n" (Buffer.contents b)
        | None -> print_string "0\n")
  end else begin
    let cases = ref 0 and specfail = ref 0 and drift = ref 0 and mismatch = ref 0 and bad = ref 0 in
    iter_lines Sys.argv.(1) (fun line ->
      match split_ws line with
      | ("E" | "EL") :: toks ->
          incr cases;
          (match (try Some (parse_case toks) with Bad _ | Failure _ | Invalid_argument _ -> None) with
           | None -> incr bad; incr mismatch; Printf.printf "MISMATCH %s\nINFO unreadable case line\n" line
           | Some (ch, r, ws) ->
             let v = check_case ch r ws in
             if not (spec_holds v) then begin
               incr specfail;
               Printf.printf "SPECFAIL %s\n" line;
               if !specfail <= 20 then
                 Printf.printf "INFO specfail #%d: one_write=%b single_line=%b object_decodes_to_expected=%b line_is_utf8=%b observed=%s\n" !specfail v.one_write v.line_ok v.spec_ok v.utf8_line
                   (String.concat " | " (List.map (fun w -> String.escaped (String.concat "" (List.map (fun x -> String.make 1 (Char.chr (int_of_n x land 255))) w))) ws)) end
             else if not v.wf_ok then begin
               incr mismatch; Printf.printf "MISMATCH %s\nINFO the oracle texts of this case do not satisfy wf_chain / wf_record\n" line end
             else if not v.model_ok then begin
               incr drift; Printf.printf "DRIFT %s\n" line end)
      | _ -> ());
    Printf.printf "STATS cases=%d specfail=%d mismatch=%d drift=%d unreadable=%d\n" !cases !specfail !mismatch !drift !bad
  end
