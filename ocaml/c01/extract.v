From Coq Require Import Extraction ExtrOcamlBasic.
From Glb Require Import Lib.JsonDec Lib.Json Model.LoggerJson Model.LoggerJsonSpec Check.C01.
Extraction "model.ml" check_case spec_holds verdict_ok parse_any of_dec of_dec_z.
