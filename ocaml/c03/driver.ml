(* C03 driver.
   E <kind> <op>...   op = A:<parent>:<id>:<s,s,..> | G:<parent>:<id>:<s> | L:<node>:<eq>:<ownid>:<ownsize>:<ids|->:<ids|->
   W <kind> <eq> <ngroups> <nattrs> <na> <nb>
   argv 2,3 (optional): clips fresh, one character per handler kind (json text nano), the discipline read
   from the source by gen/loggerfacts; default 111 111 *)
let ints s = if s = "-" || s = "" then [] else List.map int_of_string (String.split_on_char ',' s)
let parse_op (s : string) : cop =
  match String.split_on_char ':' s with
  | ["A"; p; id; sizes] -> CA (nat_of_int (int_of_string p), n_of_int (int_of_string id), List.map nat_of_int (ints sizes))
  | ["G"; p; id; size] -> CG (nat_of_int (int_of_string p), n_of_int (int_of_string id), nat_of_int (int_of_string size))
  | ["L"; node; eq; ownid; ownsize; oa; og] ->
      CL (nat_of_int (int_of_string node), eq = "1", n_of_int (int_of_string ownid), nat_of_int (int_of_string ownsize),
          List.map n_of_int (ints oa), List.map n_of_int (ints og))
  | _ -> failwith ("bad op " ^ s)

let () =
  let flag a k = if Array.length Sys.argv > a && String.length Sys.argv.(a) > k then Sys.argv.(a).[k] = '1' else true in
  let cases = ref 0 and specfail = ref 0 and mismatch = ref 0 and noclip = ref 0 and logs = ref 0 and trees = ref 0 and cs = ref 0 in
  iter_lines Sys.argv.(1) (fun line ->
    match split_ws line with
    | "E" :: kind :: ops ->
        incr cases; incr trees;
        (try
          let k = int_of_string kind in
          let v = check_case (nat_of_int k) (flag 2 k) (flag 3 k) (List.map parse_op ops) in
          logs := !logs + int_of_nat v.nlogs;
          if v.noclip_viol then incr noclip;
          if not v.spec_ok then begin incr specfail; Printf.printf "SPECFAIL %s\n" line end
          else if not (v.model_ok && v.iso_ok) then begin
            incr mismatch; Printf.printf "MISMATCH %s\n" line end
        with Failure m -> incr mismatch; Printf.printf "MISMATCH %s\n" line)
    | ["W"; kind; eq; ng; na0; na; nb] ->
        incr cases; incr cs;
        let (s, m) = check_callsite (nat_of_int (int_of_string kind)) (eq = "1") (nat_of_int (int_of_string ng))
                       (nat_of_int (int_of_string na0)) (nat_of_int (int_of_string na)) (nat_of_int (int_of_string nb)) in
        if not s then begin incr specfail; Printf.printf "SPECFAIL %s\n" line end
        else if not m then begin incr mismatch; Printf.printf "MISMATCH %s\n" line end
    | _ -> ());
  Printf.printf "STATS cases=%d specfail=%d mismatch=%d drift=0 trees=%d logged_lines=%d callsite=%d noclip_model_predicts_violation=%d\n"
    !cases !specfail !mismatch !trees !logs !cs !noclip
