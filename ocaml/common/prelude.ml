(* Shared glue, textually appended after `open Model` of each driver.
   Converts between OCaml ints/strings and the extracted Coq datatypes (kept as datatypes). *)
let rec pos_of_int i = if i = 1 then XH else if i land 1 = 1 then XI (pos_of_int (i lsr 1)) else XO (pos_of_int (i lsr 1))
let n_of_int i = if i = 0 then N0 else Npos (pos_of_int i)
let rec int_of_pos = function XH -> 1 | XO p -> 2 * int_of_pos p | XI p -> 2 * int_of_pos p + 1
let int_of_n = function N0 -> 0 | Npos p -> int_of_pos p
let hexval c = match c with '0'..'9' -> Char.code c - 48 | 'a'..'f' -> Char.code c - 87 | 'A'..'F' -> Char.code c - 55 | _ -> failwith "hex"
(* "-" is the empty string *)
let bytes_of_hex (h : string) : n list =
  if h = "-" then [] else begin
    let l = String.length h / 2 in
    let rec go i acc = if i < 0 then acc else go (i - 1) (n_of_int (hexval h.[2*i] * 16 + hexval h.[2*i+1]) :: acc) in
    go (l - 1) [] end
let hex_of_bytes (b : n list) : string =
  if b = [] then "-" else String.concat "" (List.map (fun x -> Printf.sprintf "%02x" (int_of_n x)) b)
let split_ws (s : string) : string list = List.filter (fun x -> x <> "") (String.split_on_char ' ' s)
let iter_lines (path : string) (f : string -> unit) : unit =
  let ic = open_in path in
  (try while true do f (input_line ic) done with End_of_file -> ());
  close_in ic
