(* nat conversions; included only by drivers whose model extracts nat *)
let rec nat_of_int i = if i <= 0 then O else S (nat_of_int (i - 1))
let rec int_of_nat = function O -> 0 | S k -> 1 + int_of_nat k
