From Coq Require Import Extraction ExtrOcamlBasic.
From Glb Require Import Check.C15.
Extraction "model.ml" check_case spec_ok verdict_ok mk_act mk_rec mk_req.
