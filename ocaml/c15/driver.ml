(* C15 driver.  Case line (decimal integers):
   E <mode> <hkind> <thr> <route> <method> <reqno> <nacts> { <tag> <a> <b> }*
     <escaped> <wire> <body seen> <nbody> { <chunk> }* <nrec> { <tag> <code> <ip> <m> <u> <id> <pv> }*
   request = (method, uri = reqno, ip = 1, id = reqno).
   pv: the kind of panic value recognised in the ERROR record; 1000 + kind = recognised only loosely (the
   text is non-empty and contains the value's salient payload, but is not the expected rendering): DRIFT. *)
let () =
  let cases = ref 0 and specfail = ref 0 and mismatch = ref 0 and outscope = ref 0 and drift = ref 0 and bodydiff = ref 0 in
  let ni s = n_of_int (int_of_string s) in
  iter_lines Sys.argv.(1) (fun line ->
    match split_ws line with
    | "E" :: _mode :: _hk :: thr :: _route :: m :: reqno :: nacts :: rest ->
        incr cases;
        let bad () = failwith ("bad case line: " ^ line) in
        let rec acts i l acc = if i = 0 then (List.rev acc, l) else
          match l with t :: a :: b :: r -> acts (i - 1) r (mk_act (ni t) (ni a) (ni b) :: acc) | _ -> bad () in
        let (sc, rest) = acts (int_of_string nacts) rest [] in
        (match rest with
         | esc :: wire :: bseen :: nbody :: rest ->
             let rec take i l acc = if i = 0 then (List.rev acc, l) else
               match l with x :: r -> take (i - 1) r (ni x :: acc) | [] -> bad () in
             let (body, rest) = take (int_of_string nbody) rest [] in
             (match rest with
              | nrec :: rest ->
                  let loose = ref false in
                  let rec recs i l acc = if i = 0 then (List.rev acc, l) else
                    match l with
                    | t :: c :: ip :: m :: u :: id :: pv :: r ->
                        let pvi = int_of_string pv in
                        let pvi = if pvi >= 1000 then (loose := true; pvi - 1000) else pvi in
                        recs (i - 1) r (mk_rec (ni t) (ni c) (ni ip) (ni m) (ni u) (ni id) (n_of_int pvi) :: acc)
                    | _ -> bad () in
                  let (rs, rest) = recs (int_of_string nrec) rest [] in
                  if rest <> [] then bad ();
                  let rq = mk_req (ni m) (ni reqno) (n_of_int 1) (ni reqno) in
                  let v = check_case (ni thr) rq sc (esc = "1") (ni wire) (bseen = "1") body rs in
                  if not v.in_scope then incr outscope;
                  if not (spec_ok v) then begin
                    incr specfail;
                    Printf.printf "SPECFAIL %s noescape=%b relay500=%b records=%b\n" line v.spec_noescape v.spec_500 v.spec_records end
                  else if not v.model_ok then begin
                    incr mismatch; Printf.printf "MISMATCH %s\n" line end
                  else if not v.model_body then begin
                    (* the property does not constrain the body (e.g. a bare 500 without http.Error's text) *)
                    incr drift; incr bodydiff; Printf.printf "DRIFT %s\n" line end
                  else if !loose then begin
                    incr drift; Printf.printf "DRIFT %s\n" line end
              | [] -> bad ())
         | _ -> bad ())
    | _ -> ());
  Printf.printf "STATS cases=%d specfail=%d mismatch=%d drift=%d outside_property_scope=%d relay500_body_differs=%d\n" !cases !specfail !mismatch !drift !outscope !bodydiff
