(* C04 driver. One case per line:
   E <k> {<pattern> <method>}*k <reg> <nn> {<name>}*nn <nreq> {<raw> <path> <method> <who> <any> {<value>}*nn}*nreq
   (<raw>: the request line's target when the request was read by net/http, informational; routing is on <path>)
   reg = ok | rej<i>        (Handle of route i panicked; no requests follow)
   who = r<i> | nr | anything else (panic, calls<n>, badinfo) = forbidden outcome
   Output: on a failure the case is REDUCED to the table and the first failing request, itself a valid case
   line, and printed as SPECFAIL/MISMATCH <reduced line>; the full line is also printed as "DRIFT <line>" only so
   that the runner's extraction-vs-vm_compute cross-check knows that this sampled line is a failing one
   (no byte-level comparison exists for C04; the drift number in STATS counts rejects_more tables, see below). *)
let () =
  let cases = ref 0 and reqs = ref 0 and specfail = ref 0 and mismatch = ref 0 and rejected = ref 0 and rejmore = ref 0
  and matched = ref 0 and noroute = ref 0 in
  iter_lines Sys.argv.(1) (fun line ->
    match split_ws line with
    | "E" :: rest ->
        let a = Array.of_list rest in
        let pos = ref 0 in
        let next () = let v = a.(!pos) in incr pos; v in
        let k = int_of_string (next ()) in
        let routes = List.init k (fun _ -> let p = next () in let m = next () in (bytes_of_hex p, bytes_of_hex m)) in
        let reg = match next () with
          | "ok" -> None
          | s -> incr rejected; Some (nat_of_int (int_of_string (String.sub s 3 (String.length s - 3)))) in
        let nn = int_of_string (next ()) in
        let names = List.init nn (fun _ -> bytes_of_hex (next ())) in
        let hdr_end = !pos in
        let nreq = int_of_string (next ()) in
        let reduced i =
          if nreq = 0 then line else begin
            let per = 5 + nn in
            let hdr = Array.to_list (Array.sub a 0 hdr_end) in
            let rq = Array.to_list (Array.sub a (hdr_end + 1 + i * per) per) in
            String.concat " " ("E" :: hdr @ ["1"] @ rq) end in
        let qs = List.init nreq (fun _ ->
          let _raw = next () in let p = next () in let m = next () in let w = next () in let any = next () in
          let vals = List.init nn (fun _ -> bytes_of_hex (next ())) in
          let who =
            if w = "nr" then (incr noroute; WNoRoute)
            else if String.length w > 1 && w.[0] = 'r' && w.[1] >= '0' && w.[1] <= '9' then
              (incr matched; WRoute (nat_of_int (int_of_string (String.sub w 1 (String.length w - 1)))))
            else WBad in
          { q_path = bytes_of_hex p; q_method = bytes_of_hex m;
            q_obs = { o_who = who; o_any = bytes_of_hex any; o_vals = vals } }) in
        incr cases; reqs := !reqs + nreq;
        (match check_case routes reg names qs with
         | ((VOk, _), more) -> if more then incr rejmore
         | ((VSpecFail, i), _) ->
             incr specfail; Printf.printf "SPECFAIL %s\n" (reduced (int_of_nat i));
             if nreq > 1 then Printf.printf "DRIFT %s\n" line
         | ((VMismatch, i), _) ->
             incr mismatch; Printf.printf "MISMATCH %s\n" (reduced (int_of_nat i));
             if nreq > 1 then Printf.printf "DRIFT %s\n" line)
    | _ -> ());
  (* rejects_more: tables in which Handle rejected a route the specification accepts (a stricter implementation): nothing
     is judged there, reported as drift *)
  Printf.printf "STATS cases=%d specfail=%d mismatch=%d drift=%d requests=%d matched=%d noroute=%d rejected_tables=%d rejects_more=%d\n"
    !cases !specfail !mismatch !rejmore !reqs !matched !noroute !rejected !rejmore
