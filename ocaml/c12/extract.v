From Coq Require Import Extraction ExtrOcamlBasic.
From Glb Require Import Check.C12.
Extraction "model.ml" check_final final_ok.
