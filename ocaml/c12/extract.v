From Coq Require Import Extraction ExtrOcamlBasic.
From Glb Require Import Check.C11 Check.C12.
Extraction "model.ml" check_final final_ok acc0 step_acc verdict_of_acc.
