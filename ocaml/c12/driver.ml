(* C12 driver: the final-membership lines of the concurrent runs, same format as C11:
   One history per line:
   obs:  A:<ip hex>:<mask hex>:<res>   Add    (res 0 = nil, 1 = ErrInvalidIPv4CIDR, 2 = panic/other)
         R:<ip hex>:<mask hex>:<res>   Remove
         C:<ip hex>:<res>              Contains (res 0 = false, 1 = true, 2 = panic)
   The extracted check_final replays the line on the model and on the specification.
   On a failure the history is cut down to the updates before the first failing observation plus
   that observation ("SPECFAIL <minimised line>"); the original line is also named ("DRIFT <line>",
   not counted) so that the runner's in-Coq cross-check of sampled lines knows it failed. *)
let parse_obs tok =
  match String.split_on_char ':' tok with
  | ["A"; ip; m; r] -> OAdd ({ c_ip = bytes_of_hex ip; c_mask = bytes_of_hex m }, n_of_int (int_of_string r))
  | ["R"; ip; m; r] -> ORemove ({ c_ip = bytes_of_hex ip; c_mask = bytes_of_hex m }, n_of_int (int_of_string r))
  | ["C"; ip; r] -> OContains (bytes_of_hex ip, n_of_int (int_of_string r))
  | _ -> failwith ("bad observation " ^ tok)

let minimise toks i =
  let rec go k = function
    | [] -> []
    | t :: r -> if k = i then [t] else if t.[0] <> 'C' then t :: go (k + 1) r else go (k + 1) r in
  "E " ^ String.concat " " (go 0 toks)

let () =
  let cases = ref 0 and specfail = ref 0 and mismatch = ref 0 and probes = ref 0 and obs = ref 0
  and invalid = ref 0 and migrated = ref 0 in
  iter_lines Sys.argv.(1) (fun line ->
    match split_ws line with
    | "E" :: toks ->
        incr cases;
        let v = check_final (List.map parse_obs toks) in
        probes := !probes + int_of_n v.n_probes;
        obs := !obs + int_of_n v.n_obs;
        invalid := !invalid + int_of_n v.n_invalid;
        if v.final_maps then incr migrated;
        (match v.spec_fail, v.model_fail with
         | Some i, _ ->
             incr specfail;
             Printf.printf "SPECFAIL %s\nDRIFT %s\n" (minimise toks (int_of_n i)) line
         | None, Some i ->
             incr mismatch;
             Printf.printf "MISMATCH %s\nDRIFT %s\n" (minimise toks (int_of_n i)) line
         | None, None -> ())
    | _ -> ());
  Printf.printf "STATS cases=%d specfail=%d mismatch=%d drift=0 observations=%d probes=%d invalid_args=%d histories_in_map_mode=%d\n"
    !cases !specfail !mismatch !obs !probes !invalid !migrated
