#!/bin/sh
# Build the framework from files on disk only (offline): Coq development (full .vo build),
# extracted OCaml drivers, Go harness commands (warms the build cache).
set -e
cd "$(dirname "$0")"
export GOFLAGS=-mod=mod GOPROXY=off GOSUMDB=off GOTOOLCHAIN=local
exec python3 lib/setup.py "$@"
