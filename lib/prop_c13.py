import os
import re

from vcheck import coq_bytes, BUILD
from props_common import HARNESS_TB, EXTRACT_TB

TABLES = os.path.join(BUILD, "c13-tables.txt")


def _hex_at(s, i):
    j = i
    while j < len(s) and (s[j] in "0123456789abcdef-"):
        j += 1
    return coq_bytes(s[i:j]), j


def _attrs(s, i):
    assert s[i] == "[", (s, i)
    i += 1
    items = []
    while s[i] != "]":
        k = s[i]
        key, i = _hex_at(s, i + 1)
        if k == "g":
            ms, i = _attrs(s, i)
            items.append("(%s, VGroup %s)" % (key, ms))
        else:
            assert s[i] == ","
            txt, i = _hex_at(s, i + 1)
            assert s[i] == ";"
            i += 1
            items.append("(%s, %s %s)" % (key, "VStr" if k == "s" else "VVerbatim", txt))
    return "[" + "; ".join(items) + "]", i + 1


def _chain(s):
    if s == "~":
        return "[]"
    i, res = 0, []
    while i < len(s):
        if s[i] == "A":
            a, i = _attrs(s, i + 1)
            res.append("DAttrs " + a)
        else:
            n, i = _hex_at(s, i + 1)
            assert s[i] == ";"
            i += 1
            res.append("DGroup " + n)
    return "[" + "; ".join(res) + "]"


def _ranges(name):
    for line in open(TABLES):
        f = line.split()
        if f[:2] == ["T", name]:
            return "[" + "; ".join("(%s, %s)" % tuple(r.split(":")) for r in f[2:]) + "]"
    raise RuntimeError("no table " + name)


LEVELS = ["LDebug", "LInfo", "LWarn", "LError", "LFatal"]


def c13_casesv(lines):
    rows = []
    for l in lines:
        f = l.split()
        src, lvl, tm, msg, chain, attrs, nw = f[1:8]
        writes = f[8:]
        rec = "(mkRecord %s %s %s %s %s)" % (coq_bytes(tm), LEVELS[int(lvl)],
                                             "None" if src == "~" else "(Some (%s, %s))" % tuple(coq_bytes(x) for x in src.split(",")),
                                             coq_bytes(msg), _attrs(attrs, 0)[0])
        rows.append("verdict_ok (check_case o_space o_uprint o_sprint %s %s [%s])" % (
            _chain(chain), rec, "; ".join(coq_bytes(w) for w in writes)))
    return ("From Coq Require Import List NArith.\nImport ListNotations.\n"
            "From Glb Require Import Lib.TextTok Model.LoggerText Check.C13.\nOpen Scope N_scope.\n"
            "Definition t_space : list (N * N) := %s.\nDefinition t_uprint : list (N * N) := %s.\n"
            "Definition t_sprint : list (N * N) := %s.\n"
            "Definition o_space := in_ranges t_space.\nDefinition o_uprint := in_ranges t_uprint.\n"
            "Definition o_sprint := in_ranges t_sprint.\n"
            "Definition verdicts : list bool := [\n  " % (_ranges("space"), _ranges("uprint"), _ranges("sprint"))
            + ";\n  ".join(rows) + "].\nEval vm_compute in verdicts.\n")


def c13_sig(line):
    return ""


ID = "C13"
CFG = dict(
    propfile="Properties/C13.v",
    coq_deps=["Lib/Utf8", "Proofs/Utf8P", "Lib/GoQuote", "Lib/TextTok", "Model/LoggerText", "Proofs/LoggerText",
              "Properties/C13", "Check/C13"],
    ocaml="c13",
    drv_args=[TABLES],
    casesv=c13_casesv,
    case_tags=("E",),   # "L" lines (long inputs) are judged by the driver but never sampled into cases.v
    rule=("[half of the hand-built-record cases first warm the handler family up with records of the same instant / second / neighbouring second in the other zones; only the case record is judged] the real TextHandler (colour off) behind logger.New: the empty string, every 1-byte string, hostile strings, all Unicode "
          "spaces, non-printing runes and invalid UTF-8 forms each as message / key / value / group name / group key / With attribute / "
          "error, TextMarshaler, []byte, AnsiString, Stringer text and as the panic value of panicking MarshalText/Error methods (plus nil "
          "pointer receivers); 2-byte strings (quick: stride 23, thorough: all 65,536) and Unicode scalars (quick: all below U+3000 + plane "
          "edges + 3,000 sampled; thorough: all below U+30000 + 100,000 sampled) in all four positions at once; long inputs (64 B, 1 KiB, "
          "2.1 KiB, 4 KiB, 17 KiB, 70 KiB) with hostile content at start / middle / end as message, key, value and group name; source on: "
          "call sites under //line directives whose file names need quoting, PC = 0, and every Logger method (Debug..Panic, Log, LogAttrs and "
          "the *f variants) called from its own wrapper so that the source item must be the caller's file:line; malformed argument lists "
          "(!BADKEY) through Info/Warn/Log/With; seeded random attribute trees (depth <= 5, keyed / inline / empty groups, LogValuers, all "
          "value kinds), With/WithGroup chains of length <= 5, five levels, entry points Handler.Handle / Logger.LogAttrs / Logger.Log; "
          "non-trivial = distinct inputs"),
    trusted_base=[HARNESS_TB, EXTRACT_TB,
                  "Lib/TextTok.v + Lib/GoQuote.v (unquote) are my reading of 'space-separated key=value tokens, bare or Go-quoted'; the "
                  "unquoting is cross-checked against strconv.Unquote on every quoted item observed and on synthetic literals",
                  "oracles: unicode.IsSpace / unicode.IsPrint / strconv.IsPrint enter the theorems as universally quantified functions "
                  "(no hypothesis on them); the driver instantiates them with the tables dumped from the Go toolchain on every run",
                  "the tokenizer's bare items deliberately accept DEL, C1 controls other than U+0085, non-printing runes and invalid UTF-8 "
                  "bytes (the property only demands 'free of whitespace, = and double quote'): a change that stops quoting those is byte "
                  "drift against the model, not a violation",
                  "source: the harness passes the runtime's full f.File and line; the model transcribes appendTextSource's byte loop, the "
                  "specification says 'last two path elements'; they agree on every path with >= 2 '/' (theorem C13_source_cut); the known "
                  "oddity (a relative path with fewer than two '/' loses its first character, Example C13_source_oddity) is excluded by the "
                  "checked hypothesis src_agrees",
                  "oracle texts: strconv ints/floats/bools, Duration.String(), RFC3339 times are taken from the stdlib by the harness; the "
                  "theorem's hypothesis on them (non-empty bare items) is checked on every observed case"],
    assumptions=["colour off; the five valid levels; WithGroup names non-empty (Logger.WithGroup ignores the empty name)",
                 "an error / TextMarshaler / Stringer value is its resulting text; for a method that panics the text is '<nil>' (nil pointer "
                 "receiver) or '!PANIC: <panic value>' as logger/handler.go panicText defines it (exercised, expected text computed by the harness)"],
)
CFG["manifest"] = dict(
    text=("Proof: Coq theorem C13_text_line_faithful — for every oracle triple, every With/WithGroup chain and every record (arbitrary "
          "bytes in message, keys, group names, values; arbitrary attribute trees) the model's Handle output is one newline-terminated "
          "line whose body the key=value tokenizer reads back as exactly time, level, [source], msg and the (dotted path, value) pairs. "
          "Tie: the real handler is run on exhaustive small string domains in every position, long inputs, every Logger method with source "
          "on, malformed argument lists and random trees/chains; each written "
          "line is tokenized by the extracted tokenizer and compared with the expected pairs, and byte-compared with the model."),
    note=("Trusted: Coq kernel; the tokenizer as the reading of the line format (unquote cross-checked against strconv.Unquote); "
          "extraction + OCaml glue (cross-checked by vm_compute sample); Go harness; Unicode tables as dumped from the toolchain."),
    technique="Coq proof (round-trip quote/unquote, induction over attribute trees) + differential correspondence with table oracles",
)

import tables  # constant tables / literals of the current source proved equal to the model's on every run (lib/tables.py)
CFG["secondary"] = CFG.get("secondary", []) + [tables.C13_TABLES]
