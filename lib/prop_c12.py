import facts
from prop_c11 import c11_obs
from props_common import HARNESS_TB, EXTRACT_TB


def c12_casesv(lines):
    rows = []
    for l in lines:
        toks = l.split()[1:]
        rows.append("final_ok (check_final [\n    " + ";\n    ".join(c11_obs(t) for t in toks) + "])")
    return ("From Coq Require Import List NArith.\nImport ListNotations.\n"
            "From Glb Require Import Lib.NetIP Check.C11 Check.C12.\nOpen Scope N_scope.\n"
            "Definition verdicts : list bool := [\n  " + ";\n  ".join(rows) +
            "].\nEval vm_compute in verdicts.\n")


def c12_sig(line):
    f = line.split()
    return f[1] if len(f) > 1 and f[0] == "VIOL" else ""


def smoke386(tier):
    """The same harness built for a 32-bit target (GOARCH=386, no race detector there) and run for about a second:
    alignment-dependent crashes of 64-bit atomics and anything else that only breaks on 32-bit shows up as a
    panic / crash VIOL line.  Not an obligation; its VIOL lines are violations with the line as replay."""
    import hashlib, os, shutil
    import vcheck as V
    cov = {}
    tag = "" if V.REPO == "/repo" else "_" + hashlib.sha1(V.REPO.encode()).hexdigest()[:8]
    exe = os.path.join(V.BUILD, "h_c12_386" + tag)
    hdir = os.path.join(V.VERIF, "harness")
    with V.Lock("go" + tag):
        modfile = os.path.join(hdir, "go.mod")
        if tag:
            md = os.path.join(V.BUILD, "gomod" + tag)
            os.makedirs(md, exist_ok=True)
            modfile = os.path.join(md, "go.mod")
            open(modfile, "w").write(open(os.path.join(hdir, "go.mod")).read().replace("=> /repo", "=> " + V.REPO))
        try:
            shutil.copyfile(os.path.join(V.REPO, "go.sum"), modfile[:-4] + ".sum")
        except OSError:
            pass
        env = dict(V.GOENV, GOARCH="386", CGO_ENABLED="0")
        rc, out, dt = V.run(["go", "build", "-modfile=" + modfile, "-tags", "verif", "-o", exe, "./cmd/c12"], cwd=hdir, env=env, timeout=900)
    if rc != 0:
        cov["smoke_386"] = {"built": False, "note": "GOARCH=386 build not possible here: " + out.strip()[-300:]}
        return 0, 0, [], cov
    d = os.path.join(V.BUILD, "smoke386-%d" % os.getpid())
    shutil.rmtree(d, ignore_errors=True)
    problems = []
    try:
        rc, out, dt = V.run([exe, "-out", d, "-tier", "quick", "-seed", "1"], env=dict(os.environ, VERIF_C12_SMOKE="1"), timeout=600)
        viol = []
        try:
            viol = [l.strip() for l in open(os.path.join(d, "cases.txt"), errors="replace") if l.startswith("VIOL ")]
        except OSError:
            pass
        cov["smoke_386"] = {"built": True, "rc": rc, "wall_s": round(dt, 1), "viol_lines": len(viol)}
        if rc != 0 and not viol:
            if "exec format" in out or "cannot execute" in out:
                cov["smoke_386"]["note"] = "32-bit binaries cannot be executed on this host"
            else:
                problems.append(("tie", "GOARCH=386 smoke pass of the C12 harness failed: " + out.strip()[-300:], {"broken": "386 smoke", "output_tail": out[-2000:]}))
        for l in viol[:5]:
            problems.append(("specfail", "on GOARCH=386: " + l[:300], {"case": "GOARCH=386 " + l, "sig": "386-" + c12_sig(l)}))
    finally:
        shutil.rmtree(d, ignore_errors=True)
    return 0, 0, problems, cov


ID = "C12"
CFG = dict(
    propfile="Properties/C12.v",
    coq_deps=["Lib/NetIP", "Lib/CidrSet", "Model/Filter", "Proofs/FilterP", "Model/FilterConc", "Proofs/FilterConcP",
              "Properties/C12", "Check/C11", "Check/C12", "Lib/Lockset", "Proofs/LocksetP"],
    ocaml="c12",
    race=True,
    casesv=c12_casesv,
    coq_sample={"quick": 5, "thorough": 20},
    static=[facts.C12_FACTS, smoke386],
    sig=c12_sig,
    harness_timeout={"quick": 300, "thorough": 3600},
    rule=("one case = one round on a fresh IPv4Filter (quick: >= 220 churn rounds + 2200 switch rounds, thorough: >= 3000 + 30000): "
          "pre-filled sequentially to 232..256 list slots (10%: exactly 256, 5%: 150..249) so that the 257th Add - the migration - happens "
          "once per round under contention; 4-16 writer goroutines with their own ranges (add / remove / re-add / duplicates / absent removals, host bits set, a few "
          "invalid arguments), in 30% of the rounds one more writer toggling 0.0.0.0/0, 4-8 reader goroutines probing stable ranges "
          "(must be true), never-covered addresses incl. the outside neighbours of stable ranges (must be false while /0 is certainly off), every probe while /0 is "
          "certainly on per the toggler's epoch word (must be true) and ranges in churn bracketed by the owner's "
          "published epoch/state word (present throughout -> true, absent throughout -> false), in 4- and 16-byte form; after the churn "
          "one history line (pre-fill, then each writer's calls in program order, then probes of every owned range and a sample of "
          "stable ones) judged by the extracted Coq function. Schedules come from the Go scheduler only (stress, -race): partial for the "
          "schedule quantifier"),
    trusted_base=[HARNESS_TB, EXTRACT_TB,
                  "the Go race detector (-race) for the memory-level half: it reports races on the schedules that happened; the lockset "
                  "obligation (Lib/Lockset.v on the access table extracted from the source by gen/glbfacts) covers all schedules, trusting the extractor",
                  "atomicity of the lock-protected sections in Model/FilterConc.v rests on that lock discipline (sync.RWMutex, atomic.Bool of the Go runtime)"],
    assumptions=["partial for the schedule quantifier: the harness cannot gate inside Add/Remove/Contains (no callbacks), schedules are explored by stress only; "
                 "the theorems quantify over all interleavings of the model's atomic sections",
                 "each write-locked section (incl. the migration) and each read-locked scan is one atomic step; the matchAll flag is one atomic cell "
                 "(justified by the lockset obligation on the current source, not by the interleaving model itself)",
                 "sequentially consistent atomics and mutexes (Go memory model for race-free programs)",
                 "C12_quiescent assumes threads update disjoint ranges (as the property says: writers own their ranges); C12_linearisable holds without it",
                 "state carried across update counts: only exactly 2^16 and 2^24 updates between two lookups are exercised (thorough tier); counter wrap-arounds "
                 "beyond 2^24 (2^32 in particular, ~20 minutes of pure updates) are not exercised",
                 "32-bit targets: only a short GOARCH=386 pass without race detector; other 32-bit architectures (arm, mips) not run",
                 "goroutine fairness / starvation of writers by readers is the runtime's (sync.RWMutex) and not modelled; C12_no_stuck only says the model never deadlocks"],
)
CFG["manifest"] = dict(
    text=("Proof: an interleaving semantics over the sequential model (labels: RejectArg, StoreMatchAll, LockedAdd, LockedRemove, LoadMatchAll, "
          "LockedScan) with the linearised update history as ghost state; a panic inside an atomic section sets the crashed flag. C12_no_crash: no execution "
          "reaches a crashed state (no section panics). C12_lookup_sound: for every execution and every Contains call, a range "
          "(0.0.0.0/0 or a prefix) live at every state during the call that contains the probe forces true, and no live range containing it at "
          "any state during the call forces false. C12_quiescent: when all threads have finished the filter answers as the set obtained by applying "
          "each thread's updates in program order, thread after thread, for threads owning disjoint ranges (via C11's refinement relation kept as an "
          "invariant of every reachable state; C12_linearisable without the ownership hypothesis). C12_no_stuck / C12_terminates: no deadlock, finite executions. "
          "Data-race freedom: lockset discipline checked by vm_compute on the access table extracted from the current source and lifted by "
          "Proofs/LocksetP.discipline_sound. Tie: stress rounds under -race with assertions on stable / never-covered / epoch-bracketed probes "
          "and a final-membership history per round judged by the extracted Coq function."),
    note=("Partial for the schedule quantifier: real schedules are sampled by stress, not forced. Trusted: Coq kernel; the hand-written models; "
          "gen/glbfacts (source -> access table); the Go race detector; extraction + OCaml glue (cross-checked by vm_compute on sampled lines); Go harness."),
    technique="Coq proof (LTS invariants, refinement reused from C11, lockset discipline) + stress correspondence under the race detector",
)

import tables  # constant tables / literals of the current source proved equal to the model's on every run (lib/tables.py)
CFG["secondary"] = CFG.get("secondary", []) + [tables.C12_TABLES]
