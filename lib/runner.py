"""Generic flow of one check; per-property configuration lives in props.py."""
import json
import os
import random
import re
import shutil
import sys
import time

import vcheck as V
import props

KERNEL_TB = [
    "Coq 8.16.1 kernel (coqc); vm_compute used for finite sweeps / cases.v; no native_compute",
    "coqchk re-check of the .vo closure in the thorough tier",
]


def main(pid, tier, seed, replay):
    t0 = time.time()
    cfg = props.PROPS.get(pid)
    if cfg is None:
        print("unknown property", pid)
        return 2
    if replay:
        return replay_case(pid, cfg, replay)
    problems = []      # (kind, text, replay_payload) kind in specfail|tie|proof
    notes = []
    cov = {}

    # 1. forbidden vernacular
    hits = V.forbidden_scan()
    if hits:
        problems.append(("proof", "forbidden vernacular in the development: " + "; ".join(hits[:5]),
                         {"broken": "forbidden vernacular", "hits": hits}))

    # 2. Coq build of this property's closure (property file, check function and everything they import)
    targets = cfg.get("coq_targets") or [cfg["propfile"][:-2] + ".vo", "Check/%s.vo" % pid]
    ok, log, failing = V.build_coq(targets)
    relevant_fail = []
    if not ok:
        relevant_fail = ["%s:%s" % (f, line) for f, line in failing] or ["?"]
        tail = "\n".join(log.strip().splitlines()[-25:])
        problems.append(("proof", "Coq build failed at " + ", ".join(relevant_fail),
                         {"broken": "coq build", "files": relevant_fail, "log_tail": tail}))

    # 3. theorems + assumptions
    obligations, discharged, assumptions = 0, 0, {}
    if not relevant_fail:
        aok, res, alog = V.print_assumptions(cfg["propfile"])
        for name, txt in res:
            obligations += 1
            assumptions[name] = txt
            if aok and (txt.startswith("Closed under") or txt.startswith("Axioms:")):
                discharged += 1
            if aok and txt.startswith("Axioms:"):
                allowed = cfg.get("allowed_axioms", [])
                used = re.findall(r"^\s*([A-Za-z0-9_.']+)\s*:", txt, flags=re.M)
                bad = [u for u in used if not any(u.endswith(x) for x in allowed)]
                if bad:
                    problems.append(("proof", "theorem %s depends on undeclared axioms %s" % (name, bad),
                                     {"broken": "axioms", "theorem": name, "axioms": txt}))
        if not aok:
            problems.append(("proof", "property file %s does not compile" % cfg["propfile"],
                             {"broken": cfg["propfile"], "log_tail": "\n".join(alog.strip().splitlines()[-25:])}))
    else:
        src = open(os.path.join(V.COQ, cfg["propfile"])).read()
        obligations = len(re.findall(r"^\s*(?:Theorem|Corollary)\s+", src, flags=re.M))

    # 4. property-specific static obligations generated from the current source.
    #    `static`   : PRIMARY obligations (lock/atomic disciplines, action order, handler shapes): what they establish cannot be
    #                 shown dynamically, so a failure is a broken proof obligation (=> no-failing-input-found unless an input is found).
    #    `secondary`: ADDITIONAL ties (regenerated model by translation, source constant tables). The property is already shown by
    #                 the primary route (theorems about the hand model + correspondence on pi); when only a secondary tie fails and
    #                 the correspondence agrees on everything explored, that is recorded (evidence, NOTE line) but is not a violation.
    sec_obl = sec_dis = 0
    sec_problems = []
    for fn in cfg.get("static", []):
        o, d, probs, c = fn(tier)
        cov.update(c)
        unrec = [p for p in probs if p[0] == "unrecognised"]
        rest = [p for p in probs if p[0] != "unrecognised"]
        if unrec and not rest:
            # the extractor could not READ the source shape (it did not find the discipline violated). Where the property's
            # statement is fully judged by the dynamic correspondence (C02, C03) this is recorded like a broken secondary tie.
            obligations += d
            discharged += d
            sec_obl += o - d
            sec_problems += [("tie", t, pl) for _, t, pl in unrec]
        else:
            obligations += o
            discharged += d
            problems += [("tie", t, pl) if k == "unrecognised" else (k, t, pl) for k, t, pl in probs]
    for fn in cfg.get("secondary", []):
        o, d, probs, c = fn(tier)
        sec_obl += o
        sec_dis += d
        sec_problems += probs
        cov.update(c)
    cov["secondary_obligations"] = sec_obl
    cov["secondary_discharged"] = sec_dis
    if sec_problems:
        cov["secondary_ties_broken"] = [t for _, t, _ in sec_problems]

    # 5. correspondence: harness on the real code, judged by the extracted Coq check function
    tie = {}
    if cfg.get("harness", True):
        tie = run_tie(pid, cfg, tier, seed, replay, problems, notes)
        cov.update(tie)

    # 6. thorough: coqchk
    if tier == "thorough" and not relevant_fail and cfg.get("coqchk", True):
        mods = cfg["propfile"][:-2].replace("/", ".")
        with V.Lock("coq"):
            rc, out, dt = V.run(["coqchk", "-silent", "-o", "-Q", ".", "Glb", "Glb." + mods], cwd=V.COQ, timeout=3000)
        cov["coqchk"] = {"rc": rc, "wall_s": round(dt, 1), "tail": out.strip().splitlines()[-12:]}
        if rc != 0:
            problems.append(("proof", "coqchk rejected the compiled property closure", {"broken": "coqchk", "tail": out[-2000:]}))

    # a broken secondary tie: supporting detail when something else is wrong, a note otherwise
    if sec_problems:
        if problems:
            notes += ["secondary tie also broken: " + t for _, t, _ in sec_problems]
        else:
            notes += ["NOTE secondary tie broken (not a violation: primary theorems and the correspondence on pi hold): " + t
                      for _, t, _ in sec_problems]

    # ---- verdict
    known, fixed = V.load_known()
    violations = 0
    lines = []
    seen_known = set()
    spec = [p for p in problems if p[0] == "specfail"]
    others = [p for p in problems if p[0] != "specfail"]
    for kind, text, payload in spec:
        sig = payload.get("sig", "")
        k = next((k for k in known if k["property"] == pid and k["sig"] == sig), None)
        if k:
            if sig not in seen_known:
                lines.append("KNOWN-FINDING: property=%s %s" % (pid, k["what"]))
                seen_known.add(sig)
            continue
        violations += 1
        if violations <= 3:
            path = V.write_replay(pid, dict(payload, property=pid, what=text, seed=seed, tier=tier))
            lines.append("VIOLATION property=%s replay=%s" % (pid, path))
    if others and violations == 0:
        # a proof obligation or the correspondence no longer checks and no failing input was found
        for kind, text, payload in others[:3]:
            violations += 1
            path = V.write_replay(pid, dict(payload, property=pid, what=text, seed=seed, tier=tier,
                                            note="no failing input found: this names the theorem / correspondence that no longer checks"))
            lines.append("VIOLATION property=%s replay=%s no-failing-input-found" % (pid, path))
    elif others:
        notes += ["also broken: " + t for _, t, _ in others]

    wall = time.time() - t0
    cov.update({
        "obligations": max(obligations, 1),
        "discharged": discharged,
        "checker_cmd": "make -C coq -j16 && coqc -Q coq Glb coq/%s" % cfg["propfile"],
        "trusted_base": KERNEL_TB + cfg.get("trusted_base", []),
        "print_assumptions": assumptions,
        "notes": notes,
    })
    ev = {
        "property_id": pid, "tier": tier, "seed": seed, "level": "proof",
        "coverage": cov,
        "assumptions": cfg.get("assumptions", []),
        "wall_s": round(wall, 2),
        "violations": violations,
    }
    V.write_evidence(pid, ev)
    for l in lines:
        print(l)
    for _, t, _ in (spec + others)[:10]:
        print("  detail:", t[:400])
    for n in notes:
        if n.startswith("NOTE "):
            print("  " + n[:400])
    print("%s %s tier=%s seed=%d obligations=%d/%d secondary=%d/%d cases=%s drift=%s wall=%.1fs" % (
        pid, "OK" if violations == 0 else "FAIL", tier, seed, discharged, obligations, sec_dis, sec_obl,
        cov.get("evaluations", "-"), cov.get("byte_drift", "-"), wall))
    return 0 if violations == 0 else 1


def replay_case(pid, cfg, path):
    """Re-judge the recorded observation of a replay file with the extracted Coq check function
    (and show what the violation was). The replay file also carries seed and tier: running
    `VERIF_SEED=<seed> ./check <id> --tier <tier>` regenerates the same inputs against the current tree."""
    rp = json.load(open(path))
    print("replay of %s: %s" % (pid, rp.get("what", "")[:300]))
    case = rp.get("case")
    if not case or not cfg.get("ocaml") or case.startswith(("VIOL ", "SHELLFAIL ")):
        print(json.dumps({k: v for k, v in rp.items() if k != "log_tail"}, indent=1)[:3000])
        print("to re-run against the current tree: VERIF_SEED=%s ./check %s --tier %s" % (rp.get("seed"), pid, rp.get("tier")))
        return 1
    ok, out = V.build_ocaml(cfg["ocaml"], cfg.get("coq_targets") or ["Check/%s.vo" % pid])
    d = os.path.join(V.BUILD, "replay-%s-%d" % (pid, os.getpid()))
    os.makedirs(d, exist_ok=True)
    try:
        open(os.path.join(d, "cases.txt"), "w").write(case + "\n")
        rc, out, dt = V.run([os.path.join(V.VERIF, "ocaml", cfg["ocaml"], "drv"), os.path.join(d, "cases.txt")] + cfg.get("drv_args", []))
        print(out.strip())
        bad = any(l.startswith(("SPECFAIL", "MISMATCH")) for l in out.splitlines())
        if bad:
            print("VIOLATION property=%s replay=%s" % (pid, path))
        return 1 if bad else 0
    finally:
        shutil.rmtree(d, ignore_errors=True)


def run_tie(pid, cfg, tier, seed, replay, problems, notes):
    cov = {}
    rundir = os.path.join(V.BUILD, "run-%s-%d" % (pid, os.getpid()))
    shutil.rmtree(rundir, ignore_errors=True)
    os.makedirs(rundir)
    try:
        ok, out = V.build_ocaml(cfg["ocaml"], cfg.get("coq_targets") or ["Check/%s.vo" % pid]) if cfg.get("ocaml") else (True, "")
        if not ok:
            problems.append(("tie", "extraction / OCaml driver build failed", {"broken": "ocaml build", "log_tail": out[-3000:]}))
            return cov
        ok, out, exe = V.build_harness(pid, cfg.get("race", False))
        if not ok:
            problems.append(("tie", "harness does not build against /repo (API changed?)",
                             {"broken": "harness build", "log_tail": out[-3000:]}))
            return cov
        cmd = [exe, "-out", rundir, "-tier", tier, "-seed", str(seed)]
        corpus = os.path.join(V.VERIF, "corpus", pid)
        if os.path.isdir(corpus):
            cmd += ["-corpus", corpus]
        if replay:
            cmd += ["-replay", replay]
        env = dict(os.environ, VERIF_DIR=V.VERIF)
        rc, out, dt = V.run(cmd, timeout=cfg.get("harness_timeout", {"quick": 600, "thorough": 7200})[tier], env=env)
        cov["harness_wall_s"] = round(dt, 1)
        stats = {}
        sp = os.path.join(rundir, "stats.json")
        if os.path.exists(sp):
            stats = json.load(open(sp))
        if rc != 0:
            problems.append(("tie", "harness failed (rc=%d): %s" % (rc, out.strip()[-600:]),
                             {"broken": "harness run", "rc": rc, "output_tail": out[-3000:], "stats": stats}))
            if rc != 3:
                return cov
        cases = os.path.join(rundir, "cases.txt")
        # violations reported by the harness itself (real shells, monitors, oracles on the Go side)
        nviol = 0
        with open(cases, errors="replace") as f:
            for line in f:
                if line.startswith(("VIOL ", "SHELLFAIL ")):
                    nviol += 1
                    if nviol <= 20:
                        problems.append(("specfail", "implementation violates the oracle: " + line.strip()[:300],
                                         {"case": line.strip(), "sig": sig_of(cfg, line)}))
        # the Coq check function, extracted
        drvstats = {}
        if cfg.get("ocaml"):
            drv = os.path.join(V.VERIF, "ocaml", cfg["ocaml"], "drv")
            rc, out, dt = V.run([drv, cases] + cfg.get("drv_args", []), timeout=cfg.get("drv_timeout", 3600))
            cov["driver_wall_s"] = round(dt, 1)
            if rc != 0:
                problems.append(("tie", "extracted driver failed: " + out[-500:], {"broken": "driver run", "output_tail": out[-3000:]}))
            nspec = nmis = 0
            failing_lines = set()
            specfails = []
            for line in out.splitlines():
                if line.startswith("SPECFAIL "):
                    nspec += 1
                    failing_lines.add(case_key(line[9:]))
                    if len(specfails) < 5000:
                        specfails.append(line[9:])
                elif line.startswith("MISMATCH "):
                    nmis += 1
                    failing_lines.add(case_key(line[9:]))
                    if nmis <= 5:
                        problems.append(("tie", "model and implementation disagree on the property's projection: " + line[9:][:300],
                                         {"broken": "correspondence " + pid, "case": line[9:]}))
                elif line.startswith("DRIFT "):
                    failing_lines.add(case_key(line[6:]))
                elif line.startswith("STATS "):
                    for kv in line[6:].split():
                        if "=" in kv:
                            k, v = kv.split("=", 1)
                            try:
                                drvstats[k] = int(v)
                            except ValueError:
                                drvstats[k] = v
            # report the smallest failing cases first (cheap shrinking: shortest case lines)
            specfails.sort(key=len)
            for c in specfails[:20]:
                problems.append(("specfail", "specification fails on the implementation's output: " + c[:300],
                                 {"case": c, "sig": sig_of(cfg, c), "failing_cases_total": nspec}))
            cov["driver"] = drvstats
            cov["byte_drift"] = drvstats.get("drift", 0)
            # in-Coq re-evaluation of a sample
            if cfg.get("casesv") and not replay:
                nsample = cfg.get("coq_sample", {"quick": 150, "thorough": 600})[tier]
                sample = sample_lines(cases, cfg.get("case_tags", ("E",)), nsample, seed)
                if sample:
                    text = cfg["casesv"](sample)
                    rc, cout, dt = V.coq_eval(pid, text)
                    cov["coq_vm_compute_sample"] = len(sample)
                    cov["coq_vm_compute_wall_s"] = round(dt, 1)
                    bools = re.findall(r"\b(true|false)\b", cout.split("=", 1)[1]) if (rc == 0 and "=" in cout) else None
                    if bools is None or len(bools) != len(sample):
                        problems.append(("tie", "in-Coq evaluation of the sample failed",
                                         {"broken": "cases.v", "output_tail": cout[-1500:]}))
                    else:
                        dis = 0
                        for l, b in zip(sample, bools):
                            drv_ok = case_key(l) not in failing_lines
                            if drv_ok != (b == "true"):
                                dis += 1
                                if dis <= 3:
                                    problems.append(("tie", "extracted code and vm_compute disagree on " + l[:200],
                                                     {"broken": "extraction cross-check", "case": l}))
                        cov["coq_vs_extraction_disagreements"] = dis
        # coverage numbers
        ev = stats.get("cases", drvstats.get("cases", 0))
        cov["evaluations"] = int(ev) if isinstance(ev, (int, float)) else 0
        cov["traces_validated_against_impl"] = cov["evaluations"]
        dn = stats.get("distinct_nontrivial")
        cov["distinct_nontrivial"] = int(dn) if isinstance(dn, (int, float)) else count_distinct(cases)
        cov["rule"] = cfg.get("rule", "")
        cov["samples"] = stats.get("samples", [])[:8] or ["(see input_distribution)"]
        cov["input_distribution"] = {k: v for k, v in stats.items() if k not in ("samples",)}
        cov["exhaustive"] = bool(stats.get("exhaustive", False))
        cov["spec_failures"] = len([p for p in problems if p[0] == "specfail"])
        return cov
    finally:
        shutil.rmtree(rundir, ignore_errors=True)


def case_key(line):
    return line.strip()


def sig_of(cfg, line):
    f = cfg.get("sig")
    return f(line) if f else ""


def count_distinct(path):
    seen = set()
    with open(path, errors="replace") as f:
        for line in f:
            seen.add(hash(line))
    return len(seen)


def sample_lines(path, tags, n, seed):
    rnd = random.Random(seed)
    res = []
    i = 0
    with open(path, errors="replace") as f:
        for line in f:
            if not line.startswith(tuple(t + " " for t in tags)):
                continue
            line = line.strip()
            i += 1
            if len(res) < n:
                res.append(line)
            else:
                j = rnd.randrange(i)
                if j < n:
                    res[j] = line
    return res
