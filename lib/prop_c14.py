import facts
from tl_common import TL_DEPS, TL_TB, TL_ASSUME, TL_RULE_COMMON, tl_casesv, tl_sig

ID = "C14"
CFG = dict(
    propfile="Properties/C14.v",
    coq_deps=TL_DEPS + ["Properties/C14", "Check/C14", "Lib/Lockset", "Proofs/LocksetP"],
    static=[facts.C14_FACTS],
    ocaml="tasklane",
    race=True,
    casesv=tl_casesv,
    case_tags=("HS",),
    coq_sample={"quick": 20, "thorough": 60},
    sig=tl_sig,
    harness_timeout={"quick": 300, "thorough": 3600},
    rule=TL_RULE_COMMON + "C14 families (panics, Status bounds and exactness, races): Task values of every dynamic type (pointer, func adapter, structs with slice/map fields, equal comparable values, zero-size values) each started exactly once with LastPanic staying nil; panics of 6 dynamic types one after the other on one lane then a normal task; panics on every worker at the same instant while Status() is polled (recorded and unrecorded); exact PendingTask with every worker pinned and k = 1..laneSize*(queueSize+1) accepted tasks, also with one producer per lane blocked in PushTask; queue goroutine parked after take+count (PendingTask = 1); concurrency after panics; 300 small + 50 big stress runs with 30-40% panicking tasks and 1-3 Status() pollers (thorough x10); all under -race, each family in a process of its own",
    trusted_base=TL_TB,
    assumptions=TL_ASSUME,
)
CFG["manifest"] = dict(
    text=("Proof: Coq theorems over the TaskLane LTS (Model/TaskLane.v: any laneSize, any queueSize incl. 0, any number of producers and "
          "Status() observers, every interleaving): C14_panic_contained / C14_worker_survives / C14_last_panic_real / C14_status_panic_real / C14_pending_bounds / C14_pending_balance / C14_pending_exact / C14_status_never_blocks (see Properties/C14.v for the full list and statements). "
          "Tie: the real tasklane package is driven through a gate Context (parks the lane's goroutines and PushTask callers at their "
          "ctx.Done()/Err() call sites, no source hooks) and gate Tasks; every run's API-level history is judged by the extracted monitors "
          "(the property evaluated on the implementation) and by a belief-set acceptor over the model's step function (the model covers the "
          "observed behaviour); liveness expectations are judged by the scenario engine with a 5 s bound; built with -race."),
    note=("Partial for the liveness halves (real time, fairness: bounded waiting on explored schedules) and for the schedule quantifier "
          "(park points + stress, not all interleavings of the real code). Trusted: Coq kernel; the hand-written model (tied differentially, "
          "not by translation); Check/TaskLane.v monitors; extraction + OCaml glue (cross-checked by vm_compute on sampled short histories); "
          "Go harness, race detector."),
    technique="Coq proof (LTS invariants, measure) + scenario/stress correspondence with trace validation against the model, -race",
)
