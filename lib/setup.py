import os
import sys
import time
import concurrent.futures as cf

sys.path.insert(0, os.path.dirname(os.path.abspath(__file__)))
import vcheck as V  # noqa: E402
import props  # noqa: E402

t0 = time.time()
os.makedirs(V.BUILD, exist_ok=True)
if "--clean" in sys.argv:
    V.run(["sh", "-c", "find . -name '*.vo' -o -name '*.vos' -o -name '*.vok' -o -name '*.glob' -o -name '.*.aux' | xargs rm -f"], cwd=V.COQ)
ok, log, failing = V.build_coq(timeout=3400)
print("coq build:", "ok" if ok else "FAILED %s" % failing, "%.0fs" % (time.time() - t0))
if not ok:
    print(log[-3000:])


def one(pid):
    cfg = props.PROPS[pid]
    msgs = []
    if cfg.get("ocaml"):
        o, out = V.build_ocaml(cfg["ocaml"], cfg.get("coq_targets") or ["Check/%s.vo" % pid])
        msgs.append("ocaml %s" % ("ok" if o else "FAILED\n" + out[-1500:]))
    if cfg.get("harness", True):
        o, out, exe = V.build_harness(pid, cfg.get("race", False))
        msgs.append("harness %s" % ("ok" if o else "FAILED\n" + out[-1500:]))
    return pid, msgs


bad = not ok
with cf.ThreadPoolExecutor(max_workers=8) as ex:
    for pid, msgs in ex.map(one, sorted(props.PROPS)):
        print(pid, "; ".join(msgs))
        bad = bad or any("FAILED" in m for m in msgs)
print("setup done in %.0fs" % (time.time() - t0))
# every check rebuilds what it needs and reports its own breakage: a partial failure here must not stop the others
sys.exit(0)
