"""Shared by prop_c06 / prop_c07 / prop_c08 / prop_c14 (TaskLane): history line -> Coq term, common CFG parts."""
from props_common import HARNESS_TB, EXTRACT_TB

TL_DEPS = ["Model/TaskLane", "Proofs/TaskLaneP", "Proofs/TaskLaneInv", "Proofs/TaskLaneStatus", "Proofs/TaskLaneLive",
           "Proofs/TaskLaneDec", "Check/TaskLane"]


def _nat(s):
    i = int(s)
    if i < 0:
        raise ValueError(s)
    return str(i)


def tl_event(tok):
    f = tok.split(":")
    k = f[0]
    if k == "B" and len(f) == 4:
        return "EB %s %s %s" % (_nat(f[1]), _nat(f[2]), _nat(f[3]))
    if k == "R" and len(f) >= 3:
        r = {"ok": "(Some ROk)", "ctx": "(Some RCtxErr)", "to": "(Some RTimeout)", "rej": "(Some RTimeout)"}.get(f[2], "None")
        return "ER %s %s" % (_nat(f[1]), r)
    if k == "S" and len(f) == 2:
        return "ES %s" % _nat(f[1])
    if k == "F" and len(f) == 3:
        if f[2] == "ret":
            return "EF %s None" % _nat(f[1])
        if f[2] == "pnil":
            return "EF %s (Some 0)" % _nat(f[1])
        if f[2].startswith("p") and len(f[2]) > 1:
            return "EF %s (Some %s)" % (_nat(f[1]), _nat(f[2][1:]))
    if tok == "Xb":
        return "EXb"
    if tok == "Xe":
        return "EXe"
    if k == "Qb" and len(f) == 2:
        return "EQb %s" % _nat(f[1])
    if k == "Qe" and len(f) == 4:
        v = "LNone" if f[3] == "-" else "LForeign" if f[3] == "x" else "(LVal %s)" % _nat(f[3])
        return "EQe %s %s %s" % (_nat(f[1]), _nat(f[2]), v)
    if tok == "W":
        return "EW"
    if k == "Z" and len(f) == 2:
        return "EZ %s" % _nat(f[1])
    raise ValueError(tok)


def tl_casesv(lines, verdict="verdict_ok", check="check_history"):
    """HS lines (short histories) -> cases.v: the same verdict as the extracted driver (monitors and acceptor)."""
    rows = []
    for l in lines:
        f = l.split()
        try:
            evs = "; ".join(tl_event(t) for t in f[3:])
            rows.append(verdict + " (" + check + " %s %s default_fuel [%s])" % (_nat(f[1]), _nat(f[2]), evs))
        except ValueError:
            rows.append("false")  # a token outside the format: the driver reports it as SPECFAIL
    return ("From Coq Require Import List.\nImport ListNotations.\nFrom Glb Require Import Model.TaskLane Check.TaskLane.\n"
            "Definition verdicts : list bool := [\n  " + ";\n  ".join(rows) + "].\nEval vm_compute in verdicts.\n")


def tl_casesv_lax(lines):
    """C06 / C07 / C08: after Wait() only PendingTask <= accepted - started (driver flag --lax-pending-after-wait)."""
    return tl_casesv(lines, "verdict_ok_lax", "check_history_lax")


def tl_sig(line):
    """signature of a violation line for KNOWN_FINDINGS: the oracle family (race:<accesses> / crash / scenario family)"""
    f = line.split()
    if len(f) > 2 and f[0] == "VIOL":
        if f[1] == "race":
            return "race:" + f[2]
        if f[1] == "crash":
            return "crash:" + f[2]
        return f[1].split("/")[0]
    return ""


TL_TB = [HARNESS_TB, EXTRACT_TB,
         "harness/tl: the gate Context (caller identified by runtime.Callers at its Done()/Err() call sites), gate Tasks, the recorder "
         "(one mutex-ordered event list) and the scenario engine; liveness expectations are judged there with a 5 s bound",
         "the Go race detector (-race, GORACE log files read back by the parent process) and runtime.Stack for the goroutine dump",
         "Check/TaskLane.v: the monitors are my reading of the property statements; the acceptor's reduction (eager silent steps) "
         "was compared with the unreduced acceptor on all short histories and on ~2500 mutated ones (0 disagreements)"]

TL_ASSUME = ["channel operations, atomic counters and the recover handler are atomic steps of the model (Go memory model for race-free programs; "
             "race freedom itself is checked by -race on the explored schedules" ,
             "real time (time.After) and scheduler fairness are outside the model: 'eventually' is checked with a 5 s bound on the explored "
             "schedules, the theorems give 'every maximal run'; partial for the liveness halves in that sense",
             "schedules: park points at every ctx.Done()/Err() call plus the Go scheduler under stress; not every interleaving of the real code is forced"]

TL_RULE_COMMON = ("one case = one history (H/HS: monitors + belief-set acceptor over the model's step; M: monitors only, for histories longer than "
                  "64 events or lanes > 3); scripted scenarios run over laneSize 1-4 x queueSize 0-3; stress runs draw configuration, producers, task kinds "
                  "(instant / yielding / sleeping / panicking with values of 6 dynamic types), timeouts and the cancel moment from VERIF_SEED; "
                  "distinct_nontrivial = distinct history lines; ")
