from tl_common import TL_DEPS, TL_TB, TL_ASSUME, TL_RULE_COMMON, tl_casesv_lax, tl_sig

ID = "C06"
CFG = dict(
    propfile="Properties/C06.v",
    coq_deps=TL_DEPS + ["Properties/C06", "Check/C06"],
    ocaml="tasklane",
    race=True,
    casesv=tl_casesv_lax,
    drv_args=["--lax-pending-after-wait"],
    case_tags=("HS",),
    coq_sample={"quick": 20, "thorough": 60},
    sig=tl_sig,
    harness_timeout={"quick": 300, "thorough": 3600},
    rule=TL_RULE_COMMON + "C06 families (exactly-once, timeouts, progress): Task values of every dynamic type (pointer, func adapter, structs with slice/map fields, equal comparable values, zero-size values) each started exactly once with LastPanic staying nil; pushes that time out against a full lane with every worker pinned (never started), cancel inside every Done()/Err() call PushTask makes (hook: wait for the pushed task to start, cancel, then answer), cancel when every worker is idle again after work, cancel with a task in the queue goroutine's hands (after take+count, before the blocking offer, hand-over in flight), work sharing with a pinned worker, back-to-back New/push/cancel/Wait on one P, 400 small + 40 big stress runs (thorough x10)",
    trusted_base=TL_TB,
    assumptions=TL_ASSUME,
)
CFG["manifest"] = dict(
    text=("Proof: Coq theorems over the TaskLane LTS (Model/TaskLane.v: any laneSize, any queueSize incl. 0, any number of producers and "
          "Status() observers, every interleaving): C06_exactly_once / C06_result_meaning / C06_progress / C06_internal_finite / C06_quiet_finite / C06_all_started (see Properties/C06.v for the full list and statements). "
          "Tie: the real tasklane package is driven through a gate Context (parks the lane's goroutines and PushTask callers at their "
          "ctx.Done()/Err() call sites, no source hooks) and gate Tasks; every run's API-level history is judged by the extracted monitors "
          "(the property evaluated on the implementation) and by a belief-set acceptor over the model's step function (the model covers the "
          "observed behaviour); liveness expectations are judged by the scenario engine with a 5 s bound; built with -race."),
    note=("Partial for the liveness halves (real time, fairness: bounded waiting on explored schedules) and for the schedule quantifier "
          "(park points + stress, not all interleavings of the real code). Trusted: Coq kernel; the hand-written model (tied differentially, "
          "not by translation); Check/TaskLane.v monitors; extraction + OCaml glue (cross-checked by vm_compute on sampled short histories); "
          "Go harness, race detector."),
    technique="Coq proof (LTS invariants, measure) + scenario/stress correspondence with trace validation against the model, -race",
)
