from props_common import HARNESS_TB, EXTRACT_TB


def _parse(line):
    f = line.split()
    assert f[0] == "E"
    ck, nops = int(f[2]), int(f[3])
    ops, sizes = [], []
    i = 4
    for _ in range(nops):
        s, n, k, er, sz = f[i:i + 5]
        i += 5
        ops.append("mk_op %s %s %s %s" % ("true" if s == "1" else "false", n, k, "true" if er == "1" else "false"))
        sizes.append(sz)
    nr = int(f[i])
    rc = f[i + 1:i + 1 + nr]
    closed = f[i + 1 + nr] == "1"
    npc = int(f[i + 2 + nr])
    pieces = f[i + 3 + nr:i + 3 + nr + npc]
    return ck, ops, pieces, sizes, rc, closed


def c19_casesv(lines):
    rows = []
    for l in lines:
        ck, ops, pieces, sizes, rc, closed = _parse(l)
        rows.append("verdict_ok (check_case %d [%s] [%s] [%s] [%s] %s)" % (
            ck, "; ".join(ops), "; ".join(pieces), "; ".join(sizes), "; ".join(rc), "true" if closed else "false"))
    return ("From Coq Require Import List NArith.\nImport ListNotations.\nFrom Glb Require Import Model.Progress Check.C19.\n"
            "Open Scope N_scope.\nDefinition verdicts : list bool := [\n  " + ";\n  ".join(rows) +
            "].\nEval vm_compute in verdicts.\n")


def c19_sig(line):
    f = line.split()
    return f[1] if f and f[0] == "VIOL" and len(f) > 1 else ""


ID = "C19"
CFG = dict(
    propfile="Properties/C19.v",
    coq_deps=["Model/Progress", "Proofs/ProgressP", "Check/C19", "Proofs/ProgressCheckP", "Properties/C19"],
    ocaml="c19",
    race=True,
    casesv=c19_casesv,
    rule=("[scripted failures cycle through 13 error identities: wrapped/bare EINTR, EAGAIN, ErrShortWrite, EOF, deadline and context errors, a temporary timeout, EPIPE ...; the model only knows that the call failed] every script of <= 3 calls over an 8-symbol alphabet of (Write|WriteString, n, reported, err) plus every 4-call script over "
          "4 symbols (thorough: <= 4 calls over 10 symbols), each with 4 wrapped-writer kinds (io.Writer only / + io.StringWriter, "
          "gated / free-running) x 5-6 consumer kinds (absent until Close, fast, slow one-at-a-time with abandoned receives, late, and the "
          "forced schedule 'first update delivered, then busy until Close' confirmed by observation); for the gated kinds also the "
          "consumer that receives the last update, stays busy and polls Size() from its own goroutine while Close() is pending before it "
          "receives again (only when the consumer has received the last call's update, so that the poll is ordered after the writer's "
          "last change of the total); rounds of 100000 one-byte writes by a free-running writer against a consumer receiving as fast "
          "as it can (about 2 s, thorough 20 s); one run (thorough: two) with a consumer arriving 1.5 s (6 s) after Close() was called, beside the sweep; "
          "plus seeded random scripts of 1-40 calls with counts up to 65535; non-trivial = distinct case lines "
          "(script + observed sizes + received sequence)"),
    trusted_base=[HARNESS_TB, EXTRACT_TB,
                  "Go's select-with-default semantics (send case taken iff a receiver is ready) and unbuffered-channel rendezvous as "
                  "written in Model/Progress.v; sum() modelled as one atomic label because pw.size is private to the writing goroutine",
                  "a call that has not returned 1 s after the wrapped writer was released counts as blocked; a call counts as stalled "
                  "when, with nobody receiving, the median latency (gate release -> return, 200 calls, three rounds) exceeds 300 us + 20 x "
                  "the median with a waiting consumer (unchanged code: about 6 us for both); the harness has a wall budget (quick 90 s)"],
    assumptions=["one writer goroutine (Write/WriteString/Close are not called concurrently, Size() is read by the writing goroutine)",
                 "Close is called once, after the last write; a consumer is receiving when Close is called (documented contract, "
                 "theorem C19_close_needs_receiver)",
                 "one consumer at a time receives from Status()",
                 "received sequences are judged by the property's clauses only (non-decreasing, each a Size() after some completed "
                 "call, the last one the final total, then closed); a history that satisfies them but is not a run of the rendezvous "
                 "model (a buffering implementation) is counted as DRIFT, never an alarm",
                 "every wait of the harness is bounded; an expired wait is an outcome (scenario not reached, "
                 "input_distribution.runs_abandoned_*), a violation only where the property says 'never blocks' (Write) or demands "
                 "the final total and the close",
                 "the values Write/WriteString RETURN (n, err handed through from the wrapped writer) are outside the property text: "
                 "the harness only counts deviations (input_distribution.return_value_not_passed_through), it never alarms on them",
                 "a zero-length call that is answered without asking the wrapped writer is accepted (it contributes 0 either way); "
                 "the case line then carries 'reported 0, no error' for it; a non-empty call that does not reach the wrapped writer "
                 "is a violation"],
    sig=c19_sig,
)
CFG["manifest"] = dict(
    text=("Proof: Coq theorems C19_size / C19_received_monotone / C19_never_blocks / C19_select_faithful / C19_close / C19_after_close / "
          "C19_close_needs_receiver / C19_deliveries_need_waiting / C19_progress hold for every script, every consumer behaviour and "
          "every interleaving of the writer/consumer LTS (invariant over label sequences). Tie: the real ProgressWriter is driven with "
          "scripted wrapped writers (short, failing with bytes written, StringWriter or not, gated) and five consumer behaviours under the race detector; "
          "each observed history (Size() after every call, received sequence, closed) is judged by the extracted specification and "
          "replayed as a run of the model."),
    note=("Trusted: Coq kernel; the reading of Go channel semantics in Model/Progress.v; extraction + OCaml glue (cross-checked by "
          "vm_compute sample); Go harness and its 1 s bound for 'blocked'. The model is hand-written and tied differentially."),
    technique="Coq proof (LTS invariant, enabledness + measure) + differential correspondence with gated writers under -race",
)
