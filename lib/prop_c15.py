from props_common import HARNESS_TB, EXTRACT_TB


def _parse(line):
    f = line.split()
    assert f[0] == "E"
    thr, m, reqno, nacts = f[3], f[5], f[6], int(f[7])
    i = 8
    acts = []
    for _ in range(nacts):
        acts.append("mk_act %s %s %s" % (f[i], f[i + 1], f[i + 2]))
        i += 3
    esc, wire, bseen, nbody = f[i] == "1", f[i + 1], f[i + 2] == "1", int(f[i + 3])
    i += 4
    body = f[i:i + nbody]
    i += nbody
    nrec = int(f[i])
    i += 1
    recs = []
    for _ in range(nrec):
        # pv >= 1000 (rendering recognised only loosely) is passed on as it is: the verdict is then false,
        # which is what the runner expects for a line the driver reported as DRIFT
        recs.append("mk_rec " + " ".join(f[i:i + 7]))
        i += 7
    return thr, m, reqno, acts, esc, wire, bseen, body, recs


def c15_casesv(lines):
    rows = []
    for l in lines:
        thr, m, reqno, acts, esc, wire, bseen, body, recs = _parse(l)
        rows.append("verdict_ok (check_case %s (mk_req %s %s 1 %s) [%s] %s %s %s [%s] [%s])" % (
            thr, m, reqno, reqno, "; ".join(acts), "true" if esc else "false", wire, "true" if bseen else "false",
            "; ".join(body), "; ".join(recs)))
    return ("From Coq Require Import List NArith.\nImport ListNotations.\nFrom Glb Require Import Model.Relay Check.C15.\n"
            "Open Scope N_scope.\nDefinition verdicts : list bool := [\n  " + ";\n  ".join(rows) +
            "].\nEval vm_compute in verdicts.\n")


def c15_sig(line):
    f = line.split()
    return f[1] if f and f[0] == "VIOL" and len(f) > 1 else ""


ID = "C15"
CFG = dict(
    propfile="Properties/C15.v",
    coq_deps=["Model/Relay", "Proofs/RelayP", "Check/C15", "Proofs/RelayCheckP", "Properties/C15"],
    ocaml="c15",
    race=True,
    casesv=c15_casesv,
    rule=("every handler script of <= 2 actions (thorough: 3) over a 17-symbol alphabet {header-map only, WriteHeader 200/404/500/599, "
          "body by Write / io.Copy(strings.Reader) / io.Copy(file, 9 KiB), Flush(), FlushError(), Store.Error404 / Error500 / "
          "Redirect(302) / Respond200 / RespondJson, replacing Store.R by a request whose context has expired, cancelling the request's "
          "context} optionally ended by a panic: all 28 value kinds behind prefixes of <= 1 action, 8 "
          "core kinds behind every prefix (kinds: string, error, int, struct, slice, map, nil, typed nil pointer whose Error() "
          "dereferences, non-nil values whose Error / String / MarshalText / MarshalJSON / Format / LogValue panic, errors wrapping "
          "http.ErrAbortHandler via %w and errors.Join, typed nil error whose Unwrap() panics, genuine runtime.Error values (nil map "
          "write, index out of range, nil dereference, divide by zero), chan, func, a 1 MiB and a 64 KiB string, an error with a 40 KiB Error(), a panic 150 frames deep (stack trace > 16 KiB), invalid UTF-8 text) x Nano/Text/JSON "
          "handler (at Info with addSource and colorful each off/on, rotating; at every threshold the Relay of a Logger obtained by "
          "New, With(..), WithGroup(..) and With.WithGroup.With, rotating - the derived attributes and group must be on every record) at Info, through a real HTTP server and by direct ServeHTTP (quick: both modes on one handler per script, rotating, "
          "one mode on the other two; thorough: both on all); scripts of <= 1 action (+ core panic) at thresholds "
          "Debug/Warn/Error/Fatal; seeded random scripts of <= 9 actions with any code 200..599 incl. repeated WriteHeader; methods "
          "GET/POST/PUT/DELETE/PATCH/HEAD/OPTIONS; direct calls whose context is already cancelled / expired at entry (12 %); a raw TCP client "
          "that half-closes after sending the request (net/http cancels the context, the handler waits for that, then returns / writes / "
          "panics; 180 requests); WriteHeader(n) with an int net/http rejects (1000, 42, -1, 0, 99, 100000, -500, 2^40: net/http panics inside "
          "the call before anything is sent, so it is a handler panic before any status was written) as the first write, behind header-map-only "
          "actions, and after a valid status / body / Flush / FlushError / Store helper (where the call is superfluous and ignored), each "
          "followed by nothing / WriteHeader 200 / a body / a panic, three handlers, both modes, all thresholds for the first-write forms; "
          "such codes also in the random scripts (8 % of the WriteHeader actions); matched and unmatched routes; 1..64 requests in flight per batch; "
          "non-trivial = distinct (mode, handler, threshold, route, method, script)"),
    trusted_base=[HARNESS_TB, EXTRACT_TB,
                  "net/http response semantics as written in Model/Relay.v (first WriteHeader wins, implicit 200, no 1xx, a first WriteHeader with a "
                  "code < 100 or > 999 panics with nothing sent) and Go's "
                  "defer/recover order (LIFO; a panic inside a deferred call still runs the remaining defers)",
                  "decoding of log records in the harness (encoding/json for JSON, a key=value tokenizer with strconv.Unquote for Text, "
                  "positional field splitting for Nano); one Write call = one record (C02)",
                  "attribution of records to requests by request id (recorded by the scripted handler through Store.GetID) or by the "
                  "request's unique URI",
                  "server mode: 'a panic escaped' = the server logged 'http: panic serving <addr>' for a connection the request used; a "
                  "client error without such a line is retried once and otherwise reported as a harness error, not as a violation"],
    assumptions=["the log handler's rendering of the panic value is total (never panics) - stated as the hypothesis of C15_relay and "
                 "exercised with hostile values (values whose Error/String/MarshalText/MarshalJSON/Format/LogValue panic, typed "
                 "nils, runtime errors, chan/func, 1 MiB and invalid UTF-8 text); an escape is a violation",
                 "the ERROR record is judged loosely: it must exist, carry the request's id and a non-empty 'panic' text containing the "
                 "value's salient payload; a rendering that differs from today's is counted as DRIFT, never an alarm",
                 "Flush/FlushError are modelled for writers that can flush (net/http's response, httptest's recorder)",
                 "Store.Error404/Error500/Redirect/Respond200/RespondJson are read as http.Error / http.Redirect / WriteHeader+Write / "
                 "json.Encoder over Store.W; the harness expands them into WriteHeader + body actions of the model (http.Redirect writes "
                 "its body only for GET without a Content-Type set earlier)",
                 "a negative int passed to WriteHeader is written as 2000000 - n in the case lines (the model only distinguishes "
                 "'rejected by net/http'); WriteHeader(0) after a header went out (it resets Status) is outside the model's scope",
                 "status codes 200..599, set at most once for the equality 'REQ_END code = code on the wire' (a second WriteHeader is "
                 "kept by ResponseWriter.Status but ignored by net/http: C15_example_double_header); for such scripts neither the "
                 "specification nor the model comparison constrains the code REQ_END carries",
                 "http.ErrAbortHandler itself is outside the property (swallowed silently: C15_abort_handler)",
                 "request ids are unique per Mux (C05); duplicates are reported as violations by the harness"],
    sig=c15_sig,
    coq_sample={"quick": 150, "thorough": 600},
)
CFG["manifest"] = dict(
    text=("Proof: Coq theorems C15_relay / C15_same_id / C15_pairing / C15_above_info / C15_above_error / C15_abort_handler / "
          "C15_needs_total_render / C15_flush_old_refuted / C15_check_accepts_model hold for every handler script, every panic value other than http.ErrAbortHandler, every request and "
          "every interleaving of the record streams of requests with distinct ids, under the explicit assumption that the log handler "
          "renders the panic value without panicking. Tie: the real Mux + Logger.Relay with the three handlers is driven through a real "
          "HTTP server and direct ServeHTTP calls under the race detector with scripted handlers (28 kinds of panic values incl. wrapped "
          "ErrAbortHandler, typed nils and runtime errors; io.Copy bodies, Flush, the Store helpers; 1-64 requests in flight); the status/body the client received and the decoded "
          "records of each request are judged by the extracted specification and compared with the model."),
    note=("Trusted: Coq kernel; the reading of net/http and defer/recover in Model/Relay.v; extraction + OCaml glue (cross-checked by "
          "vm_compute sample); Go harness incl. its log decoders. The model is hand-written and tied differentially."),
    technique="Coq proof (functional model, interleaving lemma) + differential correspondence over real HTTP round trips under -race",
)
