"""Source tables: the DATA of the Go code (constant tables and literals) tied to the Coq models on every run.

`glbfacts <repo> tables` (gen/glbfacts/tables.go; go/ast + go/constant, no go/types) extracts the constant tables
and literals from the CURRENT source of the tree under verification (VERIF_REPO or /repo) as Coq definitions
`<name>_src`.  For one property, tables_static(prop) returns fn(tier) -> (obligations, discharged, problems, coverage)
(the `static=[...]` protocol of lib/runner.py, as in lib/facts.py): it generates a small .v that `Require`s the
property's model files (never imports them: every model name is qualified), defines the extracted tables and proves,
by `vm_compute; reflexivity` on finite domains lifted with the lemmas of coq/Proofs/SourceTablesP.v, that each is
exactly what the MODEL uses (coq/Lib/SourceTables.v holds the checkers and the constants a model has only implicitly).
Every obligation that holds prints its `Print Assumptions`, which must be closed.

These are SECONDARY ties (CFG["secondary"] of lib/runner.py): the property is shown by the theorems about the hand model
and the dynamic correspondence; a failing table obligation is recorded in the evidence and printed as a NOTE, and it is
supporting detail ("secondary tie also broken") when the primary route finds something.

A failing obligation is reported as
    ("tie", "source table <name> no longer equals the model's",
     {"broken": "source tables <prop>", "table": <name>, "extracted": ..., "coq_output_tail": ...})
and the other obligations are still attempted (the generated file is re-run without the failing one).

A table the extractor cannot find or read comes out as `(* MISSING <name>: <why> *)` plus a definition that makes
the obligation fail; a harmless reformatting (hex vs decimal literals, reordered map entries, keyed vs positional
array elements) leaves the extracted values - or, for maps, the finite map - unchanged.

Ready-made: C01_TABLES C02_TABLES C04_TABLES C05_TABLES C09_TABLES C10_TABLES C11_TABLES C12_TABLES C13_TABLES
C16_TABLES  (use as  CFG["secondary"] = CFG.get("secondary", []) + [tables.C11_TABLES]  in the prop module;
`python3 lib/tables.py [C11 ...]` runs the obligations alone, VERIF_REPO honoured).
"""
import os
import re
import subprocess
import time

import vcheck as V

DEF_RE = re.compile(r"^Definition (\w+) : (.+?) := (.*?)\.(?: \(\* (.*) \*\))?$")
MISSING_RE = re.compile(r"^\(\* MISSING (\w+): (.*) \*\)$")

_EXTRACT = {}


def _run_tables():
    """V.run_glbfacts(["tables"]), without the `go build` (and its global lock) when .build/glbfacts is newer than
    every source file of the extractor; any failure of the short cut falls back to the ordinary path."""
    exe = os.path.join(V.BUILD, "glbfacts")
    gdir = os.path.join(V.VERIF, "gen", "glbfacts")
    try:
        srcs = [os.path.join(gdir, f) for f in os.listdir(gdir) if f.endswith(".go") or f == "go.mod"]
        if os.path.getmtime(exe) > max(os.path.getmtime(f) for f in srcs):
            p = subprocess.run([exe, V.REPO, "tables"], stdout=subprocess.PIPE, stderr=subprocess.PIPE, text=True, timeout=60)
            if p.returncode == 0 and p.stdout.rstrip().endswith("*)") and "tasklane" in p.stdout:
                return True, p.stdout
    except (OSError, ValueError, subprocess.SubprocessError):
        pass
    return V.run_glbfacts(["tables"])


def extract():
    """(ok, raw_output, {name: {"type","value","line","missing"}}) - run once per process"""
    if "r" in _EXTRACT:
        return _EXTRACT["r"]
    ok, out = _run_tables()
    defs = {}
    if ok:
        missing = {}
        for line in out.splitlines():
            m = MISSING_RE.match(line)
            if m:
                missing[m.group(1)] = m.group(2)
                continue
            m = DEF_RE.match(line)
            if m:
                defs[m.group(1)] = {"type": m.group(2), "value": m.group(3), "line": line, "comment": m.group(4) or "",
                                    "missing": missing.get(m.group(1))}
    _EXTRACT["r"] = (ok, out, defs)
    return _EXTRACT["r"]


# Proofs/SourceTablesP.vo and what it imports. When these look up to date (each .vo newer than its .v and
# SourceTablesP.vo newer than the others) `make` is not called: it would wait for the build lock that every running
# check holds while it compiles. The property's own models were made by the runner just before the static step.
LIB_CLOSURE = ["Lib/SourceTables", "Lib/RouteBytes", "Model/Router", "Model/ShellEscape", "Proofs/SourceTablesP"]
STALE_RE = re.compile(r"inconsistent assumptions|Cannot find a physical path|not found in loadpath|bad version number|"
                      r"Unable to locate library|Cannot load|checksum", re.I)


def _lib_fresh():
    try:
        mt = {}
        for f in LIB_CLOSURE:
            v = os.path.getmtime(os.path.join(V.COQ, f + ".v"))
            vo = os.path.getmtime(os.path.join(V.COQ, f + ".vo"))
            if vo < v:
                return False
            mt[f] = vo
        top = mt["Proofs/SourceTablesP"]
        return all(top >= m for m in mt.values())
    except OSError:
        return False


class Ob:
    """one obligation: a theorem of the generated file"""

    def __init__(self, thm, table, uses, stmt, proof, needs=(), what="", diag=None):
        self.thm = thm          # theorem name
        self.table = table      # Go-side name of the table / literal
        self.uses = uses        # extracted definitions it mentions
        self.stmt = stmt
        self.proof = proof
        self.needs = needs      # theorems that must hold for this one to be attempted (derived statements)
        self.what = what        # model-side object
        self.diag = diag        # Coq expression evaluated when the obligation fails (where the table differs)


HEADER = ("From Coq Require Import List NArith Bool Arith.\nImport ListNotations.\n"
          "From Glb Require Import Lib.SourceTables Proofs.SourceTablesP.\n")


def gen(requires, prelude, defs, obs, all_obs=None):
    """text of the generated file and, per obligation, its (first, last) line; the extracted tables of
    all_obs are defined (the prelude may mention any of them), the theorems of obs are stated"""
    lines = HEADER.splitlines()
    for r in requires:
        lines.append("From Glb Require %s." % r)
    lines.append("Open Scope N_scope.")
    used = []
    for o in (all_obs or obs):
        for u in o.uses:
            if u not in used:
                used.append(u)
    for u in used:
        d = defs.get(u)
        if d is None:
            lines.append("(* MISSING %s: not printed by the extractor *)" % u)
            lines.append("Definition %s : list N := []." % u)
        else:
            if d["missing"]:
                lines.append("(* MISSING %s: %s *)" % (u, d["missing"]))
            lines.append("Definition %s : %s := %s." % (u, d["type"], d["value"]))
    lines += prelude
    spans = {}
    for o in obs:
        first = len(lines) + 1
        lines.append("Theorem %s : %s." % (o.thm, o.stmt))
        lines.append("Proof. %s Qed." % o.proof)
        lines.append("Print Assumptions %s." % o.thm)
        spans[o.thm] = (first, len(lines))
    return "\n".join(lines) + "\n", spans


def tables_static(prop, requires, obs, prelude=(), build=("Proofs/SourceTablesP.vo",)):
    broken = "source tables " + prop

    def fn(tier):
        t0 = time.time()
        n = len(obs)
        cov = {"source_tables": {"property": prop, "extractor": "gen/glbfacts tables (go/ast + go/constant)",
                                 "obligations": [o.thm for o in obs]}}
        c = cov["source_tables"]
        ok, out, defs = extract()
        if not ok:
            return n, 0, [("tie", "source tables could not be extracted: " + out.strip()[-300:],
                           {"broken": broken, "glbfacts": out[-2000:]})], cov
        c["extracted"] = {u: (defs[u]["value"] if len(defs[u]["value"]) <= 400 else defs[u]["value"][:400] + " ...")
                          for o in obs for u in o.uses if u in defs}
        built = False
        if not _lib_fresh():
            built = True
            bok, blog, _ = V.build_coq(list(build))
            if not bok:
                return n, 0, [("proof", "source-table library does not build",
                               {"broken": "coq build " + " ".join(build), "log_tail": "\n".join(blog.strip().splitlines()[-25:])})], cov
        problems = []
        failed = {}        # thm -> coq output tail
        skipped = []       # derived statements whose premises failed
        alive = list(obs)
        closed = {}
        for o in list(alive):
            # a table the extractor could not read never reaches Coq: the obligation fails, whatever the stand-in value
            if not o.needs and any(u not in defs or defs[u]["missing"] for u in o.uses):
                alive.remove(o)
                failed[o.thm] = "(not attempted: the extractor reports the table as MISSING)"
        runs = 0
        while True:
            # derived statements are attempted only when what they are derived from holds
            for o in list(alive):
                if any(x in failed or x in skipped for x in o.needs):
                    alive.remove(o)
                    skipped.append(o.thm)
            if not alive:
                break
            text, spans = gen(requires, list(prelude), defs, alive, obs)
            rc, cout, dt = V.coq_eval("tables-" + prop, text, timeout=120)
            runs += 1
            if rc != 0 and not built and STALE_RE.search(cout):
                # a compiled library is older than what it depends on: make it (takes the build lock) and try again
                built = True
                bok, blog, _ = V.build_coq(list(build) + ["%s.vo" % r.replace(".", "/") for r in requires])
                if bok:
                    continue
            if rc == 0:
                pa = re.findall(r"Closed under the global context|Axioms:.*?(?=Closed under the global context|Axioms:|\Z)", cout, flags=re.S)
                for o, txt in zip(alive, pa):
                    closed[o.thm] = txt.strip()
                if len(pa) != len(alive):
                    problems.append(("tie", "source tables of %s: the output of the generated Coq file was not understood" % prop,
                                     {"broken": broken, "coq_output_tail": cout[-2000:]}))
                break
            m = re.search(r'File "[^"]*cases\.v", line (\d+)', cout)
            culprit = None
            if m:
                ln = int(m.group(1))
                culprit = next((o for o in alive if spans[o.thm][0] <= ln <= spans[o.thm][1]), None)
            if culprit is None or runs > n + 1:
                # the failure is not inside an obligation (definitions / Require): nothing can be discharged
                problems.append(("tie", "source tables of %s: the generated Coq file did not compile" % prop,
                                 {"broken": broken, "coq_output_tail": cout[-2000:],
                                  "extracted": "\n".join(defs[u]["line"] for o in alive for u in o.uses if u in defs)[:3000]}))
                for o in alive:
                    failed.setdefault(o.thm, "(file did not compile)")
                alive = []
                break
            failed[culprit.thm] = cout.strip()[-1500:]
            alive.remove(culprit)
        by = {o.thm: o for o in obs}
        for thm, tail in failed.items():
            if tail == "(file did not compile)":
                continue
            o = by[thm]
            miss = [defs[u]["missing"] for u in o.uses if u in defs and defs[u]["missing"]]
            miss += ["%s not printed by the extractor" % u for u in o.uses if u not in defs]
            text = "source table %s no longer equals the model's" % o.table
            if o.what:
                text += " (%s; obligation %s)" % (o.what, thm)
            if miss:
                text += " - not found in the source in the expected shape: " + "; ".join(miss)
            differs = None
            if o.diag:
                # where it differs: (length, [(index, source entry, model's value)]) or (source value, model's value)
                dtext, _ = gen(requires, list(prelude), defs, [], obs)
                rc, dout, _ = V.coq_eval("tables-diag-" + prop, dtext + "Eval vm_compute in %s.\n" % o.diag, timeout=120)
                differs = re.sub(r"\s+", " ", dout.strip())[:1500] if rc == 0 else None
            problems.append(("tie", text,
                             {"broken": broken, "table": o.table, "obligation": thm, "statement": o.stmt,
                              "differs_source_vs_model": differs,
                              "extracted": "\n".join(defs[u]["line"] for u in o.uses if u in defs)[:3000],
                              "coq_output_tail": tail}))
        discharged = 0
        for o in obs:
            txt = closed.get(o.thm)
            if txt is None:
                continue
            if txt.startswith("Closed under the global context"):
                discharged += 1
            else:
                problems.append(("tie", "source table obligation %s of %s is not closed under the global context" % (o.thm, prop),
                                 {"broken": broken, "table": o.table, "coq_output_tail": txt[-1500:]}))
        c.update({"discharged": discharged, "failed": sorted(failed), "not_attempted_because_premise_failed": skipped,
                  "print_assumptions": closed, "coq_runs": runs, "wall_s": round(time.time() - t0, 2)})
        return n, discharged, problems, cov

    fn.__name__ = "tables_" + prop
    return fn


# ---- obligations ---------------------------------------------------------------------------------------

def _tab_N(thm, table, src, f, n, what):
    """length src = n /\\ forall i < n, nth i src 0 = f i   (f : a Coq function N -> N)"""
    return Ob(thm, table, [src],
              "length %s = %d%%nat /\\ forall i : N, i < %d -> nth (N.to_nat i) %s 0 = (%s) i" % (src, n, n, src, f),
              "apply (table_is_N_sound %s (%s) %d). vm_compute. reflexivity." % (src, f, n), what=what,
              diag="(length %s, map (fun i => (i, nth i %s 0, (%s) (N.of_nat i))) "
                   "(filter (fun i => negb (nth i %s 0 =? (%s) (N.of_nat i))) (seq 0 %d)))" % (src, src, f, src, f, n))


def _tab_b(thm, table, src, f, n, what):
    return Ob(thm, table, [src],
              "length %s = %d%%nat /\\ forall b : N, b < %d -> nth (N.to_nat b) %s false = (%s) b" % (src, n, n, src, f),
              "apply (table_is_b_sound %s (%s) %d). vm_compute. reflexivity." % (src, f, n), what=what,
              diag="(length %s, map (fun i => (i, nth i %s false, (%s) (N.of_nat i))) "
                   "(filter (fun i => negb (Bool.eqb (nth i %s false) ((%s) (N.of_nat i)))) (seq 0 %d)))" % (src, src, f, src, f, n))


def _eq(thm, table, src, model, what=None):
    return Ob(thm, table, [src], "%s = %s" % (src, model), "vm_compute. reflexivity.", what=what or model,
              diag="(%s, %s)" % (src, model))


LEVEL_USES = ["level_debug_src", "level_info_src", "level_warn_src", "level_error_src", "level_fatal_src", "label_list_src"]


def _labels(mod):
    """the handler writes labelList[level+2] (appendFullLevel, colour off); the model writes level_text"""
    prelude = ["Definition level_src (l : %s.level) : N :=" % mod,
               "  match l with %s.LDebug => level_debug_src | %s.LInfo => level_info_src | %s.LWarn => level_warn_src"
               " | %s.LError => level_error_src | %s.LFatal => level_fatal_src end." % ((mod,) * 5)]
    ob = Ob("tab_level_labels", "labelList / LevelDebug..LevelFatal", LEVEL_USES,
            "forall l, nthN label_list_src (level_src l + 2) [] = %s.level_text l" % mod,
            "intros []; vm_compute; reflexivity.", what="%s.level_text" % mod)
    return prelude, ob


def _filter_obs():
    return [
        _tab_N("tab_ipv4_masks_model", "ipv4Masks", "ipv4_masks_src", "fun i => Model.Filter.mask (i + 1)", 32,
               "Model.Filter.mask: ipv4Masks[ones-1]"),
        _tab_N("tab_ipv4_masks_spec", "ipv4Masks", "ipv4_masks_src", "fun i => Lib.CidrSet.pmask (i + 1)", 32,
               "Lib.CidrSet.pmask: the closed form 2^32 - 2^(32-n) the specification uses"),
        _eq("tab_list_size", "listSize", "list_size_src", "N.of_nat Model.Filter.list_size"),
        Ob("tab_modes_distinct", "modeList / modeMaps", ["mode_list_src", "mode_maps_src"],
           "(mode_list_src =? mode_maps_src) = false", "vm_compute. reflexivity.",
           what="Model.Filter.mode_maps : bool - two distinct modes"),
    ]


def _router_obs():
    return [
        Ob("tab_method_tag_map", "methodTagMap", ["method_tag_map_src"],
           "forall m, Model.Router.assoc_get m method_tag_map_src = Model.Router.method_tag m",
           "intro m. unfold Model.Router.method_tag. apply assoc_same_sound. vm_compute. reflexivity.",
           what="Model.Router.method_tag_map as a finite map (entry order is irrelevant)"),
        Ob("tab_methods", "methodTagMap (its keys)", ["method_tag_map_src"],
           "forall m, In m (map fst method_tag_map_src) <-> In m Lib.RouteSpec.methods",
           "apply same_strings_sound. vm_compute. reflexivity.", what="Lib.RouteSpec.methods: the ten methods Handle accepts"),
        Ob("tab_method_all", "MethodAll", ["method_all_src"],
           "method_all_src = Model.Router.method_all /\\ method_all_src = Lib.RouteSpec.method_all",
           "vm_compute. split; reflexivity.", what="Model.Router.method_all, Lib.RouteSpec.method_all"),
        _eq("tab_route_param", "routeParam", "route_param_src", "Model.Router.route_param"),
        Ob("tab_route_param_any", "routeParamAny", ["route_param_any_src"],
           "route_param_any_src = Model.Router.route_param_any /\\ route_param_any_src = Lib.RouteSpec.any_name",
           "vm_compute. split; reflexivity.", what="Model.Router.route_param_any, Lib.RouteSpec.any_name"),
    ]


def _c01():
    prelude, lab = _labels("Model.LoggerJson")
    obs = [
        _tab_b("tab_safe_set", "safeSet", "safe_set_src", "Model.LoggerJson.safe", 128, "Model.LoggerJson.safe"),
        _tab_N("tab_hex", "hex", "hex_src", "Model.LoggerJson.hexd", 16, "Model.LoggerJson.hexd: hex[n]"),
        lab,
    ]
    return tables_static("C01", ["Model.LoggerJson"], obs, prelude)


def _c13():
    prelude, lab = _labels("Lib.TextTok")
    obs = [
        _tab_b("tab_safe_set", "safeSet", "safe_set_src", "Model.LoggerText.safe_set", 128,
               "Model.LoggerText.safe_set (consulted for bytes < 0x80 only)"),
        lab,
    ]
    return tables_static("C13", ["Lib.TextTok", "Model.LoggerText"], obs, prelude)


def _c02():
    obs = [
        _eq("tab_max_buffer_size", "maxBufferSize", "max_buffer_size_src", "Model.LoggerConc.max_buf"),
        _eq("tab_init_buffer_size", "initBufferSize", "init_buffer_size_src",
            "Model.LoggerConc.bcap Model.LoggerConc.init_buf"),
    ]
    return tables_static("C02", ["Model.LoggerConc"], obs)


def _c09():
    obs = [
        _eq("tab_env_key_prefix", "envKeyPrefix (NewFlagSet)", "env_key_prefix_src", "Model.Config.cfg_prefix"),
        _eq("tab_b64_config_env", "b64ConfigEnv (NewFlagSet)", "b64_config_env_src", "Model.Config.b64_env_name"),
        _eq("tab_flag_name_show_usage", "flagNameShowUsage", "flag_name_show_usage_src", "Model.Config.help_name"),
        _eq("tab_flag_name_config_path", "flagNameConfigPath", "flag_name_config_path_src", "Model.Config.config_name"),
    ]
    return tables_static("C09", ["Model.Config"], obs)


def _c10():
    obs = [
        Ob("tab_builtin_flag_names", "flagNameShowUsage / flagNameConfigPath",
           ["flag_name_show_usage_src", "flag_name_config_path_src"],
           "map (fun f => fst (fst f)) (firstn 2 Check.C10.c10_flags) = [flag_name_show_usage_src; flag_name_config_path_src]",
           "vm_compute. reflexivity.", what="the two built-in flags at the head of Check.C10.c10_flags"),
        _eq("tab_flag_name_config_path", "flagNameConfigPath", "flag_name_config_path_src", "Check.C10.config_name"),
    ]
    return tables_static("C10", ["Check.C10"], obs)


def _c16():
    lits = [("tab_shell_open", "ShellEscape opening literal", "shell_open_src", "sh_open"),
            ("tab_shell_pattern", "ShellEscape strings.Replace pattern", "shell_pattern_src", "sh_pattern"),
            ("tab_shell_replacement", "ShellEscape strings.Replace replacement", "shell_replacement_src", "sh_replacement"),
            ("tab_shell_close", "ShellEscape closing literal", "shell_close_src", "sh_close"),
            ("tab_tilde_test", "ShellEscapeExceptTilde HasPrefix literal", "tilde_test_src", "tilde_prefix"),
            ("tab_tilde_out", "ShellEscapeExceptTilde result prefix literal", "tilde_out_src", "tilde_prefix"),
            ("tab_tilde_skip", "ShellEscapeExceptTilde slice bound", "tilde_skip_src", "tilde_skip")]
    obs = [_eq(t, g, s, m, what="Lib.SourceTables.%s = the constant inlined in Model.ShellEscape (Proofs.SourceTablesP)" % m)
           for t, g, s, m in lits]
    sh = ["shell_open_src", "shell_pattern_src", "shell_replacement_src", "shell_close_src"]
    obs.append(Ob("tab_shell_escape_reads_source", "ShellEscape (all four literals)", sh,
                  "forall s, Model.ShellEscape.shell_escape s = shell_escape_lit %s s" % " ".join(sh),
                  "apply shell_escape_from_source; vm_compute; reflexivity.",
                  needs=("tab_shell_open", "tab_shell_pattern", "tab_shell_replacement", "tab_shell_close"),
                  what="Model.ShellEscape.shell_escape is the Go text read with the source's literals"))
    ti = ["tilde_test_src", "tilde_out_src", "tilde_skip_src"]
    obs.append(Ob("tab_shell_escape_except_tilde_reads_source", "ShellEscapeExceptTilde (all literals)", ti + sh,
                  "forall s, Model.ShellEscape.shell_escape_except_tilde s = shell_escape_except_tilde_lit %s s" % " ".join(ti + sh),
                  "apply shell_escape_except_tilde_from_source; vm_compute; reflexivity.",
                  needs=tuple(t for t, _, _, _ in lits),
                  what="Model.ShellEscape.shell_escape_except_tilde is the Go text read with the source's literals"))
    return tables_static("C16", ["Model.ShellEscape"], obs)


C01_TABLES = _c01()
C02_TABLES = _c02()
C04_TABLES = tables_static("C04", ["Lib.RouteSpec", "Model.Router"], _router_obs())
# C05: Model/StorePool.v serves every request with Model.Router.serve_http and reads RouteParamAny by route_param_any
C05_TABLES = tables_static("C05", ["Lib.RouteSpec", "Model.Router"], _router_obs())
C09_TABLES = _c09()
C10_TABLES = _c10()
C11_TABLES = tables_static("C11", ["Lib.CidrSet", "Model.Filter"], _filter_obs())
# C12: Model/FilterConc.v wraps the critical sections of Model/Filter.v
C12_TABLES = tables_static("C12", ["Lib.CidrSet", "Model.Filter"], _filter_obs())
C13_TABLES = _c13()
C16_TABLES = _c16()

ALL = {"C01": C01_TABLES, "C02": C02_TABLES, "C04": C04_TABLES, "C05": C05_TABLES, "C09": C09_TABLES, "C10": C10_TABLES,
       "C11": C11_TABLES, "C12": C12_TABLES, "C13": C13_TABLES, "C16": C16_TABLES}


if __name__ == "__main__":
    # python3 lib/tables.py [C11 ...] : run the obligations alone (VERIF_REPO honoured)
    import json
    import sys
    rc = 0
    for pid in (sys.argv[1:] or sorted(ALL)):
        o, d, probs, cov = ALL[pid]("quick")
        print("%s source tables: %d/%d obligations  (%.2fs, %d coqc run(s))" % (
            pid, d, o, cov["source_tables"].get("wall_s", 0), cov["source_tables"].get("coq_runs", 0)))
        for k, t, p in probs:
            rc = 1
            print("  %s: %s" % (k, t))
            print("    " + json.dumps({x: (y if len(str(y)) < 300 else str(y)[-300:]) for x, y in p.items()})[:1500])
    sys.exit(rc)
