from tl_common import TL_DEPS, TL_TB, TL_ASSUME, TL_RULE_COMMON, tl_casesv_lax, tl_sig

ID = "C08"
CFG = dict(
    propfile="Properties/C08.v",
    coq_deps=TL_DEPS + ["Properties/C08", "Check/C08"],
    ocaml="tasklane",
    race=True,
    casesv=tl_casesv_lax,
    drv_args=["--lax-pending-after-wait"],
    case_tags=("HS",),
    coq_sample={"quick": 20, "thorough": 60},
    sig=tl_sig,
    harness_timeout={"quick": 300, "thorough": 3600},
    rule=TL_RULE_COMMON + "C08 families (concurrency bound, work sharing): for laneSize 2-4 x queueSize 0-3: every target lane L and every set P of pinned workers with L's own worker in P and |P| < laneSize (everything pushed to lane L must start on a worker outside P within the bound), pinning through one lane only, target outside P; more never-ending tasks than workers after every worker recovered panics; 300 small + 60 big stress runs with tasks that stay in Start() (thorough x10); the bound is a monitor over every history",
    trusted_base=TL_TB,
    assumptions=TL_ASSUME,
)
CFG["manifest"] = dict(
    text=("Proof: Coq theorems over the TaskLane LTS (Model/TaskLane.v: any laneSize, any queueSize incl. 0, any number of producers and "
          "Status() observers, every interleaving): C08_bound / C08_running_started / C08_work_sharing / C08_pending_all_busy / C08_handover_enabled (see Properties/C08.v for the full list and statements). "
          "Tie: the real tasklane package is driven through a gate Context (parks the lane's goroutines and PushTask callers at their "
          "ctx.Done()/Err() call sites, no source hooks) and gate Tasks; every run's API-level history is judged by the extracted monitors "
          "(the property evaluated on the implementation) and by a belief-set acceptor over the model's step function (the model covers the "
          "observed behaviour); liveness expectations are judged by the scenario engine with a 5 s bound; built with -race."),
    note=("Partial for the liveness halves (real time, fairness: bounded waiting on explored schedules) and for the schedule quantifier "
          "(park points + stress, not all interleavings of the real code). Trusted: Coq kernel; the hand-written model (tied differentially, "
          "not by translation); Check/TaskLane.v monitors; extraction + OCaml glue (cross-checked by vm_compute on sampled short histories); "
          "Go harness, race detector."),
    technique="Coq proof (LTS invariants, measure) + scenario/stress correspondence with trace validation against the model, -race",
)
