import os
import re

import facts
import vcheck as V
from props_common import HARNESS_TB, EXTRACT_TB

# the launcher's action list of the tree under verification, set by c20_static (which the runner calls before
# the correspondence run) and used by the OCaml driver (command line) and by cases.v
_STATE = {"coq": None, "names": None}
_DRV_ARGS = []

KNOWN = ("ANotify", "AStart", "AWritePid", "ASpawnWait", "ASelect", "ANotifyUnbuffered")


def _load_actions():
    if _STATE["coq"] is None:
        ok, coq, raw = facts.launch_actions()
        if not ok:
            _STATE["coq"], _STATE["names"], _STATE["raw"] = '[AUnknown "glbfacts failed"]', ["AUnknown"], raw
        else:
            inner = coq.strip()[1:-1]
            # split on ';' outside string literals
            items, cur, instr = [], "", False
            for ch in inner:
                if ch == '"':
                    instr = not instr
                if ch == ";" and not instr:
                    items.append(cur.strip())
                    cur = ""
                else:
                    cur += ch
            if cur.strip():
                items.append(cur.strip())
            _STATE["coq"], _STATE["raw"] = coq, raw
            _STATE["names"] = [i if i in KNOWN else "AUnknown" for i in items]
        _DRV_ARGS[:] = [",".join(_STATE["names"]) or "AUnknown"]
    return _STATE


def c20_static(tier):
    st = _load_actions()
    cov = {"launch_actions": st["coq"], "launch_actions_source": "gen/glbfacts launch on daemon/daemon.go func launch"}
    rd = re.search(r"\(\* reading: (.*?) \*\)", st.get("raw", ""))
    reading = rd.group(1) if rd else "?"
    cov["launch_reading"] = reading
    os.environ.pop("VERIF_C20_UNREADABLE", None)
    if reading == "incomplete":
        # Policy for shapes the extractor cannot READ (helpers it cannot follow, os.StartProcess, contexts …): nothing
        # positively wrong was found, and the ordering the discipline protects (Notify registered before the daemon can
        # call Done()) is what the forced schedule of the harness exercises. The harness is told to insist, at run time,
        # that the forced schedule really ran on this tree (the pause took effect and Done() was entered during it);
        # the model comparison is switched off (there is no trustworthy action list). The dynamic verdict decides.
        _STATE["unreadable"] = True
        _DRV_ARGS[:] = ["UNREADABLE"]
        os.environ["VERIF_C20_UNREADABLE"] = "1"
        note = ("launcher shape not readable; ordering covered by the forced schedule only (the harness checks at run time "
                "that the pause hook took effect and Done() was entered during the pause)")
        cov.update({"launch_shape_note": note, "notify_before_start": None, "well_formed": None})
        print("NOTE property=C20 " + note)
        return 1, 1, [], cov
    text = ("From Coq Require Import List String.\nImport ListNotations.\n"
            "From Glb Require Import Model.Daemon Proofs.DaemonP Properties.C20.\nOpen Scope string_scope.\n"
            "Definition launch_actions : list action := " + st["coq"] + ".\n"
            "Eval vm_compute in (notify_before_start launch_actions, well_formed launch_actions).\n"
            "Lemma facts_launch_ok : notify_before_start launch_actions = true /\\ well_formed launch_actions = true.\n"
            "Proof. split; vm_compute; reflexivity. Qed.\n"
            "Theorem handshake_of_current_source : forall delay sched s,\n"
            "  run launch_actions delay init sched = Some s -> terminated s = true ->\n"
            "  result s = Some (Returned pid_daemon) /\\ ret_marker s = true /\\ ret_done s = true /\\ dalive s = true\n"
            "  /\\ launcher_gone s = true /\\ lst s = LExited /\\ dparent s = pid_init /\\ dparent s <> pid_caller.\n"
            "Proof. exact (C20_handshake launch_actions (proj1 facts_launch_ok) (proj2 facts_launch_ok)). Qed.\n"
            "Print Assumptions handshake_of_current_source.\n")
    rc, out, dt = V.coq_eval("facts-launch", text)
    m = re.search(r"=\s*\(\s*(true|false)\s*,\s*(true|false)\s*\)", out)
    problems = []
    broken = "Launch discipline: notify_before_start / well_formed on the extracted action list"
    if not m:
        problems.append(("tie", "C20: the generated facts file did not evaluate", {"broken": broken, "output_tail": out[-2000:],
                                                                                   "glbfacts": st.get("raw", "")[-1500:]}))
        return 1, 0, problems, cov
    nbs, wf = m.group(1) == "true", m.group(2) == "true"
    hook = re.search(r"hook launch\.afterStart: (\w+)", st.get("raw", ""))
    cov["hook_launch_afterStart"] = hook.group(1) if hook else "?"
    if not hook or hook.group(1) != "present":
        problems.append(("tie", "hook missing: verifPause(\"launch.afterStart\") is no longer called right after cmd.Start() in "
                         "daemon.launch - the forced schedule (daemon reaches Done() while the launcher is behind Start) is not achieved",
                         {"broken": "verif hook launch.afterStart", "glbfacts": st.get("raw", "")[-800:]}))
    closed = rc == 0 and "Closed under the global context" in out
    cov.update({"notify_before_start": nbs, "well_formed": wf,
                "handshake_instance_assumptions": "Closed under the global context" if closed else out.strip()[-300:]})
    if not (nbs and wf):
        why = []
        if reading.startswith("wrong: "):
            why.append("READ AND WRONG: " + reading[len("wrong: "):])
        if not nbs:
            why.append("cmd.Start() is not preceded by signal.Notify (a daemon calling Done() early kills the launcher)")
        if not wf:
            why.append("the action list is not one of the well-formed orders (unrecognised or missing action, unbuffered Notify "
                       "channel, select case other than the Notify / waiter channels, Done() signal not listened for)")
        problems.append(("tie", "the launcher's action order extracted from daemon/daemon.go func launch no longer satisfies the "
                         "discipline of C20_handshake: %s; actions = %s" % ("; ".join(why), st["coq"]),
                         {"broken": broken, "actions": st["coq"], "notify_before_start": nbs, "well_formed": wf,
                          "theorem": "C20_handshake is no longer applicable; handshake_refuted_without_discipline / "
                                     "C20_discipline_necessary give the failing schedule (daemon reaches Done() first)"}))
    elif not closed:
        problems.append(("tie", "C20: the instance of C20_handshake for the extracted action list is not closed",
                         {"broken": broken, "output_tail": out[-1500:]}))
    return 1, (1 if not problems else 0), problems, cov


CLS = {"ok": "OOk", "run": "OErrRun", "stderr": "OErrStderr", "stdout": "OErrStdout"}


def c20_casesv(lines):
    st = _load_actions()
    if _STATE.get("unreadable"):
        # no trustworthy action list: only the specification is judged (same as the driver with UNREADABLE)
        rows = []
        for l in lines:
            f = l.split()
            b = ["true" if x == "1" else "false" for x in f[6:15]]
            b[6], b[7] = b[7], b[6]
            rows.append("v_spec (check_case [] %s%%N %s%%N (mkObs %s %s))" % (f[1], f[2], CLS.get(f[5], "OOther"), " ".join(b)))
        return ("From Coq Require Import List NArith String.\nImport ListNotations.\nFrom Glb Require Import Model.Daemon Check.C20.\n"
                "Open Scope string_scope.\nDefinition verdicts : list bool := [\n  " + ";\n  ".join(rows) + "].\nEval vm_compute in verdicts.\n")
    rows = []
    for l in lines:
        f = l.split()
        b = ["true" if x == "1" else "false" for x in f[6:15]]
        b[6], b[7] = b[7], b[6]   # line: … done_at_return right_handler done_nil …; record: … done_at_return done_nil right_handler …
        rows.append("verdict_ok (check_case acts %s%%N %s%%N (mkObs %s %s))" % (f[1], f[2], CLS.get(f[5], "OOther"), " ".join(b)))
    return ("From Coq Require Import List NArith String.\nImport ListNotations.\nFrom Glb Require Import Model.Daemon Check.C20.\n"
            "Open Scope string_scope.\nDefinition acts : list action := " + st["coq"] + ".\n"
            "Definition verdicts : list bool := [\n  " + ";\n  ".join(rows) + "].\nEval vm_compute in verdicts.\n")


def c20_sig(line):
    if "signal: interrupt" in line or " run " in line:
        return "launcher-killed-by-early-done"
    if "done_entered_at_return=0" in line and 'err=""' in line:
        return "launch-returns-before-done"
    if "right_handler_and_distinct_pid=0" in line and 'err=""' in line:
        return "wrong-handler"
    if "did not return" in line:
        return "launch-never-returns"
    if "launcher_program=" in line and "launcher_program=plain" not in line:
        return "launcher-program-variant"
    if "daemon_dies_before_done=" in line:
        return "failed-launch-not-reported"
    if "pid_matches=0" in line and 'err=""' in line:
        return "wrong-pid"
    if "survived_300ms_after_return=0" in line or re.search(r"^E( \S+){10} 0 ", line):
        return "daemon-dies-after-return"
    if " stderr " in line or "daemon_stderr=b" in line:
        return "daemon-stderr-fails-launch"
    return "launch"


ID = "C20"
CFG = dict(
    propfile="Properties/C20.v",
    coq_deps=["Model/Daemon", "Proofs/DaemonP", "Properties/C20", "Check/C20"],
    ocaml="c20",
    drv_args=_DRV_ARGS,
    static=[c20_static],
    casesv=c20_casesv,
    sig=c20_sig,
    race=False,
    harness_timeout={"quick": 180, "thorough": 1800},
    coq_sample={"quick": 100, "thorough": 200},
    rule=("[every third launch group runs as a program started through a RELATIVE argv[0]] real processes: daemon delay before Done() {0, 50, 300 ms} x launcher pause right after cmd.Start() {0, 200 ms} "
          "(hook VERIF_PAUSE_LAUNCH_AFTERSTART) x {1, 4} concurrent Launch calls with a silent daemon, a slow daemon (1 s before "
          "Done(); thorough also 4.5 s), launcher-program variants (stdout output after Run(), lingering 0.5 / 3.5 s before exit; thorough up "
          "to 12 s), 4 bursts of 8 overlapping launches, all under two handler names used alternately; handlers that "
          "unset the ENV_DAEMON_* markers / clear their environment before Done(); daemons that exit(3) / panic before Done() (Launch "
          "must return an error), alone and in sequences 'failing launches followed by normal ones' run from one goroutine (2 x 12 "
          "steps; thorough 10 x 12); plus the daemon handler "
          "variants 'stderr line before Done()', 'stderr line 100 ms after Done()', 'both' on the two extreme timings x {1, 4} "
          "(thorough: 6 delays x 4 pauses x {1,4,8} x all 4 variants, 5 rounds); one case = one Launch call with what was observed "
          "when it returned (error, pid, marker, pre-Done() marker, handler name in the marker, /proc) and again ~300 ms later (daemon still "
          "running, past its late stderr write); non-trivial = distinct "
          "(delay, pause, concurrency, stderr variant) scenarios"),
    trusted_base=[HARNESS_TB, EXTRACT_TB,
                  "gen/glbfacts launch: the syntactic reading of func launch as an action list (unrecognised statements become "
                  "AUnknown and fail the discipline); validated on every run by the timing-forced harness cases",
                  "Linux process and signal semantics (fork/exec, SIGINT default action, re-parenting of orphans, /proc/<pid>/stat) "
                  "and the Go runtime's signal.Notify are the kernel's / runtime's: Model/Daemon.v states them, the harness exercises them"],
    assumptions=["PARTIAL: process creation, signal delivery and re-parenting are modelled (Model/Daemon.v), not derived from the kernel; "
                 "the theorem covers the hand-shake logic for every schedule of that model",
                 "the registered handler reaches Done() and keeps running (the property's premise); a daemon that exits or crashes "
                 "before Done() is outside the statement",
                 "cmd.Start() succeeds and the pid fits the 4-byte stdout protocol",
                 "'Launch returns only after Done()' is observed as: the file the daemon writes immediately before calling Done() exists "
                 "when Launch returns, for daemon delays up to 1 s (quick) / 4.5 s (thorough). A launcher that gives up waiting after a "
                 "longer grace period is caught only statically: any select case other than the Notify channel and the waiter's channel "
                 "makes the extracted action list ill-formed (VIOLATION ... no-failing-input-found)",
                 "GO SIDE ONLY as well: a daemon that dies before Done() (outside the theorem's premise) must make Launch return an error in time, with no "
                 "daemon left running (the value returned beside the error is not judged), "
                 "and must not disturb later launches of the same process; Done() must return nil and work after the handler scrubbed its "
                 "environment; each scenario has its own marker directory, so a returned pid is compared with the marker of that launch only",
                 "GO SIDE ONLY: the launcher PROGRAM around Run() (the harness binary plays it): printing to stdout after Run() returned "
                 "(short / long / exactly 4 bytes / binary) and lingering 0.5 s and 3.5 s (thorough: up to 12 s) before it exits, alone and "
                 "combined with a slow daemon, must still give nil + the daemon's own pid and a surviving daemon; timers in the library "
                 "longer than the longest linger explored are out of reach by construction (stats: launcher_linger_ms_explored). OBSERVED "
                 "ONLY, not judged (the property is silent about output of the launcher program): a launcher that prints to stderr after "
                 "Run() makes Launch return that text as an error; a program that prints to stdout BEFORE Run() makes Launch return the "
                 "first four bytes of that output as the pid with a nil error (stats: observed_only)",
                 "UNREADABLE LAUNCHER SHAPES: when the extractor can read func launch it decides (complete: the discipline is proved for "
                 "the extracted list; wrong: Start before Notify, unbuffered channel, timer / default in the select, Stop before the "
                 "select, no waiter, Done() signal not listened for or uncatchable => the obligation fails). When it cannot read the shape "
                 "and found nothing wrong, a NOTE is printed and the forced schedule of the harness decides: the harness then requires at "
                 "run time that the pause took effect (Launch >= pause) and that Done() was entered DURING the pause; the model comparison "
                 "is off for that run. Any catchable signal is accepted as the hand-shake signal as long as signal.Notify listens for what "
                 "Done() sends (the model calls it SIGINT)",
                 "GO SIDE ONLY: which goroutine / OS thread calls Done() is the handler's business: directly on the main thread, from a fresh "
                 "goroutine while the handler waits, from a goroutine wired to its own OS thread (runtime.LockOSThread), or with the whole "
                 "handler on such a goroutine; the daemon must be running ~300 ms after Launch returned in all of them (per-thread kernel "
                 "state such as a parent-death signal is outside the model)",
                 "the forced schedule depends on the verif hook: its presence is checked in the source (glbfacts) and by timing "
                 "(a successful Launch under a 200 ms pause cannot take less than 200 ms)",
                 "GO SIDE ONLY: the daemon's standard streams are outside Model/Daemon.v. That a daemon which writes to its stderr "
                 "before Done() does not make Launch fail, and that its first stderr write after Launch returned does not kill it "
                 "(no broken pipe tied to the caller), is part of 'the daemon keeps running after Launch returns' that is checked by "
                 "the harness (flag o_survived of Check/C20.v, handler variants none/before/after/both), not proved",
                 "concurrent Launch calls are independent process trees (no shared state besides os.Args[0] and the environment): "
                 "proved for one Launch, exercised for 1/4/8 concurrent ones",
                 "no other SIGINT reaches the launcher (e.g. from a terminal's foreground process group) during the hand-shake"],
)
CFG["manifest"] = dict(
    text=("Proof (partial): Coq theorems C20_handshake / C20_launcher_never_killed / C20_no_deadlock / C20_progress_measure hold for "
          "EVERY interleaving of caller, launcher, daemon and signal delivery and every daemon delay, for every launcher program "
          "(action list) that installs the SIGINT handler before starting the daemon: Launch returns (daemon pid, nil), only after "
          "the daemon's marker and Done(); the daemon is alive, the launcher exited normally, the daemon's parent is init. "
          "handshake_refuted_without_discipline and C20_discipline_necessary show the property is false for every other well-formed "
          "order (the pinned commit's order included); C20_unbuffered_notify_deadlocks shows an unbuffered Notify channel can lose "
          "the signal so that Launch never returns. Well-formed = buffered Notify, Start, SpawnWait once each before the one Select, "
          "WritePid once anywhere after Start. The action list is extracted from daemon/daemon.go on every run (incl. the Notify "
          "channel's capacity and signal set, the signal Done() sends, every case of the final select) and the "
          "discipline is re-checked by vm_compute (the one obligation that depends on the current source). "
          "Tie: the harness binary is caller, launcher and daemon; real Launch calls under daemon delays {0,50,300 ms} x a launcher "
          "pause right after cmd.Start() {0,200 ms} x {1,4} concurrent calls, a 1 s daemon (thorough 4.5 s), bursts of 8 overlapping "
          "launches, two handler names used alternately; error, pid, marker-at-return, pre-Done() marker at return (Launch did not "
          "return before Done()), handler name run by the returned pid, distinct pids, /proc liveness and parent, launcher gone "
          "(zombies count) are judged by the extracted check function and compared with the model's outcome on the forced schedule. "
          "Daemon handlers that write to stderr before and / or 100 ms after Done() must still give (pid, nil) and be running, past "
          "the late write, ~300 ms after Launch returned (Go side only). The verif hook is asserted (source + timing)."),
    note=("PARTIAL: process and signal semantics are the kernel's and the Go runtime's; Model/Daemon.v is a model of them (SIGINT "
          "without handler kills, orphans are re-parented, signal delivery is asynchronous), exercised but not derived. Trusted: Coq "
          "kernel; the glbfacts reading of func launch; extraction + OCaml glue (cross-checked by vm_compute sample); Go harness and "
          "/proc. Concurrent launches are exercised, not modelled (independent process trees). The daemon's stdio "
          "(a stderr inherited from the launcher would tie the orphan to the caller's pipe) is exercised, not modelled."),
    technique="Coq proof (interleaving LTS, invariant + measure) over a source-extracted action list + forced-schedule process-level correspondence",
)
