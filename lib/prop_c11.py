from vcheck import coq_bytes
from props_common import HARNESS_TB, EXTRACT_TB


def c11_obs(tok):
    p = tok.split(":")
    if p[0] == "A":
        return "OAdd (mkCidr %s %s) %s" % (coq_bytes(p[1]), coq_bytes(p[2]), p[3])
    if p[0] == "R":
        return "ORemove (mkCidr %s %s) %s" % (coq_bytes(p[1]), coq_bytes(p[2]), p[3])
    return "OContains %s %s" % (coq_bytes(p[1]), p[2])


def c11_casesv(lines):
    rows = []
    for l in lines:
        toks = l.split()[1:]
        rows.append("verdict_ok (check_history [\n    " + ";\n    ".join(c11_obs(t) for t in toks) + "])")
    return ("From Coq Require Import List NArith.\nImport ListNotations.\n"
            "From Glb Require Import Lib.NetIP Check.C11.\nOpen Scope N_scope.\n"
            "Definition verdicts : list bool := [\n  " + ";\n  ".join(rows) +
            "].\nEval vm_compute in verdicts.\n")


ID = "C11"
CFG = dict(
    propfile="Properties/C11.v",
    coq_deps=["Lib/NetIP", "Lib/CidrSet", "Model/Filter", "Proofs/FilterP", "Proofs/NetIPP", "Properties/C11", "Check/C11"],
    ocaml="c11",
    casesv=c11_casesv,
    coq_sample={"quick": 6, "thorough": 24},
    rule=("one case = one history of Add/Remove calls on a fresh IPv4Filter with Contains probes in between "
          "(quick 200, thorough 2000 histories; 35% add 250-300 distinct ranges with removal bursts before/at/after the "
          "256th slot and re-adds, 20% up to 600 random operations, 5% fill the list with copies and zero them, 40% short "
          "histories over 1-6 ranges); prefix lengths 0-32 uniformly, host bits set, nested and neighbouring ranges, "
          "duplicates, absent removals, 8 kinds of invalid argument; 30% of the histories overwrite the argument slices (cidr.IP, cidr.Mask, probe) after "
          "every call; Contains(nil); probes = first/last address and outside neighbours "
          "of live and removed ranges in 4- and 16-byte form plus non-IPv4 slices; non-trivial = distinct case lines; "
          "every observation of every line is judged (see driver.observations / driver.probes). PLUS one long single-threaded churn history per run "
          "(quick ~9,300 operations: 4,600 distinct adds, 4,300 removals of present ranges in random order, every removed range probed right after "
          "its removal and again at the end; thorough ~57,000 operations) which is judged on the Go side by the specification only - a plain map of live "
          "(network, prefix length) keys, Contains(ip) <=> exists n, live[(ip & mask n, n)] - as VIOL lines, NOT replayed in the extracted model "
          "(list-based sets make that quadratic). PLUS 'repeated lookup across N updates' histories: Contains(a); exactly N successful updates, one of which "
          "changes a's membership (first / middle / last), the rest unrelated (Add X / Remove X pairs, removals of an absent range); Contains(a) again with no "
          "other address looked up in between, then a twice in a row and a / b alternating; N in {1,2,255,256,257,65535,65536,65537,131072} (thorough: also 2^24), "
          "list mode and map mode, 4- and 16-byte probes; the unrelated updates are shipped run-length encoded ('L' lines, '*n*obs,obs') and expanded by the driver, "
          "so the extracted model and specification judge every answer (these lines are not sampled for the vm_compute cross-check). "
          "PLUS switches with the list dominated by ONE prefix length (36 quick / 288 thorough histories: exactly 254/255/256/257 entries of /32, /24, /8, /1, /16 or a "
          "random length, with and without duplicates, optionally one removed or one entry of another length among them, the triggering Add of the same or of another "
          "length, then lookups of ALL earlier ranges) and up-down-up histories (8 / 80: 2-3 cycles of >256 adds, removals down to 129/128/127/100/3/0, further "
          "removals, >256 adds of OTHER ranges, then lookups of everything ever removed). A panic in Add/Remove/Contains is an outcome (result code 2 in the line and a "
          "VIOL panic-in-... line), never a crash of the harness"),
    trusted_base=[HARNESS_TB, EXTRACT_TB,
                  "Lib/NetIP.v is my reading of net.IP.To4, net.IPMask.Size and binary.BigEndian.Uint32 (Go standard library); "
                  "it is exercised against the real functions through every Add/Remove/Contains of the harness"],
    assumptions=["sequential use (C12 covers concurrency)",
                 "an argument is 'an IPv4 CIDR' iff Mask.Size() gives bits = 32 and the address slice has 4 bytes (Lib/CidrSet.cidr_arg); "
                 "C11_valid_argument_meaning proves this is: 4-byte mask equal to the netmask 2^32-2^(32-n) of some n <= 32, 4-byte address",
                 "nil *net.IPNet arguments (a nil-pointer panic in Mask.Size) are outside the statement"],
)
CFG["manifest"] = dict(
    text=("Proof: the model returns None where Go panics (index out of range, write to a nil map, short slice); C11_no_panic: no call of any history "
          "panics and none would in the state reached. Coq theorems C11_membership / C11_both_forms / C11_invalid_rejected / C11_valid_accepted / C11_refinement hold for every "
          "history of any length and every probe slice: an abstraction function maps the concrete state (256-slot list with zeroed "
          "slots, or the 32 per-length sets) to the plain live set, every operation including the one-way migration commutes with "
          "it, and the scan answers membership in it; the mask table is checked entry by entry against 2^32-2^(32-n) "
          "(C11_mask_table), covers is shown to mean 'same top n bits' (C11_covers_meaning) and the accepted arguments are exactly "
          "the 4-byte netmasks with 4-byte addresses (C11_valid_argument_meaning, over a model of net.IPMask.Size). "
          "Tie: generated histories are run on the real filter; the extracted Coq function replays each line on the model and "
          "on the specification and judges every returned error and boolean."),
    note=("Trusted: Coq kernel; the hand-written model Model/Filter.v (tied to the code differentially, not by translation); "
          "Lib/NetIP.v as the reading of the three standard-library functions the filter calls; extraction + OCaml glue "
          "(cross-checked by vm_compute on sampled histories); Go harness."),
    technique="Coq proof (refinement to a list-set, finite sweep for the mask table) + differential correspondence on operation histories",
)

import tables  # constant tables / literals of the current source proved equal to the model's on every run (lib/tables.py)
CFG["secondary"] = CFG.get("secondary", []) + [tables.C11_TABLES]
