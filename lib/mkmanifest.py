#!/usr/bin/env python3
"""Regenerate /verif/MANIFEST.json from the per-property modules (lib/prop_*.py)."""
import json
import os
import sys

sys.path.insert(0, os.path.dirname(os.path.abspath(__file__)))
import props  # noqa: E402

VERIF = os.path.dirname(os.path.dirname(os.path.abspath(__file__)))
ALL = ["C%02d" % i for i in range(1, 21)]
PENDING = {}

# only verticals the integrator has accepted (reviewed, check passes on the unchanged tree) are claimed
ACCEPTED = [l.strip() for l in open(os.path.join(VERIF, "lib", "accepted.txt")) if l.strip()]
checks = []
for pid in ALL:
    cfg = props.PROPS.get(pid)
    if not cfg or pid not in ACCEPTED or "manifest" not in cfg:
        continue
    m = cfg["manifest"]
    checks.append({
        "property_id": pid,
        "quick_cmd": "./check %s --tier quick" % pid,
        "thorough_cmd": "./check %s --tier thorough" % pid,
        "evidence_file": "/verif/evidence/%s.json" % pid,
        "replay_cmd_template": "./check %s --replay {path}" % pid,
        "engine": "coq-proof+correspondence",
        "level_claimed": {"category": "proof", "text": m["text"], "design_ref": m.get("design_ref", "DESIGN.md section 4, " + pid)},
        "level_note": m["note"],
        "technique": m["technique"],
    })
na = [{"property_id": p, "reason": PENDING.get(p, "check not built yet (work in progress in this session); planned per DESIGN.md section 4")}
      for p in ALL if p not in [c['property_id'] for c in checks]]
man = {
    "version": 1,
    "setup_cmd": "./setup.sh",
    "hooks": {
        "guard": "verif",
        "enable": "go build -tags verif (the harness commands are always built with -tags verif)",
        "baseline_off_cmd": "cd /repo && go test -vet=off -count=1 ./...",
        "source_commits": ["7c3d91a"],
        "add_only": True,
    },
    "engines": [{
        "name": "coq-proof+correspondence",
        "path": "/verif/check",
        "serves_properties": [c["property_id"] for c in checks],
        "kind_free_text": "Coq 8.16.1 theorems about hand-written executable Gallina models (coq/), tied to /repo on every run by "
                          "a differential correspondence check: Go harness on the real code, judged by the extracted Coq check "
                          "functions (ocaml/), sample re-evaluated by vm_compute; facts extracted from the source (gen/glbfacts) "
                          "for lock/atomic disciplines and action order",
    }],
    "checks": checks,
    "not_applicable": na,
    "notes": "See DESIGN.md. KNOWN_FINDINGS.txt lists the defects of the pinned commit that were repaired by fix: commits.",
}
open(os.path.join(VERIF, "MANIFEST.json"), "w").write(json.dumps(man, indent=1) + "\n")
print("MANIFEST.json: %d checks, %d not_applicable" % (len(checks), len(na)))
