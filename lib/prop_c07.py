from tl_common import TL_DEPS, TL_TB, TL_ASSUME, TL_RULE_COMMON, tl_casesv_lax, tl_sig

ID = "C07"
CFG = dict(
    propfile="Properties/C07.v",
    coq_deps=TL_DEPS + ["Properties/C07", "Check/C07"],
    ocaml="tasklane",
    race=True,
    casesv=tl_casesv_lax,
    drv_args=["--lax-pending-after-wait"],
    case_tags=("HS",),
    coq_sample={"quick": 20, "thorough": 60},
    sig=tl_sig,
    harness_timeout={"quick": 300, "thorough": 3600},
    rule=TL_RULE_COMMON + "C07 families (cancel points, Wait, leaks): cancellation at each of the 7 park points (queue: before the blocking receive, after take+count, before the blocking offer; worker: loop top, before its blocking receive; PushTask: both Done() tests) x loads (idle, startup, every worker pinned, every lane full with producers blocked, hand-over in flight) = 23 scenarios per configuration; cancel inside PushTask's context calls; cancel when idle after work; back-to-back New/push/cancel/Wait on one P (51 runs, 50 ms watch after Wait); PushTask after the context ended onto lanes with room (gate cancel, wrapped WithCancel, wrapped expired WithDeadline); shutdown after 1..laneSize-1 tasks ended their goroutine with runtime.Goexit (Wait() begun while a later task is inside Start(); monitors only - the LTS has no label for a task that neither returns nor panics); the empty lane (laneSize 0: Wait() returns once the context ended, theorem C07_empty_lane); 300 small + 30 big stress runs cancelled at a random moment (thorough x10). Every run ends with: PushTask begun after cancel, producers released, Wait() within the bound after the last running task was released, goroutine dump, PushTask and Status after Wait",
    trusted_base=TL_TB,
    assumptions=TL_ASSUME,
)
CFG["manifest"] = dict(
    text=("Proof: Coq theorems over the TaskLane LTS (Model/TaskLane.v: any laneSize, any queueSize incl. 0, any number of producers and "
          "Status() observers, every interleaving): C07_push_after_cancel / C07_blocked_released / C07_wait_returns / C07_only_running_tasks_delay_wait / C07_nothing_after_wait / C07_empty_lane (see Properties/C07.v for the full list and statements). "
          "Tie: the real tasklane package is driven through a gate Context (parks the lane's goroutines and PushTask callers at their "
          "ctx.Done()/Err() call sites, no source hooks) and gate Tasks; every run's API-level history is judged by the extracted monitors "
          "(the property evaluated on the implementation) and by a belief-set acceptor over the model's step function (the model covers the "
          "observed behaviour); liveness expectations are judged by the scenario engine with a 5 s bound; built with -race."),
    note=("Partial for the liveness halves (real time, fairness: bounded waiting on explored schedules) and for the schedule quantifier "
          "(park points + stress, not all interleavings of the real code). Trusted: Coq kernel; the hand-written model (tied differentially, "
          "not by translation); Check/TaskLane.v monitors; extraction + OCaml glue (cross-checked by vm_compute on sampled short histories); "
          "Go harness, race detector."),
    technique="Coq proof (LTS invariants, measure) + scenario/stress correspondence with trace validation against the model, -race",
)
