from vcheck import coq_bytes
from props_common import HARNESS_TB, EXTRACT_TB
import httpd_static


def _parse(line):
    f = line.split()
    p = 1
    k = int(f[p]); p += 1
    routes = []
    for _ in range(k):
        routes.append((f[p], f[p + 1])); p += 2
    reg = f[p]; p += 1
    nn = int(f[p]); p += 1
    names = f[p:p + nn]; p += nn
    nreq = int(f[p]); p += 1
    reqs = []
    for _ in range(nreq):
        reqs.append((f[p + 1], f[p + 2], f[p + 3], f[p + 4], f[p + 5:p + 5 + nn])); p += 5 + nn
    return routes, reg, names, reqs


def _who(w):
    if w == "nr":
        return "WNoRoute"
    if len(w) > 1 and w[0] == "r" and w[1:].isdigit():
        return "(WRoute %s%%nat)" % w[1:]
    return "WBad"


def c04_casesv(lines):
    rows = []
    for l in lines:
        routes, reg, names, reqs = _parse(l)
        rs = "[" + "; ".join("(%s, %s)" % (coq_bytes(p), coq_bytes(m)) for p, m in routes) + "]"
        rg = "None" if reg == "ok" else "(Some %s%%nat)" % reg[3:]
        ns = "[" + "; ".join(coq_bytes(n) for n in names) + "]"
        qs = "[" + ";\n     ".join(
            "mkq %s %s %s %s [%s]" % (coq_bytes(p), coq_bytes(m), _who(w), coq_bytes(a), "; ".join(coq_bytes(v) for v in vals))
            for p, m, w, a, vals in reqs) + "]"
        rows.append("verdict_ok (check_case %s %s %s\n    %s)" % (rs, rg, ns, qs))
    return ("From Coq Require Import List NArith.\nImport ListNotations.\n"
            "From Glb Require Import Lib.RouteBytes Lib.RouteSpec Model.Router Check.C04.\n"
            "Definition mkq (p m : list N) (w : who) (a : list N) (vs : list (list N)) : req :=\n"
            "  {| q_path := p; q_method := m; q_obs := {| o_who := w; o_any := a; o_vals := vs |} |}.\n"
            "Open Scope N_scope.\nDefinition verdicts : list bool := [\n  " + ";\n  ".join(rows) +
            "].\nEval vm_compute in verdicts.\n")


def c04_sig(line):
    """signature of a failing case for KNOWN_FINDINGS: the table (patterns+methods) only"""
    try:
        routes, reg, names, reqs = _parse(line[line.index("E "):])
        return "table:" + ",".join(p + "/" + m for p, m in routes)
    except Exception:
        return ""


ID = "C04"
CFG = dict(
    propfile="Properties/C04.v",
    coq_deps=["Lib/RouteBytes", "Lib/RouteSpec", "Model/Router", "Proofs/RouterP", "Properties/C04", "Check/C04"],
    ocaml="c04",
    static=[httpd_static.smoke386("C04")],
    casesv=c04_casesv,
    sig=c04_sig,
    coq_sample={"quick": 15, "thorough": 100},
    rule=("one evaluation = one request served by the real Mux (plus one per table rejected by Handle). Exhaustive, quick tier: (1a) every "
          "one-route table over patterns of <=3 segments from {a,b,:x,:y,*,empty} x {GET,HEAD,POST,DELETE,*} against every path of <=3 "
          "segments over {a,b,c,empty,':x','*'} with leading slash and of <=2 segments without x {GET,HEAD,POST,DELETE,PUT,'',BOGUS}; (1b) "
          "every one-route table over patterns of <=2 segments from {a,:x,:X,*,empty,*x,**,a*,:,a:b,get,:param,:any,x,X} x the same "
          "methods against every path of <=2 segments over {a,x,empty,:x,*,*x,get,a:b,a*}; (2) every ORDERED two-route table over "
          "patterns of <=2 segments from {a,:x,:y,*,empty} x {GET,POST,*} against every path of <=3 segments over {a,b,empty,':x'} x "
          "{GET,HEAD,PUT,''}; (3) a 1/40 sample of ordered three-route tables over {a,:x,*,empty}<=2 x {GET,*}. Thorough tier: (1a) with "
          "paths of <=4 segments, (2) with patterns over {a,b,:x,:y,*,empty} and paths over {a,b,c,empty,':x','*'} x all seven methods, "
          "(3) all ordered triples, and EVERY SET of three different routes over patterns of <=2 non-empty segments from {a,b,:x,:y,*} x "
          "{GET,*} (registered in one order) against every path of <=4 segments over {a,b,empty} x {GET,PUT} - i.e. the quantifier's 'up to "
          "3 routes / up to 4 segments' is exhaustive for THIS alphabet, not for three-route tables in every registration order. "
          "Fixed tables: '', '*', no leading slash, '//', all ten methods, names differing only in case or by a suffix (/:id/:ID ...), "
          "segments that only look special (*x, **, a:b, get, :param). Seeded random tables of 1-6 routes and requests over arbitrary bytes. "
          "Every handler looks up, for every :name of the table, the name, its upper/lower-case forms, an extension and a prefix, plus "
          "X, xx, Id, ID, id2, zz, and RouteParamAny; P.K / P.V are not read directly. distinct_nontrivial = distinct case lines (table, "
          "batch of <=200 requests)"),
    trusted_base=[HARNESS_TB, EXTRACT_TB,
                  "Lib/RouteSpec.v (segments, pattern, table_ok, match_spec) is the reading of the documented precedence; it is "
                  "evaluated on every observed request, and proved equal to the trie model for all inputs",
                  "the model Model/Router.v is hand-written; tied to httpd/tree.go differentially (registration outcome, selected handler, "
                  "every RouteParam/RouteParamAny value)"],
    assumptions=["the handler table is only read while serving (no Handle concurrent with ServeHTTP)",
                 "a Handle that panicked (rejected route) is the end of that Mux's life: partially created trie nodes of a rejected "
                 "registration can change later dispatch (Example rejected_registration_leaves_residue); the property quantifies over "
                 "tables whose registrations all succeeded"],
)
CFG["manifest"] = dict(
    text=("Proof: for every list of routes on which every Handle succeeds, every path and every method (arbitrary byte strings), the "
          "model of ServeHTTP makes exactly one handler call and never panics (C04_no_panic_one_call); the called route, its parameter "
          "names and the bound values are exactly those of the table-level specification match_spec - literal > :param > * per segment, "
          "no backtracking, empty segments ignored unless last, '/' first, exact method > '*' (C04_dispatch); K and V have equal length and "
          "every value is the segment text or the remainder of the path (C04_params_bound); Handle rejects exactly unknown methods, empty or "
          "repeated :names and duplicates (C04_register_rejects / C04_register_accepts). "
          "Tie: the real Mux is driven on exhaustive small tables x paths and on random byte-level tables; registration outcome, which handler "
          "ran (exactly once), RouteParam of every name and RouteParamAny are judged by the extracted specification and compared with the model."),
    note=("Trusted: Coq kernel; Lib/RouteSpec.v as the statement of the precedence rules (it makes explicit that the first byte of patterns and "
          "paths is ignored and that segments after * are ignored); extraction + OCaml glue (cross-checked by vm_compute sample); Go harness. "
          "The model is hand-written and tied to the code differentially, not by translation."),
    technique="Coq proof (trie/table simulation invariant, induction over segments) + exhaustive and random differential correspondence",
)

import tables  # constant tables / literals of the current source proved equal to the model's on every run (lib/tables.py)
CFG["secondary"] = CFG.get("secondary", []) + [tables.C04_TABLES]
