import facts
import httpd_static
from vcheck import coq_bytes
from props_common import HARNESS_TB, EXTRACT_TB


def _who(w):
    if w == "nr":
        return "WNoRoute"
    if len(w) > 1 and w[0] == "r" and w[1:].isdigit():
        return "(WRoute %s%%nat)" % w[1:]
    return "WBad"


def _obs(f, p, nn):
    w, st, i, a = f[p:p + 4]
    vals = f[p + 4:p + 4 + nn]
    return "(mko %s %s %s %s [%s])" % (_who(w), st, coq_bytes(i), coq_bytes(a), "; ".join(coq_bytes(v) for v in vals)), p + 4 + nn


def _events(f, p, nn, nev):
    evs = []
    for _ in range(nev):
        t = f[p]; p += 1
        if t in ("R", "Q"):
            evs.append("EvRegister %s %s %s" % (coq_bytes(f[p]), coq_bytes(f[p + 1]), "true" if t == "R" else "false")); p += 2
        elif t == "B":
            k, path, meth = f[p:p + 3]; p += 3
            o, p = _obs(f, p, nn)
            evs.append("EvBegin %s%%nat %s %s %s" % (k, coq_bytes(path), coq_bytes(meth), o))
        elif t == "W":
            evs.append("EvWrite %s%%nat %s" % (f[p], f[p + 1])); p += 2
        elif t == "F":
            evs.append("EvFlush %s%%nat" % f[p]); p += 1
        elif t == "X":
            k = f[p]; p += 1
            o, p = _obs(f, p, nn)
            evs.append("EvExit %s%%nat %s" % (k, o))
        elif t == "Y":
            k = f[p]; how = {"ret": "Returned", "rec": "Recovered"}.get(f[p + 1], "Escaped"); p += 2
            o, p = _obs(f, p, nn)
            evs.append("EvAfter %s%%nat %s %s" % (k, how, o))
        else:
            raise ValueError("event " + t)
    return evs


def c05_casesv(lines):
    rows = []
    for l in lines:
        f = l.split()
        prefix, mode, nn = f[1], f[2], int(f[3])
        names = f[4:4 + nn]
        nev = int(f[4 + nn])
        evs = _events(f, 5 + nn, nn, nev)
        rows.append("history_ok (check_history %s %s [%s]\n    [%s])" % (
            coq_bytes(prefix), "true" if mode == "S" else "false",
            "; ".join(coq_bytes(n) for n in names), ";\n     ".join(evs)))
    return ("From Coq Require Import List NArith.\nImport ListNotations.\n"
            "From Glb Require Import Lib.RouteBytes Lib.RouteSpec Model.Router Model.StorePool Check.C04 Check.C05.\n"
            "Definition mko (w : who) (st : N) (i a : list N) (vs : list (list N)) : cobs :=\n"
            "  {| co_who := w; co_status := st; co_id := i; co_any := a; co_vals := vs |}.\n"
            "Open Scope N_scope.\nDefinition verdicts : list bool := [\n  " + ";\n  ".join(rows) +
            "].\nEval vm_compute in verdicts.\n")


def c05_sig(line):
    # signature of a failing history for KNOWN_FINDINGS: what the Go-side oracle complained about (VIOL lines) or "history"
    f = line.split()
    return f[1].split("_k=")[0] if f and f[0] == "VIOL" and len(f) > 1 else "history"


ID = "C05"
CFG = dict(
    propfile="Properties/C05.v",
    coq_deps=["Lib/RouteBytes", "Lib/RouteSpec", "Model/Router", "Proofs/RouterP", "Lib/CounterFacts", "Model/StorePool", "Proofs/StorePoolP",
              "Properties/C05", "Check/C04", "Check/C05", "Lib/Lockset", "Proofs/LocksetP"],
    ocaml="c05",
    race=True,
    static=[facts.C05_FACTS, httpd_static.counter_static, httpd_static.smoke386("C05")],
    casesv=c05_casesv,
    sig=c05_sig,
    coq_sample={"quick": 25, "thorough": 120},
    rule=("one evaluation = one request served by a real Mux inside a history and compared (a) in Go with the same request on a FRESH Mux "
          "with the routes registered at that time and (b) by the extracted specification/model replay of the whole history; "
          "histories: 1-40 operations from one goroutine (registrations between requests incl. HandleNoRoute/HandleRelay again and "
          "registrations that Handle REJECTS - repeated/empty :name under the prefix of earlier routes, unknown method, duplicates - with "
          "the harness recovering and going on, handlers that REPLACE Store.W (wrapper with status 201) or Store.P (copy) and leave them, routes with "
          "0-3 params and '*' whose names are case variants / prefixes / extensions of each other {a,A,ab,id,ID,b}, matched / unmatched / "
          "half-matched URLs, '' and '/', handlers that call WriteHeader and/or Flush, return, panic with Logger.Relay recovering, or "
          "panic through a non-recovering relay so that the panic leaves ServeHTTP), histories with 1-3 requests held in flight by channels "
          "while others complete, and histories from 8 goroutines with registrations between phases; every request reads RouteParam of "
          "twelve names {a,A,ab,abc,b,B,i,id,ID,Id,id2,zz}, RouteParamAny, Store.I, W.Status and GetID THREE times: at handler entry, at "
          "handler exit, and in the relay after the handler (before ServeHTTP resets the Store); plus one id-only history of 60,000 "
          "(thorough: 400,000) sequential requests on one Mux in which no id may repeat (checked in Go only; the layout of ids is "
          "not judged anywhere: ids are opaque strings that must be unique within the Mux and constant during the request; a layout "
          "other than the model's prefix+base36(ticket) is counted as id_layout_differs / drift); built with "
          "-race. Whether a handler panic propagates out of ServeHTTP is counted, not judged. distinct_nontrivial = histories"),
    trusted_base=[HARNESS_TB, EXTRACT_TB,
                  "Lib/RouteSpec.v match_spec is what 'a fresh Mux with these routes' answers (proved for the model in C04; also checked "
                  "against a really fresh Mux in Go on every request)",
                  "sync.Pool is modelled as a bag from which Get takes ANY element or a new one and which may forget elements; "
                  "atomic.AddUint64 as an atomic increment; gen/glbfacts + Lib/Lockset for 'storeID is only touched atomically, "
                  "the routing fields are read-only inside ServeHTTP'; the Go race detector for ownership of a Store between Get and Put",
                  "the model Model/StorePool.v is hand-written; tied to httpd/httpd.go differentially"],
    assumptions=["RE-ENTRANT use is covered dynamically: a handler may dispatch again with its own writer (mux.ServeHTTP(store.W, r2), same Mux "
                 "or a second one; in the model simply a request begun while another is in flight) and may call Handle on the Mux that is "
                 "serving it, sequentially inside its own request, watched by a 3 s timer (a handler that never returns is a violation); the "
                 "model's LRegister is not enabled while requests are in flight, so from an in-handler registration on such a history is judged "
                 "by the specification and the fresh-Mux oracle only (stat judged_without_model_after_in_handler_registration)",
                 "registrations (Handle / HandleRelay / HandleNoRoute) and requests do not overlap in time: ServeHTTP walks the trie without "
                 "mux.mu, so registering while requests are served is a data race in the code; the property quantifies over routes "
                 "registered before or after earlier requests, not during (model: LRegister is enabled only with no request in flight)",
                 "a REJECTED registration is part of a history: Handle panics, the caller recovers, the trie keeps the nodes created "
                 "before the error (model: handle_attempt; specification: ghost candidates of Lib/RouteSpec.v match_spec_g, validated "
                 "against the real Mux on every run, proved equal to match_spec when nothing was rejected); isolation is then stated "
                 "against a fresh Mux with the SAME registration attempts (C05_request_isolation), and against the router "
                 "specification when all were accepted (C05_request_isolation_accepted)"
                 "whether a rejected Handle leaves trie nodes behind is NOT part of the property: the check accepts, consistently within a "
                 "history, the dispatch of either variant (HEAD's leftover nodes = ghost specification, or nothing left = match_spec on the "
                 "accepted routes); histories in which the implementation showed the second are counted as residue_differs / drift",
                 "ids are unique until the 64-bit counter wraps (2^64 requests per Mux); that the counter of the source at hand IS 64 bits "
                 "wide and rendered untruncated is a static obligation checked on every run (gen/c05counter + Lib/CounterFacts.v), not an assumption",
                 "a handler does not keep the *Store (or the string returned by GetID, which aliases the Store's buffer) after it returns",
                 "W.Status changes only through the request's own actions (WriteHeader, Write, Flush, a wrapper writer installed by the "
                 "handler, the relay's bookkeeping); HOW the writer records them (last code wins, first final code wins ...) is not part "
                 "of C05: the harness reads the status back after each own action and logs that (model label LWrite k (WriteHeader s)), "
                 "and the Go oracle compares the status at exit / after the relay with the same request on a fresh Mux; a Handle that "
                 "rejects MORE than the specification demands is tolerated (the route is simply not registered; stat rejects_more)"],
)
CFG["manifest"] = dict(
    text=("Proof: for every history of a Mux - registrations, requests that overlap arbitrarily, any choice of pooled or new Store by "
          "sync.Pool.Get, handlers that set a status, return, panic and are recovered by the relay, or panic out of ServeHTTP (Store "
          "dropped), the pool forgetting Stores - every request in flight reads through its Store exactly what it would read on a fresh "
          "Mux with the same registration attempts, rejected ones included (C05_request_isolation; with the router specification's answer "
          "and no lookup panic when all were accepted, C05_request_isolation_accepted), nothing panics (C05_no_panic), W.Status is 0 at entry "
          "(C05_entry_state), other requests' steps never change its Store and its own WriteHeader changes the status only "
          "(C05_unaffected_by_others, C05_own_write_header), ids are prefix+base36(ticket) with strictly increasing tickets, hence "
          "pairwise distinct below 2^64 (C05_ids_unique); invariant: pooled Stores have no names, no values, status 0, id = prefix "
          "(C05_pool_invariant). The models of the old code are refuted with concrete histories (stale_names_refuted, "
          "frozen_capacity_refuted). Facts: storeID only through sync/atomic, routing fields read-only within ServeHTTP (lockset). "
          "Tie: real histories from 1 and 8 goroutines incl. forced overlap and escaping panics, each request compared with a fresh "
          "Mux in Go and replayed through the extracted model/specification; -race."),
    note=("Trusted: Coq kernel; the LTS reading of sync.Pool/atomic; Lib/RouteSpec.v; extraction + OCaml glue (vm_compute cross-check); "
          "Go harness and race detector. Registration concurrent with requests is outside the property (explicit assumption). "
          "Model hand-written, tied differentially."),
    technique="Coq proof (LTS invariant over all interleavings and pool choices, refinement to the router spec) + lockset facts + history replay and fresh-Mux oracle under -race",
)

import tables  # constant tables / literals of the current source proved equal to the model's on every run (lib/tables.py)
CFG["secondary"] = CFG.get("secondary", []) + [tables.C05_TABLES]
