"""Strings shared by the per-property configuration modules."""
HARNESS_TB = "Go harness (verifharness, replace => /repo, -tags verif) and the Go toolchain"
EXTRACT_TB = ("extraction with ExtrOcamlBasic only (Extract Inductive bool/option/unit/prod/list/sumbool, "
              "Extract Inlined Constant andb/orb/negb/fst/snd...; no Extract Constant of ours; N/Z/positive/nat kept as "
              "datatypes); OCaml 4.13.1; hand-written driver.ml glue, cross-checked by cases.v under vm_compute")

