import re

import vcheck as V
from props_common import HARNESS_TB, EXTRACT_TB
from prop_c03 import run_loggerfacts, KINDS

FIELDS = ("single_write write_under_lock clone_shares_mu buf_from_pool free_deferred handle_readonly "
          "reset_before_put refuses_oversized pool_new_empty gate_first level_stored_unchanged enabled_is_ge mu_out_never_assigned unlock_deferred")


def c02_static(tier):
    """Source facts -> Coq: Handle writes once under outMu with a pooled buffer released by defer, clone shares
    outMu, freeBuffer resets and refuses oversized buffers, the level gate comes first. Per handler type the
    discipline theorem is instantiated (facts_ok by vm_compute, then C02_atomic_lines_from_facts)."""
    probs, cov = [], {}
    rc, out, err = run_loggerfacts("conc")
    if rc != 0:
        probs.append(("unrecognised", "gen/loggerfacts cannot recognise the code shape of Handle/clone/freeBuffer/log any more: " + err.strip()[:600],
                      {"broken": "source facts C02 (gen/loggerfacts conc)", "extractor_rc": rc, "stderr": err[-3000:]}))
        cov["source_facts"] = {"recognised": False, "stderr": err.strip().splitlines()[:10]}
        return 3, 0, probs, cov
    facts = dict(re.findall(r"Definition (\w+)_conc_facts : conc_facts := mkConcFacts ([a-z ]+)\.", out))
    notes = re.findall(r"\(\* (.*?) \*\)", out)
    cov["source_facts"] = {"recognised": True, "fields": FIELDS, "facts": facts, "notes": notes}
    done = 0
    for k in KINDS:
        text = (out + "From Glb Require Import Properties.C02.\n"
                "Theorem facts_ok : conc_discipline %s_conc_facts = true.\nProof. vm_compute. reflexivity. Qed.\n"
                "Definition atomic_for_this_source := C02_atomic_lines_from_facts %s_conc_facts facts_ok.\n"
                "Print Assumptions atomic_for_this_source.\n" % (k, k))
        rc, cout, dt = V.coq_eval("C02facts" + k, text, timeout=300)
        if rc == 0 and "Closed under the global context" in cout:
            done += 1
        else:
            named = dict(zip(FIELDS.split(), (facts.get(k) or "").split()))
            off = [n for n, v in named.items() if v == "false"]
            probs.append(("proof", "the %s handler's source no longer satisfies the discipline the atomicity theorem needs "
                          "(facts that are false: %s): facts_ok does not check" % (k, ", ".join(off) or "?"),
                          {"broken": "conc_discipline %s_conc_facts = true (instantiating C02_atomic_lines_from_facts)" % k,
                           "facts": named, "notes": notes, "coq_output_tail": cout[-800:]}))
    return 3, done, probs, cov


def c02_casesv(lines):
    rows = []
    for l in lines:
        f = l.split()
        if f[0] == "T":
            z = lambda x: "(%s)%%Z" % x
            rows.append("(let p := check_threshold %s %s %s %s in fst p && snd p)" % (z(f[2]), z(f[3]), f[6], "true" if f[7] == "1" else "false"))
            continue
        ps, ws = [], []
        for tok in f[5:]:
            p = tok.split(":")
            if p[0] == "P":
                ps.append("mkPlanned %s%%N %s %s %s" % (p[1], p[2], "true" if p[3] == "1" else "false", p[4]))
            else:
                ws.append("mkWrote %s%%N %s" % (p[1], "true" if p[2] == "1" else "false"))
        rows.append("verdict_ok (check_case %s [%s] [%s] %s %s)" % (f[2], "; ".join(ps), "; ".join(ws), f[3], f[4]))
    return ("From Coq Require Import List NArith ZArith Bool.\nImport ListNotations.\nFrom Glb Require Import Check.C02.\n"
            "Definition verdicts : list bool := [\n  " + ";\n  ".join(rows) + "].\nEval vm_compute in verdicts.\n")


ID = "C02"
CFG = dict(
    propfile="Properties/C02.v",
    coq_deps=["Model/LoggerConc", "Proofs/LoggerConcP", "Properties/C02", "Check/C02"],
    ocaml="c02",
    race=True,
    casesv=c02_casesv,
    case_tags=("E", "T"),
    static=[c02_static],
    coq_sample={"quick": 60, "thorough": 150},
    harness_timeout={"quick": 600, "thorough": 7200},
    rule=("one case = one scenario: N in {1,2,4,16} goroutines logging planned records (sizes 10 B .. 64 KiB, levels on both sides "
          "of the threshold) through the root / handlers derived before / derived during the run, free running, with one writer "
          "held inside Write, or with goroutines parked in the middle of formatting; every Write call is recorded and compared "
          "byte-for-byte with the line the implementation writes for that record alone; T cases: every entry point x 20 thresholds x "
          "3 handlers x root/With/WithGroup, including every record Logger.Relay makes itself (REQ_BEG/REQ_END at Info, the panic "
          "record at Error) for returning and panicking routes, each judged against its OWN level; non-trivial = distinct case lines"),
    trusted_base=[HARNESS_TB, EXTRACT_TB,
                  "gen/loggerfacts (go/ast): reads Handle/clone of the three handlers, freeBuffer/newBuffer/bufferPool and Logger.log/logf/logAttrs; "
                  "refuses (broken correspondence) when the code shape is not the one it knows",
                  "the LTS's atomic actions are those of the source read at statement granularity; sync.Mutex and sync.Pool are modelled by their "
                  "documented behaviour (mutual exclusion; Get returns any pooled object or a new one)"],
    assumptions=["MODEL ASSUMPTION: formatting (LFormat) is pure, atomic and independent of other goroutines: it appends line c r to the "
                 "goroutine's own buffer and touches nothing else. The second pool (TextHandler.prefixPool), user callbacks run while "
                 "formatting (LogValuer, Marshalers, Stringers) and any package-level state of the renderers are OUTSIDE the model; the "
                 "harness exercises them (source/colour on, gate values, -race), the theorem does not speak about them",
                 "three facts feed no model flag and are harness-side ties only: handle_readonly (Handle and what it reaches assign to no "
                 "handler field / package-level variable), level_stored_unchanged and enabled_is_ge (the gate is level >= the configured threshold)",
                 "RECOGNISED SHAPES (gen/loggerfacts identifies things by type and role, not by name): the handler's single *sync.Mutex and io.Writer fields, or ONE pointer field to a struct holding one mutex and one io.Writer; every []byte (slice) field as pre-rendered bytes; the clone method = the parameterless method returning *T that builds a new T (composite literal or `c := *h; c.f = …; return &c`); the line-buffer pool = the package-level sync.Pool with a parameterless getter returning *[]byte (plain or comma-ok type assertion, New as literal or named function) and a releaser taking *[]byte (guard `cap(*buf) <= limit {…}` or early return `cap(*buf) > limit`); Lock / deferred-or-later Unlock / single Write as top-level statements of Handle or of ONE own helper method called once at top level; NewOptions as `return &Options{…}`, `o := &Options{…}; return o`, or `new(Options)` + field assignments (the stored level must be the parameter, unchanged); the level gate as `if !GATE {return}`, `if GATE {…}; return`, or through a local `x := GATE`. Everything else is refused (UNRECOGNISED => broken correspondence). Self-test: gen/loggerfacts/main_test.go (breaking rewrites M1-M7, N1-N3, C03e; harmless H1-H3 and testdata/harmless_*.diff)",
                 "the source facts are SYNTACTIC pattern recognisers (rules in the header of gen/loggerfacts/main.go, self-test "
                 "main_test.go): one known shape per function, top-level Lock / deferred Unlock / single Write in this order; anything else "
                 "is refused (UNRECOGNISED => broken correspondence); no data flow through locals, no reflection",
                 "PARTIAL: the Go memory model and sync.Pool's per-P caches / GC-driven eviction are outside the model; data-race freedom of "
                 "out/preformatted is covered by the lock/ownership facts plus the race detector in the harness, not by the theorem",
                 "the destination's Write is treated as atomic delivery of the chunk it is handed (what the io.Writer does with it is its own business)",
                 "line c r (the sequential meaning of a handler) is a parameter: the yardstick in the harness is the implementation alone"],
)
CFG["manifest"] = dict(
    text=("Proof: C02_atomic_lines - for every program (any number of threads, records, handlers derived from one root) and every "
          "schedule of the atomic actions Gate/PoolGet/Format/Lock/WriteBegin/WriteEnd/Unlock/PoolPut|Drop, when all threads have "
          "finished the destination holds exactly one chunk per enabled record, byte-for-byte its line, nothing for disabled records; "
          "Write calls never overlap; one Write and one formatting per enabled record per thread. Invariants: writer holds outMu, pooled "
          "buffers are empty, a buffer has one owner. Refutations show each discipline flag is needed. The discipline is read from the "
          "source by gen/loggerfacts on every run (facts_ok by vm_compute). Tie: a recording, gateable io.Writer and gate values force "
          "schedules (writer held inside Write; formatters parked holding pooled buffers) for N in {2,4,16} x root/derived-before/"
          "derived-during x three handlers x 10 B..64 KiB x thresholds, under -race. PARTIAL: memory model and sync.Pool internals are not modelled."),
    note=("Partial in this sense: the theorem is about the interleaving model of the source's atomic actions; the Go memory model and "
          "sync.Pool's per-P caches are outside it and are only exercised (race detector, stress). Trusted: Coq kernel, the source-facts "
          "extractor, extraction + driver glue (cross-checked by vm_compute), Go harness."),
    technique="Coq proof (LTS, invariants over all schedules, conservation argument) + source facts + forced-schedule harness under -race",
)

import tables  # constant tables / literals of the current source proved equal to the model's on every run (lib/tables.py)
CFG["secondary"] = CFG.get("secondary", []) + [tables.C02_TABLES]
