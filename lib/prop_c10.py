from vcheck import coq_bytes
from props_common import HARNESS_TB, EXTRACT_TB


def _toks(field):
    if field == ".":
        return "[]"
    return "[" + "; ".join(coq_bytes(t) for t in field.split(",")) + "]"


def c10_casesv(lines):
    rows = []
    for l in lines:
        _, idx, isz, mode, unchanged, vec, cls, detail, args, help_, fields = l.split()
        rows.append("verdict_clean (check_case %s (nth %s%%nat c10_tables []) %s %s %s %s %s %s %s %s)" % (
            isz, idx, "1" if mode == "P1" else "0", "true" if unchanged == "1" else "false", _toks(vec), cls, coq_bytes(detail), _toks(args), "true" if help_ == "1" else "false", _toks(fields)))
    return ("From Coq Require Import List NArith.\nImport ListNotations.\nFrom Glb Require Import Check.C10.\n"
            "Open Scope N_scope.\nDefinition verdicts : list bool := [\n  " + ";\n  ".join(rows) +
            "].\nEval vm_compute in verdicts.\n")


def c10_sig(line):
    # class of the observation + the vector: stable signature of a finding
    p = line.split()
    return "c10:" + (p[5] if len(p) > 5 else "")


ID = "C10"
CFG = dict(
    propfile="Properties/C10.v",
    coq_deps=["Lib/ArgGrammar", "Model/ArgParse", "Model/FlagValue", "Proofs/ArgParseP", "Properties/C10",
              "Check/FlagCanon", "Check/C10"],
    ocaml="c10",
    casesv=c10_casesv,
    sig=c10_sig,
    rule=("every token vector of length <= 4 over a 16-token alphabet (two bool flags, -b=false, empty values, values that look "
          "like flags, '-', '--', '---s', '-=v', unknown/unparsable), every vector of length <= 2 over a "
          "39-token alphabet (adds names with '-', '.', non-ASCII and non-UTF-8 bytes) (thorough: <= 5 resp. <= 3), every flag with every value of its kind in the four spellings and repeated; three SMALL flag sets (2-4 flags) whose longest "
          "name is non-ASCII (or ties with 'config' in bytes) with all spellings and all vectors of length <= 3 over their own alphabet; "
          "a zoo of 36 nested struct types (one and two levels, groups of 1..6 inner fields placed first / middle / last) with all spellings and all "
          "vectors of length <= 2 over their own alphabet; a GOARCH=386 pass over the integer-kind vectors (IntSize 32); histories of two Parse calls on ONE FlagSet (first call failing after recording flags, "
          "or succeeding; fixed and random vector pairs); the FromCommandLine entry point (os.Args) before and after testing.Init() registers package "
          "testing's flags in flag.CommandLine, with tokens spelled like every global flag in value position, after '--', after the first non-flag and as "
          "undefined flags; plain Parse again in that process state; and seeded "
          "grammar-aware random vectors incl. arbitrary byte tokens; a fresh struct + FlagSet per vector, all in one process; "
          "non-trivial = distinct vectors"),
    trusted_base=[HARNESS_TB, EXTRACT_TB,
                  "Lib/ArgGrammar.v is my reading of the documented grammar (package comment, argParse doc comment, flag-package conventions)",
                  "value errors: Model/FlagValue.v models strconv.ParseBool/ParseInt/ParseUint (no '_'), time.ParseDuration (no '.'), "
                  "base64.StdEncoding (no CR/LF); texts outside (all float64 texts) are judged leniently (either outcome accepted)"],
    assumptions=["int/uint are bounded by strconv.IntSize, reported by the harness in every case line (64 in the main run, 32 in the GOARCH=386 pass)", "what a non-empty -config does is C09's business: C10 vectors never carry one (and the check is lenient if they do)",
                 "the verdict distinguishes nil / error / PANIC only; message prefix and carried text refine byte drift"],
)
CFG["manifest"] = dict(
    text=("Proof: C10_grammar — for every flag table and every token vector over arbitrary bytes the statement-by-statement model of "
          "argParse returns exactly the assignments/rest derived by the documented grammar (inductive relation Parses), fails with "
          "exactly the documented error on Malformed vectors, and never panics; C10_total/C10_deterministic (the grammar is total and "
          "functional), C10_rest_is_suffix (Args() is the untouched suffix; stop reasons), C10_last_wins, C10_every_value_reachable. "
          "Tie: the real FlagSet.Parse is run on >100k vectors (exhaustive over a 16-token alphabet up to length 4, per-kind values, "
          "repeats, random incl. non-UTF-8 tokens); error class, Args(), ShowUsage() and every field value are compared with the "
          "extracted model; panics are caught and reported."),
    note=("Trusted: Coq kernel; Lib/ArgGrammar.v as the reading of the documentation; extraction + OCaml glue (vm_compute sample cross-check); "
          "Go harness. float64 texts and texts with '_' / '.' / CR LF are outside the modelled value parsers (lenient)."),
    technique="Coq proof (refinement of an inductive grammar, both directions) + differential correspondence",
)


def c10_pass_386(tier):
    """32-bit pass: the C10 harness built for GOARCH=386 (strconv.IntSize = 32) runs the integer-kind vectors
    (VERIF_C10_MODE=ints); the same extracted check function judges them with int_size = 32 from the case line."""
    import hashlib
    import os
    import shutil
    import vcheck as V
    cov, problems = {}, []
    tag = "" if V.REPO == "/repo" else "_" + hashlib.sha1(V.REPO.encode()).hexdigest()[:8]
    exe = os.path.join(V.BUILD, "h_c10_386" + tag)
    hdir = os.path.join(V.VERIF, "harness")
    env = dict(V.GOENV, GOARCH="386", CGO_ENABLED="0")
    with V.Lock("go" + tag):
        modfile = os.path.join(hdir, "go.mod")
        if tag:
            md = os.path.join(V.BUILD, "gomod" + tag)
            os.makedirs(md, exist_ok=True)
            modfile = os.path.join(md, "go.mod")
            open(modfile, "w").write(open(os.path.join(hdir, "go.mod")).read().replace("=> /repo", "=> " + V.REPO))
        try:
            shutil.copyfile(os.path.join(V.REPO, "go.sum"), modfile[:-4] + ".sum")
        except OSError:
            pass
        rc, out, dt = V.run(["go", "build", "-modfile=" + modfile, "-tags", "verif", "-o", exe, "./cmd/c10"], cwd=hdir, env=env, timeout=900)
    if rc != 0:
        problems.append(("tie", "C10 harness does not build for GOARCH=386", {"broken": "harness build 386", "log_tail": out[-2000:]}))
        return 1, 0, problems, cov
    rundir = os.path.join(V.BUILD, "run-C10-386-%d" % os.getpid())
    shutil.rmtree(rundir, ignore_errors=True)
    os.makedirs(rundir)
    try:
        rc, out, dt = V.run([exe, "-out", rundir, "-tier", tier, "-seed", "1"], env=dict(os.environ, VERIF_DIR=V.VERIF, VERIF_C10_MODE="ints"), timeout=600)
        if rc != 0:
            # e.g. the kernel cannot execute 32-bit binaries: not a finding about the code
            cov["pass_386"] = "not run: " + out.strip()[-200:]
            return 1, 1, problems, cov
        ok, bout = V.build_ocaml("c10")
        drv = os.path.join(V.VERIF, "ocaml", "c10", "drv")
        rc, out, dt = V.run([drv, os.path.join(rundir, "cases.txt")], timeout=600)
        nspec = 0
        stats = ""
        for line in out.splitlines():
            if line.startswith("SPECFAIL "):
                nspec += 1
                if nspec <= 5:
                    problems.append(("specfail", "GOARCH=386: specification fails on the implementation's output: " + line[9:][:300],
                                     {"case": line[9:], "goarch": "386", "sig": c10_sig(line[9:])}))
            elif line.startswith("MISMATCH "):
                problems.append(("tie", "GOARCH=386: " + line[:300], {"broken": "correspondence C10 (386)", "case": line[9:]}))
            elif line.startswith("STATS "):
                stats = line[6:]
        cov["pass_386"] = "GOARCH=386 CGO_ENABLED=0, integer-kind vectors: " + stats
        return 1, (1 if nspec == 0 and rc == 0 else 0), problems, cov
    finally:
        shutil.rmtree(rundir, ignore_errors=True)


CFG["static"] = CFG.get("static", []) + [c10_pass_386]

import tables  # constant tables / literals of the current source proved equal to the model's on every run (lib/tables.py)
CFG["secondary"] = CFG.get("secondary", []) + [tables.C10_TABLES]
