from vcheck import coq_bytes
from props_common import HARNESS_TB, EXTRACT_TB


def _toks(field):
    if field == ".":
        return "[]"
    return "[" + "; ".join(coq_bytes(t) for t in field.split(",")) + "]"


def c10_casesv(lines):
    rows = []
    for l in lines:
        _, vec, cls, detail, args, help_, fields = l.split()
        rows.append("verdict_clean (check_case c10_flags %s %s %s %s %s %s)" % (
            _toks(vec), cls, coq_bytes(detail), _toks(args), "true" if help_ == "1" else "false", _toks(fields)))
    return ("From Coq Require Import List NArith.\nImport ListNotations.\nFrom Glb Require Import Check.C10.\n"
            "Open Scope N_scope.\nDefinition verdicts : list bool := [\n  " + ";\n  ".join(rows) +
            "].\nEval vm_compute in verdicts.\n")


def c10_sig(line):
    # class of the observation + the vector: stable signature of a finding
    p = line.split()
    return "c10:" + (p[1] if len(p) > 1 else "")


ID = "C10"
CFG = dict(
    propfile="Properties/C10.v",
    coq_deps=["Lib/ArgGrammar", "Model/ArgParse", "Model/FlagValue", "Proofs/ArgParseP", "Properties/C10",
              "Check/FlagCanon", "Check/C10"],
    ocaml="c10",
    casesv=c10_casesv,
    sig=c10_sig,
    rule=("every token vector of length <= 4 over a 16-token alphabet (two bool flags, -b=false, empty values, values that look "
          "like flags, '-', '--', '---s', '-=v', unknown/unparsable), every vector of length <= 2 over a "
          "39-token alphabet (adds names with '-', '.', non-ASCII and non-UTF-8 bytes) (thorough: <= 5 resp. <= 3), every flag with every value of its kind in the four spellings and repeated, and seeded "
          "grammar-aware random vectors incl. arbitrary byte tokens; a fresh struct + FlagSet per vector, all in one process; "
          "non-trivial = distinct vectors"),
    trusted_base=[HARNESS_TB, EXTRACT_TB,
                  "Lib/ArgGrammar.v is my reading of the documented grammar (package comment, argParse doc comment, flag-package conventions)",
                  "value errors: Model/FlagValue.v models strconv.ParseBool/ParseInt/ParseUint (no '_'), time.ParseDuration (no '.'), "
                  "base64.StdEncoding (no CR/LF); texts outside (all float64 texts) are judged leniently (either outcome accepted)"],
    assumptions=["strconv.IntSize = 64", "what a non-empty -config does is C09's business: C10 vectors never carry one (and the check is lenient if they do)",
                 "the verdict distinguishes nil / error / PANIC only; message prefix and carried text refine byte drift"],
)
CFG["manifest"] = dict(
    text=("Proof: C10_grammar — for every flag table and every token vector over arbitrary bytes the statement-by-statement model of "
          "argParse returns exactly the assignments/rest derived by the documented grammar (inductive relation Parses), fails with "
          "exactly the documented error on Malformed vectors, and never panics; C10_total/C10_deterministic (the grammar is total and "
          "functional), C10_rest_is_suffix (Args() is the untouched suffix; stop reasons), C10_last_wins, C10_every_value_reachable. "
          "Tie: the real FlagSet.Parse is run on >100k vectors (exhaustive over a 16-token alphabet up to length 4, per-kind values, "
          "repeats, random incl. non-UTF-8 tokens); error class, Args(), ShowUsage() and every field value are compared with the "
          "extracted model; panics are caught and reported."),
    note=("Trusted: Coq kernel; Lib/ArgGrammar.v as the reading of the documentation; extraction + OCaml glue (vm_compute sample cross-check); "
          "Go harness. float64 texts and texts with '_' / '.' / CR LF are outside the modelled value parsers (lenient)."),
    technique="Coq proof (refinement of an inductive grammar, both directions) + differential correspondence",
)

import tables  # constant tables / literals of the current source proved equal to the model's on every run (lib/tables.py)
CFG["secondary"] = CFG.get("secondary", []) + [tables.C10_TABLES]
