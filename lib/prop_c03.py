import os
import re

import vcheck as V
from props_common import HARNESS_TB, EXTRACT_TB

KINDS = ["json", "text", "nano"]
FLAGS = {"clips": "111", "fresh": "111"}


def run_loggerfacts(which):
    """Build and run gen/loggerfacts on the tree under verification. Returns (rc, stdout, stderr)."""
    import subprocess
    gdir = os.path.join(V.VERIF, "gen", "loggerfacts")
    exe = os.path.join(V.BUILD, "loggerfacts")
    with V.Lock("loggerfacts"):
        rc, out, _ = V.run(["go", "build", "-o", exe, "."], cwd=gdir, env=V.GOENV, timeout=300)
        if rc != 0:
            return 99, "", "loggerfacts does not build:\n" + out
        p = subprocess.run([exe, V.REPO, which], stdout=subprocess.PIPE, stderr=subprocess.PIPE, text=True, timeout=120)
    return p.returncode, p.stdout, p.stderr


def selftest(tier):
    """thorough tier: the recogniser's own test-suite (breaking rewrites must flip a fact or be refused, harmless ones must pass)"""
    if tier != "thorough":
        return None
    rc, out, dt = V.run(["go", "test", "-count=1", "."], cwd=os.path.join(V.VERIF, "gen", "loggerfacts"),
                        env=dict(V.GOENV, LOGGERFACTS_REPO="/repo"), timeout=300)
    return {"rc": rc, "tail": out.strip().splitlines()[-3:]}


def c03_static(tier):
    """Source facts -> Coq: clone() clips, WithAttrs/WithGroup write only the clone; per handler type the
    discipline theorem is instantiated (facts_ok by vm_compute, then C03_isolation_from_facts)."""
    probs, cov = [], {}
    rc, out, err = run_loggerfacts("chain")
    if rc != 0:
        probs.append(("unrecognised", "gen/loggerfacts cannot recognise the code shape of clone/WithAttrs/WithGroup any more: " + err.strip()[:600],
                      {"broken": "source facts C03 (gen/loggerfacts chain)", "extractor_rc": rc, "stderr": err[-3000:]}))
        cov["source_facts"] = {"recognised": False, "stderr": err.strip().splitlines()[:10]}
        # the model in the driver then runs under the disciplined flags; the harness alone judges isolation for this source
        CFG["drv_args"] = ["111", "111"]
        return 3, 0, probs, cov
    facts = dict(re.findall(r"Definition (\w+)_chain_facts : chain_facts := mkChainFacts ([a-z ]+)\.", out))
    st = selftest(tier)
    if st:
        cov["source_facts_selftest"] = st
    cov["source_facts"] = {"recognised": True,
                           "fields": "clone_clips with_attrs_fresh with_group_fresh group_returns_receiver logger_with_returns_new_logger",
                           "facts": facts, "notes": re.findall(r"\(\* (.*?) \*\)", out)}
    # the model in the driver / cases.v runs under the discipline read from the source (per handler kind)
    bits = {k: (facts.get(k) or "false false false false false").split() for k in KINDS}
    FLAGS["clips"] = "".join("1" if bits[k][0] == "true" else "0" for k in KINDS)
    FLAGS["fresh"] = "".join("1" if bits[k][1] == "true" and bits[k][2] == "true" and bits[k][4] == "true" else "0" for k in KINDS)
    CFG["drv_args"] = [FLAGS["clips"], FLAGS["fresh"]]
    done = 0
    for k in KINDS:
        text = (out + "From Glb Require Import Properties.C03.\n"
                "Theorem facts_ok : chain_discipline %s_chain_facts = true.\nProof. vm_compute. reflexivity. Qed.\n"
                "Definition isolated_for_this_source := C03_isolation_from_facts %s_chain_facts facts_ok.\n"
                "Print Assumptions isolated_for_this_source.\n" % (k, k))
        rc, cout, dt = V.coq_eval("C03facts" + k, text, timeout=300)
        if rc == 0 and "Closed under the global context" in cout:
            done += 1
        else:
            probs.append(("proof", "the %s handler's source no longer satisfies the discipline the isolation theorem needs "
                          "(facts %s = clone_clips, with_attrs_fresh, with_group_fresh, group_returns_receiver, logger_with_returns_new_logger): facts_ok does not check"
                          % (k, facts.get(k)),
                          {"broken": "chain_discipline %s_chain_facts = true (instantiating C03_isolation_from_facts)" % k,
                           "facts": facts.get(k), "notes": cov["source_facts"]["notes"], "coq_output_tail": cout[-800:]}))
    return 3, done, probs, cov


def c03_norace(tier):
    """The pool-poison family once more in a harness built WITHOUT the race detector (under -race sync.Pool drops items at
    random, so a buffer of critical capacity does not reliably come back): VIOL / SPECFAIL lines are failing inputs."""
    import shutil
    probs, cov = [], {}
    ok, out, exe = V.build_harness("C03", race=False)
    if not ok:
        probs.append(("tie", "harness (non-race build) does not build", {"broken": "harness build (non-race)", "log_tail": out[-2000:]}))
        return 0, 0, probs, cov
    rundir = os.path.join(V.BUILD, "run-C03nr-%d" % os.getpid())
    shutil.rmtree(rundir, ignore_errors=True)
    os.makedirs(rundir)
    try:
        seed = os.environ.get("VERIF_SEED") or "1"
        rc, out, dt = V.run([exe, "-out", rundir, "-tier", tier, "-seed", seed], env=dict(os.environ, C03_ONLY="poison", VERIF_DIR=V.VERIF), timeout=900)
        cases = os.path.join(rundir, "cases.txt")
        n = nviol = 0
        if rc != 0 or not os.path.exists(cases):
            probs.append(("tie", "harness (non-race build, pool-poison family) failed rc=%d: %s" % (rc, out[-400:]), {"broken": "harness run (non-race)"}))
            return 0, 0, probs, cov
        for line in open(cases, errors="replace"):
            if line.startswith("VIOL "):
                nviol += 1
                if nviol <= 5:
                    probs.append(("specfail", "implementation violates the oracle (non-race build, pooled buffers of critical capacity): " + line.strip()[:300],
                                  {"case": line.strip(), "sig": ""}))
            elif line.startswith("E "):
                n += 1
        cov["pool_poison_non_race"] = {"histories": n, "violating_lines": nviol, "wall_s": round(dt, 1)}
    finally:
        shutil.rmtree(rundir, ignore_errors=True)
    return 0, 0, probs, cov


def _ints(s):
    return "[]" if s in ("-", "") else "[" + ";".join(s.split(",")) + "]"


def _nints(s):
    return "[]" if s in ("-", "") else "[" + ";".join(x + "%N" for x in s.split(",")) + "]"


def c03_casesv(lines):
    rows = []
    for l in lines:
        f = l.split()
        if f[0] == "E":
            ops = []
            for o in f[2:]:
                p = o.split(":")
                if p[0] == "A":
                    ops.append("CA %s %s%%N %s" % (p[1], p[2], _ints(p[3])))
                elif p[0] == "G":
                    ops.append("CG %s %s%%N %s" % (p[1], p[2], p[3]))
                else:
                    ops.append("CL %s %s %s%%N %s %s %s" % (p[1], "true" if p[2] == "1" else "false", p[3], p[4], _nints(p[5]), _nints(p[6])))
            kk = int(f[1])
            rows.append("verdict_ok (check_case %s %s %s [%s])" % (f[1], "true" if FLAGS["clips"][kk] == "1" else "false",
                                                                  "true" if FLAGS["fresh"][kk] == "1" else "false", "; ".join(ops)))
        else:
            rows.append("(let p := check_callsite %s %s %s %s %s %s in fst p && snd p)" % (
                f[1], "true" if f[2] == "1" else "false", f[3], f[4], f[5], f[6]))
    return ("From Coq Require Import List NArith Bool.\nImport ListNotations.\nFrom Glb Require Import Check.C03.\n"
            "Definition verdicts : list bool := [\n  " + ";\n  ".join(rows) + "].\nEval vm_compute in verdicts.\n")


ID = "C03"
CFG = dict(
    propfile="Properties/C03.v",
    coq_deps=["Lib/GoSlice", "Proofs/GoSliceP", "Model/LoggerChain", "Proofs/LoggerChainP", "Model/LoggerJson", "Proofs/LoggerJsonWithP",
              "Model/LoggerText", "Proofs/LoggerTextP", "Proofs/LoggerTextWithP", "Properties/C03", "Check/C03"],
    ocaml="c03",
    race=True,
    casesv=c03_casesv,
    case_tags=("E", "W"),
    static=[c03_static, c03_norace],
    coq_sample={"quick": 120, "thorough": 400},
    harness_timeout={"quick": 600, "thorough": 7200},
    rule=("[12 % of the histories run against a shared destination that FAILS every k-th Write (keeps the bytes, returns an error): a failed Write of one logger may not change what parent, siblings or descendants write] one case = one history on a tree of loggers (E: derive/log operations in plan order with the bytes each derivation "
          "appended, every logged line compared byte-for-byte with an isolated replay of the node's chain in the implementation) "
          "or one With-vs-call-site comparison (W); non-trivial = distinct case lines"),
    trusted_base=[HARNESS_TB, EXTRACT_TB,
                  "gen/loggerfacts (go/ast): reads clone/WithAttrs/WithGroup of the three handlers and reports whether preformatted is "
                  "clipped and whether only the fresh clone is written; it refuses (broken correspondence) when the code shape is not the one it knows",
                  "Lib/GoSlice.v as the reading of the Go specification of append/slices.Clip (in place when it fits, any capacity >= needed otherwise)"],
    assumptions=["PARTIAL: the theorems cover SEQUENTIAL histories with an atomic Derive and only the `preformatted` backing-array channel "
                 "(plus the value-copied context); other shared state - TextHandler's prefixPool, slice-typed context fields, *Options, the "
                 "Logger wrapper, package-level variables - is covered by the source facts and the harness only",
                 "byte-level rendering is a parameter of the theorems (C01/C13 own it); C03 holds for every rendering; "
                 "C03_with_is_callsite assumes the rendering is compositional (shown inhabited, not discharged for the real renderers)",
                 "concurrent derivation adds nothing once a published handler is never written (facts + race detector in the harness)",
                 "RECOGNISED SHAPES (gen/loggerfacts identifies things by type and role, not by name): the handler's single *sync.Mutex and io.Writer fields, or ONE pointer field to a struct holding one mutex and one io.Writer; every []byte (slice) field as pre-rendered bytes; the clone method = the parameterless method returning *T that builds a new T (composite literal or `c := *h; c.f = …; return &c`); the line-buffer pool = the package-level sync.Pool with a parameterless getter returning *[]byte (plain or comma-ok type assertion, New as literal or named function) and a releaser taking *[]byte (guard `cap(*buf) <= limit {…}` or early return `cap(*buf) > limit`); Lock / deferred-or-later Unlock / single Write as top-level statements of Handle or of ONE own helper method called once at top level; NewOptions as `return &Options{…}`, `o := &Options{…}; return o`, or `new(Options)` + field assignments (the stored level must be the parameter, unchanged); the level gate as `if !GATE {return}`, `if GATE {…}; return`, or through a local `x := GATE`. Everything else is refused (UNRECOGNISED => broken correspondence). Self-test: gen/loggerfacts/main_test.go (breaking rewrites M1-M7, N1-N3, C03e; harmless H1-H3 and testdata/harmless_*.diff)",
                 "the source facts are SYNTACTIC pattern recognisers (rules in the header of gen/loggerfacts/main.go; self-test "
                 "gen/loggerfacts/main_test.go with breaking and harmless rewrites): one known shape per function, anything else is "
                 "refused (UNRECOGNISED => broken correspondence); they see no data flow through locals, no reflection, no state reachable "
                 "only through Options or through functions outside clone/WithAttrs/WithGroup/Logger.With"],
)
CFG["manifest"] = dict(
    text=("Proof: C03_isolation / C03_every_logged_line / C03_published_bytes_immutable hold for every rendering of attributes and "
          "groups, every append growth policy and every sequence of derive/log operations on a tree of loggers, on an explicit "
          "backing-array heap (Lib/GoSlice); C03_with_is_callsite for every compositional rendering; no_clip_refuted and "
          "assign_receiver_refuted show the model breaks without the discipline. The discipline (clone clips preformatted; "
          "WithAttrs/WithGroup write only the clone) is read from the source by gen/loggerfacts on every run and the theorem is "
          "instantiated with it (facts_ok by vm_compute). Tie: random derivation trees (depth<=5, fan-out<=4), a dense sweep of "
          "sibling pairs over parent sizes across append growth steps, concurrent derivation from a shared parent under -race; "
          "every line is compared with an isolated replay in the implementation and its marker ids with the heap model."),
    note=("Partial: sequential histories, atomic Derive, only the preformatted aliasing channel is modelled; the rest of the shared state "
          "is covered by source facts (syntactic recognisers) and the harness. Trusted: Coq kernel; Lib/GoSlice as the semantics of append; the source-facts extractor; extraction + driver glue "
          "(cross-checked by vm_compute); Go harness and race detector. The bytes of a line are not modelled here (parameter)."),
    technique="Coq proof (heap of backing arrays, invariant over all operation sequences, parametric in the rendering) + source facts + differential harness under -race",
)
