"""The second kind of tie: the model is REGENERATED from the source on every run.

gen/go2coq (Go, go/ast only) translates the small pure functions a property anchors in — from the tree under
verification, $VERIF_REPO or /repo — into Gallina (`Module Src`, over coq/Lib/GoRt.v).  A FIXED proof script
(coq/Go2coq/<ID>.v.in) then proves, about the text just generated, that the regenerated function never panics
and has the verified shape / equals the verified model, and RE-STATES the property's theorems for `Src.<Func>`.
coqc checks the result (vcheck.coq_eval); every theorem must be closed under the global context.

src_static(...) returns fn(tier) -> (obligations, discharged, problems, coverage); the instances are registered in a
property's `CFG["secondary"]` list (lib/runner.py: an ADDITIONAL tie — counted and reported, a NOTE when it alone is
broken, supporting detail next to the failing input when the dynamic correspondence finds one; registered under
`CFG["static"]` the same function would make a broken tie a VIOLATION ... no-failing-input-found).
obligations = the theorems of the generated file.  When the translator rejects the source ("no longer in the
translatable subset") or a fixed script no longer goes through, the function returns a ("tie", ...) problem naming
`go2coq <Func>` with the generated text and the tail of Coq's error.

A template may end with a part introduced by a line containing `---- INFORMATIONAL`: byte equality with the
hand-written model.  If only that part fails the run is OK and the coverage records `drift` (same policy as the
DRIFT lines of the dynamic check: a harmless rewrite never raises an alarm).

Ready-made instances: C16_SRC, C17_SRC, C09_SRC.
"""
import os
import re
import subprocess

import vcheck as V

GEN = os.path.join(V.VERIF, "gen", "go2coq")
TPL = os.path.join(V.COQ, "Go2coq")
INFO_MARK = "---- INFORMATIONAL"


def run_go2coq(relfile, funcs):
    """Build the translator and run it on the tree under verification. Returns (ok, stdout or message)."""
    exe = os.path.join(V.BUILD, "go2coq")
    srcs = [os.path.join(GEN, f) for f in os.listdir(GEN) if f.endswith(".go") or f == "go.mod"]
    if not (os.path.exists(exe) and os.path.getmtime(exe) >= max(os.path.getmtime(f) for f in srcs)):
        with V.Lock("go2coq"):
            rc, out, _ = V.run(["go", "build", "-o", exe + ".tmp%d" % os.getpid(), "."], cwd=GEN, env=V.GOENV, timeout=300)
            if rc != 0:
                return False, "go2coq does not build:\n" + out
            os.replace(exe + ".tmp%d" % os.getpid(), exe)
    try:
        p = subprocess.run([exe, V.REPO, relfile] + list(funcs), stdout=subprocess.PIPE, stderr=subprocess.PIPE,
                           text=True, timeout=60)
    except subprocess.TimeoutExpired:
        return False, "go2coq timed out"
    if p.returncode != 0:
        return False, (p.stderr or p.stdout).strip()
    return True, p.stdout


def _strip_comments(text):
    # Coq comments nest; the templates keep them simple, but be exact anyway
    out, depth, i = [], 0, 0
    while i < len(text):
        if text.startswith("(*", i):
            depth += 1
            i += 2
        elif text.startswith("*)", i) and depth:
            depth -= 1
            i += 2
        else:
            if not depth:
                out.append(text[i])
            elif text[i] == "\n":
                out.append("\n")      # keep the line numbers
            i += 1
    return "".join(out)


THM_RE = re.compile(r"^\s*(Theorem|Lemma)\s+([A-Za-z0-9_']+)", re.M)


def _theorems(text):
    """[(line, kind, name, statement)] of the comment-free text"""
    nc = _strip_comments(text)
    res = []
    for m in THM_RE.finditer(nc):
        line = nc.count("\n", 0, m.start(1)) + 1
        end = nc.find("Proof.", m.end())
        res.append((line, m.group(1), m.group(2), nc[m.start(1):end if end > 0 else m.end()]))
    return res


def _subject(statement, funcs):
    """the translated function a statement is about: the first `Src.<F>` it mentions"""
    best = None
    for f in funcs:
        m = re.search(r"\bSrc\." + re.escape(f) + r"\b", statement)
        if m and (best is None or m.start() < best[0]):
            best = (m.start(), f)
    return best[1] if best else None


def src_static(pid, relfile, funcs, template, libs, model_name):
    key = "go2coq_" + pid

    def fn(tier):
        c = {"source": relfile, "functions": list(funcs), "template": "coq/Go2coq/" + template,
             "translator": "gen/go2coq (go/ast; rejects whatever is outside its subset)"}
        cov = {key: c}
        tpl = open(os.path.join(TPL, template)).read()
        info_at = tpl.find(INFO_MARK)
        main_tpl = tpl if info_at < 0 else tpl[:tpl.rfind("\n", 0, info_at) + 1]
        n_main = len([t for t in _theorems(main_tpl) if t[1] == "Theorem"])
        n_info = len([t for t in _theorems(tpl) if t[1] == "Theorem"]) - n_main
        allf = "/".join(funcs)
        problems = []

        hits = sorted(set(m.group(0) for m in V.FORBIDDEN.finditer(_strip_comments(tpl))))
        if hits:
            problems.append(("proof", "forbidden vernacular in coq/Go2coq/%s: %s" % (template, ", ".join(hits)),
                             {"broken": "go2coq template " + template, "hits": hits}))
            return n_main, 0, problems, cov

        ok, out = run_go2coq(relfile, funcs)
        if not ok:
            c["translated"] = False
            c["rejected"] = out[-1500:]
            if "REJECTED" in out:
                m = re.search(r"REJECTED:\s*(.*)", out, flags=re.S)
                why = m.group(1).strip() if m else out.strip()
                # name the function the position lies in, when the message has one
                fn_hit = next((f for f in funcs if re.search(r"\b%s\b" % re.escape(f), why)), None)
                text = ("regenerated model of %s: the source is no longer in the translatable subset, so the theorems of %s "
                        "cannot be re-checked against it: %s" % (fn_hit or allf, pid, why[:600]))
            else:
                text = "regenerated model of %s: the translator could not be run: %s" % (allf, out.strip()[-600:])
            problems.append(("tie", text, {"broken": "go2coq " + (allf if "REJECTED" not in out else (fn_hit or allf)),
                                           "translator_output": out[-3000:], "source": relfile}))
            return n_main, 0, problems, cov
        c["translated"] = True
        src_mod = out[out.find("Module Src."):] if "Module Src." in out else out
        c["generated"] = src_mod.strip().splitlines()
        c["assumptions_of_translation"] = re.findall(r"\(\* assumption: (.*?) \*\)", out)

        text = tpl.replace("@SRC@", out)
        # the libraries are built by make; when their .vo are current the (contended) build lock is not taken at all
        rc, cout, dt = (1, "stale", 0.0)
        if all(V.vo_ok(l[:-1]) for l in libs):
            rc, cout, dt = V.coq_eval("go2coq-" + pid, text, timeout=300)
        if rc != 0 and re.search(r"stale|inconsistent assumptions|Cannot find a physical path|Unable to locate library|bad version", cout):
            bok, blog, _ = V.build_coq(libs)
            if not bok:
                problems.append(("proof", "the libraries of the go2coq obligation do not build",
                                 {"broken": "coq build " + " ".join(libs), "log_tail": "\n".join(blog.strip().splitlines()[-25:])}))
                return n_main, 0, problems, cov
            rc, cout, dt = V.coq_eval("go2coq-" + pid, text, timeout=300)
        c["coq_wall_s"] = round(dt, 1)
        closed = len(re.findall(r"^Closed under the global context", cout, flags=re.M))
        axioms = "Axioms:" in cout
        thms = _theorems(text)
        info_line = None
        if info_at >= 0:
            info_line = text.count("\n", 0, text.find(INFO_MARK)) + 1
        err_line = None
        if rc != 0:
            m = re.search(r'File "\./cases\.v", line (\d+)', cout)
            err_line = int(m.group(1)) if m else 0
        c["theorems"] = [t[2] for t in thms if t[1] == "Theorem" and (info_line is None or t[0] < info_line)]
        tail = "\n".join(cout.strip().splitlines()[-14:])

        if axioms:
            problems.append(("proof", "a theorem about the regenerated model of %s depends on axioms" % allf,
                             {"broken": "go2coq " + allf, "output_tail": cout[-2000:]}))
            return n_main, 0, problems, cov
        main_failed = rc != 0 and (info_line is None or err_line < info_line)
        if main_failed:
            failing = [t for t in thms if t[0] <= err_line]
            name, stmt = (failing[-1][2], failing[-1][3]) if failing else ("?", "")
            subj = _subject(stmt, funcs) or allf
            c["failing_theorem"] = name
            done = len([t for t in thms if t[1] == "Theorem" and t[0] < (failing[-1][0] if failing else 0)])
            problems.append(("tie", "regenerated model of %s no longer provably equals the verified model %s: fixed proof script "
                             "of %s fails: %s" % (subj, model_name, name, " ".join(tail.split())[:500]),
                             {"broken": "go2coq " + subj, "failing_theorem": name, "generated": src_mod,
                              "coq_error_tail": tail, "source": relfile}))
            return n_main, 0, problems, cov
        if closed < 1:
            problems.append(("tie", "regenerated model of %s: the generated Coq file did not report its assumptions" % allf,
                             {"broken": "go2coq " + allf, "output_tail": cout[-2000:]}))
            return n_main, 0, problems, cov
        if rc != 0:
            # only the informational part failed: the source is not byte-identical to the hand-written model,
            # but the property's theorems were proved about what it says now
            failing = [t for t in thms if t[0] <= err_line]
            c["drift"] = True
            c["drift_note"] = ("byte equality with %s not proved (%s); the property's theorems hold for the regenerated "
                               "definitions" % (model_name, failing[-1][2] if failing else "?"))
            return n_main, n_main, problems, cov
        c["drift"] = False
        c["print_assumptions"] = "Closed under the global context"
        return n_main + n_info, n_main + n_info, problems, cov

    fn.__name__ = "go2coq_" + pid
    return fn


# ---- ready-made instances --------------------------------------------------------------------
C16_SRC = src_static("C16", "util/strutil/strutil.go", ["ShellEscape", "ShellEscapeExceptTilde"], "C16.v.in",
                     ["Proofs/GoRtP.vo", "Proofs/ShellEscapeGenP.vo"], "Model/ShellEscape.v")
C17_SRC = src_static("C17", "util/fsutil/path.go", ["ResolveUrlPath"], "C17.v.in",
                     ["Proofs/GoRtP.vo", "Proofs/UrlPathGenP.vo"], "Model/UrlPath.v (resolve)")
C09_SRC = src_static("C09", "util/strutil/strutil.go", ["Underscore"], "C09.v.in",
                     ["Proofs/GoRtP.vo", "Proofs/ConfigP.vo"], "Model/Config.v (underscore)")
