from vcheck import coq_bytes
from props_common import HARNESS_TB, EXTRACT_TB


def c17_casesv(lines):
    rows = []
    for l in lines:
        _, b, p, o = l.split()
        rows.append("verdict_ok (check_case %s %s %s)" % (coq_bytes(b), coq_bytes(p), coq_bytes(o)))
    return ("From Coq Require Import List NArith.\nImport ListNotations.\nFrom Glb Require Import Check.C17.\n"
            "Open Scope N_scope.\nDefinition verdicts : list bool := [\n  " + ";\n  ".join(rows) +
            "].\nEval vm_compute in verdicts.\n")


def c17_sig(line):
    return "escape"


ID = "C17"
CFG = dict(
    propfile="Properties/C17.v",
    coq_deps=["Lib/GoPath", "Model/UrlPath", "Proofs/UrlPathP", "Properties/C17", "Check/C17"],
    ocaml="c17",
    casesv=c17_casesv,
    sig=c17_sig,
    rule=("every URL path of length <= L over {'/', '.', 'a', '\\\\'} (L=6 quick: 5,461 strings; L=8 thorough: 87,381) x 12 base "
          "spellings (absolute, relative, '.', trailing slash, '..' inside, '//', '/', '..', '../x', 'a/../..'), plus seeded "
          "random byte strings for base (non-empty) and path (any byte incl. NUL and >= 0x80); call sequences in one process "
          "over nested bases (b, b/sub, b/sub/sub2; absolute, relative, '/', '../up', trailing slash) with url paths that are the "
          "same text once concatenated with the base ('/sub/..' vs '/..', '/sub/../..' vs '/../..', '/sub/x' vs '/x', '//sub/..'), "
          "both orders, alternating, and with 0/300/3000 unrelated calls in between, at the start and again at the end of the run; "
          "long paths: 100..5000 repetitions of './', '/', 'x/../', './/' followed by '../../etc/passwd', '..', '../..', with and "
          "without leading slash (tag L, not part of the in-Coq sample); one case = one (base, path) "
          "pair with the returned string; non-trivial = distinct case lines"),
    trusted_base=[HARNESS_TB, EXTRACT_TB,
                  "Lib/GoPath.v as the model of Go's path.Clean / POSIX filepath.Clean / filepath.Join (segment stack machine); "
                  "tied to the Go standard library byte for byte on every explored case (model_eq / DRIFT counter = 0) and "
                  "cross-checked by the Go-side oracle filepath.Rel(filepath.Clean(base), result)",
                  "'beneath' = lexical containment (cleaned base + ordinary names); symbolic links inside the base directory are "
                  "outside the property (the property is about the returned path string)"],
    assumptions=["POSIX file paths: separator '/', no volume names, filepath.FromSlash is the identity (GOOS=linux)",
                 "base is non-empty (ResolveUrlPath(\"\", p) returns an absolute path below \"/\"; excluded by the property's quantifier)"],
)
CFG["manifest"] = dict(
    text=("Proof: Coq theorems C17_contained / C17_clean_base / C17_beneath / C17_beneath_sound / C17_dot_free hold for every "
          "non-empty base and every URL path as arbitrary byte strings, no length bound: the cleaned segments of the result are "
          "the cleaned segments of the base followed by ordinary names only, and byte-wise the result is the cleaned base with "
          "those names attached; for dot-free paths it equals filepath.Join(base, path). "
          "Tie: ResolveUrlPath is run on all paths of length <= 6 (thorough 8) over {/ . a \\} x 12 base spellings and on random "
          "byte strings; each result is judged by the extracted containment predicate, compared byte-wise with the model, and "
          "checked independently with filepath.Rel."),
    note=("Trusted: Coq kernel; Lib/GoPath.v as the reading of path.Clean/filepath.Join (validated byte for byte on all explored "
          "cases); extraction + OCaml glue (cross-checked by vm_compute sample); Go harness. Lexical containment only: symlinks "
          "below the base are not part of this property."),
    technique="Coq proof (segment stack machine, normal-form invariant) + exhaustive/random differential correspondence + filepath.Rel oracle",
)
import go2coq  # noqa: E402  (second tie: the model regenerated from the source on every run)
CFG["secondary"] = CFG.get("secondary", []) + [go2coq.C17_SRC]
