from vcheck import coq_bytes
from props_common import HARNESS_TB, EXTRACT_TB


def c17_casesv(lines):
    rows = []
    for l in lines:
        _, b, p, o = l.split()
        rows.append("verdict_ok (check_case %s %s %s)" % (coq_bytes(b), coq_bytes(p), coq_bytes(o)))
    return ("From Coq Require Import List NArith.\nImport ListNotations.\nFrom Glb Require Import Check.C17.\n"
            "Open Scope N_scope.\nDefinition verdicts : list bool := [\n  " + ";\n  ".join(rows) +
            "].\nEval vm_compute in verdicts.\n")


def c17_race(tier):
    """The concurrent phase once more in a harness built with the race detector: ResolveUrlPath is specified as a pure
    function, a reported data race between two calls means shared mutable state inside it. VIOL lines (result differs from
    the sequential call) are failing inputs; a race report without a differing result is reported without a failing input."""
    import os
    import shutil
    import vcheck as V
    probs, cov = [], {}
    ok, out, exe = V.build_harness("C17", race=True)
    if not ok:
        probs.append(("tie", "harness (-race build) does not build", {"broken": "harness build (-race)", "log_tail": out[-2000:]}))
        return 0, 0, probs, cov
    rundir = os.path.join(V.BUILD, "run-C17race-%d" % os.getpid())
    shutil.rmtree(rundir, ignore_errors=True)
    os.makedirs(rundir)
    try:
        seed = os.environ.get("VERIF_SEED") or "1"
        env = dict(os.environ, C17_MODE="concurrent", C17_CONC_ITERS="4000" if tier == "quick" else "40000",
                   GORACE="halt_on_error=0 exitcode=66", VERIF_DIR=V.VERIF)
        rc, out, dt = V.run([exe, "-out", rundir, "-tier", tier, "-seed", seed], env=env, timeout=900)
        cases = os.path.join(rundir, "cases.txt")
        nviol = 0
        if os.path.exists(cases):
            for line in open(cases, errors="replace"):
                if line.startswith("VIOL "):
                    nviol += 1
                    if nviol <= 5:
                        probs.append(("specfail", "implementation violates the oracle (-race build): " + line.strip()[:300],
                                      {"case": line.strip(), "sig": "escape"}))
        races = out.count("WARNING: DATA RACE")
        cov["concurrent_under_race_detector"] = {"rc": rc, "data_races_reported": races, "violating_lines": nviol, "wall_s": round(dt, 1)}
        if races or rc == 66:
            first = out[out.find("WARNING: DATA RACE"):][:1500] if races else out[-800:]
            probs.append(("tie", "the race detector reports a data race between concurrent ResolveUrlPath calls (the function is "
                          "specified as pure): " + " | ".join(l.strip() for l in first.splitlines()[:8]),
                          {"broken": "C17 concurrent calls under -race", "report": first}))
        elif rc != 0:
            probs.append(("tie", "harness (-race build, concurrent phase) failed rc=%d: %s" % (rc, out[-400:]), {"broken": "harness run (-race)"}))
    finally:
        shutil.rmtree(rundir, ignore_errors=True)
    return 0, 0, probs, cov


def c17_sig(line):
    return "escape"


ID = "C17"
CFG = dict(
    propfile="Properties/C17.v",
    coq_deps=["Lib/GoPath", "Model/UrlPath", "Proofs/UrlPathP", "Properties/C17", "Check/C17"],
    ocaml="c17",
    casesv=c17_casesv,
    sig=c17_sig,
    static=[c17_race],
    rule=("every URL path of length <= L over {'/', '.', 'a', '\\\\'} (L=6 quick: 5,461 strings; L=8 thorough: 87,381) x 12 base "
          "spellings (absolute, relative, '.', trailing slash, '..' inside, '//', '/', '..', '../x', 'a/../..'), plus seeded "
          "random byte strings for base (non-empty) and path (any byte incl. NUL and >= 0x80); call sequences in one process "
          "over nested bases (b, b/sub, b/sub/sub2; absolute, relative, '/', '../up', trailing slash) with url paths that are the "
          "same text once concatenated with the base ('/sub/..' vs '/..', '/sub/../..' vs '/../..', '/sub/x' vs '/x', '//sub/..'), "
          "both orders, alternating, and with 0/300/3000 unrelated calls in between, at the start and again at the end of the run; "
          "an on-disk phase: real base directories in a sandbox with symbolic links at and beneath the base leading outside (to a "
          "directory, a file, upwards), dangling and self links, the base itself behind a link, absolute and relative spellings, "
          "41 url paths through and around them (the property is about the returned path: what is on disk must not matter); "
          "a concurrent phase: 64 goroutines (4 x GOMAXPROCS) x 60,000 calls (thorough 600,000) on clean / dot-dot paths "
          "without leading slash and the usual shapes, every result compared with the same call made sequentially (differences "
          "are VIOL lines and are judged by the Coq predicate), and once more under the race detector; "
          "long paths: 100..5000 repetitions of './', '/', 'x/../', './/' followed by '../../etc/passwd', '..', '../..', with and "
          "without leading slash (tag L, not part of the in-Coq sample); one case = one (base, path) "
          "pair with the returned string; non-trivial = distinct case lines"),
    trusted_base=[HARNESS_TB, EXTRACT_TB,
                  "Lib/GoPath.v as the model of Go's path.Clean / POSIX filepath.Clean / filepath.Join (segment stack machine); "
                  "tied to the Go standard library byte for byte on every explored case (model_eq / DRIFT counter = 0) and "
                  "cross-checked by the Go-side oracle filepath.Rel(filepath.Clean(base), result)",
                  "'beneath' = lexical containment (cleaned base + ordinary names); symbolic links inside the base directory are "
                  "outside the property (the property is about the returned path string)"],
    assumptions=["location, not spelling: the implementation's output is cleaned lexically (the model's Clean) before the containment "
                 "predicate and before the comparison with Join(base, path) for dot-free paths (theorem C17_judged_modulo_clean: this is "
                 "the proved predicate); an output that names the same location in another spelling ('./a', uncleaned base) is byte drift",
                 "the theorems are about the function of (base, path); that concurrent calls do not interfere (no shared mutable state "
                 "inside ResolveUrlPath) is checked by the concurrent phase and the race detector, not proved",
                 "POSIX file paths: separator '/', no volume names, filepath.FromSlash is the identity (GOOS=linux)",
                 "base is non-empty (ResolveUrlPath(\"\", p) returns an absolute path below \"/\"; excluded by the property's quantifier)"],
)
CFG["manifest"] = dict(
    text=("Proof: Coq theorems C17_contained / C17_clean_base / C17_beneath / C17_beneath_sound / C17_dot_free hold for every "
          "non-empty base and every URL path as arbitrary byte strings, no length bound: the cleaned segments of the result are "
          "the cleaned segments of the base followed by ordinary names only, and byte-wise the result is the cleaned base with "
          "those names attached; for dot-free paths it equals filepath.Join(base, path). "
          "Tie: ResolveUrlPath is run on all paths of length <= 6 (thorough 8) over {/ . a \\} x 12 base spellings and on random "
          "byte strings; each result is judged by the extracted containment predicate, compared byte-wise with the model, and "
          "checked independently with filepath.Rel."),
    note=("Trusted: Coq kernel; Lib/GoPath.v as the reading of path.Clean/filepath.Join (validated byte for byte on all explored "
          "cases); extraction + OCaml glue (cross-checked by vm_compute sample); Go harness. Lexical containment only: symlinks "
          "below the base are not part of this property."),
    technique="Coq proof (segment stack machine, normal-form invariant) + exhaustive/random differential correspondence + filepath.Rel oracle",
)
import go2coq  # noqa: E402  (second tie: the model regenerated from the source on every run)
CFG["secondary"] = CFG.get("secondary", []) + [go2coq.C17_SRC]
