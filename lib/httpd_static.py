"""Static / side obligations of the httpd properties C04 and C05 (plugged into CFG["static"]).

counter_static(tier): PRIMARY obligation of C05.  gen/c05counter reads from the tree under verification the declared type
  of Mux.storeID and the expression rendered into Store.id; Coq evaluates Lib.CounterFacts.check_counter on it and
  instantiates Proofs.StorePoolP.ids_unique_for_source, i.e. the hypothesis `ticket < 2^64` of C05_ids_unique holds for
  this source until 2^64 requests.  An unrecognised shape fails the obligation.

smoke386(pid)(tier): thorough tier only.  Builds harness/cmd/<pid> for GOARCH=386 CGO_ENABLED=0 (no -race) into a separate
  binary and runs its short subset (env VERIF_SMOKE386=1: one Mux, a few hundred requests, several in flight); every
  `VIOL panic-on-386 ...` line it writes is a violation with that line as replay.
"""
import hashlib
import os
import re
import shutil

import vcheck as V


def counter_static(tier):
    cov = {}
    c = cov.setdefault("counter_facts", {})
    gdir = os.path.join(V.VERIF, "gen", "c05counter")
    exe = os.path.join(V.BUILD, "c05counter")
    with V.Lock("go-c05counter"):
        rc, out, _ = V.run(["go", "build", "-o", exe, "."], cwd=gdir, env=V.GOENV, timeout=300)
    if rc != 0:
        return 1, 0, [("tie", "gen/c05counter does not build", {"broken": "counter facts extractor", "log_tail": out[-1500:]})], cov
    rc, out, _ = V.run([exe, V.REPO], timeout=60)
    lines = [l for l in out.splitlines() if l.strip()]
    if rc != 0 or not lines or not lines[0].startswith("{|"):
        return 1, 0, [("tie", "counter facts of httpd.Mux could not be extracted: " + out[-300:],
                       {"broken": "counter facts extractor", "output": out[-1500:]})], cov
    fact = lines[0]
    c["fact"] = fact
    c["source"] = lines[1] if len(lines) > 1 else ""
    text = ("From Coq Require Import String NArith List.\nFrom Glb Require Import Lib.CounterFacts Model.StorePool Proofs.StorePoolP.\n"
            "Open Scope string_scope.\nDefinition the_fact : fact := " + fact + ".\n"
            "Eval vm_compute in (check_counter the_fact, counter_width the_fact).\n"
            "Lemma the_fact_checks : check_counter the_fact = true.\nProof. vm_compute. reflexivity. Qed.\n"
            "Theorem ids_unique_until_2_64 : forall prefix history m, run (new_mux prefix) history = Ok m ->\n"
            "  (m_next_id m < 2 ^ 64)%N -> NoDup (begin_ids (new_mux prefix) history).\n"
            "Proof. destruct (ids_unique_for_source the_fact the_fact_checks) as [W H]. rewrite W in H. exact H. Qed.\n"
            "Print Assumptions ids_unique_until_2_64.\n")
    rc, cout, dt = V.coq_eval("counter-C05", text)
    c["coq_wall_s"] = round(dt, 1)
    m = re.search(r"=\s*\(\s*(true|false)\s*,\s*(\d+)(?:%N)?\s*\)", cout)
    passed = bool(m) and m.group(1) == "true"
    closed = rc == 0 and "Closed under the global context" in cout
    c["check_counter"] = passed
    c["print_assumptions"] = "Closed under the global context" if closed else cout.strip()[-300:]
    if passed and closed:
        return 1, 1, [], cov
    what = ("the request counter of httpd.Mux is not a 64-bit counter whose untruncated atomic increment is rendered into the id "
            "(hypothesis 'ticket < 2^64' of C05_ids_unique no longer holds for this source; ids would repeat after the counter wraps): "
            + (c["source"] or fact))
    return 1, 0, [("tie", what, {"broken": "C05 counter width (Lib.CounterFacts.check_counter)", "fact": fact, "source": c["source"],
                                 "coq_output_tail": cout[-800:]})], cov


def smoke386(pid):
    def fn(tier):
        cov = {}
        if tier != "thorough":
            return 0, 0, [], cov
        c = cov.setdefault("smoke_386", {})
        tag = "" if V.REPO == "/repo" else "_" + hashlib.sha1(V.REPO.encode()).hexdigest()[:8]
        exe = os.path.join(V.BUILD, "h_%s_386%s" % (pid.lower(), tag))
        hdir = os.path.join(V.VERIF, "harness")
        env = dict(V.GOENV, GOARCH="386", CGO_ENABLED="0")
        with V.Lock("go" + tag):
            modfile = os.path.join(hdir, "go.mod")
            if tag:
                md = os.path.join(V.BUILD, "gomod" + tag)
                os.makedirs(md, exist_ok=True)
                modfile = os.path.join(md, "go.mod")
                open(modfile, "w").write(open(os.path.join(hdir, "go.mod")).read().replace("=> /repo", "=> " + V.REPO))
            try:
                shutil.copyfile(os.path.join(V.REPO, "go.sum"), modfile[:-4] + ".sum")
            except OSError:
                pass
            rc, out, dt = V.run(["go", "build", "-modfile=" + modfile, "-tags", "verif", "-o", exe, "./cmd/" + pid.lower()],
                                cwd=hdir, env=env, timeout=900)
        if rc != 0:
            return 1, 0, [("tie", "harness does not build for GOARCH=386", {"broken": "386 build", "log_tail": out[-2000:]})], cov
        outdir = os.path.join(V.BUILD, "smoke386-%s-%d" % (pid, os.getpid()))
        shutil.rmtree(outdir, ignore_errors=True)
        try:
            rc, out, dt = V.run([exe, "-out", outdir, "-tier", "quick", "-seed", "1"], env=dict(os.environ, VERIF_SMOKE386="1"), timeout=300)
            c["wall_s"] = round(dt, 1)
            viol = []
            cases = os.path.join(outdir, "cases.txt")
            n = 0
            if os.path.exists(cases):
                for line in open(cases, errors="replace"):
                    n += 1
                    if line.startswith("VIOL "):
                        viol.append(line.strip())
            c["lines"] = n
            c["violations"] = len(viol)
            problems = [("specfail", "on GOARCH=386: " + v[:300], {"case": v, "sig": "panic-on-386"}) for v in viol[:5]]
            if rc != 0 and not viol:
                problems.append(("tie", "386 smoke run failed (rc=%d): %s" % (rc, out.strip()[-400:]), {"broken": "386 smoke run", "output_tail": out[-2000:]}))
            if n == 0 and not problems:
                problems.append(("tie", "386 smoke run produced nothing", {"broken": "386 smoke run"}))
            return 1, (0 if problems else 1), problems, cov
        finally:
            shutil.rmtree(outdir, ignore_errors=True)
            try:
                os.remove(exe)
            except OSError:
                pass
    fn.__name__ = "smoke386_" + pid
    return fn
