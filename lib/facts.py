"""Source facts (gen/glbfacts) plugged into a property's `static=[...]` list.

lockset_static(relfile, typename, scope_fns, ...) returns fn(tier) -> (obligations, discharged, problems, coverage):
it extracts the table of field accesses of <typename> from the tree under verification (VERIF_REPO or /repo), keeps
the accesses made inside the property's SCOPE (the functions the property says may run concurrently, plus every
method the type starts with `go`), and has Coq check the lock discipline on it by vm_compute and instantiate
Glb.Proofs.LocksetP.discipline_sound:  forall s, reachable tbl s -> ~ race s,  closed under the global context.

When the discipline fails the function returns a ("tie", ...) problem naming the failing fields; the runner reports
it as VIOLATION ... no-failing-input-found unless the property's dynamic harness (race detector) finds a concrete race.

Ready-made instances: C12_FACTS, C14_FACTS, C05_FACTS  (use as  static=[facts.C12_FACTS]  in the prop module).
launch_actions() returns the action list of daemon.launch for C20.
"""
import re

import vcheck as V

ACC_RE = re.compile(r'^\s*[\[;]\s*mkAcc "([^"]*)" "([^"]*)" (true|false) (true|false) (\[[^\]]*\]) (true|false)\s*\(\*\s*(.*?)\s*\*\)\s*$')


def parse_table(text):
    """glbfacts output -> (header dict, [access dicts])"""
    accs = []
    hdr = {}
    for line in text.splitlines():
        m = ACC_RE.match(line)
        if m:
            accs.append({"fn": m.group(1), "loc": m.group(2), "write": m.group(3) == "true", "atomic": m.group(4) == "true",
                         "held": m.group(5), "prepub": m.group(6) == "true", "at": m.group(7)})
            continue
        m = re.match(r"^\s+(fields|skipped|spawned|functions|note):\s*(.*)$", line)
        if m:
            hdr.setdefault(m.group(1), []).append(m.group(2).strip())
    return hdr, accs


def _coq_strs(names):
    return "[" + "; ".join('"%s"' % n for n in names) + "]"


def _fmt_acc(a):
    return "%s %s.%s %s%s held=%s%s (%s)" % (a["fn"], "", a["loc"], "W" if a["write"] else "R", " atomic" if a["atomic"] else "",
                                             a["held"], " prepub" if a["prepub"] else "", a["at"])


def lockset_static(relfile, typename, scope_fns, ignore_fields=(), label=None, mutex="-", auto_spawned=True, optional_fns=()):
    """scope_fns: exported entry points that must exist; optional_fns: internal functions that belong to the scope when
    they exist (a rename or inlining of those must not fail the obligation); methods started with `go` are added."""
    label = label or typename
    key = "lockset_" + typename

    def fn(tier):
        cov = {key: {"source": relfile, "type": typename, "declared_scope": list(scope_fns), "ignore_fields": list(ignore_fields)}}
        c = cov[key]
        broken = "Lockset discipline " + typename
        ok, out = V.run_glbfacts(["locks", relfile, typename, mutex])
        if not ok:
            return 1, 0, [("tie", "source facts for %s could not be extracted: %s" % (label, out.strip()[-300:]),
                           {"broken": broken, "glbfacts": out[-2000:]})], cov
        hdr, accs = parse_table(out)
        spawned = [x.strip() for s in hdr.get("spawned", []) for x in s.split(",") if x.strip()]
        fns_all = {x.strip() for s in hdr.get("functions", []) for x in s.split(",") if x.strip()} | {a["fn"] for a in accs}
        scope = list(scope_fns) + [s for s in spawned if auto_spawned and s not in scope_fns]
        scope += [f for f in optional_fns if f in fns_all and f not in scope]
        in_scope = [a for a in accs if a["fn"] in scope and a["loc"] not in ignore_fields]
        c.update({"scope": scope, "fields": hdr.get("fields", []), "skipped_fields": hdr.get("skipped", []),
                  "accesses_extracted": len(accs), "accesses_in_scope": len(in_scope),
                  "table": [_fmt_acc(a).replace(" .", " ") for a in in_scope],
                  "out_of_scope_functions": sorted({a["fn"] for a in accs if a["fn"] not in scope})})
        problems = []
        n_raw = len(re.findall(r"^\s*[\[;]\s*mkAcc ", out, flags=re.M))
        if n_raw != len(accs):
            problems.append(("tie", "glbfacts output for %s not understood (%d of %d records parsed)" % (label, len(accs), n_raw),
                             {"broken": broken, "glbfacts": out[-3000:]}))
        fns_seen = {x.strip() for s in hdr.get("functions", []) for x in s.split(",") if x.strip()} | {a["fn"] for a in accs}
        missing = [f for f in scope_fns if f not in fns_seen]
        if missing:
            problems.append(("tie", "lock discipline of %s: scope function(s) %s not found among the functions of the type "
                             "(renamed or removed? the declared scope is stale)" % (label, ", ".join(missing)),
                             {"broken": broken, "missing_scope_functions": missing, "functions_seen": sorted(fns_seen)}))
        text = ("From Coq Require Import List String Bool.\nImport ListNotations.\n"
                "From Glb Require Import Lib.Lockset Proofs.LocksetP.\nOpen Scope string_scope.\n"
                "Definition full_tbl : table :=\n" + out + ".\n"
                "Definition tbl : table := restrict %s %s full_tbl.\n" % (_coq_strs(scope), _coq_strs(ignore_fields)) +
                "Eval vm_compute in (check_discipline tbl, List.length tbl, failing_locs tbl).\n"
                "Lemma tbl_checks : check_discipline tbl = true.\nProof. vm_compute. reflexivity. Qed.\n"
                "Theorem race_free : forall s, reachable tbl s -> ~ race s.\n"
                "Proof. exact (discipline_sound tbl tbl_checks). Qed.\n"
                "Print Assumptions race_free.\n")
        bok, blog, _ = V.build_coq(["Proofs/LocksetP.vo"])   # no-op when up to date
        if not bok:
            problems.append(("proof", "Lockset library does not build", {"broken": "coq build Proofs/LocksetP.vo",
                                                                         "log_tail": "\n".join(blog.strip().splitlines()[-25:])}))
            return 1, 0, problems, cov
        rc, cout, dt = V.coq_eval("facts-" + typename, text)
        c["coq_wall_s"] = round(dt, 1)
        m = re.search(r"=\s*\(\s*(true|false)\s*,\s*(\d+)\s*,\s*\[(.*?)\]\s*\)", cout, flags=re.S)
        if not m:
            problems.append(("tie", "lock discipline of %s: the generated Coq file did not evaluate" % label,
                             {"broken": broken, "output_tail": cout[-2000:]}))
            return 1, 0, problems, cov
        passed = m.group(1) == "true"
        ncoq = int(m.group(2))
        failing = re.findall(r'"([^"]*)"', m.group(3))
        c.update({"discipline": passed, "failing_locs": failing})
        if ncoq != len(in_scope):
            problems.append(("tie", "lock discipline of %s: Coq and python disagree on the scoped table (%d vs %d records)"
                             % (label, ncoq, len(in_scope)), {"broken": broken}))
        closed = rc == 0 and "Closed under the global context" in cout
        c["print_assumptions"] = "Closed under the global context" if closed else cout.strip()[-400:]
        if not passed:
            culprits = [_fmt_acc(a).replace(" .", " ") for a in in_scope if a["loc"] in failing and not a["prepub"]]
            problems.append(("tie", "lock discipline no longer checks for %s of %s (scope: %s): %s"
                             % (", ".join(failing), label, ", ".join(scope), "; ".join(culprits)[:600]),
                             {"broken": broken, "table": c["table"], "failing_locs": failing, "accesses_on_failing_locs": culprits}))
        elif not closed:
            problems.append(("tie", "lock discipline of %s: the instance of discipline_sound is not closed" % label,
                             {"broken": broken, "output_tail": cout[-2000:]}))
        if ncoq == 0 and not problems:
            problems.append(("tie", "lock discipline of %s: the scoped table is empty (vacuous)" % label, {"broken": broken}))
        good = passed and closed and not problems
        return 1, (1 if good else 0), problems, cov

    fn.__name__ = "lockset_" + typename
    return fn


# ---- ready-made instances --------------------------------------------------------------------
# C12: Add / Remove / Contains of one IPv4Filter run concurrently.
C12_FACTS = lockset_static("util/netutil/filter.go", "IPv4Filter", ["Add", "Remove", "Contains"], label="IPv4Filter (C12)")
# C14: the lane's own goroutines (whatever New starts with `go`: derived from the source, names do not matter) against the
# exported Status / ShortestQueueIndex / PushTask / Wait. SetTimeout is configuration
# (unguarded write of `timeout`), outside every property's concurrent scope.
C14_FACTS = lockset_static("tasklane/tasklane.go", "TaskLane",
                           ["Status", "ShortestQueueIndex", "PushTask", "Wait"], label="TaskLane (C14)")
# C05: concurrent requests only (ServeHTTP, and the pool's constructor closure it may run); registrations
# (Handle / HandleRelay / HandleNoRoute) do not overlap requests in C05's quantifier.
# Own methods ServeHTTP calls are inlined into it by the extractor; the sync.Pool constructor closure is created in NewMux
# (directly or through a helper such as newStoreWith): NewMux's other accesses are pre-publication and do not count.
C05_FACTS = lockset_static("httpd/httpd.go", "Mux", ["ServeHTTP"], optional_fns=["NewMux", "newStoreWith"], label="Mux (C05)")


# ---- C20 ---------------------------------------------------------------------------------------
def launch_actions():
    """(ok, coq_list_text, raw_output): the launcher's action order extracted from daemon/daemon.go"""
    ok, out = V.run_glbfacts(["launch"])
    if not ok:
        return False, "", out
    lines = [l for l in out.splitlines() if l.strip().startswith("[")]
    if len(lines) != 1:
        return False, "", out
    return True, lines[0].strip(), out
