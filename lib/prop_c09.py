from vcheck import coq_bytes
from props_common import HARNESS_TB, EXTRACT_TB

_KIND = {"bool": "KBool", "int": "KInt", "int64": "KInt64", "uint": "KUint", "uint64": "KUint64", "string": "KString",
         "float64": "KFloat", "duration": "KDuration", "bytes": "KBytes"}


def _toks(field):
    if field == ".":
        return "[]"
    return "[" + "; ".join(coq_bytes(t) for t in field.split(",")) + "]"


def _opt(field):
    return "None" if field == "~" else "(Some %s)" % coq_bytes(field)


def _oracle(field):
    if field == ".":
        return "[]"
    out = []
    for p in field.split(","):
        t, c = p.split(":")
        out.append("(%s, %s)" % (coq_bytes(t), "None" if c == "!" else "Some %s" % coq_bytes(c)))
    return "[" + "; ".join(out) + "]"


def _case_term(l):
    p = l.split()
    _, isz, callno, unchanged, vec, cfgfile, b64set, ok, rest, help_, n = p[:11]
    blocks = p[11:]
    fos = []
    for i in range(int(n)):
        (kind, group, goname, tag, hname, hdef, bound, usage, init, envhand, envobs, env, jfile, jb64, final,
         oracle) = blocks[16 * i:16 * i + 16]
        fos.append("{| fo_kind := %s; fo_group := %s; fo_goname := %s; fo_tag := %s; fo_hname := %s; fo_hdef := %s; fo_bound := %s; "
                   "fo_usage := %s; fo_init := %s; fo_envhand := %s; fo_envobs := %s; "
                   "fo_env := %s; fo_jfile := %s; fo_jb64 := %s; fo_final := %s; fo_oracle := %s |}" % (
                       _KIND[kind], coq_bytes(group), coq_bytes(goname), coq_bytes(tag), coq_bytes(hname), coq_bytes(hdef),
                       "true" if bound == "1" else "false", coq_bytes(usage), coq_bytes(init), coq_bytes(envhand), coq_bytes(envobs),
                       _opt(env), _opt(jfile), _opt(jb64), _opt(final), _oracle(oracle)))
    return "verdict_clean (check_case %s [%s] %s %s %s %s %s %s %s %s)" % (
        isz, ";\n     ".join(fos), _toks(vec), _opt(cfgfile), "true" if b64set == "1" else "false",
        "true" if ok == "1" else "false", _toks(rest), "None" if help_ == "~" else ("(Some true)" if help_ == "1" else "(Some false)"),
        callno, "true" if unchanged == "1" else "false")


def c09_casesv(lines):
    rows = [_case_term(l) for l in lines]
    return ("From Coq Require Import List NArith.\nImport ListNotations.\n"
            "From Glb Require Import Model.FlagValue Model.Config Check.C09.\n"
            "Open Scope N_scope.\nDefinition verdicts : list bool := [\n  " + ";\n  ".join(rows) +
            "].\nEval vm_compute in verdicts.\n")


def c09_sig(line):
    return "c09"


ID = "C09"
CFG = dict(
    propfile="Properties/C09.v",
    coq_deps=["Lib/ArgGrammar", "Model/ArgParse", "Model/FlagValue", "Model/Config", "Proofs/ArgParseP", "Proofs/ConfigP",
              "Properties/C09", "Check/FlagCanon", "Check/C09"],
    ocaml="c09",
    casesv=c09_casesv,
    sig=c09_sig,
    coq_sample={"quick": 40, "thorough": 200},
    rule=("six fixed struct types (three of them reach ONE named block type at the paths Primary / Replica / Outer.Inner; FlagSets of all "
          "types are built in one process in a seeded order); in 40 % of the cases the struct handed to NewFlagSet is pre-filled with "
          "non-zero values in every field; (27 fields: all nine kinds at top level, nested and nested two deep, both tag syntaxes; 11 fields "
          "without tags; 10 fields with empty-name tags `,33,` `||def|` `|`, extra separators in the usage, an embedded struct, json tags "
          "incl. renamed keys and \"-\"); the tag text, group path and Go name of every field are reported and split by the MODEL; every field x every combination of (cli, env, JSON) mentioning it x JSON carrier (file via -config, "
          "CFG_CONFIG_B64, both, none) with the other fields random; targeted shapes (env set but empty, cli/env text equal to the "
          "default's text while JSON differs, explicit empty cli value); JSON \"\" for string/[]byte and JSON null (= not mentioned; for []byte = nil); "
          "-help in several spellings with ShowUsage() observed; histories of 2-3 Parse calls on ONE FlagSet (a first call that fails after recording "
          "mentions — undefined flag, missing argument, malformed token, missing -config file, unparsable text — or succeeds, then calls with their own "
          "vector, environment and JSON carriers: each line is judged by the sources of THAT call; the model refuses later calls and leaves the fields alone); "
          "seeded random cases; decoy CFG_CONFIG / CFG_HELP variables; "
          "STATS skipped = fields of Parses that failed on purpose (unparsable winning text, missing -config file): the property is conditional on success; "
          "each case is one NewFlagSet + Parse; non-trivial = distinct case lines"),
    trusted_base=[HARNESS_TB, EXTRACT_TB,
                  "the -config path is resolved by the world oracle w_file: '~/' expansion with the HOME of that moment, working directory and file system "
                  "are outside the model (the harness spells the path absolute, relative and as ~/cfg.json under three different HOMEs, HOME unset/empty)",
                  "encoding/json is not modelled: the JSON overlay enters as the map field -> value the harness wrote into the JSON document",
                  "value texts outside Model/FlagValue.v's sub-language (all float64 texts, integers with '_', durations with '.', "
                  "base64 with CR/LF) are parsed by the Go standard library in the harness (oracle column of the case line)"],
    assumptions=["int/uint are bounded by strconv.IntSize, reported by the harness in every case line (o_int_size of the oracle record)",
                 "the environment, file system, base64 and JSON decoders and out-of-model value parsers are arbitrary functions (a 'world'); "
                 "every theorem quantifies over all worlds"],
)
CFG["manifest"] = dict(
    text=("Proof: C09_priority — for every world, field list and argument vector, after a successful NewFlagSet+Parse of the model every "
          "flag holds the value of the highest-priority source mentioning it (cli text, else env text, else the JSON value of the file named "
          "by -config on the command line / else CFG_CONFIG_B64, else the tag default), texts going through the kind's Set with \"\" = zero "
          "value; C09_parse_once / C09_history (one FlagSet, several Parse calls: only the first can succeed, later ones are refused and change nothing), "
          "C09_sources_independent (oracles equal pointwise), C09_winning_text_unparsable_fails, C09_never_panics, C09_empty_is_zero, "
          "C09_tag_syntax / C09_struct_recursion (byte-level model of parseStructFieldTag and the group recursion), "
          "C09_table_wf (NewFlagSet's table is well-formed for C10), and the env-name laws "
          "C09_env_name_charset / _shape / C09_underscore_idempotent for the byte-for-byte model of strutil.Underscore. "
          "Tie: the real code is run on thousands of Parses over three struct types covering every kind, nesting depth, tag syntax and source "
          "combination with both JSON carriers; every field's final value is compared with the priority rule's winner and with the model's "
          "run; Flag.Env, Flag.Usage, the flag-to-field binding and the initial value are compared with the model's tag split and Underscore."),
    note=("Trusted: Coq kernel; extraction + OCaml glue (vm_compute sample cross-check); Go harness; encoding/json, os, base64 (oracles). "
          "The model is hand-written and tied to the code differentially."),
    technique="Coq proof (invariants over the Parse pipeline, finite-map reasoning) + differential correspondence",
)

import tables  # constant tables / literals of the current source proved equal to the model's on every run (lib/tables.py)
CFG["secondary"] = CFG.get("secondary", []) + [tables.C09_TABLES]
import go2coq  # noqa: E402  (second tie: strutil.Underscore regenerated from the source on every run)
CFG["secondary"] = CFG.get("secondary", []) + [go2coq.C09_SRC]
