"""C01 — JSON handler: every record is one valid, faithful JSON line."""
from vcheck import coq_bytes
from props_common import HARNESS_TB, EXTRACT_TB


class _Tok:
    def __init__(self, toks):
        self.t, self.i = toks, 0

    def next(self):
        x = self.t[self.i]
        self.i += 1
        return x


def _z(s):
    return "(%s)%%Z" % s


def _attr(tk):
    tag = tk.next()
    k = coq_bytes(tk.next())
    if tag == "G":
        n = int(tk.next())
        return "(%s, VGroup %s)" % (k, _attrs(tk, n))
    p = tk.next()
    v = {"S": lambda: "VStr " + coq_bytes(p), "I": lambda: "VInt " + _z(p), "U": lambda: "VUint %s%%N" % p,
         "B": lambda: "VBool " + ("true" if p == "1" else "false"), "D": lambda: "VDur " + _z(p),
         "T": lambda: "VTime " + coq_bytes(p), "J": lambda: "VRaw (ROk %s)" % coq_bytes(p),
         "X": lambda: "VRaw (RErr %s)" % coq_bytes(p), "R": lambda: "VErrStr " + coq_bytes(p),
         "N": lambda: "VAnsi " + coq_bytes(p)}[tag]()
    return "(%s, %s)" % (k, v)


def _attrs(tk, n):
    return "[" + "; ".join(_attr(tk) for _ in range(n)) + "]"


def c01_term(line):
    tk = _Tok(line.split()[1:])
    lvl = ["LDebug", "LInfo", "LWarn", "LError", "LFatal"][int(tk.next())]
    tm = coq_bytes(tk.next())
    f, ln = tk.next(), tk.next()
    src = "None" if f == "~" else "(Some (%s, %s))" % (coq_bytes(f), _z(ln))
    msg = coq_bytes(tk.next())
    chain = []
    for _ in range(int(tk.next())):
        t = tk.next()
        if t == "A":
            chain.append("DAttrs " + _attrs(tk, int(tk.next())))
        else:
            chain.append("DGroup " + coq_bytes(tk.next()))
    al = _attrs(tk, int(tk.next()))
    ws = [coq_bytes(tk.next()) for _ in range(int(tk.next()))]
    return "verdict_ok (check_case [%s] (mkR %s %s %s %s %s) [%s])" % ("; ".join(chain), tm, lvl, src, msg, al, "; ".join(ws))


def c01_casesv(lines):
    rows = [c01_term(l) for l in lines]
    return ("From Coq Require Import List NArith ZArith.\nImport ListNotations.\n"
            "From Glb Require Import Lib.Json Model.LoggerJson Model.LoggerJsonSpec Check.C01.\n"
            "Open Scope N_scope.\nDefinition verdicts : list bool := [\n  " + ";\n  ".join(rows) +
            "].\nEval vm_compute in verdicts.\n")


ID = "C01"
CFG = dict(
    propfile="Properties/C01.v",
    coq_deps=["Lib/Utf8", "Proofs/Utf8P", "Lib/JsonDec", "Lib/Json", "Model/LoggerJson", "Model/LoggerJsonSpec", "Model/LoggerJsonPinned",
              "Proofs/JsonP", "Proofs/JsonDecP", "Proofs/LoggerJson", "Properties/C01", "Check/C01"],
    ocaml="c01",
    casesv=c01_casesv,
    rule=("each case = one logged record: (derivation chain, level, source on/off with the FULL file name the runtime reports, message, "
          "attribute tree) with the bytes of every Write. Regression witnesses of the repaired stray-comma defect and corpus/C01; every "
          "1-byte string, a seed-dependent stride of (thorough: every) 2-byte string, every Unicode scalar below U+3000 plus plane "
          "boundaries (thorough: all 1,112,064), surrogate encodings, overlongs, truncations - each in every position at once (message, "
          "key, string value, WithGroup name, With attribute, group key and member, error text, AnsiString, Marshaler error / panic text, "
          "TextMarshaler text, inside a Marshaler result that copies invalid UTF-8); long strings of 63 B .. 70 KiB with hostile bytes at "
          "start / middle / end; seeded random attribute trees (depth <= 5, up to 14 attributes, keyed / inline / empty groups at every "
          "position, LogValuers, all value kinds incl. panicking Marshalers, json.RawMessage with invalid UTF-8, and values implementing several of "
          "json.Marshaler / error / TextMarshaler / Stringer / AnsiString-like at once with their typed nil pointers) behind chains of With / "
          "WithGroup of length <= 5 with sibling derivations interleaved, five levels, source on/off, through Handler.Handle with hand-built "
          "records (pcs inside functions declared under //line directives with quote, backslash, control, non-ASCII file names) and through "
          "all Logger methods (Debug..Error, Log, LogAttrs, Debugf..Errorf, Logf, Panic, Panicf) called from those functions. "
          "SEQUENCES of records through one handler / fresh handlers / derived handlers of one process whose times share a Unix second "
          "but differ in zone offset (UTC, +08:00, -03:30, +05:45, +14:00, -12:00, +00:53:28, ...), pairs one nanosecond apart across a "
          "second boundary, the zero time, year 9999/10000 - each record judged against time.AppendFormat of its own time. "
          "HISTORIES with failing destination Writes (harness/cmd/c01/history.go): per scenario a derivation tree over a scripted destination "
          "(plus, half of the time, a second JSON handler with its own destination) on which the next 1..8 Writes return an error / write short / "
          "return EOF / EAGAIN / panic (recovered above), or an unrelated Text / Nano handler loses records, followed by plain records, NESTED "
          "records (a LogValuer / json.Marshaler / error method of an attribute - bare, in a keyed or inline group - logs 1..2 inner records "
          "through the same, a derived or the other handler, two levels deep) and OVERLAPPING records (a second goroutine's record is parked "
          "inside a LogValuer while inner records are logged); every record, including those whose Write is scripted to fail, is a case whose "
          "writes are what its destination received during its own Handle call minus the windows of the records completed meanwhile. "
          "distinct = distinct case lines; lines above 6000 bytes carry the tag EL and are not drawn into the in-Coq sample"),
    trusted_base=[HARNESS_TB, EXTRACT_TB,
                  "Lib/Json.v is my reading of RFC 8259 (strict, except that an invalid UTF-8 byte inside a string reads as U+FFFD like in "
                  "encoding/json); cross-validated on every run against encoding/json (json.Valid + surrogate pairing, decoded token streams) "
                  "on observed lines, byte-mutants of them and a hand-written corpus",
                  "Check/C01.v compares numbers that stem from an encoding/json oracle text by canonical value (mantissa, exponent), all other "
                  "members textually, except that where encoding/json fails the check demands a (non-empty) JSON string and counts another "
                  "wording than the model's as drift; the runtime's frame (file, line) of the call site is the oracle for source",
                  "log/slog's Value.Resolve / Group / Record.Add[Attrs] decide which attribute tree reaches the handler; the harness reads the tree "
                  "back from the slog values it passes in"],
    assumptions=["time.AppendFormat(RFC3339Nano) yields printable ASCII without quote / backslash (wf_record, checked on every case)",
                 "encoding/json's Encoder yields exactly one JSON value without newline, or an error (wf_value, checked on every case); "
                 "a json.Marshaler may return invalid UTF-8 inside strings (read as U+FFFD), but is assumed not to return lone surrogate escapes",
                 "colour off; LogValuer.LogValue does not panic and resolves within slog's depth limit"],
)
CFG["manifest"] = dict(
    text=("Proof: Coq theorem C01_json_line_faithful — for every derivation chain, every record, all byte strings and all attribute trees the "
          "model's output is body ++ newline, body has no newline and the RFC 8259 parser (strict; invalid UTF-8 inside strings = U+FFFD) maps body to exactly the expected object "
          "(escape_roundtrip for all byte strings via the UTF-8 decode/encode lemma; nested induction over attribute trees in prefix-extension "
          "form; chain invariant). Tie: the real handler is driven with string sweeps and random trees x chains; every written line is judged "
          "by the extracted parser + expected; model bytes are compared (drift only)."),
    note=("Trusted: Coq kernel; Lib/Json.v as the reading of RFC 8259 (cross-validated against encoding/json every run); the oracle hypotheses "
          "wf_* about time.AppendFormat / encoding/json (checked on every case); extraction + OCaml glue (vm_compute sample); Go harness."),
    technique="Coq proof (round-trip through a strict parser, nested induction, prefix-extension) + differential correspondence",
)

import tables  # constant tables / literals of the current source proved equal to the model's on every run (lib/tables.py)
CFG["secondary"] = CFG.get("secondary", []) + [tables.C01_TABLES]
